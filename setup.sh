#!/bin/sh
# setup.sh — builds the framework from files on disk only (offline):
#   Coq development (all proofs, `make`), extraction, OCaml drivers, generated macro corpus,
#   Rust harness crates against /repo's current tree.
set -e
cd /verif
export CARGO_NET_OFFLINE=true CARGO_TARGET_DIR=/verif/build/target
mkdir -p build evidence
tools/build_model.sh
python3 tools/gen_corpus.py build/corpus 2>/dev/null || { mkdir -p build/corpus && python3 tools/gen_corpus.py build/corpus; }
for c in vh-core vh-macro; do
  cp /repo/Cargo.lock harness/$c/Cargo.lock
  (cd harness/$c && timeout 3000 cargo build --offline 2>&1 | grep -v "^WARNING conda" | tail -3)
done
parts/setup_parts.sh
echo "setup done"
