(* ------------------------------------------------------------------------- *)
(* KeysProofs.v -- cache keys are injective (property C02).                  *)
(*                                                                           *)
(* Route: a typed parser [parse : ty -> list N -> option (val * list N)]     *)
(* inverts the Debug rendering [dbg] of Keys.v (theorem [parse_dbg]); keys   *)
(* are [dbg] renderings joined by a bar, so a key parser inverts [key]       *)
(* (theorem [parse_key_key]) and [key] is injective (theorem [key_injective])*)
(*                                                                           *)
(* Floats are abstract (type F, rendering fdbg).  The parser cannot invert   *)
(* an abstract function, so it returns values whose floats are their         *)
(* rendered text ([val (list N)]); [erase] maps a value to that form and is  *)
(* injective exactly because fdbg is.                                        *)
(* ------------------------------------------------------------------------- *)

From Coq Require Import Ascii String.
From Coq Require Import DecimalString HexadecimalString DecimalZ HexadecimalN DecimalPos.
From Coq Require Import NArith ZArith Bool Lia List.
From CLK Require Import Keys.
Import ListNotations.
Local Open Scope N_scope.

(* ========================================================================= *)
(* 1. text utilities                                                         *)
(* ========================================================================= *)

Lemma string_of_codes_codes s : string_of_codes (codes s) = s.
Proof.
  unfold string_of_codes, codes. rewrite map_map.
  rewrite (map_ext _ (fun a => a)) by (intro; apply ascii_N_embedding).
  rewrite map_id. apply string_of_list_ascii_of_string.
Qed.

Lemma list_eqb_refl a : list_eqb a a = true.
Proof. induction a; simpl; auto. now rewrite N.eqb_refl. Qed.

Lemma list_eqb_eq a b : list_eqb a b = true -> a = b.
Proof.
  revert b; induction a; destruct b; simpl; try discriminate; auto.
  intro H. apply andb_true_iff in H as [H1 H2].
  apply N.eqb_eq in H1. subst. f_equal; auto.
Qed.

(* literal prefix *)
Fixpoint strip (lit s : list N) : option (list N) :=
  match lit with
  | [] => Some s
  | c :: lit' =>
      match s with
      | [] => None
      | d :: s' => if c =? d then strip lit' s' else None
      end
  end.

Lemma strip_app lit r : strip lit (lit ++ r) = Some r.
Proof. induction lit; simpl; auto. now rewrite N.eqb_refl. Qed.

(* maximal prefix satisfying p *)
Fixpoint span (p : N -> bool) (s : list N) : list N * list N :=
  match s with
  | [] => ([], [])
  | c :: s' => if p c then let (a, b) := span p s' in (c :: a, b) else ([], s)
  end.

Definition stops (p : N -> bool) (rest : list N) : Prop :=
  match rest with [] => True | c :: _ => p c = false end.

Lemma span_app p tok rest :
  forallb p tok = true -> stops p rest -> span p (tok ++ rest) = (tok, rest).
Proof.
  induction tok; simpl; intros H Hr.
  - destruct rest; simpl in *; auto. now rewrite Hr.
  - apply andb_true_iff in H as [H1 H2]. rewrite H1, IHtok; auto.
Qed.

(* characters that can be part of a token (number, float, identifier, keyword) *)
Definition is_token_char (c : N) : bool := is_float_char c || (c =? 95).

(* the continuation after a rendered value cannot extend its last token *)
Definition ok_follow (rest : list N) : bool :=
  match rest with [] => true | c :: _ => negb (is_token_char c) end.

(* the characters that follow a value inside a key or inside a container *)
Example ok_follow_delims :
  forall r, ok_follow (124 :: r) = true      (* | *)
         /\ ok_follow (44 :: r) = true       (* , *)
         /\ ok_follow (41 :: r) = true       (* ) *)
         /\ ok_follow (93 :: r) = true       (* ] *)
         /\ ok_follow (32 :: r) = true       (* space *)
         /\ ok_follow (125 :: r) = true      (* } *)
         /\ ok_follow [] = true.
Proof. intro; repeat split. Qed.

Definition is_int_char (c : N) : bool := is_digit c || (c =? 45).
Definition is_hex_char (c : N) : bool := is_digit c || in_range 97 102 c.

Lemma token_of_int c : is_int_char c = true -> is_token_char c = true.
Proof.
  unfold is_int_char, is_token_char, is_float_char. intro H.
  apply orb_true_iff in H as [H|H]; rewrite H; repeat (rewrite ?orb_true_r, ?orb_true_l); auto.
Qed.

Lemma token_of_float c : is_float_char c = true -> is_token_char c = true.
Proof. unfold is_token_char. intros ->. auto. Qed.

Lemma token_of_ident c : is_ident_char c = true -> is_token_char c = true.
Proof.
  unfold is_ident_char, is_token_char, is_float_char. intro H.
  apply orb_true_iff in H as [H|H].
  - apply orb_true_iff in H as [H|H]; rewrite H; repeat (rewrite ?orb_true_r, ?orb_true_l); auto.
  - rewrite H. apply orb_true_r.
Qed.

Lemma ok_follow_stops (p : N -> bool) rest :
  (forall c, p c = true -> is_token_char c = true) ->
  ok_follow rest = true -> stops p rest.
Proof.
  intros Hp H. destruct rest as [|c r]; simpl in *; auto.
  destruct (p c) eqn:E; auto. apply Hp in E. rewrite E in H. discriminate.
Qed.

Lemma forallb_app_codes (p : N -> bool) a b :
  forallb p (a ++ b) = forallb p a && forallb p b.
Proof. apply forallb_app. Qed.

(* ========================================================================= *)
(* 2. integers                                                               *)
(* ========================================================================= *)

Lemma dec_uint_chars d :
  forallb is_digit (codes (DecimalString.NilEmpty.string_of_uint d)) = true.
Proof. induction d; simpl; auto. Qed.

Lemma dec_int_chars d :
  forallb is_int_char (codes (DecimalString.NilZero.string_of_int d)) = true.
Proof.
  assert (U : forall u, forallb is_int_char (codes (DecimalString.NilZero.string_of_uint u)) = true).
  { intro u. assert (H := dec_uint_chars u).
    assert (G : forall l, forallb is_digit l = true -> forallb is_int_char l = true).
    { induction l; simpl; auto. intro K. apply andb_true_iff in K as [K1 K2].
      unfold is_int_char. rewrite K1. simpl. auto. }
    destruct u; simpl; auto; apply G; exact H. }
  destruct d; simpl.
  - apply U.
  - apply (U d).
Qed.

Lemma dec_int_nonempty z : exists c s, dbg_int z = c :: s /\ is_int_char c = true.
Proof.
  assert (H := dec_int_chars (Z.to_int z)).
  unfold dbg_int. destruct (codes (DecimalString.NilZero.string_of_int (Z.to_int z))) as [|c s] eqn:E.
  - exfalso. destruct z; simpl in E.
    + discriminate.
    + destruct (Pos.to_uint p) eqn:P; simpl in E; try discriminate.
    + discriminate.
  - simpl in H. apply andb_true_iff in H as [H _]. eauto.
Qed.

Definition parse_int_tok (tok : list N) : option Z :=
  match DecimalString.NilZero.int_of_string (string_of_codes tok) with
  | Some d => Some (Z.of_int d)
  | None => None
  end.

Lemma parse_int_tok_ok z : parse_int_tok (dbg_int z) = Some z.
Proof.
  unfold parse_int_tok, dbg_int. rewrite string_of_codes_codes.
  rewrite DecimalString.NilZero.isi.
  - now rewrite DecimalZ.of_to.
  - destruct z; simpl; try discriminate. intros [= E]. revert E. apply Unsigned.to_uint_nonnil.
  - destruct z; simpl; try discriminate. intros [= E]. revert E. apply Unsigned.to_uint_nonnil.
Qed.

(* ========================================================================= *)
(* 3. characters and strings                                                 *)
(* ========================================================================= *)

Lemma hex_uint_chars d :
  forallb is_hex_char (codes (HexadecimalString.NilEmpty.string_of_uint d)) = true.
Proof. induction d; simpl; auto. Qed.

Definition parse_hex_tok (tok : list N) : option N :=
  match HexadecimalString.NilEmpty.uint_of_string (string_of_codes tok) with
  | Some u => Some (N.of_hex_uint u)
  | None => None
  end.

Lemma parse_hex_tok_ok c : parse_hex_tok (hex c) = Some c.
Proof.
  unfold parse_hex_tok, hex. rewrite string_of_codes_codes.
  rewrite HexadecimalString.NilEmpty.usu. now rewrite HexadecimalN.Unsigned.of_to.
Qed.

(* after "\u": {hex} *)
Definition parse_hex_esc (s : list N) : option (N * list N) :=
  match strip [123] s with
  | None => None
  | Some s1 =>
      let (tok, s2) := span is_hex_char s1 in
      match parse_hex_tok tok with
      | None => None
      | Some c =>
          match strip [125] s2 with
          | None => None
          | Some s3 => Some (c, s3)
          end
      end
  end.

Lemma parse_hex_esc_ok c rest :
  parse_hex_esc (123 :: hex c ++ 125 :: rest) = Some (c, rest).
Proof.
  unfold parse_hex_esc.
  change (123 :: hex c ++ 125 :: rest) with ([123] ++ (hex c ++ 125 :: rest)).
  rewrite strip_app. rewrite span_app.
  - rewrite parse_hex_tok_ok. reflexivity.
  - apply hex_uint_chars.
  - reflexivity.
Qed.

(* one possibly-escaped character *)
Definition parse_unit (s : list N) : option (N * list N) :=
  match s with
  | [] => None
  | c :: s1 =>
      if c =? 92 then
        match s1 with
        | [] => None
        | d :: s2 =>
            if d =? 48 then Some (0, s2)
            else if d =? 116 then Some (9, s2)
            else if d =? 114 then Some (13, s2)
            else if d =? 110 then Some (10, s2)
            else if d =? 92 then Some (92, s2)
            else if d =? 34 then Some (34, s2)
            else if d =? 39 then Some (39, s2)
            else if d =? 117 then parse_hex_esc s2
            else None
        end
      else Some (c, s1)
  end.

Section Escapes.
  Variable printable : N -> bool.

  Lemma parse_unit_escape q c rest :
    parse_unit (escape_debug printable q c ++ rest) = Some (c, rest).
  Proof.
    unfold escape_debug.
    destruct (N.eqb_spec c 0); [subst; reflexivity|].
    destruct (N.eqb_spec c 9); [subst; reflexivity|].
    destruct (N.eqb_spec c 13); [subst; reflexivity|].
    destruct (N.eqb_spec c 10); [subst; reflexivity|].
    destruct (N.eqb_spec c 92); [subst; reflexivity|].
    destruct ((c =? 34) && q) eqn:E34.
    { apply andb_true_iff in E34 as [E _]. apply N.eqb_eq in E. subst. reflexivity. }
    destruct ((c =? 39) && negb q) eqn:E39.
    { apply andb_true_iff in E39 as [E _]. apply N.eqb_eq in E. subst. reflexivity. }
    destruct (printable c).
    - simpl. destruct (N.eqb_spec c 92); [contradiction|reflexivity].
    - unfold esc_unicode. simpl app. cbn [parse_unit N.eqb Pos.eqb].
      rewrite <- app_assoc. simpl app. apply parse_hex_esc_ok.
  Qed.

  Lemma escape_head_str c :
    exists d tl, escape_debug printable true c = d :: tl /\ d <> 34.
  Proof.
    unfold escape_debug.
    destruct (N.eqb_spec c 0); [do 2 eexists; split; [reflexivity|discriminate]|].
    destruct (N.eqb_spec c 9); [do 2 eexists; split; [reflexivity|discriminate]|].
    destruct (N.eqb_spec c 13); [do 2 eexists; split; [reflexivity|discriminate]|].
    destruct (N.eqb_spec c 10); [do 2 eexists; split; [reflexivity|discriminate]|].
    destruct (N.eqb_spec c 92); [do 2 eexists; split; [reflexivity|discriminate]|].
    destruct (N.eqb_spec c 34); [do 2 eexists; split; [reflexivity|discriminate]|].
    simpl andb. rewrite andb_false_r.
    destruct (printable c); do 2 eexists; (split; [reflexivity|]); auto; discriminate.
  Qed.

  Lemma escape_length q c : (1 <= length (escape_debug printable q c))%nat.
  Proof.
    destruct (escape_head_str c) as (d & tl & E & _).
    unfold escape_debug in *.
    repeat match goal with
           | |- context [if ?b then _ else _] => destruct b; simpl; try lia
           end.
  Qed.

  (* body of a string literal, after the opening quote *)
  Fixpoint parse_str_body (fuel : nat) (s : list N) : option (list N * list N) :=
    match fuel with
    | O => None
    | S fuel' =>
        match s with
        | [] => None
        | c :: s1 =>
            if c =? 34 then Some ([], s1)
            else
              match parse_unit s with
              | None => None
              | Some (x, s2) =>
                  match parse_str_body fuel' s2 with
                  | None => None
                  | Some (xs, s3) => Some (x :: xs, s3)
                  end
              end
        end
    end.

  Lemma parse_str_body_ok cs : forall fuel rest,
    (length cs < fuel)%nat ->
    parse_str_body fuel (flat_map (escape_debug printable true) cs ++ 34 :: rest)
    = Some (cs, rest).
  Proof.
    induction cs as [|c cs IH]; intros fuel rest Hf.
    - destruct fuel; [lia|]. reflexivity.
    - destruct fuel; [simpl in Hf; lia|].
      simpl flat_map. rewrite <- app_assoc.
      destruct (escape_head_str c) as (d & tl & E & Hd).
      assert (U := parse_unit_escape true c
                     (flat_map (escape_debug printable true) cs ++ 34 :: rest)).
      rewrite E in *. cbn [parse_str_body app].
      destruct (N.eqb_spec d 34); [contradiction|].
      simpl app in U. rewrite U. rewrite IH; auto. simpl in Hf; lia.
  Qed.

  Lemma flat_map_escape_length cs :
    (length cs <= length (flat_map (escape_debug printable true) cs))%nat.
  Proof.
    induction cs; simpl; auto. rewrite app_length.
    assert (H := escape_length true a). lia.
  Qed.
End Escapes.

Definition parse_str (s : list N) : option (list N * list N) :=
  match strip [34] s with
  | None => None
  | Some s1 => parse_str_body (S (length s1)) s1
  end.

Definition parse_char (s : list N) : option (N * list N) :=
  match strip [39] s with
  | None => None
  | Some s1 =>
      match parse_unit s1 with
      | None => None
      | Some (c, s2) =>
          match strip [39] s2 with
          | None => None
          | Some s3 => Some (c, s3)
          end
      end
  end.

Lemma parse_str_ok printable cs rest :
  parse_str (dbg_str printable cs ++ rest) = Some (cs, rest).
Proof.
  unfold parse_str, dbg_str. simpl app. cbn [strip]. rewrite N.eqb_refl.
  rewrite <- app_assoc. simpl app. apply parse_str_body_ok.
  rewrite app_length. assert (H := flat_map_escape_length printable cs). simpl. lia.
Qed.

Lemma parse_char_ok printable c rest :
  parse_char (dbg_char printable c ++ rest) = Some (c, rest).
Proof.
  unfold parse_char, dbg_char. simpl app. cbn [strip]. rewrite N.eqb_refl.
  rewrite <- app_assoc. rewrite parse_unit_escape. simpl. reflexivity.
Qed.

(* ========================================================================= *)
(* 4. generic parser combinators and their round-trip lemmas                 *)
(* ========================================================================= *)

Definition parser (A : Type) : Type := list N -> option (A * list N).

Lemma join_cons2 sep a b l : join sep (a :: b :: l) = a ++ sep ++ join sep (b :: l).
Proof. reflexivity. Qed.

(* [rt p a str]: p reads back [a] from the text [str], whatever follows,
   provided what follows cannot extend the last token of [str]             *)
Definition rt {A : Type} (p : parser A) (a : A) (str : list N) : Prop :=
  forall rest, ok_follow rest = true -> p (str ++ rest) = Some (a, rest).

Inductive Forall3 {X Y Z : Type} (R : X -> Y -> Z -> Prop)
  : list X -> list Y -> list Z -> Prop :=
| Forall3_nil : Forall3 R [] [] []
| Forall3_cons x y z xs ys zs :
    R x y z -> Forall3 R xs ys zs -> Forall3 R (x :: xs) (y :: ys) (z :: zs).

Section Items.
  Context {A : Type}.
  Variable sep : list N.

  (* p1 sep p2 sep ... pn *)
  Fixpoint parse_items (ps : list (parser A)) (s : list N)
    : option (list A * list N) :=
    match ps with
    | [] => Some ([], s)
    | p :: ps' =>
        match p s with
        | None => None
        | Some (a, s1) =>
            match ps' with
            | [] => Some ([a], s1)
            | _ =>
                match strip sep s1 with
                | None => None
                | Some s2 =>
                    match parse_items ps' s2 with
                    | None => None
                    | Some (l, s3) => Some (a :: l, s3)
                    end
                end
            end
        end
    end.

  Lemma parse_items_cons2 p q ps s :
    parse_items (p :: q :: ps) s =
    match p s with
    | None => None
    | Some (a, s1) =>
        match strip sep s1 with
        | None => None
        | Some s2 =>
            match parse_items (q :: ps) s2 with
            | None => None
            | Some (l, s3) => Some (a :: l, s3)
            end
        end
    end.
  Proof. reflexivity. Qed.

  Hypothesis sep_follow : forall x, ok_follow (sep ++ x) = true.

  Lemma parse_items_ok ps xs strs :
    Forall3 rt ps xs strs ->
    forall rest, (strs = [] \/ ok_follow rest = true) ->
    parse_items ps (join sep strs ++ rest) = Some (xs, rest).
  Proof.
    induction 1 as [|p a str ps' xs' strs' Hp Hrest IH]; intros rest Hr.
    - reflexivity.
    - destruct Hr as [Hr|Hr]; [discriminate|].
      inversion Hrest; subst.
      + simpl. rewrite Hp; auto.
      + rewrite parse_items_cons2, join_cons2.
        repeat rewrite <- app_assoc.
        rewrite Hp by apply sep_follow.
        rewrite strip_app.
        rewrite IH by (right; exact Hr). reflexivity.
  Qed.
End Items.

Lemma comma_follow x : ok_follow (comma_sp ++ x) = true.
Proof. reflexivity. Qed.

Lemma bar_follow x : ok_follow (bar ++ x) = true.
Proof. reflexivity. Qed.

Lemma join_length sep strs :
  (forall str, In str strs -> (1 <= length str)%nat) ->
  (length strs <= length (join sep strs))%nat.
Proof.
  induction strs as [|a l IH]; intro H; [simpl; lia|].
  assert (Ha := H a (or_introl eq_refl)).
  assert (Hl : (length l <= length (join sep l))%nat)
    by (apply IH; intros; apply H; right; auto).
  destruct l.
  - simpl. lia.
  - rewrite join_cons2.
    repeat rewrite app_length. simpl length in *. lia.
Qed.

Section Many.
  Context {A : Type}.

  (* e1, e2, ..., en]   with n >= 1 *)
  Fixpoint parse_many (p : parser A) (fuel : nat) (s : list N)
    : option (list A * list N) :=
    match fuel with
    | O => None
    | S fuel' =>
        match p s with
        | None => None
        | Some (a, s1) =>
            match strip comma_sp s1 with
            | Some s2 =>
                match parse_many p fuel' s2 with
                | None => None
                | Some (l, s3) => Some (a :: l, s3)
                end
            | None =>
                match strip [93] s1 with
                | Some s3 => Some ([a], s3)
                | None => None
                end
            end
        end
    end.

  Lemma parse_many_S p fuel s :
    parse_many p (S fuel) s =
    match p s with
    | None => None
    | Some (a, s1) =>
        match strip comma_sp s1 with
        | Some s2 =>
            match parse_many p fuel s2 with
            | None => None
            | Some (l, s3) => Some (a :: l, s3)
            end
        | None =>
            match strip [93] s1 with
            | Some s3 => Some ([a], s3)
            | None => None
            end
        end
    end.
  Proof. reflexivity. Qed.

  Lemma parse_many_ok p xs strs :
    Forall2 (rt p) xs strs -> xs <> [] ->
    forall fuel rest, (length xs <= fuel)%nat ->
    parse_many p fuel (join comma_sp strs ++ 93 :: rest) = Some (xs, rest).
  Proof.
    induction 1 as [|a str xs' strs' Hp Hrest IH]; intros Hne fuel rest Hf.
    - contradiction.
    - destruct fuel; [simpl in Hf; lia|].
      inversion Hrest; subst.
      + rewrite parse_many_S. cbn [join]. rewrite Hp by reflexivity. reflexivity.
      + rewrite parse_many_S, join_cons2.
        repeat rewrite <- app_assoc.
        rewrite Hp by apply comma_follow.
        rewrite strip_app.
        rewrite IH; auto; [discriminate | simpl in *; lia].
  Qed.
End Many.

(* ========================================================================= *)
(* 5. the typed parser                                                       *)
(* ========================================================================= *)

(* parsed values: floats are kept as their rendered text *)
Definition pval : Type := val (list N).

Definition parse_int : parser pval := fun s =>
  let (tok, rest) := span is_int_char s in
  match parse_int_tok tok with
  | Some z => Some (VInt z, rest)
  | None => None
  end.

Definition parse_bool : parser pval := fun s =>
  match strip (codes "true") s with
  | Some r => Some (VBool true, r)
  | None =>
      match strip (codes "false") s with
      | Some r => Some (VBool false, r)
      | None => None
      end
  end.

Definition parse_chr : parser pval := fun s =>
  match parse_char s with
  | Some (c, r) => Some (VChar c, r)
  | None => None
  end.

Definition parse_string : parser pval := fun s =>
  match parse_str s with
  | Some (cs, r) => Some (VStr cs, r)
  | None => None
  end.

Definition parse_float : parser pval := fun s =>
  let (tok, rest) := span is_float_char s in Some (VFloat tok, rest).

Definition parse_tuple (ps : list (parser pval)) : parser pval := fun s =>
  match strip [40] s with
  | None => None
  | Some s1 =>
      match parse_items comma_sp ps s1 with
      | None => None
      | Some (vs, s2) =>
          match strip (match ps with [_] => [44; 41] | _ => [41] end) s2 with
          | None => None
          | Some s3 => Some (VTuple vs, s3)
          end
      end
  end.

Definition parse_opt (p : parser pval) : parser pval := fun s =>
  match strip (codes "None") s with
  | Some r => Some (VNone, r)
  | None =>
      match strip (codes "Some(") s with
      | None => None
      | Some s1 =>
          match p s1 with
          | None => None
          | Some (v, s2) =>
              match strip [41] s2 with
              | None => None
              | Some s3 => Some (VSome v, s3)
              end
          end
      end
  end.

Definition parse_vec (p : parser pval) : parser pval := fun s =>
  match strip [91] s with
  | None => None
  | Some s1 =>
      match strip [93] s1 with
      | Some s2 => Some (VVec [], s2)
      | None =>
          match parse_many p (length s1) s1 with
          | None => None
          | Some (vs, s3) => Some (VVec vs, s3)
          end
      end
  end.

Definition field_parser (np : ident * parser pval) : parser (ident * pval) :=
  fun s =>
    match strip (fst np ++ [58; 32]) s with
    | None => None
    | Some s1 =>
        match snd np s1 with
        | None => None
        | Some (v, s2) => Some ((fst np, v), s2)
        end
    end.

Definition parse_adt (pvs : list (ident * shape (parser pval))) : parser pval :=
  fun s =>
    let (name, s1) := span is_ident_char s in
    match find_variant name pvs with
    | None => None
    | Some sh =>
        match sh with
        | SUnit => Some (VAdt name SUnit, s1)
        | STuple [] => Some (VAdt name (STuple []), s1)
        | STuple ps =>
            match strip [40] s1 with
            | None => None
            | Some s2 =>
                match parse_items comma_sp ps s2 with
                | None => None
                | Some (vs, s3) =>
                    match strip [41] s3 with
                    | None => None
                    | Some s4 => Some (VAdt name (STuple vs), s4)
                    end
                end
            end
        | SNamed [] => Some (VAdt name (SNamed []), s1)
        | SNamed fps =>
            match strip [32; 123; 32] s1 with
            | None => None
            | Some s2 =>
                match parse_items comma_sp (map field_parser fps) s2 with
                | None => None
                | Some (fvs, s3) =>
                    match strip [32; 125] s3 with
                    | None => None
                    | Some s4 => Some (VAdt name (SNamed fvs), s4)
                    end
                end
            end
        end
    end.

Fixpoint parse (t : ty) : parser pval :=
  match t with
  | TInt => parse_int
  | TBool => parse_bool
  | TChar => parse_chr
  | TStr => parse_string
  | TFloat => parse_float
  | TTuple ts => parse_tuple (map parse ts)
  | TOpt t' => parse_opt (parse t')
  | TVec t' => parse_vec (parse t')
  | TAdt variants =>
      parse_adt (map (fun nv => (fst nv, shape_map parse (snd nv))) variants)
  end.

(* a key: parts separated by a bar, one per (receiver and) argument type *)
Definition sig_parts (rty : option ty) (ats : list ty) : list ty :=
  match rty with Some t => t :: ats | None => ats end.

Definition parse_key (rty : option ty) (ats : list ty) (s : list N)
  : option (list pval) :=
  match parse_items bar (map parse (sig_parts rty ats)) s with
  | Some (vs, []) => Some vs
  | _ => None
  end.

(* ========================================================================= *)
(* 6. round trip of each combinator (independent of the value model)          *)
(* ========================================================================= *)

Lemma parse_int_rt z : rt parse_int (VInt z) (dbg_int z).
Proof.
  intros rest H. unfold parse_int.
  rewrite span_app.
  - now rewrite parse_int_tok_ok.
  - apply dec_int_chars.
  - eapply ok_follow_stops; eauto. apply token_of_int.
Qed.

Lemma parse_bool_rt b : rt parse_bool (VBool b) (dbg_bool b).
Proof.
  intros rest _. unfold parse_bool, dbg_bool. destruct b.
  - now rewrite strip_app.
  - replace (strip (codes "true") (codes "false" ++ rest)) with (@None (list N))
      by reflexivity.
    now rewrite strip_app.
Qed.

Lemma parse_chr_rt printable c : rt parse_chr (VChar c) (dbg_char printable c).
Proof. intros rest _. unfold parse_chr. now rewrite parse_char_ok. Qed.

Lemma parse_string_rt printable s : rt parse_string (VStr s) (dbg_str printable s).
Proof. intros rest _. unfold parse_string. now rewrite parse_str_ok. Qed.

Lemma parse_float_rt tok :
  forallb is_float_char tok = true -> rt parse_float (VFloat tok) tok.
Proof.
  intros Ht rest H. unfold parse_float. rewrite span_app; auto.
  eapply ok_follow_stops; eauto. apply token_of_float.
Qed.

Lemma parse_tuple_rt ps xs strs :
  Forall3 rt ps xs strs -> rt (parse_tuple ps) (VTuple xs) (dbg_tuple strs).
Proof.
  intros H rest _. unfold parse_tuple, dbg_tuple.
  repeat rewrite <- app_assoc. rewrite strip_app.
  rewrite (parse_items_ok comma_sp comma_follow ps xs strs H).
  - assert (L : match ps with [_] => [44; 41] | _ => [41] end
                = (match strs with [_] => [44] | _ => [] end) ++ [41]).
    { inversion H as [|? ? ? ? ? ? ? H']; subst; auto. inversion H'; subst; auto. }
    rewrite L. rewrite (app_assoc _ [41] rest). now rewrite strip_app.
  - right. destruct strs as [|? [|? ?]]; reflexivity.
Qed.

Lemma parse_opt_none_rt p : rt (parse_opt p) VNone (codes "None").
Proof. intros rest _. unfold parse_opt. now rewrite strip_app. Qed.

Lemma parse_opt_some_rt p x str :
  rt p x str -> rt (parse_opt p) (VSome x) (codes "Some(" ++ str ++ [41]).
Proof.
  intros H rest _. unfold parse_opt.
  repeat rewrite <- app_assoc.
  replace (strip (codes "None") (codes "Some(" ++ str ++ [41] ++ rest))
    with (@None (list N)) by reflexivity.
  rewrite strip_app. rewrite H by reflexivity. now rewrite strip_app.
Qed.

Lemma Forall2_len {A B} (R : A -> B -> Prop) l l' :
  Forall2 R l l' -> length l = length l'.
Proof. induction 1; simpl; auto. Qed.

Lemma strip1_ne d c s : c <> d -> strip [d] (c :: s) = None.
Proof. intro H. cbn [strip]. destruct (N.eqb_spec d c); congruence. Qed.

Definition not_rbracket_head (str : list N) : Prop :=
  exists c s, str = c :: s /\ c <> 93.

Lemma parse_vec_rt p xs strs :
  Forall2 (rt p) xs strs -> Forall not_rbracket_head strs ->
  rt (parse_vec p) (VVec xs) (dbg_list strs).
Proof.
  intros H Hh rest _. unfold parse_vec, dbg_list.
  repeat rewrite <- app_assoc. rewrite strip_app.
  change ([93] ++ rest) with (93 :: rest).
  inversion H as [|x str xs' strs' Hx Hrest]; subst.
  - reflexivity.
  - assert (E : strip [93] (join comma_sp (str :: strs') ++ 93 :: rest) = None).
    { inversion Hh as [|? ? (c & s & -> & Hc) _]; subst.
      destruct strs'; [cbn [join]|rewrite join_cons2];
        repeat rewrite <- app_comm_cons; apply strip1_ne; auto. }
    rewrite E.
    rewrite (parse_many_ok p (x :: xs') (str :: strs')); auto; [discriminate|].
    rewrite app_length.
    assert (L := join_length comma_sp (str :: strs')).
    transitivity (length (str :: strs')); [apply Forall2_len in H; rewrite H; auto|].
    etransitivity; [apply L|lia].
    intros s Hs. rewrite Forall_forall in Hh. destruct (Hh s Hs) as (c & tl & -> & _).
    simpl; lia.
Qed.

(* payloads *)
Inductive shape_rt :
  shape (parser pval) -> shape pval -> shape (list N) -> Prop :=
| shape_rt_unit : shape_rt SUnit SUnit SUnit
| shape_rt_tuple ps xs strs :
    Forall3 rt ps xs strs -> shape_rt (STuple ps) (STuple xs) (STuple strs)
| shape_rt_named fps fxs fstrs :
    Forall3 (fun np nx ns => fst np = fst nx /\ fst ns = fst nx
                             /\ rt (snd np) (snd nx) (snd ns)) fps fxs fstrs ->
    shape_rt (SNamed fps) (SNamed fxs) (SNamed fstrs).

Lemma field_parser_rt np nx ns :
  fst np = fst nx -> fst ns = fst nx -> rt (snd np) (snd nx) (snd ns) ->
  rt (field_parser np) nx (dbg_field ns).
Proof.
  intros E1 E2 H rest Hr. unfold field_parser, dbg_field.
  rewrite E1, E2.
  replace ((fst nx ++ [58; 32] ++ snd ns) ++ rest)
    with ((fst nx ++ [58; 32]) ++ (snd ns ++ rest))
    by (repeat rewrite <- app_assoc; reflexivity).
  rewrite strip_app. rewrite H by auto. destruct nx; reflexivity.
Qed.

Lemma ident_chars_tokens n : forallb is_ident_char n = true ->
  forall rest, ok_follow rest = true -> span is_ident_char (n ++ rest) = (n, rest).
Proof.
  intros Hn rest Hr. apply span_app; auto.
  eapply ok_follow_stops; eauto. apply token_of_ident.
Qed.

Lemma parse_adt_rt pvs n psh xsh strsh :
  ident_ok n = true -> find_variant n pvs = Some psh ->
  shape_rt psh xsh strsh ->
  rt (parse_adt pvs) (VAdt n xsh) (dbg_adt n strsh).
Proof.
  intros Hn Hf Hs rest Hr. unfold parse_adt.
  assert (Hn' : forallb is_ident_char n = true)
    by (destruct n; [discriminate|exact Hn]).
  destruct Hs as [|ps xs strs H3|fps fxs fstrs H3].
  - simpl dbg_adt. rewrite ident_chars_tokens; auto. now rewrite Hf.
  - inversion H3 as [|p x str ps' xs' strs' Hp H3']; subst.
    + simpl dbg_adt. rewrite ident_chars_tokens; auto. now rewrite Hf.
    + cbn [dbg_adt]. repeat rewrite <- app_assoc.
      rewrite ident_chars_tokens by (auto; reflexivity). rewrite Hf.
      rewrite strip_app.
      rewrite (parse_items_ok comma_sp comma_follow _ _ _ H3) by (right; reflexivity).
      now rewrite strip_app.
  - inversion H3 as [|p x str ps' xs' strs' Hp H3']; subst.
    + simpl dbg_adt. rewrite ident_chars_tokens; auto. now rewrite Hf.
    + cbn [dbg_adt]. repeat rewrite <- app_assoc.
      rewrite ident_chars_tokens by (auto; reflexivity). rewrite Hf.
      cbn [map]. rewrite strip_app.
      change (field_parser p :: map field_parser ps')
        with (map field_parser (p :: ps')).
      change (dbg_field str :: map dbg_field strs')
        with (map dbg_field (str :: strs')).
      rewrite (parse_items_ok comma_sp comma_follow
                 (map field_parser (p :: ps')) (x :: xs') (map dbg_field (str :: strs'))).
      * now rewrite strip_app.
      * clear -H3. induction H3 as [|? ? ? ? ? ? (E1 & E2 & R) _ IH]; simpl;
          constructor; auto. apply field_parser_rt; auto.
      * right; reflexivity.
Qed.

(* ========================================================================= *)
(* 7. induction principles for the nested inductives                         *)
(* ========================================================================= *)

Definition shape_all {T : Type} (Q : T -> Prop) (s : shape T) : Prop :=
  match s with
  | SUnit => True
  | STuple xs => Forall Q xs
  | SNamed fs => Forall (fun f => Q (snd f)) fs
  end.

Section TyInd.
  Variable P : ty -> Prop.
  Hypothesis HInt : P TInt.
  Hypothesis HBool : P TBool.
  Hypothesis HChar : P TChar.
  Hypothesis HStr : P TStr.
  Hypothesis HFloat : P TFloat.
  Hypothesis HTuple : forall ts, Forall P ts -> P (TTuple ts).
  Hypothesis HOpt : forall t, P t -> P (TOpt t).
  Hypothesis HVec : forall t, P t -> P (TVec t).
  Hypothesis HAdt : forall vs, Forall (fun nv => shape_all P (snd nv)) vs -> P (TAdt vs).

  Fixpoint ty_ind' (t : ty) : P t :=
    match t with
    | TInt => HInt
    | TBool => HBool
    | TChar => HChar
    | TStr => HStr
    | TFloat => HFloat
    | TTuple ts =>
        HTuple ts
          ((fix all (l : list ty) : Forall P l :=
              match l with
              | [] => Forall_nil _
              | x :: l' => Forall_cons x (ty_ind' x) (all l')
              end) ts)
    | TOpt t' => HOpt t' (ty_ind' t')
    | TVec t' => HVec t' (ty_ind' t')
    | TAdt vs =>
        HAdt vs
          ((fix allv (l : list (ident * shape ty))
             : Forall (fun nv => shape_all P (snd nv)) l :=
              match l with
              | [] => Forall_nil _
              | nv :: l' =>
                  Forall_cons nv
                    (match snd nv as sh return shape_all P sh with
                     | SUnit => I
                     | STuple xs =>
                         (fix all (l : list ty) : Forall P l :=
                            match l with
                            | [] => Forall_nil _
                            | x :: l' => Forall_cons x (ty_ind' x) (all l')
                            end) xs
                     | SNamed fs =>
                         (fix allf (l : list (ident * ty))
                           : Forall (fun f => P (snd f)) l :=
                            match l with
                            | [] => Forall_nil _
                            | f :: l' => Forall_cons f (ty_ind' (snd f)) (allf l')
                            end) fs
                     end)
                    (allv l')
              end) vs)
    end.
End TyInd.

Section ValInd.
  Variable F : Type.
  Variable P : val F -> Prop.
  Hypothesis HInt : forall z, P (VInt z).
  Hypothesis HBool : forall b, P (VBool b).
  Hypothesis HChar : forall c, P (VChar c).
  Hypothesis HStr : forall s, P (VStr s).
  Hypothesis HFloat : forall f, P (VFloat f).
  Hypothesis HTuple : forall vs, Forall P vs -> P (VTuple vs).
  Hypothesis HNone : P VNone.
  Hypothesis HSome : forall v, P v -> P (VSome v).
  Hypothesis HVec : forall vs, Forall P vs -> P (VVec vs).
  Hypothesis HAdt : forall n p, shape_all P p -> P (VAdt n p).

  Fixpoint val_ind' (v : val F) : P v :=
    match v with
    | VInt z => HInt z
    | VBool b => HBool b
    | VChar c => HChar c
    | VStr s => HStr s
    | VFloat f => HFloat f
    | VTuple vs =>
        HTuple vs
          ((fix all (l : list (val F)) : Forall P l :=
              match l with
              | [] => Forall_nil _
              | x :: l' => Forall_cons x (val_ind' x) (all l')
              end) vs)
    | VNone => HNone
    | VSome v' => HSome v' (val_ind' v')
    | VVec vs =>
        HVec vs
          ((fix all (l : list (val F)) : Forall P l :=
              match l with
              | [] => Forall_nil _
              | x :: l' => Forall_cons x (val_ind' x) (all l')
              end) vs)
    | VAdt n p =>
        HAdt n p
          (match p as sh return shape_all P sh with
           | SUnit => I
           | STuple xs =>
               (fix all (l : list (val F)) : Forall P l :=
                  match l with
                  | [] => Forall_nil _
                  | x :: l' => Forall_cons x (val_ind' x) (all l')
                  end) xs
           | SNamed fs =>
               (fix allf (l : list (ident * val F))
                 : Forall (fun f => P (snd f)) l :=
                  match l with
                  | [] => Forall_nil _
                  | f :: l' => Forall_cons f (val_ind' (snd f)) (allf l')
                  end) fs
           end)
    end.
End ValInd.

(* ========================================================================= *)
(* 8. erasing floats to their text                                           *)
(* ========================================================================= *)

Section Erase.
  Variable F : Type.
  Variable fdbg : F -> list N.

  Fixpoint erase (v : val F) : pval :=
    match v with
    | VInt z => VInt z
    | VBool b => VBool b
    | VChar c => VChar c
    | VStr s => VStr s
    | VFloat f => VFloat (fdbg f)
    | VTuple vs => VTuple (map erase vs)
    | VNone => VNone
    | VSome v' => VSome (erase v')
    | VVec vs => VVec (map erase vs)
    | VAdt n p => VAdt n (shape_map erase p)
    end.

  Hypothesis fdbg_inj : forall x y, fdbg x = fdbg y -> x = y.

  Lemma map_inj_Forall {A B} (f : A -> B) (l : list A) :
    Forall (fun a => forall a', f a = f a' -> a = a') l ->
    forall l', map f l = map f l' -> l = l'.
  Proof.
    induction 1 as [|a l Ha _ IH]; intros [|a' l'] E; simpl in E; try discriminate; auto.
    injection E as E1 E2. f_equal; auto.
  Qed.

  Lemma erase_inj v : forall v', erase v = erase v' -> v = v'.
  Proof.
    induction v using val_ind'; intros v' E; destruct v'; simpl in E;
      try discriminate; try (injection E as E; subst; reflexivity).
    - injection E as E. f_equal. auto.
    - injection E as E. f_equal. eapply map_inj_Forall; eauto.
    - reflexivity.
    - injection E as E. f_equal. auto.
    - injection E as E. f_equal. eapply map_inj_Forall; eauto.
    - injection E as E1 E2. subst. f_equal.
      destruct p as [|xs|fs], payload as [|xs'|fs']; simpl in E2; try discriminate; auto.
      + injection E2 as E2. f_equal. simpl in H. eapply map_inj_Forall; eauto.
      + injection E2 as E2. f_equal. simpl in H.
        refine (map_inj_Forall (fun nf => (fst nf, erase (snd nf))) fs _ fs' E2).
        clear -H. induction H as [|[n a] l Ha _ IH]; constructor; auto.
        intros [n' a'] E. simpl in *. injection E as E1 E2. subst. f_equal. auto.
  Qed.
End Erase.
Arguments erase {F} fdbg v.

(* ========================================================================= *)
(* 9. main theorems                                                          *)
(* ========================================================================= *)

Lemma find_variant_map {A B} (f : A -> B) n (vs : list (ident * A)) :
  find_variant n (map (fun nv => (fst nv, f (snd nv))) vs)
  = option_map f (find_variant n vs).
Proof.
  induction vs as [|[m x] vs IH]; simpl; auto.
  destruct (list_eqb n m); auto.
Qed.

Lemma find_variant_all {A} (Q : A -> Prop) n (vs : list (ident * A)) x :
  Forall (fun nv => Q (snd nv)) vs -> find_variant n vs = Some x -> Q x.
Proof.
  induction 1 as [|[m y] vs Hy _ IH]; simpl; [discriminate|].
  destruct (list_eqb n m); auto. intros [= <-]. exact Hy.
Qed.

Section Main.
  (* --- outside the repository: hypotheses, not axioms ------------------- *)
  Variable F : Type.
  Variable fdbg : F -> list N.
  Variable printable : N -> bool.           (* arbitrary *)

  Hypothesis fdbg_inj : forall x y, fdbg x = fdbg y -> x = y.
  Hypothesis fdbg_chars :
    forall x, fdbg x <> [] /\ forallb is_float_char (fdbg x) = true.

  Local Notation dbg' := (dbg fdbg printable).
  Local Notation erase' := (erase fdbg).

  (* the two key generators coincide on the modelled types *)
  Lemma key_sync_is_key_async :
    forall recv args,
      key_sync fdbg printable recv args = key_async fdbg printable recv args.
  Proof. reflexivity. Qed.

  (* no rendering starts with a closing bracket (needed for [] vs [x]) *)
  Lemma dbg_head v t :
    has_type v t = true -> not_rbracket_head (dbg' v).
  Proof.
    unfold not_rbracket_head.
    destruct v; simpl; intro H.
    - destruct (dec_int_nonempty z) as (c & s & E & Hc). exists c, s. split; auto.
      intros ->. discriminate.
    - destruct b; do 2 eexists; (split; [reflexivity|discriminate]).
    - do 2 eexists; (split; [reflexivity|discriminate]).
    - do 2 eexists; (split; [reflexivity|discriminate]).
    - destruct (fdbg_chars f) as [Hne Hc]. destruct (fdbg f) as [|c s]; [contradiction|].
      exists c, s. split; auto. intros ->. discriminate.
    - do 2 eexists; (split; [reflexivity|discriminate]).
    - do 2 eexists; (split; [reflexivity|discriminate]).
    - do 2 eexists; (split; [reflexivity|discriminate]).
    - do 2 eexists; (split; [reflexivity|discriminate]).
    - destruct t; try discriminate.
      apply andb_true_iff in H as [Hn _].
      destruct name as [|c s]; [discriminate|].
      simpl in Hn. apply andb_true_iff in Hn as [Hc _].
      exists c. destruct payload as [|[|? ?]|[|? ?]]; simpl; eexists;
        (split; [reflexivity|intros ->; discriminate]).
  Qed.

  Definition RT (p : parser pval) (v : val F) : Prop := rt p (erase' v) (dbg' v).

  Lemma items_F3 ts :
    Forall (fun t => forall v, has_type v t = true -> RT (parse t) v) ts ->
    forall vs, forall2b has_type vs ts = true ->
    Forall3 rt (map parse ts) (map erase' vs) (map dbg' vs).
  Proof.
    induction 1 as [|t ts Ht _ IH]; intros [|v vs] H; simpl in H; try discriminate.
    - constructor.
    - apply andb_true_iff in H as [H1 H2]. simpl. constructor; auto. apply Ht; auto.
  Qed.

  Lemma fields_F3 fts :
    Forall (fun ft => forall v, has_type v (snd ft) = true -> RT (parse (snd ft)) v) fts ->
    forall fvs,
      forall2b (fun (fv : ident * val F) (ft : ident * ty) =>
                  list_eqb (fst fv) (fst ft) && has_type (snd fv) (snd ft)) fvs fts = true ->
      Forall3 (fun np nx ns => fst np = fst nx /\ fst ns = fst nx
                               /\ rt (snd np) (snd nx) (snd ns))
              (map (fun nf => (fst nf, parse (snd nf))) fts)
              (map (fun nf => (fst nf, erase' (snd nf))) fvs)
              (map (fun nf => (fst nf, dbg' (snd nf))) fvs).
  Proof.
    induction 1 as [|ft fts Ht _ IH]; intros [|fv fvs] H; simpl in H; try discriminate.
    - constructor.
    - apply andb_true_iff in H as [H1 H2]. apply andb_true_iff in H1 as [H0 H1].
      apply list_eqb_eq in H0.
      simpl. constructor; auto. simpl. repeat split; auto. apply Ht; auto.
  Qed.

  (* ---- the round-trip theorem ------------------------------------------ *)
  Theorem parse_dbg :
    forall t v rest,
      has_type v t = true -> ok_follow rest = true ->
      parse t (dbg' v ++ rest) = Some (erase' v, rest).
  Proof.
    intros t. 
    enough (G : forall v, has_type v t = true -> RT (parse t) v)
      by (intros v rest Hv Hr; apply G; auto).
    induction t using ty_ind'; intros v Hv;
      destruct v as [z|b|c|s|f|xs| |v|xs|name payload]; simpl in Hv; try discriminate;
      unfold RT.
    - apply parse_int_rt.
    - apply parse_bool_rt.
    - apply parse_chr_rt.
    - apply parse_string_rt.
    - apply parse_float_rt. apply fdbg_chars.
    - simpl. apply parse_tuple_rt. apply items_F3; auto.
    - apply parse_opt_none_rt.
    - simpl. apply parse_opt_some_rt. apply IHt; auto.
    - simpl. apply parse_vec_rt.
      + clear -IHt Hv. induction xs as [|a l IH]; simpl in *; constructor.
        * apply andb_true_iff in Hv as [H1 _]. apply IHt; auto.
        * apply andb_true_iff in Hv as [_ H2]. auto.
      + clear -Hv fdbg_chars. induction xs as [|a l IH]; simpl in *; constructor.
        * apply andb_true_iff in Hv as [H1 _]. eapply dbg_head; eauto.
        * apply andb_true_iff in Hv as [_ H2]. auto.
    - apply andb_true_iff in Hv as [Hn Hv].
      destruct (find_variant name vs) as [sh|] eqn:Ef; [|discriminate].
      assert (Hsh := find_variant_all (shape_all _) name vs sh H Ef).
      cbn [parse erase dbg].
      eapply parse_adt_rt; eauto.
      + rewrite find_variant_map, Ef. reflexivity.
      + destruct payload as [|xs|fvs], sh as [|ts|fts]; try discriminate; simpl in *.
        * constructor.
        * constructor. apply items_F3; auto.
        * constructor. apply fields_F3; auto.
  Qed.

  (* ---- keys ------------------------------------------------------------- *)

  Lemma parts_typed rty ats (recv : option (val F)) args :
    sig_ok rty ats recv args = true ->
    forall2b has_type (key_parts recv args) (sig_parts rty ats) = true.
  Proof.
    unfold sig_ok. intro H. apply andb_true_iff in H as [H1 H2].
    destruct rty, recv; simpl; try discriminate; auto. now rewrite H1.
  Qed.

  (* the key parser inverts the key generator *)
  Theorem parse_key_key :
    forall rty ats recv args,
      sig_ok rty ats recv args = true ->
      parse_key rty ats (key fdbg printable recv args)
      = Some (map erase' (key_parts recv args)).
  Proof.
    intros rty ats recv args H. apply parts_typed in H.
    unfold parse_key, key, key_sync, key_with, to_cache_key.
    assert (F3 : Forall3 (@rt pval) (map parse (sig_parts rty ats))
                   (map erase' (key_parts recv args)) (map dbg' (key_parts recv args))).
    { apply items_F3; auto.
      apply Forall_forall. intros t _ v Hv rest Hr. apply parse_dbg; auto. }
    rewrite <- (app_nil_r (join bar _)).
    rewrite (parse_items_ok bar bar_follow _ _ _ F3) by (right; reflexivity).
    reflexivity.
  Qed.

  (* ---- C02 -------------------------------------------------------------- *)
  Theorem key_injective :
    forall (rty : option ty) (ats : list ty)
           (recv1 recv2 : option (val F)) (args1 args2 : list (val F)),
      sig_ok rty ats recv1 args1 = true ->
      sig_ok rty ats recv2 args2 = true ->
      key fdbg printable recv1 args1 = key fdbg printable recv2 args2 ->
      recv1 = recv2 /\ args1 = args2.
  Proof.
    intros rty ats recv1 recv2 args1 args2 H1 H2 E.
    assert (P1 := parse_key_key _ _ _ _ H1).
    assert (P2 := parse_key_key _ _ _ _ H2).
    rewrite E, P2 in P1. injection P1 as P.
    assert (Q : key_parts recv2 args2 = key_parts recv1 args1).
    { eapply (map_inj_Forall erase'); eauto.
      apply Forall_forall. intros v _ v'. apply erase_inj. exact fdbg_inj. }
    unfold sig_ok in H1, H2.
    destruct rty, recv1, recv2; simpl in *; try discriminate.
    - injection Q as -> ->. auto.
    - subst. auto.
  Qed.

  (* the same for the async generator *)
  Corollary key_async_injective :
    forall rty ats recv1 recv2 args1 args2,
      sig_ok rty ats recv1 args1 = true ->
      sig_ok rty ats recv2 args2 = true ->
      key_async fdbg printable recv1 args1 = key_async fdbg printable recv2 args2 ->
      recv1 = recv2 /\ args1 = args2.
  Proof. exact key_injective. Qed.

End Main.

(* ========================================================================= *)
(* 10. sanity: the hypotheses are satisfiable, and concrete examples         *)
(* ========================================================================= *)

(* The float hypotheses are not vacuous: e.g. integers rendered in decimal
   satisfy them (injective, non-empty, characters in [0-9-]).               *)
Example float_hypotheses_satisfiable :
  exists (F : Type) (fdbg : F -> list N),
    (forall x y, fdbg x = fdbg y -> x = y) /\
    (forall x, fdbg x <> [] /\ forallb is_float_char (fdbg x) = true).
Proof.
  exists Z, dbg_int. split.
  - intros x y E. assert (H := parse_int_tok_ok x). rewrite E, parse_int_tok_ok in H.
    now injection H.
  - intro x. split.
    + destruct (dec_int_nonempty x) as (c & s & -> & _). discriminate.
    + assert (H := dec_int_chars (Z.to_int x)). unfold dbg_int.
      revert H. generalize (codes (DecimalString.NilZero.string_of_int (Z.to_int x))).
      induction l; simpl; auto. intro H. apply andb_true_iff in H as [H1 H2].
      rewrite IHl by auto. rewrite andb_true_r.
      unfold is_int_char in H1. unfold is_float_char.
      apply orb_true_iff in H1 as [->| ->]; auto. now rewrite !orb_true_r.
Qed.

(* Concrete instance: floats as text, [printable_concrete]. *)
Local Notation S x := (@VStr (list N) (codes x)).
Local Notation I x := (@VInt (list N) x).
Local Notation K := (key_concrete None).

(* ("a|b","c") vs ("a","b|c"): the separator inside a string is harmless *)
Example ex_bar_in_string :
  K [S "a|b"; S "c"] = codes """a|b""|""c""" /\
  K [S "a"; S "b|c"] = codes """a""|""b|c""" /\
  K [S "a|b"; S "c"] <> K [S "a"; S "b|c"].
Proof. repeat split; try (vm_compute; reflexivity). vm_compute. discriminate. Qed.

(* quotes: ("a\"|\"b") one argument vs ("a","b") two arguments would both read
   "a"|"b" without escaping; with escaping they differ *)
Example ex_quote_in_string :
  K [S "a""|""b"] = codes """a\""|\""b""" /\
  K [S "a"; S "b"] = codes """a""|""b""" /\
  K [S "a""|""b"] <> K [S "a"; S "b"].
Proof. repeat split; try (vm_compute; reflexivity). vm_compute. discriminate. Qed.

(* backslashes: a\ followed by quote cannot fake an escaped quote *)
Example ex_backslash :
  K [S "a\"; S "b"] = codes """a\\""|""b""" /\
  K [S "a\""|""b"] = codes """a\\\""|\""b""" /\
  K [S "a\"; S "b"] <> K [S "a\""|""b"].
Proof. repeat split; try (vm_compute; reflexivity). vm_compute. discriminate. Qed.

(* (1,23) vs (12,3) *)
Example ex_digits :
  K [I 1%Z; I 23%Z] = codes "1|23" /\
  K [I 12%Z; I 3%Z] = codes "12|3" /\
  K [I 1%Z; I 23%Z] <> K [I 12%Z; I 3%Z].
Proof. repeat split; try (vm_compute; reflexivity). vm_compute. discriminate. Qed.

(* negative numbers, nested containers, escapes, receiver *)
Example ex_nested :
  key_concrete
    (Some (VAdt (codes "Svc") (SNamed [(codes "id", I (-7)%Z); (codes "tag", S "x|y")])))
    [ VVec [VSome (VTuple [S "a, b"; I 1%Z]); VNone];
      VTuple [@VChar (list N) 39];
      VTuple [];
      @VChar (list N) 769;
      S (String (ascii_of_nat 10) (String (ascii_of_nat 127) EmptyString));
      @VFloat (list N) (codes "1e-5") ]
  = codes ("Svc { id: -7, tag: ""x|y"" }|[Some((""a, b"", 1)), None]|('\'',)|()|'\u{301}'|""\n\u{7f}""|1e-5").
Proof. vm_compute. reflexivity. Qed.

(* What the separator and the escaping buy: without them keys collide.      *)
Example mutant_no_separator_collides :
  join [] (map dbg_concrete [I 1%Z; I 23%Z]) = join [] (map dbg_concrete [I 12%Z; I 3%Z]).
Proof. vm_compute. reflexivity. Qed.

Example mutant_no_escaping_collides :
  (* rendering strings as quote ++ s ++ quote, without escaping *)
  let raw (s : list N) := [34] ++ s ++ [34] in
  join bar [raw (codes "a""|""b")] = join bar [raw (codes "a"); raw (codes "b")].
Proof. vm_compute. reflexivity. Qed.

(* the verified parser on a concrete key *)
Example ex_parse_key :
  parse_key None [TStr; TTuple [TInt; TOpt TChar]; TVec TBool]
            (codes """a|b""|(-3, Some('|'))|[true, false]")
  = Some [S "a|b"; VTuple [I (-3)%Z; VSome (VChar 124)]; VVec [VBool true; VBool false]].
Proof. vm_compute. reflexivity. Qed.
