(* Property C02: cache keys are injective.  Statement only; the proof is
   KeysProofs.key_injective / key_async_injective.                          *)
From Coq Require Import List NArith.
From CLK Require Import Keys KeysProofs.

Theorem C02_key_injective :
  forall (F : Type) (fdbg : F -> list N) (printable : N -> bool),
    (* trusted facts about std's float printer, as premises: *)
    (forall x y : F, fdbg x = fdbg y -> x = y) ->
    (forall x : F, fdbg x <> nil /\ forallb is_float_char (fdbg x) = true) ->
    forall (recv_ty : option ty) (arg_tys : list ty)
           (recv1 recv2 : option (val F)) (args1 args2 : list (val F)),
      sig_ok recv_ty arg_tys recv1 args1 = true ->
      sig_ok recv_ty arg_tys recv2 args2 = true ->
      (* #[cache] (sync generator) *)
      (key_sync fdbg printable recv1 args1 = key_sync fdbg printable recv2 args2 ->
       recv1 = recv2 /\ args1 = args2)
      /\
      (* #[cache_async] (async generator) *)
      (key_async fdbg printable recv1 args1 = key_async fdbg printable recv2 args2 ->
       recv1 = recv2 /\ args1 = args2).
Proof.
  intros F fdbg printable Hinj Hchars rty ats r1 r2 a1 a2 H1 H2. split.
  - exact (key_injective F fdbg printable Hinj Hchars rty ats r1 r2 a1 a2 H1 H2).
  - exact (key_async_injective F fdbg printable Hinj Hchars rty ats r1 r2 a1 a2 H1 H2).
Qed.

Print Assumptions C02_key_injective.
