(* ------------------------------------------------------------------------- *)
(* Keys.v -- executable model of cachelito's cache-key generation.            *)
(*                                                                           *)
(* Implementation modelled (read-only sources):                              *)
(*   cachelito-core/src/keys.rs           CacheableKey / DefaultCacheableKey  *)
(*   cachelito-macro-utils/src/lib.rs     generate_key_expr                   *)
(*                                        generate_key_expr_with_cacheable_key*)
(*                                                                           *)
(*   key = parts.join("|"),  part = format!("{:?}", x)                        *)
(*                                                                           *)
(* so the model is a model of Rust's [Debug] rendering.  Strings are lists   *)
(* of Unicode code points ([list N]).  This file contains definitions only;  *)
(* all proofs are in KeysProofs.v.                                           *)
(*                                                                           *)
(* Things that live outside the repository (std's Unicode tables, std's      *)
(* float printer) are Section variables, never axioms:                       *)
(*   printable : N -> bool      "Rust writes this code point literally"      *)
(*   F, fdbg : F -> list N      floats and their Debug rendering             *)
(* ------------------------------------------------------------------------- *)

From Coq Require Import List NArith ZArith Bool Ascii String.
From Coq Require Import DecimalString HexadecimalString.
Import ListNotations.
Local Open Scope N_scope.

(* ---------- text ---------------------------------------------------------- *)

(* code points of an (ASCII) Coq string literal *)
Definition codes (s : string) : list N :=
  map N_of_ascii (list_ascii_of_string s).

Definition string_of_codes (l : list N) : string :=
  string_of_list_ascii (map ascii_of_N l).

Definition ident := list N.

Fixpoint list_eqb (a b : list N) : bool :=
  match a, b with
  | [], [] => true
  | x :: a', y :: b' => (x =? y) && list_eqb a' b'
  | _, _ => false
  end.

(* character classes *)
Definition in_range (lo hi c : N) : bool := (lo <=? c) && (c <=? hi).
Definition is_digit (c : N) : bool := in_range 48 57 c.
Definition is_alpha (c : N) : bool := in_range 65 90 c || in_range 97 122 c.

(* [0-9A-Za-z.+-] : the alphabet of float renderings (hypothesis on fdbg) *)
Definition is_float_char (c : N) : bool :=
  is_digit c || is_alpha c || (c =? 46) || (c =? 43) || (c =? 45).

(* [0-9A-Za-z_] : the alphabet of (ASCII) Rust identifiers *)
Definition is_ident_char (c : N) : bool :=
  is_digit c || is_alpha c || (c =? 95).

(* a struct / variant name as printed by derive(Debug): non-empty, ASCII ident *)
Definition ident_ok (n : ident) : bool :=
  match n with [] => false | _ => forallb is_ident_char n end.

(* Unicode scalar values: what a Rust [char] can hold *)
Definition is_scalar (c : N) : bool :=
  (c <? 55296) || ((57343 <? c) && (c <? 1114112)).

(* ---------- types --------------------------------------------------------- *)

(* payload shape of a struct or of an enum variant *)
Inductive shape (T : Type) : Type :=
| SUnit                                   (* struct U;        / variant  A        *)
| STuple (xs : list T)                    (* struct P(a, b);  / variant  B(a, b)  *)
| SNamed (fs : list (ident * T)).         (* struct S {f: a}  / variant  C {f: a} *)
Arguments SUnit {T}.
Arguments STuple {T} xs.
Arguments SNamed {T} fs.

Definition shape_map {A B : Type} (f : A -> B) (s : shape A) : shape B :=
  match s with
  | SUnit => SUnit
  | STuple xs => STuple (map f xs)
  | SNamed fs => SNamed (map (fun nf => (fst nf, f (snd nf))) fs)
  end.

Inductive ty : Type :=
| TInt                      (* every integer type: i8..i128, u8..u128, isize, usize;
                               Debug prints the mathematical value in decimal      *)
| TBool
| TChar
| TStr                      (* String and &str *)
| TFloat                    (* f32 / f64, abstract *)
| TTuple (ts : list ty)     (* (), (a,), (a, b), ... *)
| TOpt (t : ty)
| TVec (t : ty)             (* Vec<T> and &[T] *)
| TAdt (variants : list (ident * shape ty)).
                            (* user type with #[derive(Debug)]: an enum is its
                               list of variants; a struct is a one-variant enum
                               whose variant name is the struct name            *)

Definition TUnit : ty := TTuple [].
Definition TStruct (name : ident) (fields : list (ident * ty)) : ty :=
  TAdt [(name, SNamed fields)].
Definition TTupleStruct (name : ident) (ts : list ty) : ty :=
  TAdt [(name, STuple ts)].
Definition TUnitStruct (name : ident) : ty := TAdt [(name, SUnit)].
Definition TEnum (variants : list (ident * shape ty)) : ty := TAdt variants.

(* first variant with the given name *)
Fixpoint find_variant {T : Type} (n : ident) (vs : list (ident * T)) : option T :=
  match vs with
  | [] => None
  | (m, x) :: vs' => if list_eqb n m then Some x else find_variant n vs'
  end.

Section Forall2b.
  Context {A B : Type}.
  Variable f : A -> B -> bool.
  Fixpoint forall2b (xs : list A) (ys : list B) : bool :=
    match xs, ys with
    | [], [] => true
    | x :: xs', y :: ys' => f x y && forall2b xs' ys'
    | _, _ => false
    end.
End Forall2b.

(* ---------- rendering pieces that do not depend on the value type ---------- *)

Fixpoint join (sep : list N) (xs : list (list N)) : list N :=
  match xs with
  | [] => []
  | x :: xs' => match xs' with [] => x | _ => x ++ sep ++ join sep xs' end
  end.

Definition comma_sp : list N := [44; 32].           (* ", " *)

(* integers: core::fmt::Display/Debug for all integer types, decimal *)
Definition dbg_int (z : Z) : list N :=
  codes (DecimalString.NilZero.string_of_int (Z.to_int z)).

Definition dbg_bool (b : bool) : list N :=
  codes (if b then "true" else "false")%string.

(* lower-case hex without leading zeros *)
Definition hex (c : N) : list N :=
  codes (HexadecimalString.NilEmpty.string_of_uint (N.to_hex_uint c)).

(* \u{...} *)
Definition esc_unicode (c : N) : list N := [92; 117; 123] ++ hex c ++ [125].

(* (a, b) / (a,) / () *)
Definition dbg_tuple (xs : list (list N)) : list N :=
  [40] ++ join comma_sp xs ++ (match xs with [_] => [44] | _ => [] end) ++ [41].

(* [a, b] *)
Definition dbg_list (xs : list (list N)) : list N :=
  [91] ++ join comma_sp xs ++ [93].

(* derive(Debug): Name / Name(a, b) / Name { f: a, g: b }
   (DebugTuple / DebugStruct with no fields print just the name) *)
Definition dbg_field (f : ident * list N) : list N :=
  fst f ++ [58; 32] ++ snd f.
Definition dbg_adt (name : ident) (p : shape (list N)) : list N :=
  match p with
  | SUnit => name
  | STuple [] => name
  | STuple xs => name ++ [40] ++ join comma_sp xs ++ [41]
  | SNamed [] => name
  | SNamed fs => name ++ [32; 123; 32] ++ join comma_sp (map dbg_field fs) ++ [32; 125]
  end.

Section Model.

  (* --- outside the repository: parameters, not axioms --- *)
  Variable F : Type.                  (* floating-point values            *)
  Variable fdbg : F -> list N.        (* <f64 as Debug>::fmt              *)
  Variable printable : N -> bool.     (* core::unicode::printable::is_printable c
                                         && !c.is_grapheme_extended()     *)

  (* ---------- values ------------------------------------------------------ *)

  Inductive val : Type :=
  | VInt (z : Z)
  | VBool (b : bool)
  | VChar (c : N)
  | VStr (s : list N)
  | VFloat (f : F)
  | VTuple (vs : list val)
  | VNone
  | VSome (v : val)
  | VVec (vs : list val)
  | VAdt (name : ident) (payload : shape val).

  Fixpoint has_type (v : val) (t : ty) {struct v} : bool :=
    match v, t with
    | VInt _, TInt => true
    | VBool _, TBool => true
    | VChar c, TChar => is_scalar c
    | VStr s, TStr => forallb is_scalar s
    | VFloat _, TFloat => true
    | VTuple vs, TTuple ts => forall2b has_type vs ts
    | VNone, TOpt _ => true
    | VSome v', TOpt t' => has_type v' t'
    | VVec vs, TVec t' => forallb (fun v' => has_type v' t') vs
    | VAdt n p, TAdt variants =>
        ident_ok n &&
        match find_variant n variants with
        | None => false
        | Some sh =>
            match p, sh with
            | SUnit, SUnit => true
            | STuple vs, STuple ts => forall2b has_type vs ts
            | SNamed fvs, SNamed fts =>
                forall2b (fun fv ft => list_eqb (fst fv) (fst ft)
                                       && has_type (snd fv) (snd ft)) fvs fts
            | _, _ => false
            end
        end
    | _, _ => false
    end.

  (* ---------- Debug rendering -------------------------------------------- *)

  (* char::escape_debug_ext; [in_str] = true inside "..." (escapes the double
     quote, not the single one), false inside '...' (the other way round).     *)
  Definition escape_debug (in_str : bool) (c : N) : list N :=
    if c =? 0 then [92; 48]                      (* \0 *)
    else if c =? 9 then [92; 116]                (* \t *)
    else if c =? 13 then [92; 114]               (* \r *)
    else if c =? 10 then [92; 110]               (* \n *)
    else if c =? 92 then [92; 92]                (* \\ *)
    else if (c =? 34) && in_str then [92; 34]    (* backslash dquote *)
    else if (c =? 39) && negb in_str then [92; 39]  (* backslash squote *)
    else if printable c then [c]
    else esc_unicode c.

  Definition dbg_char (c : N) : list N := [39] ++ escape_debug false c ++ [39].
  Definition dbg_str (s : list N) : list N :=
    [34] ++ flat_map (escape_debug true) s ++ [34].

  Fixpoint dbg (v : val) : list N :=
    match v with
    | VInt z => dbg_int z
    | VBool b => dbg_bool b
    | VChar c => dbg_char c
    | VStr s => dbg_str s
    | VFloat f => fdbg f
    | VTuple vs => dbg_tuple (map dbg vs)
    | VNone => codes "None"
    | VSome v' => codes "Some(" ++ dbg v' ++ [41]
    | VVec vs => dbg_list (map dbg vs)
    | VAdt n p => dbg_adt n (shape_map dbg p)
    end.

  (* ---------- key generation --------------------------------------------- *)

  (* the receiver (&self / self), if any, is the first part *)
  Definition key_parts (recv : option val) (args : list val) : list val :=
    match recv with Some r => r :: args | None => args end.

  Definition bar : list N := [124].                 (* "|" *)

  Definition key_with (render : val -> list N)
             (recv : option val) (args : list val) : list N :=
    join bar (map render (key_parts recv args)).

  (* #[cache_async]: generate_key_expr, part = format!("{:?}", arg) *)
  Definition key_async := key_with dbg.

  (* #[cache]: generate_key_expr_with_cacheable_key, part = arg.to_cache_key().
     For every type with a built-in key and for user types that opt in through
     DefaultCacheableKey, to_cache_key is the blanket impl format!("{:?}", self),
     so the two generators coincide (KeysProofs.key_sync_is_key_async).
     A hand-written CacheableKey impl is outside this model.                  *)
  Definition to_cache_key (v : val) : list N := dbg v.
  Definition key_sync := key_with to_cache_key.

  Definition key := key_sync.

  (* a signature: optional receiver type, argument types *)
  Definition sig_ok (rt : option ty) (ats : list ty)
             (recv : option val) (args : list val) : bool :=
    match rt, recv with
    | None, None => true
    | Some t, Some v => has_type v t
    | _, _ => false
    end && forall2b has_type args ats.

End Model.

Arguments VInt {F} z.
Arguments VBool {F} b.
Arguments VChar {F} c.
Arguments VStr {F} s.
Arguments VFloat {F} f.
Arguments VTuple {F} vs.
Arguments VNone {F}.
Arguments VSome {F} v.
Arguments VVec {F} vs.
Arguments VAdt {F} name payload.
Arguments has_type {F} v t.
Arguments dbg {F} fdbg printable v.
Arguments key_parts {F} recv args.
Arguments key_with {F} render recv args.
Arguments key_async {F} fdbg printable recv args.
Arguments key_sync {F} fdbg printable recv args.
Arguments to_cache_key {F} fdbg printable v.
Arguments key {F} fdbg printable recv args.
Arguments sig_ok {F} rt ats recv args.

(* ---------- a concrete instance (used by Examples and by extraction) ------- *)

(* floats as already-rendered text *)
Definition fdbg_text (s : list N) : list N := s.

(* Code points outside 0x20..0x7e that Rust writes literally -- restricted to
   the ones the differential harness generates.  Each entry, and each escaped
   code point of the harness alphabet (controls, U+007F, U+0080, U+009F,
   U+00A0, U+00AD, U+0301, U+0378, U+200B, U+200D, U+2028, U+20DD, U+3000,
   U+D7FF, U+E000, U+FE0F, U+FEFF, U+E0001, U+10FFFF), is checked against the
   real Debug output on every run (X records of harness/vh-keys).            *)
Definition printable_table : list N :=
  [ 161;      (* U+00A1 inverted exclamation mark *)
    223;      (* U+00DF sharp s *)
    233;      (* U+00E9 e acute *)
    955;      (* U+03BB lambda *)
    1046;     (* U+0416 zhe *)
    8364;     (* U+20AC euro *)
    20013;    (* U+4E2D *)
    65293;    (* U+FF0D fullwidth hyphen-minus *)
    65372;    (* U+FF5C fullwidth vertical line *)
    65533;    (* U+FFFD replacement character *)
    119070;   (* U+1D11E musical symbol g clef *)
    128512    (* U+1F600 grinning face *)
  ].
(* Outside 0x20..0x7e and this table the concrete instance escapes; that is
   only claimed for the harness alphabet (the theorems hold for any table).  *)
Definition printable_concrete (c : N) : bool :=
  in_range 32 126 c || existsb (N.eqb c) printable_table.

Definition dbg_concrete : val (list N) -> list N :=
  dbg fdbg_text printable_concrete.
Definition key_concrete : option (val (list N)) -> list (val (list N)) -> list N :=
  key fdbg_text printable_concrete.
