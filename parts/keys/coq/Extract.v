(* Extraction of the executable model to OCaml (keys_model.ml / .mli).
   ExtrOcamlBasic only: bool/option/list/prod map to OCaml's, N / Z / positive
   stay the extracted inductives (no native-integer shortcuts).             *)
From Coq Require Import Extraction ExtrOcamlBasic.
From Coq Require Import List NArith ZArith.
From CLK Require Import Keys KeysProofs.

Extraction Language OCaml.
Set Extraction KeepSingleton.

Extraction "keys_model.ml"
  (* generic model *)
  dbg key key_sync key_async has_type sig_ok is_float_char is_scalar
  (* concrete instance: floats as text, explicit printable table *)
  printable_concrete printable_table dbg_concrete key_concrete
  (* the verified parser, for reading real keys back *)
  parse parse_key
  (* helpers for the driver *)
  N.of_nat N.to_nat Z.of_N Z.opp.
