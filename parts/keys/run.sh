#!/bin/bash
# run.sh <seed> <count> <workdir>
#
# Builds the Rust harness against the cachelito tree under test and the OCaml
# driver against the code extracted from the Coq model, runs both and prints
# the V / F / E / STAT lines.  Exit status 0 iff no MISMATCH / F / E line.
#
# Environment:
#   KEYS_REPO    cachelito tree under test          (default /repo)
#   KEYS_TARGET  cargo target dir                   (default /verif/build/target, or
#                <workdir>/target when KEYS_REPO is not /repo)
#   KEYS_MODE    "exhaustive": instead of the alphabet, check the Debug output
#                of EVERY Unicode scalar value against the model's shape
#   KEYS_REBUILD_COQ=1  re-run the Coq build (and extraction) first
set -u
HERE="$(cd "$(dirname "${BASH_SOURCE[0]}")" && pwd)"
SEED="${1:-1}"
COUNT="${2:-2000}"
WORK="${3:-/verif/build/keys_work}"
REPO="${KEYS_REPO:-/repo}"
MODE="${KEYS_MODE:-}"
if [ "$REPO" = "/repo" ]; then TARGET="${KEYS_TARGET:-/verif/build/target}"; else TARGET="${KEYS_TARGET:-$WORK/target}"; fi

mkdir -p "$WORK" || exit 2

# --- Coq model + extraction (only if missing or asked for) -------------------
if [ "${KEYS_REBUILD_COQ:-0}" = "1" ] || [ ! -f "$HERE/coq/keys_model.ml" ]; then
  ( cd "$HERE/coq" && coq_makefile -f _CoqProject -o Makefile >/dev/null && timeout 1500 make -j8 ) > "$WORK/coq.log" 2>&1 \
    || { echo "E coq build failed, see $WORK/coq.log"; exit 2; }
fi

# --- OCaml driver -------------------------------------------------------------
mkdir -p "$WORK/ocaml"
cp "$HERE/coq/keys_model.ml" "$HERE/coq/keys_model.mli" "$HERE/ocaml/keys_driver.ml" "$WORK/ocaml/" || exit 2
( cd "$WORK/ocaml" && timeout 300 ocamlfind ocamlopt -O2 -w -a keys_model.mli keys_model.ml keys_driver.ml -o keys_driver ) \
  > "$WORK/ocaml.log" 2>&1 || { echo "E driver build failed, see $WORK/ocaml.log"; exit 2; }

# --- Rust harness (a private copy of the crate pointing at $REPO) ------------
CRATE="$WORK/vh-keys"
mkdir -p "$CRATE/src"
sed "s#@REPO@#$REPO#g" "$HERE/harness/vh-keys/Cargo.toml.in" > "$CRATE/Cargo.toml.new"
cmp -s "$CRATE/Cargo.toml.new" "$CRATE/Cargo.toml" 2>/dev/null || mv "$CRATE/Cargo.toml.new" "$CRATE/Cargo.toml"
rm -f "$CRATE/Cargo.toml.new"
cmp -s "$HERE/harness/vh-keys/src/main.rs" "$CRATE/src/main.rs" 2>/dev/null || cp "$HERE/harness/vh-keys/src/main.rs" "$CRATE/src/main.rs"
cp "$REPO/Cargo.lock" "$CRATE/Cargo.lock" || exit 2
( cd "$CRATE" && CARGO_NET_OFFLINE=true CARGO_TARGET_DIR="$TARGET" timeout 1200 cargo build --offline ) \
  > "$WORK/cargo.log" 2>&1 || { echo "E harness build failed, see $WORK/cargo.log"; tail -20 "$WORK/cargo.log"; exit 2; }

# --- run ----------------------------------------------------------------------
if [ "$MODE" = "exhaustive" ]; then
  RUST_BACKTRACE=0 timeout 600 "$TARGET/debug/vh-keys" "$SEED" "$COUNT" exhaustive > "$WORK/records.txt" 2> "$WORK/harness.err"
  HS=$?
  DRV_ARGS="--exhaustive"
else
  RUST_BACKTRACE=0 timeout 600 "$TARGET/debug/vh-keys" "$SEED" "$COUNT" > "$WORK/records.txt" 2> "$WORK/harness.err"
  HS=$?
  DRV_ARGS=""
fi
if [ $HS -ne 0 ]; then echo "E harness exited with status $HS: $(head -c 400 "$WORK/harness.err" | tr '\n' ' ')"; fi
timeout 600 "$WORK/ocaml/keys_driver" $DRV_ARGS < "$WORK/records.txt" | tee "$WORK/result.txt"
DS=${PIPESTATUS[0]}
[ $HS -eq 0 ] && [ $DS -eq 0 ]
