(* keys_driver.ml -- differential driver for property C02.

   Reads the records printed by harness/vh-keys (see its header for the
   grammar) on stdin, computes the key with the code EXTRACTED from the Coq
   model (Keys_model, from coq/Extract.v) and compares it with the key the
   real library used.

   Output:
     V s<sid> ok | V s<sid> MISMATCH <what> model=<..> impl=<..>
     V p<pid> ok                       pair behaved (different tuples: 2 executions, 2 entries)
     V x<cp> ok | V x<cp> MISMATCH ... character table record
     (FL float records only feed the float_* statistics / E lines)
     F s<sid> collision ...            two different tuples of one signature, same real key
     F p<pid> collision ...            second call with a different tuple was a hit
     F p<pid> no-hit-on-equal ...      sanity: equal tuples must hit
     E ...                             malformed input / harness error
     STAT <name> <count>
   Exit status 0 iff there is no MISMATCH, F or E line.                      *)

module M = Keys_model

(* ---------- numbers ------------------------------------------------------- *)

let hex_digit c =
  match c with
  | '0' .. '9' -> Char.code c - 48
  | 'a' .. 'f' -> Char.code c - 87
  | 'A' .. 'F' -> Char.code c - 55
  | _ -> failwith "hex digit"

(* bits, most significant first, without leading zeros *)
let bits_of_hex (s : string) : bool list =
  let bits = ref [] in
  String.iter
    (fun c ->
      let d = hex_digit c in
      bits := !bits @ [ d land 8 <> 0; d land 4 <> 0; d land 2 <> 0; d land 1 <> 0 ])
    s;
  let rec strip = function false :: l -> strip l | l -> l in
  strip !bits

let n_of_hex (s : string) : M.n =
  match bits_of_hex s with
  | [] -> M.N0
  | _ :: rest ->
      M.Npos (List.fold_left (fun acc b -> if b then M.XI acc else M.XO acc) M.XH rest)

let z_of_hex (s : string) : M.z =
  let neg = String.length s > 0 && s.[0] = '-' in
  let body = if neg then String.sub s 1 (String.length s - 1) else s in
  match n_of_hex body with
  | M.N0 -> M.Z0
  | M.Npos p -> if neg then M.Zneg p else M.Zpos p

let rec int_of_pos = function
  | M.XH -> 1
  | M.XO p -> 2 * int_of_pos p
  | M.XI p -> (2 * int_of_pos p) + 1

let int_of_n = function M.N0 -> 0 | M.Npos p -> int_of_pos p
let n_of_int (i : int) : M.n = n_of_hex (Printf.sprintf "%x" i)
let codes_of_ascii (s : string) : M.n list =
  List.init (String.length s) (fun i -> n_of_int (Char.code s.[i]))

(* readable rendering of a code point list *)
let show (l : M.n list) : string =
  let b = Buffer.create 64 in
  List.iter
    (fun c ->
      let i = int_of_n c in
      if i >= 0x21 && i <= 0x7e && i <> 0x5c then Buffer.add_char b (Char.chr i)
      else Buffer.add_string b (Printf.sprintf "\\x{%x}" i))
    l;
  Buffer.contents b

(* ---------- token stream --------------------------------------------------- *)

type stream = { toks : string array; mutable pos : int }

let next st =
  if st.pos >= Array.length st.toks then failwith "unexpected end of record";
  let t = st.toks.(st.pos) in
  st.pos <- st.pos + 1;
  t

let next_int st = int_of_string (next st)
let rec times n f = if n <= 0 then [] else let x = f () in x :: times (n - 1) f
let read_cps st : M.n list = let n = next_int st in times n (fun () -> n_of_hex (next st))

type fl = { bits : string; text : M.n list }

(* values carry the float bits next to the rendered text so that injectivity
   of the rendering can be checked on the samples; the model only sees text *)
let floats_seen : (string, M.n list) Hashtbl.t = Hashtbl.create 64
let float_texts : (int list, string) Hashtbl.t = Hashtbl.create 64
let float_inj_violations = ref 0
let float_char_violations = ref 0

let note_float (f : fl) =
  let key = List.map int_of_n f.text in
  (match Hashtbl.find_opt float_texts key with
   | Some b when b <> f.bits -> incr float_inj_violations
   | Some _ -> ()
   | None -> Hashtbl.add float_texts key f.bits);
  Hashtbl.replace floats_seen f.bits f.text;
  if f.text = [] || not (List.for_all M.is_float_char f.text) then incr float_char_violations

let rec read_val st : M.n list M.val0 =
  match next st with
  | "I" -> M.VInt (z_of_hex (next st))
  | "B" -> M.VBool (next st = "1")
  | "C" -> M.VChar (n_of_hex (next st))
  | "S" -> M.VStr (read_cps st)
  | "F" ->
      let bits = next st in
      let text = read_cps st in
      note_float { bits; text };
      M.VFloat text
  | "T" -> let n = next_int st in M.VTuple (times n (fun () -> read_val st))
  | "N" -> M.VNone
  | "O" -> M.VSome (read_val st)
  | "L" -> let n = next_int st in M.VVec (times n (fun () -> read_val st))
  | "AU" -> let name = next st in M.VAdt (codes_of_ascii name, M.SUnit)
  | "AP" ->
      let name = next st in
      let n = next_int st in
      M.VAdt (codes_of_ascii name, M.STuple (times n (fun () -> read_val st)))
  | "AR" ->
      let name = next st in
      let n = next_int st in
      M.VAdt
        ( codes_of_ascii name,
          M.SNamed (times n (fun () -> let f = next st in (codes_of_ascii f, read_val st))) )
  | t -> failwith ("bad value tag " ^ t)

let rec read_ty st : M.ty =
  match next st with
  | "int" -> M.TInt
  | "bool" -> M.TBool
  | "char" -> M.TChar
  | "str" -> M.TStr
  | "float" -> M.TFloat
  | "tuple" -> let n = next_int st in M.TTuple (times n (fun () -> read_ty st))
  | "opt" -> M.TOpt (read_ty st)
  | "vec" -> M.TVec (read_ty st)
  | "adt" ->
      let n = next_int st in
      M.TAdt
        (times n (fun () ->
             let name = codes_of_ascii (next st) in
             let sh =
               match next st with
               | "unit" -> M.SUnit
               | "pos" -> let k = next_int st in M.STuple (times k (fun () -> read_ty st))
               | "rec" ->
                   let k = next_int st in
                   M.SNamed (times k (fun () -> let f = next st in (codes_of_ascii f, read_ty st)))
               | t -> failwith ("bad shape " ^ t)
             in
             (name, sh)))
  | t -> failwith ("bad type tag " ^ t)

let expect st s = let t = next st in if t <> s then failwith ("expected " ^ s ^ " got " ^ t)

(* ---------- statistics ----------------------------------------------------- *)

let stats : (string, int) Hashtbl.t = Hashtbl.create 64
let bump ?(by = 1) name =
  Hashtbl.replace stats name (by + Option.value ~default:0 (Hashtbl.find_opt stats name))

let adversarial =
  [ (0x7c, "bar"); (0x22, "dquote"); (0x27, "squote"); (0x5c, "backslash"); (0x2c, "comma");
    (0x28, "lparen"); (0x29, "rparen"); (0x20, "space"); (0x0a, "newline"); (0x09, "tab");
    (0x00, "nul"); (0x7f, "del"); (0xe9, "e_acute"); (0x301, "combining_acute");
    (0x200b, "zwsp"); (0x1f600, "emoji") ]

let validated : (int, unit) Hashtbl.t = Hashtbl.create 128
let outside_alphabet = ref 0

let note_cp (c : M.n) =
  if not (Hashtbl.mem validated (int_of_n c)) then incr outside_alphabet

let rec note_val (v : M.n list M.val0) =
  match v with
  | M.VInt z -> bump "values_int"; (match z with M.Zneg _ -> bump "values_int_negative" | _ -> ())
  | M.VBool _ -> bump "values_bool"
  | M.VChar c ->
      bump "values_char"; note_cp c;
      List.iter (fun (cp, nm) -> if int_of_n c = cp then bump ("chars_equal_" ^ nm)) adversarial
  | M.VStr s ->
      bump "values_str"; List.iter note_cp s;
      if s = [] then bump "strings_empty";
      let ints = List.map int_of_n s in
      List.iter (fun (cp, nm) -> if List.mem cp ints then bump ("strings_containing_" ^ nm)) adversarial
  | M.VFloat _ -> bump "values_float"
  | M.VTuple l -> bump "values_tuple"; List.iter note_val l
  | M.VNone -> bump "values_none"
  | M.VSome x -> bump "values_some"; note_val x
  | M.VVec l -> bump "values_vec"; if l = [] then bump "values_vec_empty"; List.iter note_val l
  | M.VAdt (_, sh) ->
      bump "values_adt";
      (match sh with
       | M.SUnit -> ()
       | M.STuple l -> List.iter note_val l
       | M.SNamed l -> List.iter (fun (_, x) -> note_val x) l)

(* ---------- main ----------------------------------------------------------- *)

type sg = { kind : string; recv_ty : M.ty option; arg_tys : M.ty list }
type sample = { sigid : string; recv : M.n list M.val0 option; args : M.n list M.val0 list; key : M.n list }

let sigs : (string, sg) Hashtbl.t = Hashtbl.create 64
let samples : (int, sample) Hashtbl.t = Hashtbl.create 4096
let by_key : (string * int list, int) Hashtbl.t = Hashtbl.create 4096
let bad = ref 0
let exhaustive = Array.length Sys.argv > 1 && Sys.argv.(1) = "--exhaustive"

let fail_line fmt = incr bad; Printf.printf fmt

let do_sig st =
  let id = next st in
  let kind = next st in
  expect st "R";
  let recv_ty = if next st = "1" then Some (read_ty st) else None in
  expect st "A";
  let n = next_int st in
  let arg_tys = times n (fun () -> read_ty st) in
  Hashtbl.replace sigs id { kind; recv_ty; arg_tys };
  bump "signatures";
  bump ("signatures_" ^ kind);
  if recv_ty <> None then bump "signatures_with_receiver";
  bump (Printf.sprintf "signatures_arity_%d" n)

let do_sample st =
  let sid = next_int st in
  let sigid = next st in
  expect st "R";
  let recv = if next st = "1" then Some (read_val st) else None in
  expect st "A";
  let n = next_int st in
  let args = times n (fun () -> read_val st) in
  expect st "K";
  let key = read_cps st in
  let sg = try Hashtbl.find sigs sigid with Not_found -> failwith ("unknown signature " ^ sigid) in
  Hashtbl.replace samples sid { sigid; recv; args; key };
  bump "samples";
  bump ("samples_sig_" ^ sigid);
  bump ("samples_" ^ sg.kind);
  Option.iter note_val recv;
  List.iter note_val args;
  (* 1. the sample satisfies the theorem's typing premise *)
  if not (M.sig_ok sg.recv_ty sg.arg_tys recv args) then
    fail_line "V s%d MISMATCH ill-typed sample for signature %s\n" sid sigid
  else begin
    (* 2. model key = real key, for the generator this signature uses *)
    let model =
      if sg.kind = "async" then M.key_async M.fdbg_text M.printable_concrete recv args
      else M.key_sync M.fdbg_text M.printable_concrete recv args
    in
    if model <> key then
      fail_line "V s%d MISMATCH key sig=%s model=%s impl=%s\n" sid sigid (show model) (show key)
    else begin
      (* 3. the verified parser reads the real key back to the arguments *)
      let parts = (match recv with Some r -> [ r ] | None -> []) @ args in
      match M.parse_key sg.recv_ty sg.arg_tys key with
      | Some vs when vs = parts -> Printf.printf "V s%d ok\n" sid
      | _ -> fail_line "V s%d MISMATCH parse_key does not invert the real key %s\n" sid (show key)
    end
  end;
  (* 4. no two different tuples of one signature share a real key *)
  let k = (sigid, List.map int_of_n key) in
  match Hashtbl.find_opt by_key k with
  | None -> Hashtbl.add by_key k sid
  | Some other ->
      let o = Hashtbl.find samples other in
      if o.recv <> recv || o.args <> args then
        fail_line "F s%d collision different tuples, same real key as s%d sig=%s key=%s\n" sid other
          sigid (show key)

let do_pair st =
  let pid = next_int st in
  let sigid = next st in
  let sa = next_int st in
  let sb = next_int st in
  let execs = next_int st in
  let nkeys = next_int st in
  match (Hashtbl.find_opt samples sa, Hashtbl.find_opt samples sb) with
  | Some a, Some b ->
      bump "pairs";
      let same = a.recv = b.recv && a.args = b.args in
      if same then begin
        bump "pairs_equal_tuples";
        if execs = 1 && nkeys = 1 then Printf.printf "V p%d ok\n" pid
        else
          fail_line "F p%d no-hit-on-equal sig=%s execs=%d entries=%d key=%s\n" pid sigid execs nkeys
            (show a.key)
      end
      else begin
        bump "pairs_different_tuples";
        if execs = 2 && nkeys = 2 && a.key <> b.key then Printf.printf "V p%d ok\n" pid
        else
          fail_line
            "F p%d collision different tuples shared an entry sig=%s execs=%d entries=%d keyA=%s keyB=%s\n"
            pid sigid execs nkeys (show a.key) (show b.key)
      end
  | _ -> fail_line "E pair %d refers to a missing sample\n" pid

let yes _ = true
let no _ = false

let do_char st =
  let c = n_of_hex (next st) in
  let ic = int_of_n c in
  let impl_c = read_cps st in
  let impl_s = read_cps st in
  bump "char_records";
  let dc p = M.dbg M.fdbg_text p (M.VChar c) in
  let ds p = M.dbg M.fdbg_text p (M.VStr [ c ]) in
  (* shape: whatever Rust's tables say, the rendering is one of the two the model allows *)
  let decide impl t f = if impl = t then (if t = f then None else Some true) else if impl = f then Some false else raise Exit in
  match (decide impl_c (dc yes) (dc no), decide impl_s (ds yes) (ds no)) with
  | exception Exit ->
      fail_line "V x%x MISMATCH shape char=%s str=%s\n" ic (show impl_c) (show impl_s)
  | dchar, dstr ->
      let rust =
        match (dchar, dstr) with
        | Some a, Some b when a <> b -> None
        | Some a, _ -> Some (Some a)
        | None, Some b -> Some (Some b)
        | None, None -> Some None
      in
      (match rust with
       | None -> fail_line "V x%x MISMATCH char and str disagree on printability\n" ic
       | Some r ->
           (match r with Some true -> bump "char_records_printable" | Some false -> bump "char_records_escaped_unicode" | None -> bump "char_records_special_escape");
           let agrees = match r with None -> true | Some b -> M.printable_concrete c = b in
           if exhaustive then begin
             (* the concrete table is only claimed on the harness alphabet *)
             if agrees then Hashtbl.replace validated ic ()
             else bump "exhaustive_outside_concrete_table"
           end
           else begin
             Hashtbl.replace validated ic ();
             if agrees then Printf.printf "V x%x ok\n" ic
             else
               fail_line "V x%x MISMATCH printable table: model says %b, Rust renders char=%s str=%s\n" ic
                 (M.printable_concrete c) (show impl_c) (show impl_s)
           end)

let () =
  (try
     while true do
       let line = input_line stdin in
       if line <> "" then begin
         let st = { toks = Array.of_list (String.split_on_char ' ' line); pos = 0 } in
         try
           match next st with
           | "SIG" -> do_sig st
           | "S" -> do_sample st
           | "P" -> do_pair st
           | "X" -> do_char st
           | "FL" ->
               let bits = next st in
               let text = read_cps st in
               bump "float_records";
               note_float { bits; text }
           | "E" -> fail_line "E harness: %s\n" line
           | t -> fail_line "E unknown record %s\n" t
         with Failure m | Invalid_argument m -> fail_line "E malformed record (%s): %s\n" m (String.sub line 0 (min 120 (String.length line)))
       end
     done
   with End_of_file -> ());
  (* every signature must have been sampled *)
  Hashtbl.iter
    (fun id _ -> if not exhaustive && not (Hashtbl.mem stats ("samples_sig_" ^ id)) then bump "signatures_without_samples")
    sigs;
  bump ~by:!outside_alphabet "chars_outside_validated_alphabet";
  bump ~by:!float_inj_violations "float_rendering_injectivity_violations";
  bump ~by:!float_char_violations "float_rendering_alphabet_violations";
  bump ~by:(Hashtbl.length floats_seen) "distinct_float_values";
  if !outside_alphabet > 0 then fail_line "E %d generated characters are outside the validated alphabet\n" !outside_alphabet;
  if !float_inj_violations > 0 then fail_line "E float rendering not injective on the samples (%d)\n" !float_inj_violations;
  if !float_char_violations > 0 then fail_line "E float rendering outside [0-9A-Za-z.+-] (%d)\n" !float_char_violations;
  bump ~by:!bad "failures";
  let names = Hashtbl.fold (fun k _ acc -> k :: acc) stats [] |> List.sort compare in
  List.iter (fun k -> Printf.printf "STAT %s %d\n" k (Hashtbl.find stats k)) names;
  exit (if !bad = 0 then 0 else 1)
