//! vh-keys: differential harness for cachelito's cache-key generation (C02).
//!
//! For a set of `#[cache]` / `#[cache_async]` functions and methods it
//! generates random (adversarial) typed argument tuples, calls the real
//! function and reads the REAL key back through the public conditional
//! invalidation API (`cachelito::invalidate_with(name, |k| { record(k); false })`),
//! i.e. without any hook in the library.  Output (stdout), one record per line,
//! consumed by ocaml/keys_driver.ml:
//!
//!   SIG <sigid> <sync|async> R <0|1> [ty] A <n> ty*n
//!   S <sid> <sigid> R <0|1> [val] A <n> val*n K <n> <hex cp>*n
//!   P <pid> <sigid> <sidA> <sidB> <execs> <nkeys>
//!   X <hex cp> <n> <hex>*n <m> <hex>*m        (Debug of char c, of the string "c")
//!   FL <bits hex> <n> <hex>*n                 (Debug of an f64, for the float hypotheses)
//!   E <text>                                  (harness-level error)
//!
//!   ty  ::= int | bool | char | str | float | tuple <n> ty*n | opt ty | vec ty
//!         | adt <n> (<name> (unit | pos <n> ty*n | rec <n> (<fname> ty)*n))*n
//!   val ::= I <[-]hex> | B <0|1> | C <hex> | S <n> <hex>*n | F <bits> <n> <hex>*n
//!         | T <n> val*n | N | O val | L <n> val*n
//!         | AU <name> | AP <name> <n> val*n | AR <name> <n> (<fname> val)*n

#![allow(non_camel_case_types, dead_code, clippy::all)]

use cachelito::cache;
use cachelito_async::cache_async;
use cachelito_core::DefaultCacheableKey;
use std::cell::RefCell;
use std::fmt::Write as _;
use std::io::Write as _;
use std::sync::atomic::{AtomicU64, Ordering};

// ---------------------------------------------------------------------------
// execution counter: every cached body bumps it, so a hit is "no bump"
// ---------------------------------------------------------------------------
static EXEC: AtomicU64 = AtomicU64::new(0);
fn bump() -> u64 {
    EXEC.fetch_add(1, Ordering::SeqCst) + 1
}

// ---------------------------------------------------------------------------
// user types with derived Debug
// ---------------------------------------------------------------------------
#[derive(Debug, Clone, PartialEq)]
pub struct Point {
    pub x: i64,
    pub label: String,
}
#[derive(Debug, Clone, PartialEq)]
pub struct Pair(pub String, pub i64);
#[derive(Debug, Clone, PartialEq)]
pub struct Marker;
#[derive(Debug, Clone, PartialEq)]
pub enum Shape {
    Empty,
    Circle(i64),
    Rect { w: i64, h: i64 },
    Label(String, char),
    Deep { name: String, inner: Option<(String, Vec<i64>)> },
}
#[derive(Debug, Clone, PartialEq)]
pub enum Tag {
    A,
    AB,
    Ab(i64),
    A_b { a: String },
}
/// unit variants whose names continue the names of `Tag`'s: Tag::A + Rest::BC reads like Tag::AB + Rest::C
#[derive(Debug, Clone, PartialEq)]
pub enum Rest {
    B,
    BC,
    C,
}
#[derive(Debug, Clone, PartialEq)]
pub struct Svc {
    pub id: i64,
    pub tag: String,
}
#[derive(Debug, Clone, Copy, PartialEq)]
pub struct Small(pub u8, pub bool);

impl DefaultCacheableKey for Point {}
impl DefaultCacheableKey for Pair {}
impl DefaultCacheableKey for Marker {}
impl DefaultCacheableKey for Shape {}
impl DefaultCacheableKey for Tag {}
impl DefaultCacheableKey for Rest {}
impl DefaultCacheableKey for Svc {}
impl DefaultCacheableKey for Small {}

// ---------------------------------------------------------------------------
// cached functions: sync generator (generate_key_expr_with_cacheable_key)
// ---------------------------------------------------------------------------
#[cache] fn s0() -> u64 { bump() }
#[cache] fn s_i64(a: i64) -> u64 { let _ = a; bump() }
#[cache] fn s_u8(a: u8) -> u64 { let _ = a; bump() }
#[cache] fn s_i128(a: i128) -> u64 { let _ = a; bump() }
#[cache] fn s_usize(a: usize) -> u64 { let _ = a; bump() }
#[cache] fn s_bool(a: bool) -> u64 { let _ = a; bump() }
#[cache] fn s_char(a: char) -> u64 { let _ = a; bump() }
#[cache] fn s_string(a: String) -> u64 { let _ = a; bump() }
#[cache] fn s_str(a: &str) -> u64 { let _ = a; bump() }
#[cache] fn s_f64(a: f64) -> u64 { let _ = a; bump() }
#[cache] fn s_str2(a: &str, b: String) -> u64 { let _ = (a, b); bump() }
#[cache] fn s_i2(a: i64, b: i64) -> u64 { let _ = (a, b); bump() }
#[cache] fn s_tup2(a: (String, i64)) -> u64 { let _ = a; bump() }
#[cache] fn s_tup1(a: (i64,)) -> u64 { let _ = a; bump() }
#[cache] fn s_opt(a: Option<String>) -> u64 { let _ = a; bump() }
#[cache] fn s_vec(a: Vec<i64>) -> u64 { let _ = a; bump() }
#[cache] fn s_slice(a: &[String]) -> u64 { let _ = a; bump() }
#[cache] fn s_nested(a: Vec<Option<(String, i64)>>) -> u64 { let _ = a; bump() }
#[cache] fn s_3(a: String, b: i64, c: bool) -> u64 { let _ = (a, b, c); bump() }
#[cache] fn s_4(a: char, b: &str, c: Option<i64>, d: (bool, char)) -> u64 { let _ = (a, b, c, d); bump() }
#[cache] fn s_5(a: String, b: String, c: i64, d: Vec<String>, e: f64) -> u64 { let _ = (a, b, c, d, e); bump() }
#[cache] fn s_struct(a: Point) -> u64 { let _ = a; bump() }
#[cache] fn s_tstruct(a: Pair, b: String) -> u64 { let _ = (a, b); bump() }
#[cache] fn s_enum(a: Shape) -> u64 { let _ = a; bump() }
#[cache] fn s_tag(a: Tag, b: Tag) -> u64 { let _ = (a, b); bump() }
#[cache] fn s_marker(a: Marker, b: i64) -> u64 { let _ = (a, b); bump() }
#[cache] fn s_vecvec(a: Vec<Vec<String>>) -> u64 { let _ = a; bump() }
#[cache] fn s_optopt(a: Option<Option<bool>>, b: Option<char>) -> u64 { let _ = (a, b); bump() }
#[cache] fn s_chars(a: char, b: char) -> u64 { let _ = (a, b); bump() }
#[cache] fn s_tup5(a: (String, char, i64, bool, Option<String>)) -> u64 { let _ = a; bump() }

#[cache] fn s_tags(a: Tag, b: Rest) -> u64 { let _ = (a, b); bump() }
#[cache] fn s_i3(a: u8, b: i64, c: u8) -> u64 { let _ = (a, b, c); bump() }
// parameter names a generated local could capture
#[cache] fn s_names(key: i64, result: i64, part: i64, parts: i64, cache: i64) -> u64 { let _ = (key, result, part, parts, cache); bump() }
#[cache] fn s_names2(order: i64, value: i64, entry: i64, now: i64, k: i64) -> u64 { let _ = (order, value, entry, now, k); bump() }
impl Tag {
    #[cache] fn m_tag(&self, r: Rest) -> u64 { let _ = r; bump() }
    #[cache] fn m_tag_by_value(self, r: Rest, k: i64) -> u64 { let _ = (r, k); bump() }
}
impl Svc {
    #[cache] fn m_self(&self) -> u64 { bump() }
    #[cache] fn m_self_args(&self, a: String, b: i64) -> u64 { let _ = (a, b); bump() }
}
impl Shape {
    #[cache] fn m_shape(&self, k: i64) -> u64 { let _ = k; bump() }
}
impl Pair {
    #[cache] fn m_pair(&self, s: &str) -> u64 { let _ = s; bump() }
}
impl Small {
    // by-value receiver
    #[cache] fn m_small(self, k: &str) -> u64 { let _ = k; bump() }
}

// ---------------------------------------------------------------------------
// cached functions: async generator (generate_key_expr)
// ---------------------------------------------------------------------------
#[cache_async] async fn a0() -> u64 { bump() }
#[cache_async] async fn a_i64(a: i64) -> u64 { let _ = a; bump() }
#[cache_async] async fn a_str2(a: String, b: String) -> u64 { let _ = (a, b); bump() }
#[cache_async] async fn a_tup(a: (String, (i64, char))) -> u64 { let _ = a; bump() }
#[cache_async] async fn a_unit(a: (), b: i64) -> u64 { let _ = (a, b); bump() }
#[cache_async] async fn a_nested(a: Vec<Option<(String, i64)>>) -> u64 { let _ = a; bump() }
#[cache_async] async fn a_struct(a: Point, b: String) -> u64 { let _ = (a, b); bump() }
#[cache_async] async fn a_enum(a: Shape) -> u64 { let _ = a; bump() }
#[cache_async] async fn a_f2(a: f64, b: f64) -> u64 { let _ = (a, b); bump() }
#[cache_async] async fn a_chars(a: char, b: char, c: String) -> u64 { let _ = (a, b, c); bump() }
#[cache_async] async fn a_5(a: String, b: Option<String>, c: Vec<char>, d: bool, e: i128) -> u64 { let _ = (a, b, c, d, e); bump() }
#[cache_async] async fn a_i2(a: i64, b: i64) -> u64 { let _ = (a, b); bump() }
#[cache_async] async fn a_i3(a: u8, b: i64, c: u8) -> u64 { let _ = (a, b, c); bump() }
#[cache_async] async fn a_tags(a: Tag, b: Rest) -> u64 { let _ = (a, b); bump() }
#[cache_async] async fn a_names(key: i64, result: i64, part: i64, parts: i64, cache: i64) -> u64 { let _ = (key, result, part, parts, cache); bump() }
#[cache_async] async fn a_names2(order: i64, value: i64, entry: i64, now: i64, k: i64) -> u64 { let _ = (order, value, entry, now, k); bump() }
impl Tag {
    #[cache_async] async fn am_tag(&self, r: Rest) -> u64 { let _ = r; bump() }
    #[cache_async] async fn am_tag2(&self, r: Rest, k: i64) -> u64 { let _ = (r, k); bump() }
}
impl Svc {
    #[cache_async] async fn am_self(&self) -> u64 { bump() }
    #[cache_async] async fn am_self_args(&self, a: String, b: Vec<i64>) -> u64 { let _ = (a, b); bump() }
}

fn block_on<F: std::future::Future>(f: F) -> F::Output {
    let mut f = std::pin::pin!(f);
    let w = std::task::Waker::noop();
    let mut cx = std::task::Context::from_waker(w);
    loop {
        if let std::task::Poll::Ready(v) = f.as_mut().poll(&mut cx) {
            return v;
        }
    }
}

// ---------------------------------------------------------------------------
// untyped values / types (mirror of the Coq val / ty)
// ---------------------------------------------------------------------------
#[derive(Clone, Debug, PartialEq)]
enum V {
    I(i128),
    B(bool),
    C(char),
    S(String),
    F(u64),
    T(Vec<V>),
    N,
    O(Box<V>),
    L(Vec<V>),
    AU(&'static str),
    AP(&'static str, Vec<V>),
    AR(&'static str, Vec<(&'static str, V)>),
}

#[derive(Clone, Debug)]
enum TShape {
    Unit,
    Pos(Vec<Ty>),
    Rec(Vec<(&'static str, Ty)>),
}

#[derive(Clone, Debug)]
enum Ty {
    Int(i128, i128),
    Bool,
    Char,
    Str,
    Float,
    Tuple(Vec<Ty>),
    Opt(Box<Ty>),
    Vec(Box<Ty>),
    Adt(Vec<(&'static str, TShape)>),
}

trait Arg: Sized {
    fn ty() -> Ty;
    fn from_v(v: &V) -> Self;
}
fn get<T: Arg>(v: &V) -> T {
    T::from_v(v)
}

macro_rules! int_arg {
    ($($t:ty),*) => {$(
        impl Arg for $t {
            fn ty() -> Ty { Ty::Int(<$t>::MIN as i128, <$t>::MAX as i128) }
            fn from_v(v: &V) -> Self {
                match v { V::I(z) => <$t>::try_from(*z).expect("int range"), _ => panic!("not int: {:?}", v) }
            }
        }
    )*};
}
int_arg!(i64, u8, i128, usize, i32, u64);

impl Arg for bool {
    fn ty() -> Ty { Ty::Bool }
    fn from_v(v: &V) -> Self { match v { V::B(b) => *b, _ => panic!("not bool") } }
}
impl Arg for char {
    fn ty() -> Ty { Ty::Char }
    fn from_v(v: &V) -> Self { match v { V::C(c) => *c, _ => panic!("not char") } }
}
impl Arg for String {
    fn ty() -> Ty { Ty::Str }
    fn from_v(v: &V) -> Self { match v { V::S(s) => s.clone(), _ => panic!("not str") } }
}
impl Arg for f64 {
    fn ty() -> Ty { Ty::Float }
    fn from_v(v: &V) -> Self { match v { V::F(b) => f64::from_bits(*b), _ => panic!("not float") } }
}
impl Arg for () {
    fn ty() -> Ty { Ty::Tuple(vec![]) }
    fn from_v(v: &V) -> Self { match v { V::T(x) if x.is_empty() => (), _ => panic!("not unit") } }
}
macro_rules! tuple_arg {
    ($($n:tt $t:ident),+) => {
        impl<$($t: Arg),+> Arg for ($($t,)+) {
            fn ty() -> Ty { Ty::Tuple(vec![$($t::ty()),+]) }
            fn from_v(v: &V) -> Self {
                match v { V::T(x) => ($($t::from_v(&x[$n]),)+), _ => panic!("not tuple") }
            }
        }
    };
}
tuple_arg!(0 A);
tuple_arg!(0 A, 1 B);
tuple_arg!(0 A, 1 B, 2 C);
tuple_arg!(0 A, 1 B, 2 C, 3 D);
tuple_arg!(0 A, 1 B, 2 C, 3 D, 4 E);
impl<T: Arg> Arg for Option<T> {
    fn ty() -> Ty { Ty::Opt(Box::new(T::ty())) }
    fn from_v(v: &V) -> Self {
        match v { V::N => None, V::O(x) => Some(T::from_v(x)), _ => panic!("not option") }
    }
}
impl<T: Arg> Arg for Vec<T> {
    fn ty() -> Ty { Ty::Vec(Box::new(T::ty())) }
    fn from_v(v: &V) -> Self {
        match v { V::L(x) => x.iter().map(T::from_v).collect(), _ => panic!("not vec") }
    }
}

impl Arg for Point {
    fn ty() -> Ty { Ty::Adt(vec![("Point", TShape::Rec(vec![("x", i64::ty()), ("label", String::ty())]))]) }
    fn from_v(v: &V) -> Self {
        match v { V::AR("Point", f) => Point { x: get(&f[0].1), label: get(&f[1].1) }, _ => panic!("not Point") }
    }
}
impl Arg for Pair {
    fn ty() -> Ty { Ty::Adt(vec![("Pair", TShape::Pos(vec![String::ty(), i64::ty()]))]) }
    fn from_v(v: &V) -> Self {
        match v { V::AP("Pair", f) => Pair(get(&f[0]), get(&f[1])), _ => panic!("not Pair") }
    }
}
impl Arg for Marker {
    fn ty() -> Ty { Ty::Adt(vec![("Marker", TShape::Unit)]) }
    fn from_v(v: &V) -> Self { match v { V::AU("Marker") => Marker, _ => panic!("not Marker") } }
}
impl Arg for Svc {
    fn ty() -> Ty { Ty::Adt(vec![("Svc", TShape::Rec(vec![("id", i64::ty()), ("tag", String::ty())]))]) }
    fn from_v(v: &V) -> Self {
        match v { V::AR("Svc", f) => Svc { id: get(&f[0].1), tag: get(&f[1].1) }, _ => panic!("not Svc") }
    }
}
impl Arg for Small {
    fn ty() -> Ty { Ty::Adt(vec![("Small", TShape::Pos(vec![u8::ty(), bool::ty()]))]) }
    fn from_v(v: &V) -> Self {
        match v { V::AP("Small", f) => Small(get(&f[0]), get(&f[1])), _ => panic!("not Small") }
    }
}
impl Arg for Shape {
    fn ty() -> Ty {
        Ty::Adt(vec![
            ("Empty", TShape::Unit),
            ("Circle", TShape::Pos(vec![i64::ty()])),
            ("Rect", TShape::Rec(vec![("w", i64::ty()), ("h", i64::ty())])),
            ("Label", TShape::Pos(vec![String::ty(), char::ty()])),
            ("Deep", TShape::Rec(vec![("name", String::ty()), ("inner", <Option<(String, Vec<i64>)>>::ty())])),
        ])
    }
    fn from_v(v: &V) -> Self {
        match v {
            V::AU("Empty") => Shape::Empty,
            V::AP("Circle", f) => Shape::Circle(get(&f[0])),
            V::AR("Rect", f) => Shape::Rect { w: get(&f[0].1), h: get(&f[1].1) },
            V::AP("Label", f) => Shape::Label(get(&f[0]), get(&f[1])),
            V::AR("Deep", f) => Shape::Deep { name: get(&f[0].1), inner: get(&f[1].1) },
            _ => panic!("not Shape"),
        }
    }
}
impl Arg for Tag {
    fn ty() -> Ty {
        Ty::Adt(vec![
            ("A", TShape::Unit),
            ("AB", TShape::Unit),
            ("Ab", TShape::Pos(vec![i64::ty()])),
            ("A_b", TShape::Rec(vec![("a", String::ty())])),
        ])
    }
    fn from_v(v: &V) -> Self {
        match v {
            V::AU("A") => Tag::A,
            V::AU("AB") => Tag::AB,
            V::AP("Ab", f) => Tag::Ab(get(&f[0])),
            V::AR("A_b", f) => Tag::A_b { a: get(&f[0].1) },
            _ => panic!("not Tag"),
        }
    }
}

impl Arg for Rest {
    fn ty() -> Ty { Ty::Adt(vec![("B", TShape::Unit), ("BC", TShape::Unit), ("C", TShape::Unit)]) }
    fn from_v(v: &V) -> Self {
        match v { V::AU("B") => Rest::B, V::AU("BC") => Rest::BC, V::AU("C") => Rest::C, _ => panic!("not Rest") }
    }
}

// ---------------------------------------------------------------------------
// signatures
// ---------------------------------------------------------------------------
struct Sig {
    id: &'static str,
    name: &'static str, // cache name = function identifier
    is_async: bool,
    recv: Option<Ty>,
    args: Vec<Ty>,
    call: Box<dyn Fn(Option<&V>, &[V]) -> u64>,
}

fn sigs() -> Vec<Sig> {
    let mut v: Vec<Sig> = Vec::new();
    macro_rules! free {
        ($asy:expr, $name:ident, [$($t:ty),*], |$a:ident| $call:expr) => {
            v.push(Sig {
                id: stringify!($name), name: stringify!($name), is_async: $asy, recv: None,
                args: vec![$(<$t as Arg>::ty()),*],
                call: Box::new(|_r: Option<&V>, $a: &[V]| { let _ = $a; $call }),
            });
        };
    }
    macro_rules! meth {
        ($asy:expr, $name:ident, $rt:ty, [$($t:ty),*], |$r:ident, $a:ident| $call:expr) => {
            v.push(Sig {
                id: stringify!($name), name: stringify!($name), is_async: $asy,
                recv: Some(<$rt as Arg>::ty()),
                args: vec![$(<$t as Arg>::ty()),*],
                call: Box::new(|r: Option<&V>, $a: &[V]| { let _ = $a; let $r: $rt = get(r.expect("receiver")); $call }),
            });
        };
    }
    free!(false, s0, [], |a| s0());
    free!(false, s_i64, [i64], |a| s_i64(get(&a[0])));
    free!(false, s_u8, [u8], |a| s_u8(get(&a[0])));
    free!(false, s_i128, [i128], |a| s_i128(get(&a[0])));
    free!(false, s_usize, [usize], |a| s_usize(get(&a[0])));
    free!(false, s_bool, [bool], |a| s_bool(get(&a[0])));
    free!(false, s_char, [char], |a| s_char(get(&a[0])));
    free!(false, s_string, [String], |a| s_string(get(&a[0])));
    free!(false, s_str, [String], |a| s_str(&get::<String>(&a[0])));
    free!(false, s_f64, [f64], |a| s_f64(get(&a[0])));
    free!(false, s_str2, [String, String], |a| s_str2(&get::<String>(&a[0]), get(&a[1])));
    free!(false, s_i2, [i64, i64], |a| s_i2(get(&a[0]), get(&a[1])));
    free!(false, s_tup2, [(String, i64)], |a| s_tup2(get(&a[0])));
    free!(false, s_tup1, [(i64,)], |a| s_tup1(get(&a[0])));
    free!(false, s_opt, [Option<String>], |a| s_opt(get(&a[0])));
    free!(false, s_vec, [Vec<i64>], |a| s_vec(get(&a[0])));
    free!(false, s_slice, [Vec<String>], |a| s_slice(&get::<Vec<String>>(&a[0])));
    free!(false, s_nested, [Vec<Option<(String, i64)>>], |a| s_nested(get(&a[0])));
    free!(false, s_3, [String, i64, bool], |a| s_3(get(&a[0]), get(&a[1]), get(&a[2])));
    free!(false, s_4, [char, String, Option<i64>, (bool, char)],
          |a| s_4(get(&a[0]), &get::<String>(&a[1]), get(&a[2]), get(&a[3])));
    free!(false, s_5, [String, String, i64, Vec<String>, f64],
          |a| s_5(get(&a[0]), get(&a[1]), get(&a[2]), get(&a[3]), get(&a[4])));
    free!(false, s_struct, [Point], |a| s_struct(get(&a[0])));
    free!(false, s_tstruct, [Pair, String], |a| s_tstruct(get(&a[0]), get(&a[1])));
    free!(false, s_enum, [Shape], |a| s_enum(get(&a[0])));
    free!(false, s_tag, [Tag, Tag], |a| s_tag(get(&a[0]), get(&a[1])));
    free!(false, s_marker, [Marker, i64], |a| s_marker(get(&a[0]), get(&a[1])));
    free!(false, s_vecvec, [Vec<Vec<String>>], |a| s_vecvec(get(&a[0])));
    free!(false, s_optopt, [Option<Option<bool>>, Option<char>], |a| s_optopt(get(&a[0]), get(&a[1])));
    free!(false, s_chars, [char, char], |a| s_chars(get(&a[0]), get(&a[1])));
    free!(false, s_tup5, [(String, char, i64, bool, Option<String>)], |a| s_tup5(get(&a[0])));
    free!(false, s_tags, [Tag, Rest], |a| s_tags(get(&a[0]), get(&a[1])));
    free!(false, s_i3, [u8, i64, u8], |a| s_i3(get(&a[0]), get(&a[1]), get(&a[2])));
    free!(false, s_names, [i64, i64, i64, i64, i64], |a| s_names(get(&a[0]), get(&a[1]), get(&a[2]), get(&a[3]), get(&a[4])));
    free!(false, s_names2, [i64, i64, i64, i64, i64], |a| s_names2(get(&a[0]), get(&a[1]), get(&a[2]), get(&a[3]), get(&a[4])));
    meth!(false, m_tag, Tag, [Rest], |r, a| r.m_tag(get(&a[0])));
    meth!(false, m_tag_by_value, Tag, [Rest, i64], |r, a| r.m_tag_by_value(get(&a[0]), get(&a[1])));
    meth!(false, m_self, Svc, [], |r, a| r.m_self());
    meth!(false, m_self_args, Svc, [String, i64], |r, a| r.m_self_args(get(&a[0]), get(&a[1])));
    meth!(false, m_shape, Shape, [i64], |r, a| r.m_shape(get(&a[0])));
    meth!(false, m_pair, Pair, [String], |r, a| r.m_pair(&get::<String>(&a[0])));
    meth!(false, m_small, Small, [String], |r, a| r.m_small(&get::<String>(&a[0])));

    free!(true, a0, [], |a| block_on(a0()));
    free!(true, a_i64, [i64], |a| block_on(a_i64(get(&a[0]))));
    free!(true, a_str2, [String, String], |a| block_on(a_str2(get(&a[0]), get(&a[1]))));
    free!(true, a_tup, [(String, (i64, char))], |a| block_on(a_tup(get(&a[0]))));
    free!(true, a_unit, [(), i64], |a| block_on(a_unit(get(&a[0]), get(&a[1]))));
    free!(true, a_nested, [Vec<Option<(String, i64)>>], |a| block_on(a_nested(get(&a[0]))));
    free!(true, a_struct, [Point, String], |a| block_on(a_struct(get(&a[0]), get(&a[1]))));
    free!(true, a_enum, [Shape], |a| block_on(a_enum(get(&a[0]))));
    free!(true, a_f2, [f64, f64], |a| block_on(a_f2(get(&a[0]), get(&a[1]))));
    free!(true, a_chars, [char, char, String], |a| block_on(a_chars(get(&a[0]), get(&a[1]), get(&a[2]))));
    free!(true, a_5, [String, Option<String>, Vec<char>, bool, i128],
          |a| block_on(a_5(get(&a[0]), get(&a[1]), get(&a[2]), get(&a[3]), get(&a[4]))));
    free!(true, a_i2, [i64, i64], |a| block_on(a_i2(get(&a[0]), get(&a[1]))));
    free!(true, a_i3, [u8, i64, u8], |a| block_on(a_i3(get(&a[0]), get(&a[1]), get(&a[2]))));
    free!(true, a_tags, [Tag, Rest], |a| block_on(a_tags(get(&a[0]), get(&a[1]))));
    free!(true, a_names, [i64, i64, i64, i64, i64], |a| block_on(a_names(get(&a[0]), get(&a[1]), get(&a[2]), get(&a[3]), get(&a[4]))));
    free!(true, a_names2, [i64, i64, i64, i64, i64], |a| block_on(a_names2(get(&a[0]), get(&a[1]), get(&a[2]), get(&a[3]), get(&a[4]))));
    meth!(true, am_tag, Tag, [Rest], |r, a| block_on(r.am_tag(get(&a[0]))));
    meth!(true, am_tag2, Tag, [Rest, i64], |r, a| block_on(r.am_tag2(get(&a[0]), get(&a[1]))));
    meth!(true, am_self, Svc, [], |r, a| block_on(r.am_self()));
    meth!(true, am_self_args, Svc, [String, Vec<i64>], |r, a| block_on(r.am_self_args(get(&a[0]), get(&a[1]))));
    v
}

// ---------------------------------------------------------------------------
// random generation (splitmix64)
// ---------------------------------------------------------------------------
struct Rng(u64);
impl Rng {
    fn next(&mut self) -> u64 {
        self.0 = self.0.wrapping_add(0x9E3779B97F4A7C15);
        let mut z = self.0;
        z = (z ^ (z >> 30)).wrapping_mul(0xBF58476D1CE4E5B9);
        z = (z ^ (z >> 27)).wrapping_mul(0x94D049BB133111EB);
        z ^ (z >> 31)
    }
    fn below(&mut self, n: u64) -> u64 { self.next() % n }
    fn chance(&mut self, num: u64, den: u64) -> bool { self.below(den) < num }
    fn pick<'a, T>(&mut self, xs: &'a [T]) -> &'a T { &xs[self.below(xs.len() as u64) as usize] }
}

/// The alphabet.  Every character generated by this harness is ASCII or comes
/// from here; the OCaml driver checks each of them against the model's concrete
/// `printable` table (X records) and rejects samples using anything else.
const ALPHABET: &[char] = &[
    // separators and syntax of the key / Debug grammar
    '|', '"', '\'', '\\', ',', '(', ')', '[', ']', '{', '}', ':', ' ', '-', '+', '.', '_', '#', '~',
    // escapes
    '\n', '\t', '\r', '\0', '\u{1}', '\u{8}', '\u{b}', '\u{c}', '\u{1b}', '\u{1f}', '\u{7f}',
    // letters and digits (also the ones used by escapes and keywords)
    '0', '1', '2', '3', '9', 'a', 'b', 'e', 'f', 'n', 'r', 't', 'u', 'x', 'N', 'S', 'o', 'm', 'E', 'i',
    // printable non-ASCII
    '\u{a1}', '\u{e9}', '\u{df}', '\u{3bb}', '\u{416}', '\u{20ac}', '\u{4e2d}', '\u{ff0d}', '\u{ff5c}',
    '\u{1f600}', '\u{1d11e}', '\u{fffd}',
    // escaped non-ASCII: C1 controls, format characters, combining marks (Grapheme_Extend),
    // separators, private use, noncharacters, unassigned
    '\u{80}', '\u{9f}', '\u{a0}', '\u{ad}', '\u{301}', '\u{200b}', '\u{200d}', '\u{2028}', '\u{feff}',
    '\u{e000}', '\u{e0001}', '\u{10ffff}', '\u{378}', '\u{d7ff}', '\u{20dd}', '\u{3000}', '\u{fe0f}',
];

/// Fragments that imitate the syntax of keys and of Debug output.
const FRAGMENTS: &[&str] = &[
    "|", "\"|\"", "\", \"", "\\", "\\\"", "\\\\", "', '", "Some(", "None", ")", "(", ", ", "[", "]",
    "\\u{301}", "\\u{7c}", "\\n", "\\0", "\\'", "{ ", " }", ": ", "1|2", "-", "true", "e\u{301}",
    "a\u{200b}b", "\"", "'", "''", "\"\"", "|\"", "\"|", "\u{1f600}", "x: 1, label: \"",
];

fn gen_string(r: &mut Rng) -> String {
    let mut s = String::new();
    let n = match r.below(10) { 0 => 0, 1..=5 => 1 + r.below(3), 6..=8 => 3 + r.below(5), _ => 8 + r.below(24) };
    for _ in 0..n {
        if r.chance(1, 4) { s.push_str(*r.pick(FRAGMENTS)); } else { s.push(*r.pick(ALPHABET)); }
    }
    s
}

const FLOATS: &[f64] = &[
    0.0, -0.0, 1.0, -1.0, 0.1, 0.5, 1.5, 1e15, 1e16, 1e17, 1e-4, 1e-5, 1e-7, 123456789.125, 1e7, 1e21, 1e22,
    f64::MAX, f64::MIN, f64::MIN_POSITIVE, 5e-324, f64::INFINITY, f64::NEG_INFINITY, f64::NAN, f64::EPSILON,
    0.30000000000000004, 9007199254740993.0, 1.7976931348623157e308, 2.2250738585072014e-308, 12.0, 1.2, 0.12,
];

fn gen_int(r: &mut Rng, lo: i128, hi: i128) -> i128 {
    let cands = [0i128, 1, -1, 2, 3, 9, 10, 12, 23, 123, -12, 100, 255, 256, lo, hi, lo + 1, hi - 1];
    if r.chance(1, 2) {
        let c = *r.pick(&cands);
        if c >= lo && c <= hi { return c; }
    }
    let bits = 1 + r.below(127);
    let raw = ((r.next() as u128) << 64 | r.next() as u128) >> (128 - bits);
    let mut z = raw as i128;
    if r.chance(1, 2) { z = z.wrapping_neg(); }
    if z < lo || z > hi {
        // fold into range
        let span = (hi as i128).wrapping_sub(lo) as u128;
        if span == u128::MAX { return z; }
        z = lo.wrapping_add(((z as u128) % (span + 1)) as i128);
    }
    z
}

fn gen(r: &mut Rng, t: &Ty, depth: u32) -> V {
    match t {
        Ty::Int(lo, hi) => V::I(gen_int(r, *lo, *hi)),
        Ty::Bool => V::B(r.chance(1, 2)),
        Ty::Char => V::C(*r.pick(ALPHABET)),
        Ty::Str => V::S(gen_string(r)),
        Ty::Float => {
            if r.chance(2, 3) { V::F(r.pick(FLOATS).to_bits()) } else {
                let f = f64::from_bits(r.next());
                V::F(if f.is_nan() { f64::NAN.to_bits() } else { f.to_bits() })
            }
        }
        Ty::Tuple(ts) => V::T(ts.iter().map(|t| gen(r, t, depth + 1)).collect()),
        Ty::Opt(t) => if r.chance(1, 3) { V::N } else { V::O(Box::new(gen(r, t, depth + 1))) },
        Ty::Vec(t) => {
            let n = match r.below(8) { 0 | 1 => 0, 2 | 3 => 1, 4 | 5 => 2, 6 => 3, _ => 4 + r.below(4) };
            let n = if depth > 2 { n.min(2) } else { n };
            V::L((0..n).map(|_| gen(r, t, depth + 1)).collect())
        }
        Ty::Adt(vs) => {
            let (name, sh) = r.pick(vs);
            match sh {
                TShape::Unit => V::AU(name),
                TShape::Pos(ts) => V::AP(name, ts.iter().map(|t| gen(r, t, depth + 1)).collect()),
                TShape::Rec(fs) => V::AR(name, fs.iter().map(|(n, t)| (*n, gen(r, t, depth + 1))).collect()),
            }
        }
    }
}

/// A small change of a value (still of type t).  May return an equal value.
fn mutate(r: &mut Rng, v: &V, t: &Ty) -> V {
    match (v, t) {
        (V::I(z), Ty::Int(lo, hi)) => {
            let s = z.to_string();
            let cand: i128 = match r.below(5) {
                0 => z.wrapping_add(1),
                1 => z.wrapping_neg(),
                2 => format!("{}{}", s, r.below(10)).parse().unwrap_or(*z),
                3 => if s.len() > 1 { s[..s.len() - 1].parse().unwrap_or(0) } else { *z },
                _ => z.wrapping_sub(1),
            };
            V::I(if cand >= *lo && cand <= *hi { cand } else { *z })
        }
        (V::B(b), _) => V::B(!b),
        (V::C(_), _) => V::C(*r.pick(ALPHABET)),
        (V::S(s), _) => {
            let mut cs: Vec<char> = s.chars().collect();
            match r.below(5) {
                0 => { let i = r.below(cs.len() as u64 + 1) as usize; cs.insert(i, *r.pick(ALPHABET)); }
                1 => { if !cs.is_empty() { let i = r.below(cs.len() as u64) as usize; cs.remove(i); } }
                2 => { let f: Vec<char> = r.pick(FRAGMENTS).chars().collect(); let i = r.below(cs.len() as u64 + 1) as usize; for (k, c) in f.into_iter().enumerate() { cs.insert(i + k, c); } }
                3 => { if !cs.is_empty() { let i = r.below(cs.len() as u64) as usize; cs[i] = *r.pick(ALPHABET); } }
                _ => { cs.push('|'); }
            }
            V::S(cs.into_iter().collect())
        }
        (V::F(_), _) => V::F(r.pick(FLOATS).to_bits()),
        (V::T(xs), Ty::Tuple(ts)) => {
            if xs.is_empty() { return v.clone(); }
            let i = r.below(xs.len() as u64) as usize;
            let mut ys = xs.clone();
            ys[i] = mutate(r, &xs[i], &ts[i]);
            V::T(ys)
        }
        (V::N, Ty::Opt(t)) => V::O(Box::new(gen(r, t, 2))),
        (V::O(x), Ty::Opt(t)) => if r.chance(1, 3) { V::N } else { V::O(Box::new(mutate(r, x, t))) },
        (V::L(xs), Ty::Vec(t)) => {
            let mut ys = xs.clone();
            match r.below(4) {
                0 => { ys.push(gen(r, t, 2)); }
                1 => { ys.pop(); }
                2 => { if !ys.is_empty() { let i = r.below(ys.len() as u64) as usize; let x = ys[i].clone(); ys.insert(i, x); } }
                _ => { if !ys.is_empty() { let i = r.below(ys.len() as u64) as usize; ys[i] = mutate(r, &xs[i], t); } else { ys.push(gen(r, t, 2)); } }
            }
            V::L(ys)
        }
        (V::AU(_), Ty::Adt(_)) => gen(r, t, 2),
        (V::AP(n, xs), Ty::Adt(vs)) => {
            if r.chance(1, 4) || xs.is_empty() { return gen(r, t, 2); }
            let ts = match &vs.iter().find(|(m, _)| m == n).unwrap().1 { TShape::Pos(ts) => ts.clone(), _ => unreachable!() };
            let i = r.below(xs.len() as u64) as usize;
            let mut ys = xs.clone();
            ys[i] = mutate(r, &xs[i], &ts[i]);
            V::AP(n, ys)
        }
        (V::AR(n, xs), Ty::Adt(vs)) => {
            if r.chance(1, 4) || xs.is_empty() { return gen(r, t, 2); }
            let fs = match &vs.iter().find(|(m, _)| m == n).unwrap().1 { TShape::Rec(fs) => fs.clone(), _ => unreachable!() };
            let i = r.below(xs.len() as u64) as usize;
            let mut ys = xs.clone();
            ys[i].1 = mutate(r, &xs[i].1, &fs[i].1);
            V::AR(n, ys)
        }
        _ => panic!("mutate: value/type mismatch {:?} {:?}", v, t),
    }
}

const SEPS: &[&str] = &["|", "\"|\"", "\\\"|\\\"", "\", \"", "\\", "\"", "'", ", ", "\\|", "|\\", "\"|", "|\""];

/// A near-collision partner for the tuple: shifts material across an argument
/// boundary when two adjacent parts have the same scalar type, else mutates one part.
fn near(r: &mut Rng, parts: &[V], tys: &[Ty]) -> (Vec<V>, Vec<V>) {
    let mut a = parts.to_vec();
    let mut b = parts.to_vec();
    if parts.is_empty() { return (a, b); }
    let mut adj: Vec<usize> = Vec::new();
    for i in 0..parts.len().saturating_sub(1) {
        match (&parts[i], &parts[i + 1]) {
            (V::S(_), V::S(_)) | (V::I(_), V::I(_)) | (V::C(_), V::C(_)) | (V::AU(_), V::AU(_)) => adj.push(i),
            _ => {}
        }
    }
    if !adj.is_empty() && r.chance(2, 3) {
        let i = *r.pick(&adj);
        match (&parts[i], &parts[i + 1]) {
            (V::S(x), V::S(z)) => {
                let y = gen_string(r);
                let sep = *r.pick(SEPS);
                // (x sep y , z)  vs  (x , y sep z)
                a[i] = V::S(format!("{}{}{}", x, sep, y));
                a[i + 1] = V::S(z.clone());
                b[i] = V::S(x.clone());
                b[i + 1] = V::S(format!("{}{}{}", y, sep, z));
            }
            (V::I(x), V::I(z)) => {
                // (1, 23) vs (12, 3): move the leading digit of z to the end of x
                if let (Ty::Int(lo, hi), Ty::Int(lo2, hi2)) = (&tys[i], &tys[i + 1]) {
                    let zs = z.unsigned_abs().to_string();
                    if zs.len() > 1 && *z > 0 {
                        let nx: Option<i128> = format!("{}{}", x, &zs[..1]).parse().ok();
                        let nz: Option<i128> = zs[1..].parse().ok();
                        if let (Some(nx), Some(nz)) = (nx, nz) {
                            if nx >= *lo && nx <= *hi && nz >= *lo2 && nz <= *hi2 {
                                b[i] = V::I(nx);
                                b[i + 1] = V::I(nz);
                                return (a, b);
                            }
                        }
                    }
                }
                b[i] = mutate(r, &parts[i], &tys[i]);
            }
            (V::AU(_), V::AU(_)) => {
                // unit variants: the names of one type may continue the names of the other
                b[i] = gen(r, &tys[i], 0);
                b[i + 1] = gen(r, &tys[i + 1], 0);
            }
            (V::C(x), V::C(z)) => {
                // swap
                b[i] = V::C(*z);
                b[i + 1] = V::C(*x);
            }
            _ => unreachable!(),
        }
        return (a, b);
    }
    let i = r.below(parts.len() as u64) as usize;
    b[i] = mutate(r, &parts[i], &tys[i]);
    (a, b)
}

// ---------------------------------------------------------------------------
// wire format
// ---------------------------------------------------------------------------
fn w_cps(o: &mut String, s: &str) {
    let n = s.chars().count();
    write!(o, " {}", n).unwrap();
    for c in s.chars() { write!(o, " {:x}", c as u32).unwrap(); }
}
fn w_val(o: &mut String, v: &V) {
    match v {
        V::I(z) => { if *z < 0 { write!(o, " I -{:x}", z.unsigned_abs()).unwrap() } else { write!(o, " I {:x}", z).unwrap() } }
        V::B(b) => write!(o, " B {}", *b as u8).unwrap(),
        V::C(c) => write!(o, " C {:x}", *c as u32).unwrap(),
        V::S(s) => { o.push_str(" S"); w_cps(o, s); }
        V::F(bits) => { write!(o, " F {:x}", bits).unwrap(); w_cps(o, &format!("{:?}", f64::from_bits(*bits))); }
        V::T(xs) => { write!(o, " T {}", xs.len()).unwrap(); for x in xs { w_val(o, x); } }
        V::N => o.push_str(" N"),
        V::O(x) => { o.push_str(" O"); w_val(o, x); }
        V::L(xs) => { write!(o, " L {}", xs.len()).unwrap(); for x in xs { w_val(o, x); } }
        V::AU(n) => write!(o, " AU {}", n).unwrap(),
        V::AP(n, xs) => { write!(o, " AP {} {}", n, xs.len()).unwrap(); for x in xs { w_val(o, x); } }
        V::AR(n, fs) => { write!(o, " AR {} {}", n, fs.len()).unwrap(); for (f, x) in fs { write!(o, " {}", f).unwrap(); w_val(o, x); } }
    }
}
fn w_ty(o: &mut String, t: &Ty) {
    match t {
        Ty::Int(_, _) => o.push_str(" int"),
        Ty::Bool => o.push_str(" bool"),
        Ty::Char => o.push_str(" char"),
        Ty::Str => o.push_str(" str"),
        Ty::Float => o.push_str(" float"),
        Ty::Tuple(ts) => { write!(o, " tuple {}", ts.len()).unwrap(); for t in ts { w_ty(o, t); } }
        Ty::Opt(t) => { o.push_str(" opt"); w_ty(o, t); }
        Ty::Vec(t) => { o.push_str(" vec"); w_ty(o, t); }
        Ty::Adt(vs) => {
            write!(o, " adt {}", vs.len()).unwrap();
            for (n, sh) in vs {
                write!(o, " {}", n).unwrap();
                match sh {
                    TShape::Unit => o.push_str(" unit"),
                    TShape::Pos(ts) => { write!(o, " pos {}", ts.len()).unwrap(); for t in ts { w_ty(o, t); } }
                    TShape::Rec(fs) => { write!(o, " rec {}", fs.len()).unwrap(); for (f, t) in fs { write!(o, " {}", f).unwrap(); w_ty(o, t); } }
                }
            }
        }
    }
}

// ---------------------------------------------------------------------------
// observing the real cache
// ---------------------------------------------------------------------------
thread_local! { static SEEN: RefCell<Vec<String>> = RefCell::new(Vec::new()); }

fn list_keys(name: &str) -> Option<Vec<String>> {
    SEEN.with(|s| s.borrow_mut().clear());
    let found = cachelito::invalidate_with(name, |k: &str| {
        SEEN.with(|s| s.borrow_mut().push(k.to_string()));
        false
    });
    if !found { return None; }
    Some(SEEN.with(|s| s.borrow().clone()))
}
fn clear(name: &str) {
    cachelito::invalidate_with(name, |_k: &str| true);
}

fn split<'a>(sig: &Sig, parts: &'a [V]) -> (Option<&'a V>, &'a [V]) {
    if sig.recv.is_some() { (Some(&parts[0]), &parts[1..]) } else { (None, parts) }
}

fn main() {
    let argv: Vec<String> = std::env::args().collect();
    let seed: u64 = argv.get(1).map(|s| s.parse().expect("seed")).unwrap_or(1);
    let count: u64 = argv.get(2).map(|s| s.parse().expect("count")).unwrap_or(100);
    let exhaustive = argv.get(3).map(|s| s == "exhaustive").unwrap_or(false);
    let out = std::io::stdout();
    let mut out = std::io::BufWriter::new(out.lock());
    let mut r = Rng(seed);
    let sigs = sigs();

    // character table records
    let mut line = String::new();
    let emit_x = |line: &mut String, c: char| {
        line.clear();
        write!(line, "X {:x}", c as u32).unwrap();
        w_cps(line, &format!("{:?}", c));
        w_cps(line, &format!("{:?}", c.to_string()));
    };
    if exhaustive {
        for u in 0..=0x10ffffu32 {
            if let Some(c) = char::from_u32(u) { emit_x(&mut line, c); writeln!(out, "{}", line).unwrap(); }
        }
    } else {
        // all of ASCII (fragments use arbitrary ASCII letters) + the non-ASCII alphabet
        for u in 0..0x80u32 { emit_x(&mut line, char::from_u32(u).unwrap()); writeln!(out, "{}", line).unwrap(); }
        for c in ALPHABET { if (*c as u32) >= 0x80 { emit_x(&mut line, *c); writeln!(out, "{}", line).unwrap(); } }
    }

    for s in &sigs {
        line.clear();
        write!(line, "SIG {} {} R", s.id, if s.is_async { "async" } else { "sync" }).unwrap();
        match &s.recv { Some(t) => { line.push_str(" 1"); w_ty(&mut line, t); } None => line.push_str(" 0") }
        write!(line, " A {}", s.args.len()).unwrap();
        for t in &s.args { w_ty(&mut line, t); }
        writeln!(out, "{}", line).unwrap();
    }

    // float renderings: material for checking the two float hypotheses of the theorem
    // (alphabet [0-9A-Za-z.+-], injective on distinct non-NaN bit patterns)
    let mut fr = Rng(seed ^ 0xF10A7);
    let nfl = (count * 8).min(100_000);
    for i in 0..nfl {
        let f = if (i as usize) < FLOATS.len() { FLOATS[i as usize] } else {
            let x = match fr.below(4) {
                0 => f64::from_bits(fr.next()),
                1 => (fr.next() as i64 as f64) / (1u64 << fr.below(40)) as f64,
                2 => f32::from_bits(fr.next() as u32) as f64,
                _ => (fr.below(2000) as f64 - 1000.0) * 10f64.powi(fr.below(60) as i32 - 30),
            };
            if x.is_nan() { f64::NAN } else { x }
        };
        line.clear();
        write!(line, "FL {:x}", f.to_bits()).unwrap();
        w_cps(&mut line, &format!("{:?}", f));
        writeln!(out, "{}", line).unwrap();
    }

    let mut sid: u64 = 0;
    // one sample: fresh cache, one call, exactly one key
    let mut sample = |out: &mut dyn std::io::Write, sig: &Sig, parts: &[V]| -> u64 {
        sid += 1;
        let (recv, args) = split(sig, parts);
        clear(sig.name);
        EXEC.store(0, Ordering::SeqCst);
        (sig.call)(recv, args);
        let keys = list_keys(sig.name);
        let mut line = String::new();
        match keys {
            Some(ks) if ks.len() == 1 && EXEC.load(Ordering::SeqCst) == 1 => {
                write!(line, "S {} {} R", sid, sig.id).unwrap();
                match recv { Some(v) => { line.push_str(" 1"); w_val(&mut line, v); } None => line.push_str(" 0") }
                write!(line, " A {}", args.len()).unwrap();
                for a in args { w_val(&mut line, a); }
                line.push_str(" K");
                w_cps(&mut line, &ks[0]);
            }
            other => { write!(line, "E sample {} sig {}: expected exactly one key and one execution, got {:?} execs={}", sid, sig.id, other, EXEC.load(Ordering::SeqCst)).unwrap(); }
        }
        writeln!(out, "{}", line).unwrap();
        sid
    };

    for it in 0..count {
        let sig = &sigs[(it % sigs.len() as u64) as usize];
        let mut tys: Vec<Ty> = Vec::new();
        if let Some(t) = &sig.recv { tys.push(t.clone()); }
        tys.extend(sig.args.iter().cloned());
        let parts: Vec<V> = tys.iter().map(|t| gen(&mut r, t, 0)).collect();
        let (pa, pb) = if r.chance(1, 8) { (parts.clone(), parts.clone()) } else { near(&mut r, &parts, &tys) };
        let sa = sample(&mut out, sig, &pa);
        let sb = sample(&mut out, sig, &pb);
        // the pair: both calls against the same (fresh) cache
        clear(sig.name);
        EXEC.store(0, Ordering::SeqCst);
        let (ra, aa) = split(sig, &pa);
        (sig.call)(ra, aa);
        let (rb, ab) = split(sig, &pb);
        (sig.call)(rb, ab);
        let execs = EXEC.load(Ordering::SeqCst);
        let nkeys = list_keys(sig.name).map(|k| k.len() as i64).unwrap_or(-1);
        writeln!(out, "P {} {} {} {} {} {}", it + 1, sig.id, sa, sb, execs, nkeys).unwrap();
    }
    out.flush().unwrap();
}
