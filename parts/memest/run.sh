#!/usr/bin/env bash
# run.sh <seed> <count> <workdir>
#
# Builds the Coq development (proofs + extraction), the extracted-model driver
# and the Rust harness, runs the harness against the current /repo tree in a
# debug build (overflow checks on: an underflowing `-` panics) and a release
# build (overflow checks off: it would wrap), and replays both outputs through
# the extracted model.  Prints the driver's V / STAT lines on stdout; build
# chatter goes to <workdir>/*.log.  Exit status 0 iff every case agrees.
#
# Environment:
#   MEMEST_CORE    path of the cachelito-core crate to test (default
#                  /repo/cachelito-core).  Any other value makes the script use
#                  a copy of the harness under <workdir> pointing at that path.
#   MEMEST_TARGET  cargo target dir (default <part>/target)
set -u
HERE="$(cd "$(dirname "$0")" && pwd)"
SEED="${1:?usage: run.sh <seed> <count> <workdir>}"
COUNT="${2:?usage: run.sh <seed> <count> <workdir>}"
WORK="${3:?usage: run.sh <seed> <count> <workdir>}"
CORE="${MEMEST_CORE:-/repo/cachelito-core}"
TARGET="${MEMEST_TARGET:-$HERE/target}"
mkdir -p "$WORK"
WORK="$(cd "$WORK" && pwd)"

die() { echo "STAT verdict FAIL ($*)"; exit 2; }

# ---- 1. Coq: proofs, Print Assumptions, extraction -------------------------
(
  cd "$HERE/coq" || exit 1
  [ -f Makefile ] || coq_makefile -f _CoqProject -o Makefile || exit 1
  timeout 900 make -j8
) >"$WORK/coq.log" 2>&1 || { tail -20 "$WORK/coq.log"; die "coq build"; }
if [ ! -f "$HERE/coq/assumptions.txt" ] || [ "$HERE/coq/Props_C05_memest.vo" -nt "$HERE/coq/assumptions.txt" ]; then
  ( cd "$HERE/coq" && timeout 300 coqc -Q . CLM Props_C05_memest.v ) 2>&1 \
    | grep -v 'conda' >"$HERE/coq/assumptions.txt"
fi
NCLOSED=$(grep -c 'Closed under the global context' "$HERE/coq/assumptions.txt")
NAX=$(grep -c -i 'axiom' "$HERE/coq/assumptions.txt")
echo "STAT coq print_assumptions closed=$NCLOSED axioms=$NAX"
[ "$NCLOSED" = 3 ] && [ "$NAX" = 0 ] || die "Print Assumptions not closed"
if grep -n -E '\b(Admitted|admit|Axiom|Parameter|Conjecture)\b' "$HERE"/coq/*.v >/dev/null; then
  die "admit/axiom keyword present in coq sources"
fi

# ---- 2. OCaml driver over the extracted model ------------------------------
mkdir -p "$WORK/ocaml"
cp "$HERE/coq/memest_model.ml" "$HERE/coq/memest_model.mli" "$HERE/ocaml/memest_driver.ml" "$WORK/ocaml/"
(
  cd "$WORK/ocaml" || exit 1
  timeout 300 ocamlfind ocamlopt -w -a memest_model.mli memest_model.ml memest_driver.ml -o memest_driver
) >"$WORK/ocaml.log" 2>&1 || { tail -20 "$WORK/ocaml.log"; die "ocaml build"; }

# ---- 3. Rust harness, debug and release ------------------------------------
CRATE="$HERE/harness/vh-memest"
if [ "$CORE" != "/repo/cachelito-core" ]; then
  rm -rf "$WORK/vh-memest-alt"
  mkdir -p "$WORK/vh-memest-alt"
  cp -r "$CRATE/Cargo.toml" "$CRATE/src" "$WORK/vh-memest-alt/"
  sed -i "s#path = \"/repo/cachelito-core\"#path = \"$CORE\"#" "$WORK/vh-memest-alt/Cargo.toml"
  CRATE="$WORK/vh-memest-alt"
  TARGET="$WORK/target-alt"
fi
[ -f "$CRATE/Cargo.lock" ] || cp /repo/Cargo.lock "$CRATE/Cargo.lock"
echo "STAT core $CORE"
(
  cd "$CRATE" || exit 1
  export CARGO_NET_OFFLINE=true CARGO_TARGET_DIR="$TARGET"
  timeout 900 cargo build --offline || exit 1
  timeout 900 cargo build --offline --release || exit 1
) >"$WORK/cargo.log" 2>&1 || { tail -30 "$WORK/cargo.log"; die "cargo build"; }

timeout 300 "$TARGET/debug/vh-memest" "$SEED" "$COUNT" debug >"$WORK/cases.debug.txt" 2>"$WORK/harness.debug.err" \
  || die "debug harness exited non-zero"
timeout 300 "$TARGET/release/vh-memest" "$SEED" "$COUNT" release >"$WORK/cases.release.txt" 2>"$WORK/harness.release.err" \
  || die "release harness exited non-zero"

# ---- 4. compare -------------------------------------------------------------
timeout 300 "$WORK/ocaml/memest_driver" "$WORK/cases.debug.txt" "$WORK/cases.release.txt" | tee "$WORK/verdicts.txt"
exit "${PIPESTATUS[0]}"
