(* memest_driver.ml -- replays vh-memest case lines through the model extracted
   from coq/MemEst.v and compares with what the real estimate_memory() said.

   usage: memest_driver <file> [<file> ...]     ("-" = stdin)

   Per case:  V <id> ok
              V <id> MISMATCH model=<n|UNDERFLOW> impl=<n|PANIC> spec=<n> rustfp=<n> [illformed] :: <type> :: <value>
   and STAT lines at the end.  Exit status 1 if there was any mismatch or
   unparsable line. *)

open Memest_model

(* ---------------------------------------------------------------- N <-> decimal *)

let rec pos_of_int (i : int) : positive =
  if i = 1 then XH
  else if i land 1 = 0 then XO (pos_of_int (i lsr 1))
  else XI (pos_of_int (i lsr 1))

let n_of_int (i : int) : n = if i = 0 then N0 else Npos (pos_of_int i)
let n10 = n_of_int 10

let n_of_string (s : string) : n =
  if s = "" then failwith "empty number";
  let acc = ref N0 in
  String.iter
    (fun c ->
      if c < '0' || c > '9' then failwith ("bad number " ^ s);
      acc := N.add (N.mul !acc n10) (n_of_int (Char.code c - 48)))
    s;
  !acc

let rec int_of_pos = function
  | XH -> 1
  | XO p -> 2 * int_of_pos p
  | XI p -> (2 * int_of_pos p) + 1

let small_int_of_n = function N0 -> 0 | Npos p -> int_of_pos p

let string_of_n (x : n) : string =
  if x = N0 then "0"
  else begin
    let b = Buffer.create 24 in
    let rec go x acc =
      if x = N0 then acc
      else
        let q, r = N.div_eucl x n10 in
        go q (Char.chr (48 + small_int_of_n r) :: acc)
    in
    List.iter (Buffer.add_char b) (go x []);
    Buffer.contents b
  end

(* ---------------------------------------------------------------- parsing *)

let prim_names =
  [ "i8"; "i16"; "i32"; "i64"; "i128"; "isize"; "u8"; "u16"; "u32"; "u64";
    "u128"; "usize"; "f32"; "f64"; "bool"; "char" ]

let prim_id name =
  let rec go i = function
    | [] -> None
    | x :: r -> if x = name then Some i else go (i + 1) r
  in
  go 0 prim_names

let tokens s = List.filter (fun x -> x <> "") (String.split_on_char ' ' s)

(* prefix-notation type; returns the type and the remaining tokens *)
let rec parse_ty = function
  | [] -> failwith "type: unexpected end"
  | "unit" :: r -> (MUnit, r)
  | "string" :: r -> (MStr, r)
  | "strref" :: r -> (MStrRef, r)
  | "vec" :: r -> let t, r = parse_ty r in (MVec t, r)
  | "slice" :: r -> let t, r = parse_ty r in (MSliceRef t, r)
  | "opt" :: r -> let t, r = parse_ty r in (MOpt t, r)
  | "res" :: r ->
      let a, r = parse_ty r in
      let b, r = parse_ty r in
      (MRes (a, b), r)
  | "t2" :: r ->
      let a, r = parse_ty r in
      let b, r = parse_ty r in
      (MTup2 (a, b), r)
  | "t3" :: r ->
      let a, r = parse_ty r in
      let b, r = parse_ty r in
      let c, r = parse_ty r in
      (MTup3 (a, b, c), r)
  | "box" :: r -> let t, r = parse_ty r in (MBox t, r)
  | "arc" :: r -> let t, r = parse_ty r in (MArc t, r)
  | "rc" :: r -> let t, r = parse_ty r in (MRc t, r)
  | "entry" :: r -> let t, r = parse_ty r in (MEntry t, r)
  | p :: r -> (
      match prim_id p with
      | Some i -> (MPrim (n_of_int i), r)
      | None -> failwith ("type: unknown token " ^ p))

let parse_ty_all s =
  match parse_ty (tokens s) with
  | t, [] -> t
  | _, x :: _ -> failwith ("type: trailing token " ^ x)

let rec parse_val = function
  | [] -> failwith "value: unexpected end"
  | "p" :: r -> (VPrim, r)
  | "u" :: r -> (VUnit, r)
  | "s" :: cap :: len :: r -> (VString (n_of_string cap, n_of_string len), r)
  | "r" :: len :: r -> (VStrRef (n_of_string len), r)
  | "v" :: cap :: n :: r ->
      let items, r = parse_items (int_of_string n) r in
      (VVec (n_of_string cap, items), r)
  | "l" :: n :: r ->
      let items, r = parse_items (int_of_string n) r in
      (VSlice items, r)
  | "none" :: r -> (VNone, r)
  | "some" :: r -> let v, r = parse_val r in (VSome v, r)
  | "ok" :: r -> let v, r = parse_val r in (VOk v, r)
  | "err" :: r -> let v, r = parse_val r in (VErr v, r)
  | "t2" :: r ->
      let a, r = parse_val r in
      let b, r = parse_val r in
      (VTup2 (a, b), r)
  | "t3" :: r ->
      let a, r = parse_val r in
      let b, r = parse_val r in
      let c, r = parse_val r in
      (VTup3 (a, b, c), r)
  | "box" :: r -> let v, r = parse_val r in (VBox v, r)
  | "arc" :: r -> let v, r = parse_val r in (VArc v, r)
  | "rc" :: r -> let v, r = parse_val r in (VRc v, r)
  | "entry" :: r -> let v, r = parse_val r in (VEntry v, r)
  | x :: _ -> failwith ("value: unknown token " ^ x)

and parse_items n r =
  if n = 0 then ([], r)
  else
    let v, r = parse_val r in
    let vs, r = parse_items (n - 1) r in
    (v :: vs, r)

let parse_val_all s =
  match parse_val (tokens s) with
  | v, [] -> v
  | _, x :: _ -> failwith ("value: trailing token " ^ x)

(* "24:vec string,24:string" -> the layout oracle of this case *)
exception Missing_size of string

let parse_sizes (s : string) : mty -> n =
  let table =
    List.filter_map
      (fun e ->
        if e = "" then None
        else
          match String.index_opt e ':' with
          | None -> failwith ("size entry " ^ e)
          | Some i ->
              let sz = n_of_string (String.sub e 0 i) in
              let ty = parse_ty_all (String.sub e (i + 1) (String.length e - i - 1)) in
              Some (ty, sz))
      (String.split_on_char ',' s)
  in
  fun t ->
    match List.assoc_opt t table with
    | Some n -> n
    | None -> raise (Missing_size "size_of not reported for a type the model asked about")

(* ---------------------------------------------------------------- run *)

let total = ref 0
let ok = ref 0
let mismatch = ref 0
let bad = ref 0
let panics = ref 0
let model_underflow = ref 0
let illformed = ref 0
let per_type : (string, int * int) Hashtbl.t = Hashtbl.create 64
let per_mode : (string, int * int) Hashtbl.t = Hashtbl.create 4
let headers = ref []

let bump tbl k good =
  let a, b = try Hashtbl.find tbl k with Not_found -> (0, 0) in
  Hashtbl.replace tbl k (if good then (a + 1, b) else (a, b + 1))

let mode_of id = match String.index_opt id '-' with Some i -> String.sub id 0 i | None -> "?"

let handle_case fields =
  match fields with
  | [ id; _rust_name; ty_s; val_s; est_s; fp_s; sizes_s ] ->
      incr total;
      let t = parse_ty_all ty_s in
      let v = parse_val_all val_s in
      let sizeof = parse_sizes sizes_s in
      let wf = has_mty v t in
      let model = estimate sizeof v t in
      let spec = footprint sizeof v t in
      let rustfp = n_of_string fp_s in
      let impl = if est_s = "PANIC" then None else Some (n_of_string est_s) in
      if impl = None then incr panics;
      if model = None then incr model_underflow;
      if not wf then incr illformed;
      (* four-way agreement: model = impl, and, both being defined,
         = the Coq-side specification = the Rust-side walk *)
      let agree =
        wf
        && (match (model, impl) with
           | Some m, Some i -> N.eqb m i && N.eqb m spec
           | None, None -> true
           | _ -> false)
        && N.eqb spec rustfp
      in
      bump per_type ty_s agree;
      bump per_mode (mode_of id) agree;
      if agree then begin
        incr ok;
        Printf.printf "V %s ok\n" id
      end
      else begin
        incr mismatch;
        Printf.printf "V %s MISMATCH model=%s impl=%s spec=%s rustfp=%s%s :: %s :: %s\n" id
          (match model with Some m -> string_of_n m | None -> "UNDERFLOW")
          (match impl with Some i -> string_of_n i | None -> "PANIC")
          (string_of_n spec) (string_of_n rustfp)
          (if wf then "" else " illformed")
          ty_s val_s
      end
  | _ -> failwith "case: wrong number of fields"

(* ENGINE experiment: two stores into the real GlobalCache<T> under max_memory = M, judged
   with the specification's footprint of the two values *)
let engine_ok = ref 0
let engine_fail = ref 0

let handle_engine fields =
  match fields with
  | [ id; _rust_name; ty_s; val1_s; val2_s; m_s; a_s; b_s; pol; sizes_s ] ->
      incr total;
      let t = parse_ty_all ty_s in
      let v1 = parse_val_all val1_s and v2 = parse_val_all val2_s in
      let sizeof = parse_sizes sizes_s in
      let s1 = footprint sizeof v1 t and s2 = footprint sizeof v2 t in
      let m = n_of_string m_s in
      let le a b = N.leb a b in
      let problems = ref [] in
      let add p = problems := p :: !problems in
      if a_s = "PANIC" then add "the store panicked"
      else begin
        let a = a_s = "1" and b = b_s = "1" in
        let total_stored = N.add (if a then s1 else N0) (if b then s2 else N0) in
        if not (le total_stored m) then
          add (Printf.sprintf "the cached values occupy %s bytes, max_memory is %s" (string_of_n total_stored) (string_of_n m));
        if not (le s2 m) then begin
          if b then add "a value that alone exceeds max_memory was cached";
          if le s1 m && not a then add "a value that was never cached displaced an entry"
        end
        else begin
          if not b then add "the value just stored fits alone but is not cached";
          if le s1 m && le (N.add s1 s2) m && not a then add "an entry was evicted although both values fit"
        end;
        if (not (le s1 m)) && a then add "a value that alone exceeds max_memory was cached"
      end;
      if !problems = [] then begin
        incr ok;
        incr engine_ok;
        Printf.printf "V %s ok\n" id
      end
      else begin
        incr engine_fail;
        Printf.printf
          "F %s C05 on GlobalCache<%s> policy=%s max_memory=%s: store a (footprint %s) then b (footprint %s) -> a cached=%s b cached=%s: %s :: a = %s :: b = %s\n"
          id ty_s pol m_s (string_of_n s1) (string_of_n s2) a_s b_s
          (String.concat "; " (List.rev !problems))
          val1_s val2_s
      end
  | _ -> failwith "engine: wrong number of fields"

let handle_line line =
  if line = "" then ()
  else
    match String.split_on_char '|' line with
    | "C" :: fields -> (
        try handle_case fields with
        | Failure m | Missing_size m ->
            incr bad;
            Printf.printf "V ? BADLINE %s :: %s\n" m line)
    | "E" :: fields -> (
        try handle_engine fields with
        | Failure m | Missing_size m ->
            incr bad;
            Printf.printf "V ? BADLINE %s :: %s\n" m line)
    | "H" :: rest -> headers := String.concat " " rest :: !headers
    | _ ->
        incr bad;
        Printf.printf "V ? BADLINE unrecognised :: %s\n" line

let read_channel ic =
  try
    while true do
      handle_line (input_line ic)
    done
  with End_of_file -> ()

let () =
  let files = List.tl (Array.to_list Sys.argv) in
  let files = if files = [] then [ "-" ] else files in
  List.iter
    (fun f ->
      if f = "-" then read_channel stdin
      else begin
        let ic = open_in f in
        read_channel ic;
        close_in ic
      end)
    files;
  List.iter (fun h -> Printf.printf "STAT run %s\n" h) (List.rev !headers);
  Printf.printf "STAT cases=%d ok=%d mismatch=%d badlines=%d\n" !total !ok !mismatch !bad;
  Printf.printf "STAT impl_panics=%d model_underflows=%d illformed_values=%d\n" !panics
    !model_underflow !illformed;
  let sorted tbl =
    List.sort compare (Hashtbl.fold (fun k v acc -> (k, v) :: acc) tbl [])
  in
  List.iter
    (fun (k, (a, b)) -> Printf.printf "STAT mode %s ok=%d mismatch=%d\n" k a b)
    (sorted per_mode);
  Printf.printf "STAT distinct_types=%d\n" (Hashtbl.length per_type);
  Printf.printf "STAT engine_experiments ok=%d failed=%d\n" !engine_ok !engine_fail;
  List.iter
    (fun (k, (a, b)) -> Printf.printf "STAT type [%s] ok=%d mismatch=%d\n" k a b)
    (sorted per_type);
  Printf.printf "STAT verdict %s\n"
    (if !mismatch = 0 && !bad = 0 && !engine_fail = 0 && !total > 0 then "PASS" else "FAIL");
  exit (if !mismatch = 0 && !bad = 0 && !engine_fail = 0 && !total > 0 then 0 else 1)
