(* MemEstProofs.v -- the estimators compute inline size + owned heap, and
   none of their subtractions can underflow, whatever the layout is. *)

From Coq Require Import NArith List Bool Lia.
From CLM Require Import MemEst.
Import ListNotations.
Local Open Scope N_scope.

(* ------------------------------------------------------------------ *)
(* Induction principle for the nested inductive mval                   *)
(* ------------------------------------------------------------------ *)

Section MvalInd.
  Variable P : mval -> Prop.
  Hypothesis HPrim : P VPrim.
  Hypothesis HUnit : P VUnit.
  Hypothesis HString : forall cap len, P (VString cap len).
  Hypothesis HStrRef : forall len, P (VStrRef len).
  Hypothesis HVec : forall cap items, Forall P items -> P (VVec cap items).
  Hypothesis HSlice : forall items, Forall P items -> P (VSlice items).
  Hypothesis HNone : P VNone.
  Hypothesis HSome : forall v, P v -> P (VSome v).
  Hypothesis HOk : forall v, P v -> P (VOk v).
  Hypothesis HErr : forall v, P v -> P (VErr v).
  Hypothesis HTup2 : forall a b, P a -> P b -> P (VTup2 a b).
  Hypothesis HTup3 : forall a b c, P a -> P b -> P c -> P (VTup3 a b c).
  Hypothesis HBox : forall v, P v -> P (VBox v).
  Hypothesis HArc : forall v, P v -> P (VArc v).
  Hypothesis HRc : forall v, P v -> P (VRc v).
  Hypothesis HEntry : forall v, P v -> P (VEntry v).

  Fixpoint mval_ind_nested (v : mval) : P v :=
    let fix all (l : list mval) : Forall P l :=
      match l with
      | [] => Forall_nil P
      | x :: r => Forall_cons x (mval_ind_nested x) (all r)
      end in
    match v with
    | VPrim => HPrim
    | VUnit => HUnit
    | VString cap len => HString cap len
    | VStrRef len => HStrRef len
    | VVec cap items => HVec cap items (all items)
    | VSlice items => HSlice items (all items)
    | VNone => HNone
    | VSome x => HSome x (mval_ind_nested x)
    | VOk x => HOk x (mval_ind_nested x)
    | VErr x => HErr x (mval_ind_nested x)
    | VTup2 a b => HTup2 a b (mval_ind_nested a) (mval_ind_nested b)
    | VTup3 a b c =>
        HTup3 a b c (mval_ind_nested a) (mval_ind_nested b) (mval_ind_nested c)
    | VBox x => HBox x (mval_ind_nested x)
    | VArc x => HArc x (mval_ind_nested x)
    | VRc x => HRc x (mval_ind_nested x)
    | VEntry x => HEntry x (mval_ind_nested x)
    end.
End MvalInd.

(* ------------------------------------------------------------------ *)
(* Arithmetic of the two subtractions                                  *)
(* ------------------------------------------------------------------ *)

Lemma csub_add_l : forall a b, csub (a + b) a = Some b.
Proof.
  intros a b. unfold csub.
  destruct (N.leb_spec a (a + b)) as [_ | H]; [ | lia ].
  f_equal. lia.
Qed.

Lemma csub_some_iff : forall a b, (exists d, csub a b = Some d) <-> b <= a.
Proof.
  intros a b. unfold csub. destruct (N.leb_spec b a); split; intros.
  - assumption.
  - eauto.
  - destruct H0 as [d H0]. discriminate.
  - lia.
Qed.

Lemma extra_checked_footprint :
  forall e s h, e = Some (s + h) -> extra_checked e s = Some h.
Proof. intros e s h ->. apply csub_add_l. Qed.

Lemma extra_saturating_footprint :
  forall e s h, e = Some (s + h) -> extra_saturating e s = Some h.
Proof. intros e s h ->. simpl. f_equal. lia. Qed.

(* ------------------------------------------------------------------ *)
(* Main theorem                                                        *)
(* ------------------------------------------------------------------ *)

Section Proofs.
  Variable sizeof : mty -> N.

  Local Notation est := (estimate sizeof).
  Local Notation hp := (heap sizeof).

  Definition sound (v : mval) : Prop :=
    forall t, has_mty v t = true -> est v t = Some (sizeof t + hp v t).

  Lemma vec_extras :
    forall te items,
      Forall sound items ->
      forallb (fun x => has_mty x te) items = true ->
      fold_right
        (fun x acc => oadd (extra_saturating (est x te) (sizeof te)) acc)
        (Some 0) items
      = Some (fold_right (fun x acc => hp x te + acc) 0 items).
  Proof.
    intros te items HF. induction HF as [ | x r Hx _ IH ]; simpl; intros HT.
    - reflexivity.
    - apply andb_true_iff in HT. destruct HT as [HTx HTr].
      rewrite (IH HTr).
      rewrite (extra_saturating_footprint _ _ _ (Hx te HTx)).
      reflexivity.
  Qed.

  Lemma slice_sum :
    forall te items,
      Forall sound items ->
      forallb (fun x => has_mty x te) items = true ->
      fold_right (fun x acc => oadd (est x te) acc) (Some 0) items
      = Some (fold_right (fun x acc => (sizeof te + hp x te) + acc) 0 items).
  Proof.
    intros te items HF. induction HF as [ | x r Hx _ IH ]; simpl; intros HT.
    - reflexivity.
    - apply andb_true_iff in HT. destruct HT as [HTx HTr].
      rewrite (IH HTr). rewrite (Hx te HTx). reflexivity.
  Qed.

  Lemma all_sound : forall v, sound v.
  Proof.
    induction v using mval_ind_nested; unfold sound in *; intros t HT;
      destruct t; simpl in HT; try discriminate HT.
    - (* prim *) simpl. f_equal. lia.
    - (* unit *) simpl. f_equal. lia.
    - (* String *) reflexivity.
    - (* &str *) reflexivity.
    - (* Vec *)
      apply andb_true_iff in HT. destruct HT as [_ HT].
      simpl. rewrite (vec_extras _ _ H HT). simpl. f_equal. lia.
    - (* &[T] *)
      simpl. rewrite (slice_sum _ _ H HT). reflexivity.
    - (* None *) reflexivity.
    - (* Some *)
      simpl. rewrite (extra_checked_footprint _ _ _ (IHv _ HT)). reflexivity.
    - (* Ok *)
      simpl. rewrite (extra_checked_footprint _ _ _ (IHv _ HT)). reflexivity.
    - (* Err *)
      simpl. rewrite (extra_checked_footprint _ _ _ (IHv _ HT)). reflexivity.
    - (* (a, b) *)
      apply andb_true_iff in HT. destruct HT as [HA HB].
      simpl.
      rewrite (extra_checked_footprint _ _ _ (IHv1 _ HA)).
      rewrite (extra_checked_footprint _ _ _ (IHv2 _ HB)).
      simpl. f_equal. lia.
    - (* (a, b, c) *)
      apply andb_true_iff in HT. destruct HT as [HT HC].
      apply andb_true_iff in HT. destruct HT as [HA HB].
      simpl.
      rewrite (extra_checked_footprint _ _ _ (IHv1 _ HA)).
      rewrite (extra_checked_footprint _ _ _ (IHv2 _ HB)).
      rewrite (extra_checked_footprint _ _ _ (IHv3 _ HC)).
      simpl. f_equal. lia.
    - (* Box *) simpl. rewrite (IHv _ HT). reflexivity.
    - (* Arc *) simpl. rewrite (IHv _ HT). reflexivity.
    - (* Rc *) simpl. rewrite (IHv _ HT). reflexivity.
    - (* CacheEntry *)
      simpl. rewrite (extra_saturating_footprint _ _ _ (IHv _ HT)). reflexivity.
  Qed.

End Proofs.

(* For every layout function, every well-typed value: the estimator returns
   (in particular: does not underflow) exactly inline size + owned heap. *)
Theorem estimate_is_footprint :
  forall sizeof v t,
    has_mty v t = true ->
    estimate sizeof v t = Some (sizeof t + heap sizeof v t).
Proof. intros sizeof v t HT. exact (all_sound sizeof v t HT). Qed.

Corollary estimate_is_footprint' :
  forall sizeof v t,
    has_mty v t = true -> estimate sizeof v t = Some (footprint sizeof v t).
Proof. intros. unfold footprint. now apply estimate_is_footprint. Qed.

(* The key fact that makes the unchecked `-` safe: an estimate is never below
   the inline size of its type. *)
Corollary estimate_ge_inline :
  forall sizeof v t,
    has_mty v t = true ->
    exists n, estimate sizeof v t = Some n /\ sizeof t <= n.
Proof.
  intros sizeof v t HT. exists (sizeof t + heap sizeof v t). split.
  - now apply estimate_is_footprint.
  - lia.
Qed.

Corollary estimate_no_underflow :
  forall sizeof v t, has_mty v t = true -> estimate sizeof v t <> None.
Proof.
  intros sizeof v t HT. rewrite (estimate_is_footprint sizeof v t HT). discriminate.
Qed.

(* Every `inner.estimate_memory() - size_of_val(inner)` evaluated by the
   Option / Result / tuple impls is defined. *)
Corollary inner_subtraction_defined :
  forall sizeof v t,
    has_mty v t = true ->
    extra_checked (estimate sizeof v t) (sizeof t) = Some (heap sizeof v t).
Proof.
  intros sizeof v t HT. apply extra_checked_footprint. now apply estimate_is_footprint.
Qed.

(* The partiality is not vacuous: an estimate below the inline size (what a
   user impl could return) does make the subtraction undefined. *)
Example csub_can_fail : csub 3 24 = None.
Proof. reflexivity. Qed.

(* ------------------------------------------------------------------ *)
(* A nested example under the x86_64 layout                            *)
(*   Arc<Vec<(Option<String>, Result<Box<String>, u32>)>>              *)
(* ------------------------------------------------------------------ *)

Module Ex.
  Definition u32 := MPrim 6.
  Definition pair_t := MTup2 (MOpt MStr) (MRes (MBox MStr) u32).
  Definition ty := MArc (MVec pair_t).

  Fixpoint sz (t : mty) : N :=
    match t with
    | MPrim 6 => 4
    | MPrim _ => 8
    | MUnit => 0
    | MStr => 24
    | MStrRef => 16
    | MVec _ => 24
    | MSliceRef _ => 16
    | MOpt MStr => 24                       (* niche in the capacity field *)
    | MOpt t => 8 + sz t
    | MRes (MBox _) (MPrim 6) => 16
    | MRes a b => 8 + N.max (sz a) (sz b)
    | MTup2 a b => sz a + sz b
    | MTup3 a b c => sz a + sz b + sz c
    | MBox _ | MArc _ | MRc _ => 8
    | MEntry t => 24 + sz t
    end.

  Definition value :=
    VArc (VVec 4 [ VTup2 (VSome (VString 10 3)) (VOk (VBox (VString 7 7)));
                   VTup2 VNone (VErr VPrim);
                   VTup2 (VSome (VString 0 0)) (VOk (VBox (VString 100 1))) ]).

  Example typed : has_mty value ty = true.
  Proof. reflexivity. Qed.

  (* inline Arc pointer 8; pointee Vec header 24; buffer 4 * 40;
     strings 10 + (24 + 7) + 0 + (24 + 100) *)
  Example heap_value : heap sz value ty = 24 + 4 * 40 + 10 + (24 + 7) + 0 + (24 + 100).
  Proof. reflexivity. Qed.

  Example estimate_value : estimate sz value ty = Some 357.
  Proof. reflexivity. Qed.

  Example estimate_value_by_theorem :
    estimate sz value ty = Some (sz ty + heap sz value ty).
  Proof. apply estimate_is_footprint. reflexivity. Qed.

  (* Ill-formed input (length 2 > capacity 1) is rejected by has_mty. *)
  Example illformed : has_mty (VVec 1 [VPrim; VPrim]) (MVec u32) = false.
  Proof. reflexivity. Qed.
End Ex.
