(* MemEst.v -- executable model of cachelito's MemoryEstimator implementations
   (cachelito-core/src/memory_estimator.rs and the CacheEntry impl in
   cachelito-core/src/cache_entry.rs).

   Definitions only; every proof is in MemEstProofs.v.

   Numbers are N (unbounded).  usize wrap-around of *sums* is not modelled;
   the *subtractions* are: the unchecked `-` of the Option / Result / tuple
   impls is the partial [csub] (None = usize underflow: a panic in a debug
   build, a wrapped huge value in a release build), and `saturating_sub`
   of the Vec and CacheEntry impls is the truncated subtraction of N.

   The layout (`size_of::<T>()`) is rustc's business.  It is a Section
   variable [sizeof : mty -> N], i.e. after the Section every definition takes
   an arbitrary layout function as its first argument. *)

From Coq Require Import NArith List Bool.
Import ListNotations.
Local Open Scope N_scope.

(* ------------------------------------------------------------------ *)
(* Types that have a MemoryEstimator impl in the library               *)
(* ------------------------------------------------------------------ *)

Inductive mty : Type :=
| MPrim (id : N)          (* i8..i128 isize u8..u128 usize f32 f64 bool char *)
| MUnit                   (* ()                                               *)
| MStr                    (* String                                           *)
| MStrRef                 (* &str                                             *)
| MVec (t : mty)          (* Vec<T>                                           *)
| MSliceRef (t : mty)     (* &[T]                                             *)
| MOpt (t : mty)          (* Option<T>                                        *)
| MRes (t e : mty)        (* Result<T, E>                                     *)
| MTup2 (a b : mty)       (* (T1, T2)                                         *)
| MTup3 (a b c : mty)     (* (T1, T2, T3)                                     *)
| MBox (t : mty)          (* Box<T>                                           *)
| MArc (t : mty)          (* Arc<T>                                           *)
| MRc (t : mty)           (* Rc<T>                                            *)
| MEntry (t : mty).       (* CacheEntry<R>                                    *)

(* ------------------------------------------------------------------ *)
(* Values: only what the estimators look at                            *)
(* ------------------------------------------------------------------ *)

Inductive mval : Type :=
| VPrim                                   (* any primitive: nothing matters *)
| VUnit
| VString (cap len : N)                   (* capacity(), len()              *)
| VStrRef (len : N)                       (* len()                          *)
| VVec (cap : N) (items : list mval)      (* capacity(), the elements       *)
| VSlice (items : list mval)              (* the elements                   *)
| VNone
| VSome (v : mval)
| VOk (v : mval)
| VErr (v : mval)
| VTup2 (a b : mval)
| VTup3 (a b c : mval)
| VBox (v : mval)
| VArc (v : mval)
| VRc (v : mval)
| VEntry (v : mval).                      (* CacheEntry { value, .. }       *)

(* Typing and well-formedness (len <= capacity for String and Vec). *)
Fixpoint has_mty (v : mval) (t : mty) {struct v} : bool :=
  match v, t with
  | VPrim, MPrim _ => true
  | VUnit, MUnit => true
  | VString cap len, MStr => len <=? cap
  | VStrRef _, MStrRef => true
  | VVec cap items, MVec te =>
      (N.of_nat (length items) <=? cap) && forallb (fun x => has_mty x te) items
  | VSlice items, MSliceRef te => forallb (fun x => has_mty x te) items
  | VNone, MOpt _ => true
  | VSome x, MOpt ti => has_mty x ti
  | VOk x, MRes tk _ => has_mty x tk
  | VErr x, MRes _ te => has_mty x te
  | VTup2 a b, MTup2 ta tb => has_mty a ta && has_mty b tb
  | VTup3 a b c, MTup3 ta tb tc => has_mty a ta && has_mty b tb && has_mty c tc
  | VBox x, MBox ti => has_mty x ti
  | VArc x, MArc ti => has_mty x ti
  | VRc x, MRc ti => has_mty x ti
  | VEntry x, MEntry ti => has_mty x ti
  | _, _ => false
  end.

(* Unchecked usize subtraction `a - b`: defined only when it does not
   underflow. *)
Definition csub (a b : N) : option N :=
  if b <=? a then Some (a - b) else None.

(* `inner.estimate_memory() - size_of_val(inner)` with the unchecked `-`. *)
Definition extra_checked (e : option N) (inline : N) : option N :=
  match e with
  | Some n => csub n inline
  | None => None
  end.

(* `inner.estimate_memory().saturating_sub(size_of_val(inner))`; the
   truncated subtraction of N is exactly saturating_sub. *)
Definition extra_saturating (e : option N) (inline : N) : option N :=
  match e with
  | Some n => Some (n - inline)
  | None => None
  end.

Definition oadd (a b : option N) : option N :=
  match a, b with
  | Some x, Some y => Some (x + y)
  | _, _ => None
  end.

Section Layout.

  (* size_of::<T>() for every T; size_of_val(x) = size_of::<T>() for x : T,
     all the types here being Sized. *)
  Variable sizeof : mty -> N.

  (* ---------------------------------------------------------------- *)
  (* The implementation, impl by impl                                  *)
  (* ---------------------------------------------------------------- *)

  Fixpoint estimate (v : mval) (t : mty) {struct v} : option N :=
    match v, t with
    (* impl MemoryEstimator for i8 {} ...: default method, size_of_val(self) *)
    | VPrim, MPrim id => Some (sizeof (MPrim id))
    | VUnit, MUnit => Some (sizeof MUnit)
    (* String: size_of::<Self>() + self.capacity() *)
    | VString cap _, MStr => Some (sizeof MStr + cap)
    (* &str: size_of::<&str>() + self.len() *)
    | VStrRef len, MStrRef => Some (sizeof MStrRef + len)
    (* Vec<T>: base + capacity * size_of::<T>()
               + sum of item.estimate_memory().saturating_sub(size_of_val(item))
       (.sum() folds from the left starting at 0; addition in N is
       associative and commutative, so the right fold is the same number) *)
    | VVec cap items, MVec te =>
        oadd (Some (sizeof (MVec te) + cap * sizeof te))
             (fold_right
                (fun x acc => oadd (extra_saturating (estimate x te) (sizeof te)) acc)
                (Some 0) items)
    (* &[T]: size_of::<&[T]>() + sum of e.estimate_memory() *)
    | VSlice items, MSliceRef te =>
        oadd (Some (sizeof (MSliceRef te)))
             (fold_right (fun x acc => oadd (estimate x te) acc) (Some 0) items)
    (* Option<T>: size_of::<Self>() + map_or(0, |v| v.estimate_memory() - size_of_val(v)) *)
    | VNone, MOpt ti => Some (sizeof (MOpt ti) + 0)
    | VSome x, MOpt ti =>
        oadd (Some (sizeof (MOpt ti))) (extra_checked (estimate x ti) (sizeof ti))
    (* Result<T,E>: size_of::<Self>() + (val.estimate_memory() - size_of_val(val)) *)
    | VOk x, MRes tk te =>
        oadd (Some (sizeof (MRes tk te))) (extra_checked (estimate x tk) (sizeof tk))
    | VErr x, MRes tk te =>
        oadd (Some (sizeof (MRes tk te))) (extra_checked (estimate x te) (sizeof te))
    (* (T1,T2): size_of::<Self>() + (self.0.est - size_of_val(&self.0)) + (self.1.est - ...) *)
    | VTup2 a b, MTup2 ta tb =>
        oadd (oadd (Some (sizeof (MTup2 ta tb)))
                   (extra_checked (estimate a ta) (sizeof ta)))
             (extra_checked (estimate b tb) (sizeof tb))
    | VTup3 a b c, MTup3 ta tb tc =>
        oadd (oadd (oadd (Some (sizeof (MTup3 ta tb tc)))
                         (extra_checked (estimate a ta) (sizeof ta)))
                   (extra_checked (estimate b tb) (sizeof tb)))
             (extra_checked (estimate c tc) (sizeof tc))
    (* Box / Arc / Rc: size_of::<Self>() + inner.estimate_memory() where inner is the pointee *)
    | VBox x, MBox ti => oadd (Some (sizeof (MBox ti))) (estimate x ti)
    | VArc x, MArc ti => oadd (Some (sizeof (MArc ti))) (estimate x ti)
    | VRc x, MRc ti => oadd (Some (sizeof (MRc ti))) (estimate x ti)
    (* CacheEntry<R>: size_of::<Self>() + value.est.saturating_sub(size_of_val(&value)) *)
    | VEntry x, MEntry ti =>
        oadd (Some (sizeof (MEntry ti))) (extra_saturating (estimate x ti) (sizeof ti))
    | _, _ => None
    end.

  (* ---------------------------------------------------------------- *)
  (* The specification, written independently of the implementation:   *)
  (* the bytes a value keeps alive outside its own inline              *)
  (* representation.  No subtraction anywhere.                         *)
  (* ---------------------------------------------------------------- *)

  Fixpoint heap (v : mval) (t : mty) {struct v} : N :=
    match v, t with
    | VString cap _, MStr => cap                       (* the byte buffer *)
    | VStrRef len, MStrRef => len                      (* the bytes pointed at *)
    | VVec cap items, MVec te =>
        (* the element buffer: capacity slots of the element's inline size,
           plus whatever the live elements own themselves *)
        cap * sizeof te + fold_right (fun x acc => heap x te + acc) 0 items
    | VSlice items, MSliceRef te =>
        (* the elements pointed at: inline part and owned heap of each *)
        fold_right (fun x acc => (sizeof te + heap x te) + acc) 0 items
    | VSome x, MOpt ti => heap x ti                    (* payload is inline *)
    | VOk x, MRes tk _ => heap x tk
    | VErr x, MRes _ te => heap x te
    | VTup2 a b, MTup2 ta tb => heap a ta + heap b tb  (* fields are inline *)
    | VTup3 a b c, MTup3 ta tb tc => heap a ta + heap b tb + heap c tc
    (* the pointee lives on the heap: its inline size and what it owns *)
    | VBox x, MBox ti => sizeof ti + heap x ti
    | VArc x, MArc ti => sizeof ti + heap x ti
    | VRc x, MRc ti => sizeof ti + heap x ti
    | VEntry x, MEntry ti => heap x ti                 (* value is inline *)
    | _, _ => 0                                        (* primitives, (), None *)
    end.

  Definition footprint (v : mval) (t : mty) : N := sizeof t + heap v t.

End Layout.
