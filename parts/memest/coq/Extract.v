(* Extract.v -- OCaml extraction of the executable model.  [sizeof] becomes
   the first (function) argument of estimate / heap / footprint. *)

From Coq Require Import NArith List Bool.
From Coq Require Import Extraction ExtrOcamlBasic.
From CLM Require Import MemEst.

Extraction Language OCaml.

Extraction "memest_model.ml"
  estimate heap footprint has_mty
  N.add N.mul N.eqb N.leb N.div_eucl N.of_nat.
