(* Props_C05_memest.v -- C05, clause "the total size of the cached values
   (each value's inline size plus the heap capacity it owns ...)": restated
   theorems only.  The layout oracle [sizeof] is a universally quantified
   argument, not an axiom. *)

From Coq Require Import NArith List Bool.
From CLM Require Import MemEst MemEstProofs.
Local Open Scope N_scope.

Theorem C05_memest_estimate_is_footprint :
  forall (sizeof : mty -> N) (v : mval) (t : mty),
    has_mty v t = true ->
    estimate sizeof v t = Some (sizeof t + heap sizeof v t).
Proof. exact estimate_is_footprint. Qed.

Theorem C05_memest_no_underflow :
  forall (sizeof : mty -> N) (v : mval) (t : mty),
    has_mty v t = true ->
    exists n, estimate sizeof v t = Some n /\ sizeof t <= n.
Proof. exact estimate_ge_inline. Qed.

Theorem C05_memest_inner_subtraction_defined :
  forall (sizeof : mty -> N) (v : mval) (t : mty),
    has_mty v t = true ->
    extra_checked (estimate sizeof v t) (sizeof t) = Some (heap sizeof v t).
Proof. exact inner_subtraction_defined. Qed.

Print Assumptions C05_memest_estimate_is_footprint.
Print Assumptions C05_memest_no_underflow.
Print Assumptions C05_memest_inner_subtraction_defined.
