#!/usr/bin/env bash
# mutcheck.sh <seed> <count> <workdir>
#
# Detection check: copies /repo/cachelito-core to <workdir>/mut, seeds a bug in
# the String estimator, runs run.sh against the copy, and expects mismatches.
#   M1  size_of::<Self>() + self.len()       (len instead of capacity)
#   M2  self.capacity()                      (inline size dropped: the unchecked
#                                             `-` of Option/Result/tuples
#                                             underflows -> panic in debug,
#                                             wrap in release)
# The copy is removed afterwards.  Exit 0 iff both mutants are detected.
set -u
HERE="$(cd "$(dirname "$0")" && pwd)"
SEED="${1:-1}"; COUNT="${2:-1000}"; WORK="${3:-$HERE/work-mut}"
mkdir -p "$WORK"; WORK="$(cd "$WORK" && pwd)"
ORIG='std::mem::size_of::<Self>() + self.capacity()$'
rc=0
i=0
for NEW in 'std::mem::size_of::<Self>() + self.len()' 'self.capacity()'; do
  i=$((i + 1))
  rm -rf "$WORK/mut"; cp -r /repo/cachelito-core "$WORK/mut"
  sed -i "s|$ORIG|$NEW|" "$WORK/mut/src/memory_estimator.rs"
  if diff -q /repo/cachelito-core/src/memory_estimator.rs "$WORK/mut/src/memory_estimator.rs" >/dev/null; then
    echo "MUT M$i not applied"; rc=1; continue
  fi
  MEMEST_CORE="$WORK/mut" "$HERE/run.sh" "$SEED" "$COUNT" "$WORK" >"$WORK/mut$i.out" 2>&1
  st=$?
  mm=$(grep -c ' MISMATCH ' "$WORK/mut$i.out")
  pn=$(grep -c 'impl=PANIC' "$WORK/mut$i.out")
  if [ "$st" = 1 ] && [ "$mm" -gt 0 ]; then
    echo "MUT M$i [$NEW] detected: mismatches=$mm impl_panics=$pn"
  else
    echo "MUT M$i [$NEW] NOT detected (run.sh exit=$st mismatches=$mm)"; rc=1
  fi
done
rm -rf "$WORK/mut" "$WORK/vh-memest-alt" "$WORK/target-alt"
exit $rc
