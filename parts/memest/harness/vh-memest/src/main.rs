//! vh-memest: differential harness for cachelito's `MemoryEstimator` impls.
//!
//! usage: vh-memest <seed> <count> [<label>]
//!
//! For each case a random value of one of the concrete types in `TYPES` is
//! built, the REAL `estimate_memory()` is called under `catch_unwind`, and one
//! line is printed:
//!
//!   C|<id>|<rust type name>|<type tokens>|<value tokens>|<estimate or PANIC>|<rust footprint>|<size table>
//!
//! type tokens  (prefix notation, fixed arities):
//!   u8 i32 ... bool char | unit | string | strref | vec T | slice T | opt T
//!   | res T E | t2 A B | t3 A B C | box T | arc T | rc T | entry T
//! value tokens (prefix notation):
//!   p | u | s <cap> <len> | r <len> | v <cap> <n> item*n | l <n> item*n
//!   | none | some V | ok V | err V | t2 A B | t3 A B C | box V | arc V | rc V
//!   | entry V
//! size table: `<size_of>:<type tokens>` entries separated by `,` -- one for
//!   the type itself and for every type nested in it.
//!
//! Every fourth case is followed by an ENGINE experiment on the real `GlobalCache<T>` with a
//! memory limit M: two values are stored under the keys `a` and `b` and the line
//!
//!   E|<id>|<rust type name>|<type tokens>|<value a>|<value b>|<M>|<a stored 0/1>|<b stored 0/1>|<policy>|<size table>
//!
//! says what the cache holds afterwards; the driver judges it with the FOOTPRINT of the Coq
//! specification (not with the library's own estimate): total <= M, an oversize value is not
//! stored and displaces nothing, nothing is evicted needlessly.
//!
//! `<rust footprint>` is an independent second opinion computed here by
//! walking the value: size_of::<T>() + owned heap (capacities, pointees).

use cachelito_core::{CacheEntry, CacheStats, EvictionPolicy, GlobalCache, MemoryEstimator};
use once_cell::sync::Lazy;
use parking_lot::{Mutex, RwLock};
use std::collections::{BTreeMap, HashMap, VecDeque};
use std::mem::size_of;
use std::panic::{catch_unwind, AssertUnwindSafe};
use std::rc::Rc;
use std::sync::Arc;

// ---------------------------------------------------------------- rng

struct Rng(u64);
impl Rng {
    fn next(&mut self) -> u64 {
        // splitmix64
        self.0 = self.0.wrapping_add(0x9E37_79B9_7F4A_7C15);
        let mut z = self.0;
        z = (z ^ (z >> 30)).wrapping_mul(0xBF58_476D_1CE4_E5B9);
        z = (z ^ (z >> 27)).wrapping_mul(0x94D0_49BB_1331_11EB);
        z ^ (z >> 31)
    }
    fn below(&mut self, n: u64) -> u64 {
        if n == 0 {
            0
        } else {
            self.next() % n
        }
    }
}

// ---------------------------------------------------------------- shape

type Sizes = BTreeMap<String, usize>;

trait Shape: MemoryEstimator + Sized + Clone + 'static {
    /// type tokens
    fn ty() -> String;
    /// record size_of for Self and every nested type
    fn sizes(out: &mut Sizes);
    /// value tokens
    fn val(&self) -> String;
    /// bytes owned outside the inline representation (independent walk)
    fn heap(&self) -> u128;
    /// random value
    fn make(r: &mut Rng, depth: u32) -> Self;
}

fn reg<T: Shape>(out: &mut Sizes) -> bool {
    out.insert(T::ty(), size_of::<T>()).is_none()
}

macro_rules! prim {
    ($($t:ty => $name:expr, $mk:expr);* $(;)?) => {$(
        impl Shape for $t {
            fn ty() -> String { $name.to_string() }
            fn sizes(out: &mut Sizes) { reg::<Self>(out); }
            fn val(&self) -> String { "p".to_string() }
            fn heap(&self) -> u128 { 0 }
            fn make(r: &mut Rng, _d: u32) -> Self { let f: fn(u64) -> $t = $mk; f(r.next()) }
        }
    )*};
}

prim! {
    i8 => "i8", |x| x as i8;
    i16 => "i16", |x| x as i16;
    i32 => "i32", |x| x as i32;
    i64 => "i64", |x| x as i64;
    i128 => "i128", |x| (x as i128) << 40;
    isize => "isize", |x| x as isize;
    u8 => "u8", |x| x as u8;
    u16 => "u16", |x| x as u16;
    u32 => "u32", |x| x as u32;
    u64 => "u64", |x| x;
    u128 => "u128", |x| (x as u128) << 50;
    usize => "usize", |x| x as usize;
    f32 => "f32", |x| x as f32;
    f64 => "f64", |x| x as f64;
    bool => "bool", |x| x & 1 == 1;
    char => "char", |x| char::from_u32((x % 0xD000) as u32).unwrap_or('x');
}

impl Shape for () {
    fn ty() -> String {
        "unit".into()
    }
    fn sizes(out: &mut Sizes) {
        reg::<Self>(out);
    }
    fn val(&self) -> String {
        "u".into()
    }
    fn heap(&self) -> u128 {
        0
    }
    fn make(_r: &mut Rng, _d: u32) -> Self {}
}

impl Shape for String {
    fn ty() -> String {
        "string".into()
    }
    fn sizes(out: &mut Sizes) {
        reg::<Self>(out);
    }
    fn val(&self) -> String {
        format!("s {} {}", self.capacity(), self.len())
    }
    fn heap(&self) -> u128 {
        self.capacity() as u128
    }
    fn make(r: &mut Rng, _d: u32) -> Self {
        let mode = r.below(10);
        let want = match mode {
            0 => 0,
            1 => 200 + r.below(4000) as usize,
            _ => r.below(48) as usize,
        };
        let mut s = if mode == 0 {
            String::new()
        } else {
            String::with_capacity(want)
        };
        // how many chars to push: usually within capacity, sometimes beyond
        // (forces a growth), sometimes multi-byte
        let n = match r.below(8) {
            0 => 0,
            1 => want + 1 + r.below(20) as usize,
            _ => r.below(want as u64 + 1) as usize,
        };
        let n = n.min(300);
        for i in 0..n {
            if r.below(11) == 0 {
                s.push('\u{e9}');
            } else {
                s.push((b'a' + (i % 26) as u8) as char);
            }
        }
        if r.below(12) == 0 {
            s.shrink_to_fit();
        }
        if r.below(15) == 0 {
            let mut cut = s.len() / 2;
            while !s.is_char_boundary(cut) {
                cut -= 1;
            }
            s.truncate(cut);
        }
        s
    }
}

const STATICS: [&str; 6] = ["", "a", "hello", "h\u{e9}llo w\u{f6}rld", "0123456789abcdef0123456789abcdef", "cachelito"];

impl Shape for &'static str {
    fn ty() -> String {
        "strref".into()
    }
    fn sizes(out: &mut Sizes) {
        reg::<Self>(out);
    }
    fn val(&self) -> String {
        format!("r {}", self.len())
    }
    fn heap(&self) -> u128 {
        self.len() as u128
    }
    fn make(r: &mut Rng, _d: u32) -> Self {
        let s = STATICS[r.below(STATICS.len() as u64) as usize];
        // a random prefix on a char boundary
        let mut cut = r.below(s.len() as u64 + 1) as usize;
        while !s.is_char_boundary(cut) {
            cut -= 1;
        }
        &s[..cut]
    }
}

fn make_vec<T: Shape>(r: &mut Rng, depth: u32) -> Vec<T> {
    let mode = r.below(10);
    let maxlen = if depth == 0 { 7 } else { 4 };
    let n = r.below(maxlen) as usize;
    let mut v: Vec<T> = match mode {
        0 => Vec::new(),
        1 => Vec::with_capacity(n + 100 + r.below(900) as usize),
        _ => Vec::with_capacity(n + r.below(6) as usize),
    };
    // with mode 0 the pushes grow the buffer by the amortised policy
    let n = if r.below(6) == 0 { 0 } else { n };
    for _ in 0..n {
        v.push(T::make(r, depth + 1));
    }
    if r.below(12) == 0 {
        v.shrink_to_fit();
    }
    if r.below(15) == 0 && !v.is_empty() {
        v.pop();
    }
    v
}

impl<T: Shape> Shape for Vec<T> {
    fn ty() -> String {
        format!("vec {}", T::ty())
    }
    fn sizes(out: &mut Sizes) {
        if reg::<Self>(out) {
            T::sizes(out);
        }
    }
    fn val(&self) -> String {
        let mut s = format!("v {} {}", self.capacity(), self.len());
        for x in self {
            s.push(' ');
            s.push_str(&x.val());
        }
        s
    }
    fn heap(&self) -> u128 {
        self.capacity() as u128 * size_of::<T>() as u128 + self.iter().map(|x| x.heap()).sum::<u128>()
    }
    fn make(r: &mut Rng, depth: u32) -> Self {
        make_vec(r, depth)
    }
}

impl<T: Shape + 'static> Shape for &'static [T] {
    fn ty() -> String {
        format!("slice {}", T::ty())
    }
    fn sizes(out: &mut Sizes) {
        if reg::<Self>(out) {
            T::sizes(out);
        }
    }
    fn val(&self) -> String {
        let mut s = format!("l {}", self.len());
        for x in self.iter() {
            s.push(' ');
            s.push_str(&x.val());
        }
        s
    }
    fn heap(&self) -> u128 {
        self.iter().map(|x| size_of::<T>() as u128 + x.heap()).sum()
    }
    fn make(r: &mut Rng, depth: u32) -> Self {
        // leaked on purpose: the harness is short-lived
        Box::leak(make_vec::<T>(r, depth).into_boxed_slice())
    }
}

impl<T: Shape> Shape for Option<T> {
    fn ty() -> String {
        format!("opt {}", T::ty())
    }
    fn sizes(out: &mut Sizes) {
        if reg::<Self>(out) {
            T::sizes(out);
        }
    }
    fn val(&self) -> String {
        match self {
            None => "none".into(),
            Some(x) => format!("some {}", x.val()),
        }
    }
    fn heap(&self) -> u128 {
        match self {
            None => 0,
            Some(x) => x.heap(),
        }
    }
    fn make(r: &mut Rng, depth: u32) -> Self {
        if r.below(3) == 0 {
            None
        } else {
            Some(T::make(r, depth + 1))
        }
    }
}

impl<T: Shape, E: Shape> Shape for Result<T, E> {
    fn ty() -> String {
        format!("res {} {}", T::ty(), E::ty())
    }
    fn sizes(out: &mut Sizes) {
        if reg::<Self>(out) {
            T::sizes(out);
            E::sizes(out);
        }
    }
    fn val(&self) -> String {
        match self {
            Ok(x) => format!("ok {}", x.val()),
            Err(x) => format!("err {}", x.val()),
        }
    }
    fn heap(&self) -> u128 {
        match self {
            Ok(x) => x.heap(),
            Err(x) => x.heap(),
        }
    }
    fn make(r: &mut Rng, depth: u32) -> Self {
        if r.below(2) == 0 {
            Ok(T::make(r, depth + 1))
        } else {
            Err(E::make(r, depth + 1))
        }
    }
}

impl<A: Shape, B: Shape> Shape for (A, B) {
    fn ty() -> String {
        format!("t2 {} {}", A::ty(), B::ty())
    }
    fn sizes(out: &mut Sizes) {
        if reg::<Self>(out) {
            A::sizes(out);
            B::sizes(out);
        }
    }
    fn val(&self) -> String {
        format!("t2 {} {}", self.0.val(), self.1.val())
    }
    fn heap(&self) -> u128 {
        self.0.heap() + self.1.heap()
    }
    fn make(r: &mut Rng, depth: u32) -> Self {
        (A::make(r, depth + 1), B::make(r, depth + 1))
    }
}

impl<A: Shape, B: Shape, C: Shape> Shape for (A, B, C) {
    fn ty() -> String {
        format!("t3 {} {} {}", A::ty(), B::ty(), C::ty())
    }
    fn sizes(out: &mut Sizes) {
        if reg::<Self>(out) {
            A::sizes(out);
            B::sizes(out);
            C::sizes(out);
        }
    }
    fn val(&self) -> String {
        format!("t3 {} {} {}", self.0.val(), self.1.val(), self.2.val())
    }
    fn heap(&self) -> u128 {
        self.0.heap() + self.1.heap() + self.2.heap()
    }
    fn make(r: &mut Rng, depth: u32) -> Self {
        (A::make(r, depth + 1), B::make(r, depth + 1), C::make(r, depth + 1))
    }
}

macro_rules! pointer {
    ($($p:ident => $name:expr);* $(;)?) => {$(
        impl<T: Shape> Shape for $p<T> {
            fn ty() -> String { format!("{} {}", $name, T::ty()) }
            fn sizes(out: &mut Sizes) { if reg::<Self>(out) { T::sizes(out); } }
            fn val(&self) -> String { format!("{} {}", $name, (**self).val()) }
            // the pointee is a heap allocation: its inline size and what it owns
            fn heap(&self) -> u128 { size_of::<T>() as u128 + (**self).heap() }
            fn make(r: &mut Rng, depth: u32) -> Self { $p::new(T::make(r, depth + 1)) }
        }
    )*};
}

pointer! { Box => "box"; Arc => "arc"; Rc => "rc" }

impl<T: Shape> Shape for CacheEntry<T> {
    fn ty() -> String {
        format!("entry {}", T::ty())
    }
    fn sizes(out: &mut Sizes) {
        if reg::<Self>(out) {
            T::sizes(out);
        }
    }
    fn val(&self) -> String {
        format!("entry {}", self.value.val())
    }
    fn heap(&self) -> u128 {
        self.value.heap()
    }
    fn make(r: &mut Rng, depth: u32) -> Self {
        let mut e = CacheEntry::new(T::make(r, depth + 1));
        for _ in 0..r.below(3) {
            e.increment_frequency();
        }
        e
    }
}

// ---------------------------------------------------------------- cases

fn one<T: Shape>(id: &str, r: &mut Rng) {
    let v = T::make(r, 0);
    let mut sizes = Sizes::new();
    T::sizes(&mut sizes);
    let est = catch_unwind(AssertUnwindSafe(|| v.estimate_memory()));
    let est = match est {
        Ok(n) => n.to_string(),
        Err(_) => "PANIC".to_string(),
    };
    let fp = size_of::<T>() as u128 + v.heap();
    let table: Vec<String> = sizes.iter().map(|(t, s)| format!("{}:{}", s, t)).collect();
    println!(
        "C|{}|{}|{}|{}|{}|{}|{}",
        id,
        std::any::type_name::<T>().replace(' ', ""),
        T::ty(),
        v.val(),
        est,
        fp,
        table.join(",")
    );
}

/// two stores into the real sync global engine under a memory limit
fn engine<T: Shape>(id: &str, r: &mut Rng) {
    let (v1, v2) = (T::make(r, 0), T::make(r, 0));
    let mut sizes = Sizes::new();
    T::sizes(&mut sizes);
    let fp1 = size_of::<T>() as u64 + v1.heap() as u64;
    let fp2 = size_of::<T>() as u64 + v2.heap() as u64;
    // limits around the interesting boundaries: one value, the other value, both together
    let m = match r.below(6) {
        0 => fp1 + fp2,
        1 => (fp1 + fp2).saturating_sub(1 + r.below(24)),
        2 => fp1.max(fp2) + r.below(8),
        3 => fp2.saturating_sub(1 + r.below(24)).max(1),
        4 => fp1.min(fp2) + r.below(1 + fp1.max(fp2) - fp1.min(fp2)),
        _ => 1 + r.below(fp1 + fp2 + 16),
    }
    .max(1);
    let map: &'static Lazy<RwLock<HashMap<String, CacheEntry<T>>>> = {
        fn mk<T>() -> RwLock<HashMap<String, CacheEntry<T>>> {
            RwLock::new(HashMap::new())
        }
        Box::leak(Box::new(Lazy::new(mk::<T> as fn() -> RwLock<HashMap<String, CacheEntry<T>>>)))
    };
    let order: &'static Lazy<Mutex<VecDeque<String>>> = {
        fn mk() -> Mutex<VecDeque<String>> {
            Mutex::new(VecDeque::new())
        }
        Box::leak(Box::new(Lazy::new(mk as fn() -> Mutex<VecDeque<String>>)))
    };
    let stats: &'static Lazy<CacheStats> = Box::leak(Box::new(Lazy::new(CacheStats::new as fn() -> CacheStats)));
    let (policy, pname) = if r.below(2) == 0 { (EvictionPolicy::FIFO, "fifo") } else { (EvictionPolicy::LRU, "lru") };
    let c = GlobalCache::new(map, order, None, Some(m as usize), policy, None, None, stats);
    // the values themselves are stored (a clone would have a different capacity)
    let (d1, d2) = (v1.val(), v2.val());
    let (a, b) = (v1, v2);
    let ok = catch_unwind(AssertUnwindSafe(|| {
        c.insert_with_memory("a", a);
        c.insert_with_memory("b", b);
    }))
    .is_ok();
    let (sa, sb) = (map.read().contains_key("a"), map.read().contains_key("b"));
    let table: Vec<String> = sizes.iter().map(|(t, s)| format!("{}:{}", s, t)).collect();
    println!(
        "E|{}|{}|{}|{}|{}|{}|{}|{}|{}|{}",
        id,
        std::any::type_name::<T>().replace(' ', ""),
        T::ty(),
        d1,
        d2,
        m,
        if ok { (sa as u8).to_string() } else { "PANIC".into() },
        sb as u8,
        pname,
        table.join(",")
    );
}

fn both<T: Shape>(id: &str, r: &mut Rng) {
    one::<T>(id, r);
    let n: u64 = id.rsplit('-').next().and_then(|s| s.parse().ok()).unwrap_or(1);
    if n % 4 == 0 {
        engine::<T>(&format!("{}e", id), r);
    }
}

type Runner = fn(&str, &mut Rng);

macro_rules! types {
    ($($t:ty),* $(,)?) => { &[ $( both::<$t> as Runner ),* ] };
}

static TYPES: &[Runner] = types![
    String,
    Vec<u8>,
    Vec<u32>,
    Vec<String>,
    Option<String>,
    Result<String, String>,
    (String, u64),
    (u8, String, Vec<u32>),
    Box<String>,
    Arc<Vec<String>>,
    Vec<Option<String>>,
    Vec<(String, String)>,
    Option<Box<Vec<u8>>>,
    Rc<String>,
    Vec<Vec<u16>>,
    Result<Vec<u64>, String>,
    Option<u128>,
    &'static str,
    Vec<&'static str>,
    (Option<String>, Result<u8, String>),
    Vec<()>,
    Vec<Box<String>>,
    Arc<(String, Vec<String>)>,
    Option<Option<String>>,
    Result<(), String>,
    Vec<Arc<String>>,
    (bool, char, f64),
    Box<Option<Vec<String>>>,
    &'static [String],
    &'static [(u8, Option<Vec<u16>>)],
    CacheEntry<String>,
    CacheEntry<Vec<Option<String>>>,
    CacheEntry<Result<(String, i32), Box<String>>>,
    Vec<Vec<Vec<String>>>,
    Rc<Vec<Rc<String>>>,
    Option<bool>,
    u64,
    i128,
    (),
    f32,
    isize,
    (i8, i16),
    (u16, usize, i64),
    Vec<(i32, Option<Box<(String, Vec<String>)>>, Result<Vec<u8>, &'static str>)>,
    Arc<Vec<Option<Rc<Vec<String>>>>>,
    Result<Option<Vec<(String, u64)>>, (u8, String, Vec<u32>)>,
    Box<Box<Box<String>>>,
    Vec<Result<String, ()>>,
    Option<(String, String, String)>,
];

fn main() {
    let args: Vec<String> = std::env::args().collect();
    let seed: u64 = args.get(1).and_then(|s| s.parse().ok()).unwrap_or(1);
    let count: u64 = args.get(2).and_then(|s| s.parse().ok()).unwrap_or(100);
    let label = args.get(3).cloned().unwrap_or_else(|| {
        if cfg!(debug_assertions) { "debug".into() } else { "release".into() }
    });
    std::panic::set_hook(Box::new(|_| {}));
    println!(
        "H|{}|seed={}|count={}|types={}|overflow_checks={}|usize_bits={}",
        label,
        seed,
        count,
        TYPES.len(),
        cfg!(debug_assertions),
        usize::BITS
    );
    let mut r = Rng(seed ^ 0x5DEE_CE66_D1CE_CAFE);
    for i in 0..count {
        // the first pass covers every type once, then random
        let k = if (i as usize) < TYPES.len() { i as usize } else { r.below(TYPES.len() as u64) as usize };
        let id = format!("{}-{}", label, i);
        TYPES[k](&id, &mut r);
    }
}
