#!/bin/sh
# builds the Coq developments of the self-contained parts (keys, memest, locks[, attrs])
set -e
for d in /verif/parts/*/coq; do
  ( cd "$d" && { [ -f Makefile ] || coq_makefile -f _CoqProject -o Makefile >/dev/null; } && timeout 3000 make -j16 >/dev/null 2>"$d/../coq_build.err" ) || { echo "coq build failed in $d"; tail -20 "$d/../coq_build.err"; exit 1; }
done
