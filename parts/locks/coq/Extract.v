From Coq Require Import Extraction ExtrOcamlBasic.
From CLL Require Import LockProg LockProgs.
Extraction "../ocaml/locks_model.ml" wo_trace accepts rank ordered trace_ordered
  call_sync call_async inv_by invc invw invall stats_op cachelito_progs
  RG_TAG RG_EVENT RG_DEP RG_META RG_CLEAR RG_CHECK SR LO LM.
