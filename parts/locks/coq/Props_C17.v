(* C17 — concurrent calls and invalidations never deadlock.  Statements only. *)
From Coq Require Import List NArith Bool.
From CLL Require Import LockProg LockOrder LockProgs.
Import ListNotations.

Theorem C17_lock_programs_respect_one_order : forallb ordered cachelito_progs = true.
Proof. exact cachelito_progs_ordered. Qed.
Print Assumptions C17_lock_programs_respect_one_order.

Theorem C17_no_deadlock :
  forall (enabled : config -> nat -> bool),
    EnabledNonAcq enabled -> BlockedMeansHeld enabled ->
    forall c0 : config,
      (forall i th, nth_error c0 i = Some th ->
         held th = [] /\
         exists ts, Forall (fun t => exists p, In p cachelito_progs /\ lang p t) ts /\ todo th = concat ts) ->
      forall c, reachable enabled c0 c ->
        (forall i th, nth_error c i = Some th -> todo th = []) \/
        exists i c', step enabled c i c'.
Proof. exact cachelito_no_deadlock. Qed.
Print Assumptions C17_no_deadlock.

(* program-independent form: ANY lock traces that respect the order — what the correspondence
   checks on every recorded trace of the real code, however the code is structured *)
Theorem C17_no_deadlock_for_ordered_traces :
  forall (enabled : config -> nat -> bool),
    EnabledNonAcq enabled -> BlockedMeansHeld enabled ->
    forall c0 : config,
      (forall i th, nth_error c0 i = Some th ->
         held th = [] /\
         exists ts, Forall (fun t => trace_ordered t = true) ts /\ todo th = concat ts) ->
      forall c, reachable enabled c0 c ->
        (forall i th, nth_error c i = Some th -> todo th = []) \/
        exists i c', step enabled c i c'.
Proof. exact cachelito_no_deadlock_traces. Qed.
Print Assumptions C17_no_deadlock_for_ordered_traces.

(* the unrepaired code is rejected by the same checker (the premise matters) *)
Theorem C17_unrepaired_callback_rejected :
  ordered (seqs [a RG_CHECK R; cond_cb_unrepaired; r RG_CHECK]) = false.
Proof. exact unrepaired_callback_rejected. Qed.
Print Assumptions C17_unrepaired_callback_rejected.
