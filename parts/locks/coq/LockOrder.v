(* LockOrder.v -- proofs about lock programs (see LockProg.v):
   1. the static checker [wo] is sound w.r.t. the trace discipline [wo_trace];
   2. [accepts] decides [lang];
   3. "locks always acquired in strictly increasing rank order => no deadlock"
      for any number of threads, any traces and any schedule, parametric in
      the blocking semantics;
   4. closed statements + Print Assumptions;
   5. non-vacuity: concrete examples and the plain-mutex instance. *)

From Coq Require Import List NArith Bool Arith Lia.
From CLL Require Import LockProg.
Import ListNotations.

(* ================================================================== *)
(* 0. Held lists as sets                                               *)
(* ================================================================== *)

(* THE equivalence used on held lists: same elements. *)
Definition set_eq (a b : list lock) : Prop := forall x, In x a <-> In x b.

Lemma set_eq_refl : forall a, set_eq a a.
Proof. intros a x. reflexivity. Qed.

Lemma set_eq_sym : forall a b, set_eq a b -> set_eq b a.
Proof. intros a b H x. symmetry. apply H. Qed.

Lemma set_eq_trans : forall a b c, set_eq a b -> set_eq b c -> set_eq a c.
Proof. intros a b c H1 H2 x. rewrite (H1 x). apply H2. Qed.

Lemma set_eq_nil : forall a, set_eq a [] -> a = [].
Proof.
  intros [|x a] H; [reflexivity|].
  assert (Hx : In x []) by (apply H; left; reflexivity).
  destruct Hx.
Qed.

Lemma set_eq_cons : forall l a b, set_eq a b -> set_eq (l :: a) (l :: b).
Proof.
  intros l a b H x. simpl. rewrite (H x). reflexivity.
Qed.

Lemma mem_In : forall l hs, mem l hs = true <-> In l hs.
Proof.
  intros l hs. unfold mem. rewrite existsb_exists. split.
  - intros [x [Hx He]]. apply N.eqb_eq in He. subst x. exact Hx.
  - intros H. exists l. split; [exact H|apply N.eqb_refl].
Qed.

Lemma remove_lock_In :
  forall x l hs, In x (remove_lock l hs) <-> In x hs /\ x <> l.
Proof.
  intros x l hs. unfold remove_lock. rewrite filter_In.
  rewrite negb_true_iff, N.eqb_neq. reflexivity.
Qed.

Lemma subset_spec :
  forall a b, subset a b = true <-> (forall x, In x a -> In x b).
Proof.
  intros a b. unfold subset. rewrite forallb_forall. split; intros H x Hx.
  - apply mem_In. apply H. exact Hx.
  - apply mem_In. apply H. exact Hx.
Qed.

Lemma same_set_spec : forall a b, same_set a b = true <-> set_eq a b.
Proof.
  intros a b. unfold same_set. rewrite andb_true_iff, !subset_spec.
  unfold set_eq. split.
  - intros [H1 H2] x. split; [apply H1|apply H2].
  - intros H. split; intros x Hx; apply H; exact Hx.
Qed.

Lemma mem_congr : forall l a b, set_eq a b -> mem l a = mem l b.
Proof.
  intros l a b H. apply eq_true_iff_eq. rewrite !mem_In. apply H.
Qed.

Lemma rank_above_congr :
  forall rank l a b, set_eq a b -> rank_above rank l a = rank_above rank l b.
Proof.
  intros rank l a b H. apply eq_true_iff_eq. unfold rank_above.
  rewrite !forallb_forall. split; intros Hall x Hx; apply Hall; apply H; exact Hx.
Qed.

Lemma remove_lock_congr :
  forall l a b, set_eq a b -> set_eq (remove_lock l a) (remove_lock l b).
Proof.
  intros l a b H x. rewrite !remove_lock_In. rewrite (H x). reflexivity.
Qed.

(* ================================================================== *)
(* 1. The discipline: basic facts, congruence, composition             *)
(* ================================================================== *)

Lemma step_held_do :
  forall rank hs a h, step_held rank hs a = Some h -> h = do_action hs a.
Proof.
  intros rank hs a h H. destruct a as [l m|l|]; simpl in *.
  - destruct (rank_above rank l hs); [|discriminate]. inversion H. reflexivity.
  - destruct (mem l hs); [|discriminate]. inversion H. reflexivity.
  - destruct hs; [|discriminate]. inversion H. reflexivity.
Qed.

Lemma step_held_congr :
  forall rank a b x a',
    set_eq a b -> step_held rank a x = Some a' ->
    exists b', step_held rank b x = Some b' /\ set_eq a' b'.
Proof.
  intros rank a b x a' Hab Hs. destruct x as [l m|l|]; simpl in *.
  - rewrite <- (rank_above_congr rank l a b Hab).
    destruct (rank_above rank l a); [|discriminate].
    inversion Hs; subst a'. eexists. split; [reflexivity|].
    apply set_eq_cons. exact Hab.
  - rewrite <- (mem_congr l a b Hab).
    destruct (mem l a); [|discriminate].
    inversion Hs; subst a'. eexists. split; [reflexivity|].
    apply remove_lock_congr. exact Hab.
  - destruct a; [|discriminate]. inversion Hs; subst a'.
    rewrite (set_eq_nil b (set_eq_sym _ _ Hab)).
    exists []. split; [reflexivity|apply set_eq_refl].
Qed.

(* [wo_trace] does not distinguish equivalent held lists. *)
Lemma wo_trace_congr :
  forall rank t a b a',
    set_eq a b -> wo_trace rank a t = Some a' ->
    exists b', wo_trace rank b t = Some b' /\ set_eq a' b'.
Proof.
  intros rank t. induction t as [|x t IH]; intros a b a' Hab Ht; simpl in *.
  - inversion Ht; subst a'. exists b. split; [reflexivity|exact Hab].
  - destruct (step_held rank a x) as [a1|] eqn:Ea; [|discriminate].
    destruct (step_held_congr rank a b x a1 Hab Ea) as [b1 [Eb Hab1]].
    rewrite Eb. apply (IH a1 b1 a' Hab1 Ht).
Qed.

(* Concatenation lemma: [wo_trace] composes. *)
Lemma wo_trace_app :
  forall rank s t hs,
    wo_trace rank hs (s ++ t) =
    match wo_trace rank hs s with
    | Some h => wo_trace rank h t
    | None => None
    end.
Proof.
  intros rank s t. induction s as [|a s IH]; intros hs; simpl.
  - reflexivity.
  - destruct (step_held rank hs a) as [h|]; [apply IH|reflexivity].
Qed.

Lemma wo_trace_cons_inv :
  forall rank hs a t r,
    wo_trace rank hs (a :: t) = Some r ->
    step_held rank hs a = Some (do_action hs a) /\
    wo_trace rank (do_action hs a) t = Some r.
Proof.
  intros rank hs a t r H. simpl in H.
  destruct (step_held rank hs a) as [h|] eqn:E; [|discriminate].
  rewrite <- (step_held_do rank hs a h E). split; [reflexivity|exact H].
Qed.

(* ------------------------------------------------------------------ *)
(* 1a. Soundness of the static checker                                 *)
(* ------------------------------------------------------------------ *)

(* General form: the trace may start from any held list equivalent to the
   one the checker started from. *)
Lemma wo_sound_gen :
  forall rank p t,
    lang p t ->
    forall hs hs' h,
      wo rank hs p = Some hs' -> set_eq h hs ->
      exists h', wo_trace rank h t = Some h' /\ set_eq h' hs'.
Proof.
  intros rank p t HL.
  induction HL as [ | a | p q s t Hp IHp Hq IHq | p q t Hp IHp | p q t Hq IHq
                  | p | p s t Hp IHp Hs IHs ];
    intros hs hs' h Hwo Hh; simpl in Hwo.
  - (* Skip *)
    inversion Hwo; subst hs'. exists h. split; [reflexivity|exact Hh].
  - (* Act *)
    destruct (step_held_congr rank hs h a hs' (set_eq_sym _ _ Hh) Hwo)
      as [h' [Eh Hh']].
    exists h'. simpl. rewrite Eh. split; [reflexivity|].
    apply set_eq_sym. exact Hh'.
  - (* Seq *)
    destruct (wo rank hs p) as [h1|] eqn:E1; [|discriminate].
    destruct (IHp hs h1 h E1 Hh) as [h1' [Es Hh1]].
    destruct (IHq h1 hs' h1' Hwo Hh1) as [h2' [Et Hh2]].
    exists h2'. rewrite wo_trace_app, Es. split; assumption.
  - (* Alt, left *)
    destruct (wo rank hs p) as [h1|] eqn:E1; [|discriminate].
    destruct (wo rank hs q) as [h2|] eqn:E2; [|discriminate].
    destruct (same_set h1 h2) eqn:ES; [|discriminate].
    inversion Hwo; subst hs'.
    apply (IHp hs h1 h E1 Hh).
  - (* Alt, right *)
    destruct (wo rank hs p) as [h1|] eqn:E1; [|discriminate].
    destruct (wo rank hs q) as [h2|] eqn:E2; [|discriminate].
    destruct (same_set h1 h2) eqn:ES; [|discriminate].
    inversion Hwo; subst hs'.
    destruct (IHq hs h2 h E2 Hh) as [h' [Et Hh']].
    exists h'. split; [exact Et|].
    apply same_set_spec in ES.
    apply (set_eq_trans _ _ _ Hh'). apply set_eq_sym. exact ES.
  - (* Star, zero iterations *)
    destruct (wo rank hs p) as [h1|] eqn:E1; [|discriminate].
    destruct (same_set h1 hs) eqn:ES; [|discriminate].
    inversion Hwo; subst hs'. exists h. split; [reflexivity|exact Hh].
  - (* Star, one more iteration *)
    pose proof Hwo as Hwo'.
    destruct (wo rank hs p) as [h1|] eqn:E1; [|discriminate].
    destruct (same_set h1 hs) eqn:ES; [|discriminate].
    inversion Hwo; subst hs'.
    apply same_set_spec in ES.
    destruct (IHp hs h1 h E1 Hh) as [h1' [Es Hh1]].
    assert (Hh1' : set_eq h1' hs) by (apply (set_eq_trans _ _ _ Hh1); exact ES).
    assert (HwoS : wo rank hs (Star p) = Some hs).
    { simpl. rewrite E1. apply same_set_spec in ES. rewrite ES. reflexivity. }
    destruct (IHs hs hs h1' HwoS Hh1') as [h2' [Et Hh2]].
    exists h2'. rewrite wo_trace_app, Es. split; assumption.
Qed.

(* THEOREM 1.  The held list after the trace is equal AS A SET ([set_eq]) to
   the one computed by the checker. *)
Theorem wo_sound_lang :
  forall rank hs p hs',
    wo rank hs p = Some hs' ->
    forall t, lang p t ->
      exists hs'', wo_trace rank hs t = Some hs'' /\ set_eq hs'' hs'.
Proof.
  intros rank hs p hs' Hwo t HL.
  apply (wo_sound_gen rank p t HL hs hs' hs Hwo (set_eq_refl hs)).
Qed.

(* When the checker ends with the empty set, equality is syntactic. *)
Corollary wo_sound_lang_nil :
  forall rank hs p,
    wo rank hs p = Some [] ->
    forall t, lang p t -> wo_trace rank hs t = Some [].
Proof.
  intros rank hs p Hwo t HL.
  destruct (wo_sound_lang rank hs p [] Hwo t HL) as [h [Ht Hh]].
  rewrite Ht. rewrite (set_eq_nil h Hh). reflexivity.
Qed.

(* ================================================================== *)
(* 2. [accepts] decides [lang]                                         *)
(* ================================================================== *)

Lemma mode_eqb_true : forall a b, mode_eqb a b = true -> a = b.
Proof. intros [|] [|] H; simpl in H; try reflexivity; discriminate. Qed.

Lemma mode_eqb_refl : forall a, mode_eqb a a = true.
Proof. intros [|]; reflexivity. Qed.

Lemma action_eqb_true : forall a b, action_eqb a b = true -> a = b.
Proof.
  intros [l m|l|] [l' m'|l'|] H; simpl in H; try discriminate.
  - apply andb_true_iff in H. destruct H as [H1 H2].
    apply N.eqb_eq in H1. apply mode_eqb_true in H2. subst. reflexivity.
  - apply N.eqb_eq in H. subst. reflexivity.
  - reflexivity.
Qed.

Lemma action_eqb_refl : forall a, action_eqb a a = true.
Proof.
  intros [l m|l|]; simpl.
  - rewrite N.eqb_refl, mode_eqb_refl. reflexivity.
  - apply N.eqb_refl.
  - reflexivity.
Qed.

Lemma prog_eqb_true : forall p q, prog_eqb p q = true -> p = q.
Proof.
  intros p. induction p as [ | a | p1 IH1 p2 IH2 | p1 IH1 p2 IH2 | p1 IH1 ];
    intros [ | b | q1 q2 | q1 q2 | q1 ] H; simpl in H; try discriminate.
  - reflexivity.
  - apply action_eqb_true in H. subst. reflexivity.
  - apply andb_true_iff in H. destruct H as [H1 H2].
    rewrite (IH1 q1 H1), (IH2 q2 H2). reflexivity.
  - apply andb_true_iff in H. destruct H as [H1 H2].
    rewrite (IH1 q1 H1), (IH2 q2 H2). reflexivity.
  - rewrite (IH1 q1 H). reflexivity.
Qed.

(* Inversion lemmas for [lang]. *)
Lemma lang_Skip_inv : forall t, lang Skip t -> t = [].
Proof. intros t H. inversion H. reflexivity. Qed.

Lemma lang_Act_inv : forall a t, lang (Act a) t -> t = [a].
Proof. intros a t H. inversion H. reflexivity. Qed.

Lemma lang_Seq_inv :
  forall p q t, lang (Seq p q) t ->
    exists s u, t = s ++ u /\ lang p s /\ lang q u.
Proof.
  intros p q t H. inversion H; subst.
  eexists. eexists. split; [reflexivity|]. split; assumption.
Qed.

Lemma lang_Alt_inv : forall p q t, lang (Alt p q) t -> lang p t \/ lang q t.
Proof. intros p q t H. inversion H; subst; [left|right]; assumption. Qed.

(* Language of an optional program; [None] is the empty language. *)
Definition olang (o : option prog) (t : list action) : Prop :=
  match o with
  | Some p => lang p t
  | None => False
  end.

Lemma mk_seq_lang : forall p q t, lang (mk_seq p q) t <-> lang (Seq p q) t.
Proof.
  intros p q t. destruct p; simpl; try reflexivity. split.
  - intros H. change t with ([] ++ t). apply L_Seq; [apply L_Skip|exact H].
  - intros H. apply lang_Seq_inv in H. destruct H as [s [u [Et [Hs Hu]]]].
    apply lang_Skip_inv in Hs. subst. simpl. exact Hu.
Qed.

Lemma alt_mem_lang :
  forall q p t, alt_mem p q = true -> lang p t -> lang q t.
Proof.
  intros q. induction q as [ | b | q1 IH1 q2 IH2 | q1 IH1 q2 IH2 | q1 IH1 ];
    intros p t H HL; simpl in H;
    try (apply prog_eqb_true in H; subst p; exact HL).
  apply orb_true_iff in H. destruct H as [H|H].
  - apply prog_eqb_true in H. subst p. apply L_AltL. exact HL.
  - apply L_AltR. apply (IH2 p t H HL).
Qed.

Lemma alt_add_lang :
  forall p q t, lang (alt_add p q) t <-> lang p t \/ lang q t.
Proof.
  intros p q t. unfold alt_add. destruct (alt_mem p q) eqn:E.
  - split; [intro H; right; exact H|].
    intros [H|H]; [apply (alt_mem_lang q p t E H)|exact H].
  - split.
    + apply lang_Alt_inv.
    + intros [H|H]; [apply L_AltL|apply L_AltR]; exact H.
Qed.

Lemma mk_alt_lang : forall p q t, lang (mk_alt p q) t <-> lang p t \/ lang q t.
Proof.
  intros p. induction p as [ | b | p1 IH1 p2 IH2 | p1 IH1 p2 IH2 | p1 IH1 ];
    intros q t; simpl; try apply alt_add_lang.
  rewrite IH1, IH2. split.
  - intros [H|[H|H]].
    + left. apply L_AltL. exact H.
    + left. apply L_AltR. exact H.
    + right. exact H.
  - intros [H|H].
    + apply lang_Alt_inv in H. destruct H as [H|H]; [left|right; left]; exact H.
    + right. right. exact H.
Qed.

Lemma seq_opt_lang :
  forall o q t,
    olang (seq_opt o q) t <->
    exists s u, t = s ++ u /\ olang o s /\ lang q u.
Proof.
  intros [p|] q t; simpl.
  - rewrite mk_seq_lang. split.
    + apply lang_Seq_inv.
    + intros [s [u [Et [Hs Hu]]]]. subst t. apply L_Seq; assumption.
  - split; [intros []|]. intros [s [u [_ [[] _]]]].
Qed.

Lemma alt_opt_lang :
  forall o1 o2 t, olang (alt_opt o1 o2) t <-> olang o1 t \/ olang o2 t.
Proof.
  intros [p|] [q|] t; simpl.
  - apply mk_alt_lang.
  - split; [intro H; left; exact H|]. intros [H|[]]. exact H.
  - split; [intro H; right; exact H|]. intros [[]|H]. exact H.
  - split; [intros []|]. intros [[]|[]].
Qed.

Lemma nullable_sound : forall p, nullable p = true -> lang p [].
Proof.
  intros p. induction p as [ | a | p1 IH1 p2 IH2 | p1 IH1 p2 IH2 | p1 IH1 ];
    simpl; intros H.
  - apply L_Skip.
  - discriminate.
  - apply andb_true_iff in H. destruct H as [H1 H2].
    change (@nil action) with (@nil action ++ []).
    apply L_Seq; [apply IH1|apply IH2]; assumption.
  - apply orb_true_iff in H. destruct H as [H|H].
    + apply L_AltL. apply IH1. exact H.
    + apply L_AltR. apply IH2. exact H.
  - apply L_Star0.
Qed.

Lemma nullable_complete_gen :
  forall p t, lang p t -> t = [] -> nullable p = true.
Proof.
  intros p t HL.
  induction HL as [ | a | p q s t Hp IHp Hq IHq | p q t Hp IHp | p q t Hq IHq
                  | p | p s t Hp IHp Hs IHs ]; intros E; simpl.
  - reflexivity.
  - discriminate.
  - apply app_eq_nil in E. destruct E as [E1 E2].
    rewrite (IHp E1), (IHq E2). reflexivity.
  - rewrite (IHp E). reflexivity.
  - rewrite (IHq E). apply orb_true_r.
  - reflexivity.
  - reflexivity.
Qed.

Lemma nullable_complete : forall p, lang p [] -> nullable p = true.
Proof. intros p H. apply (nullable_complete_gen p [] H eq_refl). Qed.

Lemma deriv_sound :
  forall p a t, olang (deriv a p) t -> lang p (a :: t).
Proof.
  intros p. induction p as [ | b | p1 IH1 p2 IH2 | p1 IH1 p2 IH2 | p1 IH1 ];
    intros a t H; simpl in H.
  - destruct H.
  - destruct (action_eqb a b) eqn:E; [|destruct H].
    apply action_eqb_true in E. subst b. simpl in H.
    apply lang_Skip_inv in H. subst t. apply L_Act.
  - apply alt_opt_lang in H. destruct H as [H|H].
    + apply seq_opt_lang in H. destruct H as [s [u [Et [Hs Hu]]]]. subst t.
      change (a :: s ++ u) with ((a :: s) ++ u).
      apply L_Seq; [apply IH1; exact Hs|exact Hu].
    + destruct (nullable p1) eqn:EN; [|destruct H].
      change (a :: t) with ([] ++ a :: t).
      apply L_Seq; [apply nullable_sound; exact EN|apply IH2; exact H].
  - apply alt_opt_lang in H. destruct H as [H|H].
    + apply L_AltL. apply IH1. exact H.
    + apply L_AltR. apply IH2. exact H.
  - apply seq_opt_lang in H. destruct H as [s [u [Et [Hs Hu]]]]. subst t.
    change (a :: s ++ u) with ((a :: s) ++ u).
    apply L_StarS; [apply IH1; exact Hs|exact Hu].
Qed.

Lemma deriv_complete_gen :
  forall p w, lang p w -> forall a t, w = a :: t -> olang (deriv a p) t.
Proof.
  intros p w HL.
  induction HL as [ | b | p q s u Hp IHp Hq IHq | p q u Hp IHp | p q u Hq IHq
                  | p | p s u Hp IHp Hs IHs ]; intros a t E; simpl.
  - discriminate.
  - inversion E; subst. rewrite action_eqb_refl. simpl. apply L_Skip.
  - apply alt_opt_lang. destruct s as [|a' s'].
    + right. simpl in E. rewrite (nullable_complete p Hp).
      apply IHq. exact E.
    + left. simpl in E. inversion E; subst.
      apply seq_opt_lang. exists s', u. split; [reflexivity|].
      split; [apply IHp; reflexivity|exact Hq].
  - apply alt_opt_lang. left. apply IHp. exact E.
  - apply alt_opt_lang. right. apply IHq. exact E.
  - discriminate.
  - destruct s as [|a' s'].
    + simpl in E. apply (IHs a t E).
    + simpl in E. inversion E; subst.
      apply seq_opt_lang. exists s', u. split; [reflexivity|].
      split; [apply IHp; reflexivity|exact Hs].
Qed.

(* THEOREM 2a. *)
Theorem accepts_sound : forall p t, accepts p t = true -> lang p t.
Proof.
  intros p t. revert p. induction t as [|a t IH]; intros p H; simpl in H.
  - apply nullable_sound. exact H.
  - destruct (deriv a p) as [p'|] eqn:E; [|discriminate].
    apply deriv_sound. rewrite E. simpl. apply IH. exact H.
Qed.

(* THEOREM 2b. *)
Theorem accepts_complete : forall p t, lang p t -> accepts p t = true.
Proof.
  intros p t. revert p. induction t as [|a t IH]; intros p H; simpl.
  - apply nullable_complete. exact H.
  - pose proof (deriv_complete_gen p (a :: t) H a t eq_refl) as HD.
    destruct (deriv a p) as [p'|]; simpl in HD; [|destruct HD].
    apply IH. exact HD.
Qed.

(* ================================================================== *)
(* 3. Operational semantics and the lock-order theorem                 *)
(* ================================================================== *)

Lemma nth_error_upd :
  forall cfg i th j t,
    nth_error (upd cfg i th) j = Some t ->
    (j = i /\ t = th) \/ nth_error cfg j = Some t.
Proof.
  intros cfg. induction cfg as [|x cfg IH]; intros i th j t H.
  - destruct i; simpl in H; right; exact H.
  - destruct i as [|i]; destruct j as [|j]; simpl in *.
    + left. inversion H. split; reflexivity.
    + right. exact H.
    + right. exact H.
    + destruct (IH i th j t H) as [[Ej Et]|Hn].
      * left. subst. split; reflexivity.
      * right. exact Hn.
Qed.

(* The two assumptions on the blocking semantics, as named predicates on
   [enabled] so that closed theorems can take them as premises. *)

(* A thread whose next action is a [Rel _] or a [Yield] is always enabled. *)
Definition EnabledNonAcq (enabled : config -> nat -> bool) : Prop :=
  forall cfg i th a rest,
    nth_error cfg i = Some th -> todo th = a :: rest ->
    is_acq a = false -> enabled cfg i = true.

(* Whenever a thread cannot take a lock, some OTHER thread currently holds
   that lock (in some mode).  Covers mutexes, reader-writer locks and
   writer-preferring fairness. *)
Definition BlockedMeansHeld (enabled : config -> nat -> bool) : Prop :=
  forall cfg i th l m rest,
    nth_error cfg i = Some th -> todo th = Acq l m :: rest ->
    enabled cfg i = false ->
    exists j th', j <> i /\ nth_error cfg j = Some th' /\ In l (held th').

Section Sem.

  Variable rank : lock -> N.
  Variable enabled : config -> nat -> bool.

  Hypothesis enabled_nonacq : EnabledNonAcq enabled.
  Hypothesis blocked_means_held : BlockedMeansHeld enabled.

  (* Thread [i], enabled, performs its next action. *)
  Inductive step : config -> nat -> config -> Prop :=
  | Step : forall cfg i th a rest,
      nth_error cfg i = Some th ->
      todo th = a :: rest ->
      enabled cfg i = true ->
      step cfg i
           (upd cfg i {| held := do_action (held th) a; todo := rest |}).

  Lemma step_fire :
    forall cfg i cfg',
      step cfg i cfg' <-> enabled cfg i = true /\ fire cfg i = Some cfg'.
  Proof.
    intros cfg i cfg'. split.
    - intros HS. destruct HS as [cfg i th a rest Hn Ht He].
      split; [exact He|]. unfold fire. rewrite Hn, Ht. reflexivity.
    - intros [He HF]. unfold fire in HF.
      destruct (nth_error cfg i) as [th|] eqn:Hn; [|discriminate].
      destruct (todo th) as [|a rest] eqn:Ht; [discriminate|].
      inversion HF; subst cfg'. apply (Step cfg i th a rest Hn Ht He).
  Qed.

  (* The invariant: every thread's remaining trace is well-ordered from what
     the thread holds, and ends with the empty held set. *)
  Definition WO (cfg : config) : Prop :=
    forall i th, nth_error cfg i = Some th ->
      wo_trace rank (held th) (todo th) = Some [].

  (* The weaker invariant (well-ordered only).  It is preserved too and gives
     [yield_holds_nothing], but it does NOT give [no_deadlock]; see
     [weak_invariant_insufficient] at the end of this file. *)
  Definition WOw (cfg : config) : Prop :=
    forall i th, nth_error cfg i = Some th ->
      wo_trace rank (held th) (todo th) <> None.

  Lemma WO_WOw : forall cfg, WO cfg -> WOw cfg.
  Proof.
    intros cfg H i th Hn. rewrite (H i th Hn). discriminate.
  Qed.

  Theorem WO_step :
    forall cfg i cfg', WO cfg -> step cfg i cfg' -> WO cfg'.
  Proof.
    intros cfg i cfg' HW HS.
    destruct HS as [cfg i th a rest Hn Ht He].
    intros j t Hj.
    destruct (nth_error_upd _ _ _ _ _ Hj) as [[Ej Et]|Hold].
    - subst j t. simpl.
      pose proof (HW i th Hn) as Hth. rewrite Ht in Hth.
      apply wo_trace_cons_inv in Hth. destruct Hth as [_ Hrest]. exact Hrest.
    - apply (HW j t Hold).
  Qed.

  Theorem WOw_step :
    forall cfg i cfg', WOw cfg -> step cfg i cfg' -> WOw cfg'.
  Proof.
    intros cfg i cfg' HW HS.
    destruct HS as [cfg i th a rest Hn Ht He].
    intros j t Hj.
    destruct (nth_error_upd _ _ _ _ _ Hj) as [[Ej Et]|Hold].
    - subst j t. simpl.
      pose proof (HW i th Hn) as Hth. rewrite Ht in Hth.
      destruct (wo_trace rank (held th) (a :: rest)) as [r|] eqn:E;
        [|exfalso; apply Hth; reflexivity].
      apply wo_trace_cons_inv in E. destruct E as [_ Hrest].
      rewrite Hrest. discriminate.
    - apply (HW j t Hold).
  Qed.

  (* A suspended async call (a thread sitting at an await point) holds no
     lock.  Needs only the weak invariant. *)
  Theorem yield_holds_nothing_w :
    forall cfg i th rest,
      WOw cfg -> nth_error cfg i = Some th -> todo th = Yield :: rest ->
      held th = [].
  Proof.
    intros cfg i th rest HW Hn Ht.
    pose proof (HW i th Hn) as Hth. rewrite Ht in Hth. simpl in Hth.
    destruct (held th) as [|x hs]; [reflexivity|].
    exfalso. apply Hth. reflexivity.
  Qed.

  Theorem yield_holds_nothing :
    forall cfg i th rest,
      WO cfg -> nth_error cfg i = Some th -> todo th = Yield :: rest ->
      held th = [].
  Proof.
    intros cfg i th rest HW.
    apply yield_holds_nothing_w. apply WO_WOw. exact HW.
  Qed.

  (* A finished thread holds nothing (this is what the strong invariant
     adds). *)
  Lemma finished_holds_nothing :
    forall cfg i th,
      WO cfg -> nth_error cfg i = Some th -> todo th = [] -> held th = [].
  Proof.
    intros cfg i th HW Hn Ht.
    pose proof (HW i th Hn) as Hth. rewrite Ht in Hth. simpl in Hth.
    inversion Hth. reflexivity.
  Qed.

  (* A thread about to acquire [l] holds only locks of strictly lower rank. *)
  Lemma acq_rank_above :
    forall cfg i th l m rest x,
      WO cfg -> nth_error cfg i = Some th -> todo th = Acq l m :: rest ->
      In x (held th) -> (rank x < rank l)%N.
  Proof.
    intros cfg i th l m rest x HW Hn Ht Hx.
    pose proof (HW i th Hn) as Hth. rewrite Ht in Hth. simpl in Hth.
    destruct (rank_above rank l (held th)) eqn:ER; [|discriminate].
    unfold rank_above in ER. rewrite forallb_forall in ER.
    apply N.ltb_lt. apply ER. exact Hx.
  Qed.

  (* An upper bound on the ranks of all awaited locks. *)
  Definition await_rank (th : thread) : N :=
    match todo th with
    | Acq l _ :: _ => rank l
    | _ => 0%N
    end.

  Definition max_await (cfg : config) : N :=
    fold_right (fun th m => N.max (await_rank th) m) 0%N cfg.

  Lemma max_await_ge :
    forall cfg i th,
      nth_error cfg i = Some th -> (await_rank th <= max_await cfg)%N.
  Proof.
    intros cfg. induction cfg as [|x cfg IH]; intros i th Hn.
    - destruct i; discriminate.
    - destruct i as [|i]; simpl in *.
      + inversion Hn; subst x. apply N.le_max_l.
      + apply N.le_trans with (m := max_await cfg).
        * apply (IH i th Hn).
        * apply N.le_max_r.
  Qed.

  (* If every unfinished thread is disabled, a thread waiting for a lock of
     rank r yields another thread waiting for a lock of rank > r.  Ranks of
     awaited locks are bounded, so this cannot go on. *)
  Lemma no_waiting_chain :
    forall cfg,
      WO cfg ->
      (forall i th a rest,
          nth_error cfg i = Some th -> todo th = a :: rest ->
          enabled cfg i = false) ->
      forall k j th l m rest,
        nth_error cfg j = Some th -> todo th = Acq l m :: rest ->
        (N.to_nat (max_await cfg) < N.to_nat (rank l) + k)%nat ->
        False.
  Proof.
    intros cfg HW Hall k.
    induction k as [|k IH]; intros j th l m rest Hn Ht Hk.
    - pose proof (max_await_ge cfg j th Hn) as Hle.
      unfold await_rank in Hle. rewrite Ht in Hle. lia.
    - pose proof (Hall j th _ _ Hn Ht) as Hdis.
      destruct (blocked_means_held cfg j th l m rest Hn Ht Hdis)
        as [j' [th' [Hneq [Hn' Hin]]]].
      destruct (todo th') as [|a' rest'] eqn:Ht'.
      + rewrite (finished_holds_nothing cfg j' th' HW Hn' Ht') in Hin.
        destruct Hin.
      + pose proof (Hall j' th' _ _ Hn' Ht') as Hdis'.
        destruct a' as [l' m'|l'|].
        * pose proof (acq_rank_above cfg j' th' l' m' rest' l HW Hn' Ht' Hin)
            as Hlt.
          apply (IH j' th' l' m' rest' Hn' Ht'). lia.
        * rewrite (enabled_nonacq cfg j' th' _ _ Hn' Ht' eq_refl) in Hdis'.
          discriminate.
        * rewrite (enabled_nonacq cfg j' th' _ _ Hn' Ht' eq_refl) in Hdis'.
          discriminate.
  Qed.

  (* Either some unfinished thread is enabled or all of them are disabled. *)
  Lemma find_enabled :
    forall cfg n,
      (exists i th a rest,
          nth_error cfg i = Some th /\ todo th = a :: rest /\
          enabled cfg i = true) \/
      (forall i th a rest,
          (i < n)%nat -> nth_error cfg i = Some th -> todo th = a :: rest ->
          enabled cfg i = false).
  Proof.
    intros cfg n. induction n as [|n IH].
    - right. intros i th a rest Hlt. lia.
    - destruct IH as [IH|IH]; [left; exact IH|].
      destruct (nth_error cfg n) as [thn|] eqn:Hn.
      + destruct (todo thn) as [|an restn] eqn:Htn.
        * right. intros i th a rest Hlt Hi Ht.
          assert (Hc : (i < n)%nat \/ i = n) by lia.
          destruct Hc as [Hc|Hc]; [apply (IH i th a rest Hc Hi Ht)|].
          subst i. rewrite Hn in Hi. inversion Hi; subst th.
          rewrite Htn in Ht. discriminate.
        * destruct (enabled cfg n) eqn:He.
          -- left. exists n, thn, an, restn. repeat split; assumption.
          -- right. intros i th a rest Hlt Hi Ht.
             assert (Hc : (i < n)%nat \/ i = n) by lia.
             destruct Hc as [Hc|Hc]; [apply (IH i th a rest Hc Hi Ht)|].
             subst i. exact He.
      + right. intros i th a rest Hlt Hi Ht.
        assert (Hc : (i < n)%nat \/ i = n) by lia.
        destruct Hc as [Hc|Hc]; [apply (IH i th a rest Hc Hi Ht)|].
        subst i. rewrite Hn in Hi. discriminate.
  Qed.

  (* MAIN THEOREM. *)
  Theorem no_deadlock :
    forall cfg,
      WO cfg ->
      (exists i th, nth_error cfg i = Some th /\ todo th <> []) ->
      exists i cfg', step cfg i cfg'.
  Proof.
    intros cfg HW [i [th [Hn Hne]]].
    destruct (find_enabled cfg (length cfg)) as [Hex|Hall].
    - destruct Hex as [j [thj [a [rest [Hj [Ht He]]]]]].
      exists j. eexists. apply (Step cfg j thj a rest Hj Ht He).
    - exfalso.
      assert (Hall' : forall i th a rest,
                 nth_error cfg i = Some th -> todo th = a :: rest ->
                 enabled cfg i = false).
      { intros i0 th0 a0 rest0 Hi0 Ht0.
        apply (Hall i0 th0 a0 rest0); [|exact Hi0|exact Ht0].
        apply nth_error_Some. rewrite Hi0. discriminate. }
      destruct (todo th) as [|a rest] eqn:Ht; [apply Hne; reflexivity|].
      pose proof (Hall' i th a rest Hn Ht) as Hdis.
      destruct a as [l m|l|].
      + apply (no_waiting_chain cfg HW Hall'
                 (S (N.to_nat (max_await cfg))) i th l m rest Hn Ht).
        lia.
      + rewrite (enabled_nonacq cfg i th _ _ Hn Ht eq_refl) in Hdis.
        discriminate.
      + rewrite (enabled_nonacq cfg i th _ _ Hn Ht eq_refl) in Hdis.
        discriminate.
  Qed.

  (* ---------------------------------------------------------------- *)
  (* Reachability                                                      *)
  (* ---------------------------------------------------------------- *)

  Inductive reachable (c0 : config) : config -> Prop :=
  | reach_refl : reachable c0 c0
  | reach_step : forall c i c',
      reachable c0 c -> step c i c' -> reachable c0 c'.

  Lemma WO_reachable :
    forall c0 c, WO c0 -> reachable c0 c -> WO c.
  Proof.
    intros c0 c H0 HR. induction HR as [|c i c' HR IH HS].
    - exact H0.
    - apply (WO_step c i c' IH HS).
  Qed.

  (* A trace of some program that passes the static checker from the empty
     held set back to the empty held set. *)
  Definition good_trace (t : list action) : Prop :=
    exists p, wo rank [] p = Some [] /\ lang p t.

  (* Initial configurations: every thread holds nothing and is about to run a
     concatenation of good traces (e.g. a sequence of library calls). *)
  Definition init_ok (cfg : config) : Prop :=
    forall i th, nth_error cfg i = Some th ->
      held th = [] /\
      exists ts, Forall good_trace ts /\ todo th = concat ts.

  Lemma good_traces_wo :
    forall ts, Forall good_trace ts -> wo_trace rank [] (concat ts) = Some [].
  Proof.
    intros ts HF. induction HF as [|t ts Ht HF IH]; simpl.
    - reflexivity.
    - destruct Ht as [p [Hwo HL]].
      rewrite wo_trace_app.
      rewrite (wo_sound_lang_nil rank [] p Hwo t HL). exact IH.
  Qed.

  Lemma init_WO : forall cfg, init_ok cfg -> WO cfg.
  Proof.
    intros cfg HI i th Hn.
    destruct (HI i th Hn) as [Hh [ts [HF Ht]]].
    rewrite Hh, Ht. apply good_traces_wo. exact HF.
  Qed.

  Definition all_finished (cfg : config) : Prop :=
    forall i th, nth_error cfg i = Some th -> todo th = [].

  Lemma finished_dec :
    forall cfg,
      all_finished cfg \/
      (exists i th, nth_error cfg i = Some th /\ todo th <> []).
  Proof.
    intros cfg. induction cfg as [|x cfg IH].
    - left. intros i th Hn. destruct i; discriminate.
    - destruct (todo x) as [|a rest] eqn:Hx.
      + destruct IH as [IH|[i [th [Hn Hne]]]].
        * left. intros i th Hn. destruct i as [|i]; simpl in Hn.
          -- inversion Hn; subst th. exact Hx.
          -- apply (IH i th Hn).
        * right. exists (S i), th. split; [exact Hn|exact Hne].
      + right. exists 0%nat, x. split; [reflexivity|].
        rewrite Hx. discriminate.
  Qed.

  Theorem no_deadlock_WO :
    forall c0, WO c0 ->
      forall c, reachable c0 c ->
        all_finished c \/ exists i c', step c i c'.
  Proof.
    intros c0 H0 c HR.
    destruct (finished_dec c) as [HF|HU]; [left; exact HF|right].
    apply no_deadlock; [|exact HU].
    apply (WO_reachable c0 c H0 HR).
  Qed.

  (* COROLLARY. *)
  Corollary no_deadlock_reachable :
    forall c0, init_ok c0 ->
      forall c, reachable c0 c ->
        all_finished c \/ exists i c', step c i c'.
  Proof.
    intros c0 HI. apply no_deadlock_WO. apply init_WO. exact HI.
  Qed.

End Sem.

(* ================================================================== *)
(* 4. Closed statements                                                *)
(* ================================================================== *)

Theorem wo_sound_lang_closed :
  forall (rank : lock -> N) (hs : list lock) (p : prog) (hs' : list lock),
    wo rank hs p = Some hs' ->
    forall t, lang p t ->
      exists hs'', wo_trace rank hs t = Some hs'' /\
                   (forall x, In x hs'' <-> In x hs').
Proof. exact wo_sound_lang. Qed.
Print Assumptions wo_sound_lang_closed.

Theorem accepts_iff_lang :
  forall p t, accepts p t = true <-> lang p t.
Proof.
  intros p t. split; [apply accepts_sound|apply accepts_complete].
Qed.
Print Assumptions accepts_iff_lang.

Theorem WO_step_closed :
  forall (rank : lock -> N) (enabled : config -> nat -> bool)
         (cfg : config) (i : nat) (cfg' : config),
    WO rank cfg -> step enabled cfg i cfg' -> WO rank cfg'.
Proof. exact WO_step. Qed.
Print Assumptions WO_step_closed.

(* The main theorem with both hypotheses spelled out in full. *)
Theorem no_deadlock_closed :
  forall (rank : lock -> N) (enabled : config -> nat -> bool),
    (* enabled_nonacq *)
    (forall cfg i th a rest,
        nth_error cfg i = Some th -> todo th = a :: rest ->
        is_acq a = false -> enabled cfg i = true) ->
    (* blocked_means_held *)
    (forall cfg i th l m rest,
        nth_error cfg i = Some th -> todo th = Acq l m :: rest ->
        enabled cfg i = false ->
        exists j th', j <> i /\ nth_error cfg j = Some th' /\ In l (held th')) ->
    forall cfg : config,
      (* WO rank cfg *)
      (forall i th, nth_error cfg i = Some th ->
                    wo_trace rank (held th) (todo th) = Some []) ->
      (exists i th, nth_error cfg i = Some th /\ todo th <> []) ->
      exists i cfg', step enabled cfg i cfg'.
Proof. exact no_deadlock. Qed.
Print Assumptions no_deadlock_closed.

Theorem no_deadlock_reachable_closed :
  forall (rank : lock -> N) (enabled : config -> nat -> bool),
    EnabledNonAcq enabled ->
    BlockedMeansHeld enabled ->
    forall c0 : config,
      (* init_ok rank c0 *)
      (forall i th, nth_error c0 i = Some th ->
         held th = [] /\
         exists ts,
           Forall (fun t => exists p, wo rank [] p = Some [] /\ lang p t) ts /\
           todo th = concat ts) ->
      forall c, reachable enabled c0 c ->
        (forall i th, nth_error c i = Some th -> todo th = []) \/
        exists i c', step enabled c i c'.
Proof. exact no_deadlock_reachable. Qed.
Print Assumptions no_deadlock_reachable_closed.

Theorem yield_holds_nothing_closed :
  forall (rank : lock -> N) (cfg : config) (i : nat) (th : thread)
         (rest : list action),
    (forall i th, nth_error cfg i = Some th ->
                  wo_trace rank (held th) (todo th) <> None) ->
    nth_error cfg i = Some th -> todo th = Yield :: rest ->
    held th = [].
Proof. exact yield_holds_nothing_w. Qed.
Print Assumptions yield_holds_nothing_closed.

(* ------------------------------------------------------------------ *)
(* 4a. History-dependent blocking (fair rwlocks, wait queues, ...)     *)
(* ------------------------------------------------------------------ *)

(* [enabled] above is a function of the configuration only.  A real lock may
   decide who is blocked from state that is not in [config] (modes of the
   holders, a wait queue, ...).  The theorem still applies: the invariant is
   preserved by ANY step, whatever enabledness function allowed it, and
   [no_deadlock] may be used at each instant with the enabledness function
   of that instant. *)

Definition always : config -> nat -> bool := fun _ _ => true.

Lemma step_always :
  forall enabled cfg i cfg', step enabled cfg i cfg' -> step always cfg i cfg'.
Proof.
  intros enabled cfg i cfg' HS.
  destruct HS as [cfg i th a rest Hn Ht He].
  apply (Step always cfg i th a rest Hn Ht eq_refl).
Qed.

Theorem no_deadlock_any_history :
  forall (rank : lock -> N) (c0 : config),
    init_ok rank c0 ->
    forall c, reachable always c0 c ->
      forall enabled : config -> nat -> bool,
        EnabledNonAcq enabled -> BlockedMeansHeld enabled ->
        all_finished c \/ exists i c', step enabled c i c'.
Proof.
  intros rank c0 HI c HR enabled H1 H2.
  destruct (finished_dec c) as [HF|HU]; [left; exact HF|right].
  apply (no_deadlock rank enabled H1 H2); [|exact HU].
  apply (WO_reachable rank always c0 c); [|exact HR].
  apply init_WO. exact HI.
Qed.
Print Assumptions no_deadlock_any_history.

(* ================================================================== *)
(* 5. Non-vacuity                                                      *)
(* ================================================================== *)

(* 5a. The plain-mutex instance satisfies both hypotheses. *)

Lemma holds_except_spec :
  forall cfg i l,
    holds_except cfg i l = true ->
    exists j th', j <> i /\ nth_error cfg j = Some th' /\ In l (held th').
Proof.
  intros cfg. induction cfg as [|x cfg IH]; intros i l H; simpl in H.
  - discriminate.
  - destruct i as [|i].
    + apply existsb_exists in H. destruct H as [t [Hin Hm]].
      apply In_nth_error in Hin. destruct Hin as [n Hn].
      exists (S n), t. split; [discriminate|]. split; [exact Hn|].
      apply mem_In. exact Hm.
    + apply orb_true_iff in H. destruct H as [H|H].
      * exists 0%nat, x. split; [discriminate|]. split; [reflexivity|].
        apply mem_In. exact H.
      * destruct (IH i l H) as [j [th' [Hneq [Hn Hin]]]].
        exists (S j), th'. split; [|split; [exact Hn|exact Hin]].
        intros E. apply Hneq. inversion E. reflexivity.
Qed.

Lemma mutex_enabled_nonacq : EnabledNonAcq mutex_enabled.
Proof.
  intros cfg i th a rest Hn Ht Ha. unfold mutex_enabled. rewrite Hn, Ht.
  destruct a as [l m|l|]; [discriminate|reflexivity|reflexivity].
Qed.

Lemma mutex_blocked_means_held : BlockedMeansHeld mutex_enabled.
Proof.
  intros cfg i th l m rest Hn Ht Hdis. unfold mutex_enabled in Hdis.
  rewrite Hn, Ht in Hdis. apply negb_false_iff in Hdis.
  apply (holds_except_spec cfg i l Hdis).
Qed.

Theorem mutex_no_deadlock :
  forall (rank : lock -> N) (cfg : config),
    WO rank cfg ->
    (exists i th, nth_error cfg i = Some th /\ todo th <> []) ->
    exists i cfg', step mutex_enabled cfg i cfg'.
Proof.
  intros rank.
  apply (no_deadlock rank mutex_enabled
           mutex_enabled_nonacq mutex_blocked_means_held).
Qed.
Print Assumptions mutex_no_deadlock.

Theorem mutex_no_deadlock_reachable :
  forall (rank : lock -> N) (c0 : config),
    init_ok rank c0 ->
    forall c, reachable mutex_enabled c0 c ->
      all_finished c \/ exists i c', step mutex_enabled c i c'.
Proof.
  intros rank.
  apply (no_deadlock_reachable rank mutex_enabled
           mutex_enabled_nonacq mutex_blocked_means_held).
Qed.
Print Assumptions mutex_no_deadlock_reachable.

(* 5b. Concrete programs. *)

(* Lock numbers below are [N] literals; [nat] indices are written [_%nat]. *)
Local Open Scope N_scope.

Definition rank3 (l : lock) : N :=
  match l with
  | 0%N => 10%N
  | 1%N => 20%N
  | 2%N => 30%N
  | _ => 0%N
  end.

Definition act_seq (l : list action) : prog :=
  fold_right (fun a p => Seq (Act a) p) Skip l.

(* lock 0 then lock 1, released in reverse order. *)
Definition p_ok1 : prog :=
  act_seq [Acq 0 W; Acq 1 R; Rel 1; Rel 0].

(* a loop of calls: either (1 then 2, hand-over-hand release) or an async
   call that awaits with nothing held and then takes 2. *)
Definition p_ok2 : prog :=
  Star (Alt (act_seq [Acq 1 R; Acq 2 W; Rel 1; Rel 2])
            (act_seq [Yield; Acq 2 R; Rel 2])).

(* inverted order: 1 then 0. *)
Definition p_bad : prog :=
  act_seq [Acq 1 W; Acq 0 W; Rel 0; Rel 1].

Example p_ok1_passes : wo rank3 [] p_ok1 = Some [].
Proof. vm_compute. reflexivity. Qed.

Example p_ok2_passes : wo rank3 [] p_ok2 = Some [].
Proof. vm_compute. reflexivity. Qed.

Example p_bad_fails : wo rank3 [] p_bad = None.
Proof. vm_compute. reflexivity. Qed.

(* Other ways to fail. *)
Example p_bad_yield_fails :
  wo rank3 [] (act_seq [Acq 0 W; Yield; Rel 0]) = None.
Proof. vm_compute. reflexivity. Qed.

Example p_bad_star_fails : wo rank3 [] (Star (Act (Acq 0 W))) = None.
Proof. vm_compute. reflexivity. Qed.

Example p_bad_alt_fails : wo rank3 [] (Alt (Act (Acq 0 W)) Skip) = None.
Proof. vm_compute. reflexivity. Qed.

Example p_bad_reacquire_fails :
  wo rank3 [] (act_seq [Acq 0 R; Acq 0 R; Rel 0]) = None.
Proof. vm_compute. reflexivity. Qed.

Example p_bad_release_fails : wo rank3 [] (Act (Rel 0)) = None.
Proof. vm_compute. reflexivity. Qed.

(* Alt branches may end with the same set in a different order. *)
Example p_alt_set_compare :
  wo rank3 [] (Seq (act_seq [Acq 0 W; Acq 1 W; Acq 2 W])
                   (Alt (act_seq [Rel 0; Rel 2]) (act_seq [Rel 2; Rel 0])))
  = Some [1%N].
Proof. vm_compute. reflexivity. Qed.

(* Trace acceptance. *)
Example accepts_ok1 :
  accepts p_ok1 [Acq 0 W; Acq 1 R; Rel 1; Rel 0] = true.
Proof. vm_compute. reflexivity. Qed.

Example accepts_ok1_wrong_mode :
  accepts p_ok1 [Acq 0 W; Acq 1 W; Rel 1; Rel 0] = false.
Proof. vm_compute. reflexivity. Qed.

Example accepts_ok2 :
  accepts p_ok2 [Acq 1 R; Acq 2 W; Rel 1; Rel 2;
                 Yield; Acq 2 R; Rel 2;
                 Acq 1 R; Acq 2 W; Rel 1; Rel 2] = true.
Proof. vm_compute. reflexivity. Qed.

Example accepts_ok2_prefix_rejected :
  accepts p_ok2 [Acq 1 R; Acq 2 W; Rel 1] = false.
Proof. vm_compute. reflexivity. Qed.

Example accepts_ok2_empty : accepts p_ok2 [] = true.
Proof. vm_compute. reflexivity. Qed.

(* An accepted trace of a checked program is well-ordered: end to end use of
   Theorems 1 and 2 on concrete data. *)
Example accepted_trace_is_wo :
  wo_trace rank3 [] [Acq 1 R; Acq 2 W; Rel 1; Rel 2; Yield; Acq 2 R; Rel 2]
  = Some [].
Proof.
  apply (wo_sound_lang_nil rank3 [] p_ok2 p_ok2_passes).
  apply accepts_sound. vm_compute. reflexivity.
Qed.

(* 5c. A real deadlock when the order is inverted: the premise matters. *)

Definition dl_init : config :=
  [ {| held := []; todo := [Acq 0 W; Acq 1 W; Rel 1; Rel 0] |};
    {| held := []; todo := [Acq 1 W; Acq 0 W; Rel 0; Rel 1] |} ].

Definition dl_mid : config :=
  [ {| held := [0%N]; todo := [Acq 1 W; Rel 1; Rel 0] |};
    {| held := []; todo := [Acq 1 W; Acq 0 W; Rel 0; Rel 1] |} ].

Definition dl_cfg : config :=
  [ {| held := [0%N]; todo := [Acq 1 W; Rel 1; Rel 0] |};
    {| held := [1%N]; todo := [Acq 0 W; Rel 0; Rel 1] |} ].

(* Thread 1's trace is in the language of [p_bad], which fails the check. *)
Example dl_thread1_is_p_bad :
  accepts p_bad [Acq 1 W; Acq 0 W; Rel 0; Rel 1] = true.
Proof. vm_compute. reflexivity. Qed.

Example dl_thread1_not_wo :
  wo_trace rank3 [] [Acq 1 W; Acq 0 W; Rel 0; Rel 1] = None.
Proof. vm_compute. reflexivity. Qed.

Example dl_reachable : reachable mutex_enabled dl_init dl_cfg.
Proof.
  apply (reach_step mutex_enabled dl_init dl_mid 1%nat dl_cfg).
  - apply (reach_step mutex_enabled dl_init dl_init 0%nat dl_mid).
    + apply reach_refl.
    + apply step_fire. split; vm_compute; reflexivity.
  - apply step_fire. split; vm_compute; reflexivity.
Qed.

Example dl_both_unfinished :
  map finished dl_cfg = [false; false].
Proof. vm_compute. reflexivity. Qed.

Example dl_nobody_enabled :
  map (mutex_enabled dl_cfg) [0%nat; 1%nat] = [false; false].
Proof. vm_compute. reflexivity. Qed.

Theorem dl_deadlocked : ~ exists i cfg', step mutex_enabled dl_cfg i cfg'.
Proof.
  intros [i [cfg' HS]]. apply step_fire in HS. destruct HS as [He HF].
  destruct i as [|[|i]].
  - vm_compute in He. discriminate.
  - vm_compute in He. discriminate.
  - vm_compute in HF. destruct i; discriminate.
Qed.

(* ... and, consistently, the invariant fails for it, whatever the rank. *)
Theorem dl_not_WO : forall rank, ~ WO rank dl_cfg.
Proof.
  intros rank HW.
  apply (dl_deadlocked).
  apply (mutex_no_deadlock rank dl_cfg HW).
  exists 0%nat. eexists. split; [reflexivity|]. simpl. discriminate.
Qed.

(* With both threads in rank order the theorem applies. *)
Definition ok_init : config :=
  [ {| held := []; todo := [Acq 0 W; Acq 1 W; Rel 1; Rel 0] |};
    {| held := []; todo := [Acq 0 W; Acq 1 W; Rel 0; Rel 1;
                            Yield; Acq 2 R; Rel 2] |} ].

Example ok_init_WO : WO rank3 ok_init.
Proof.
  intros i th Hn. destruct i as [|[|i]]; simpl in Hn.
  - inversion Hn; subst th. vm_compute. reflexivity.
  - inversion Hn; subst th. vm_compute. reflexivity.
  - destruct i; discriminate.
Qed.

Example ok_never_deadlocks :
  forall c, reachable mutex_enabled ok_init c ->
    all_finished c \/ exists i c', step mutex_enabled c i c'.
Proof.
  apply (no_deadlock_WO rank3 mutex_enabled
           mutex_enabled_nonacq mutex_blocked_means_held ok_init ok_init_WO).
Qed.

(* 5d. The weak invariant (well-ordered, but not "ends with nothing held")
   is not enough: a finished thread that still holds a lock blocks the
   other one forever. *)

Definition leak_cfg : config :=
  [ {| held := [0%N]; todo := [] |};
    {| held := []; todo := [Acq 0 W; Rel 0] |} ].

Theorem weak_invariant_insufficient :
  WOw rank3 leak_cfg /\
  (exists i th, nth_error leak_cfg i = Some th /\ todo th <> []) /\
  ~ exists i cfg', step mutex_enabled leak_cfg i cfg'.
Proof.
  split; [|split].
  - intros i th Hn. destruct i as [|[|i]]; simpl in Hn.
    + inversion Hn; subst th. vm_compute. discriminate.
    + inversion Hn; subst th. vm_compute. discriminate.
    + destruct i; discriminate.
  - exists 1%nat. eexists. split; [reflexivity|]. simpl. discriminate.
  - intros [i [cfg' HS]]. apply step_fire in HS. destruct HS as [He HF].
    destruct i as [|[|i]].
    + vm_compute in HF. discriminate.
    + vm_compute in He. discriminate.
    + vm_compute in HF. destruct i; discriminate.
Qed.
