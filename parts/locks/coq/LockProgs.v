(* LockProgs.v — the lock programs of every cachelito operation (after the repairs D5/D6),
   the rank order, the check that every program respects it, and the resulting
   deadlock-freedom statement.  Programs are regular expressions over lock actions; the
   locks are abstract: one store lock M and one order-queue lock O per cache (all caches
   share the two abstract names because no operation ever holds locks of two caches at
   once), the six tables of the invalidation registry, the statistics registry.
   DashMap's shard locks are not observable and are not modelled as separate locks: every
   DashMap call of the async cache is a leaf (no other lock is taken inside it). *)
From Coq Require Import List NArith Bool.
From CLL Require Import LockProg LockOrder.
Import ListNotations.
Open Scope N_scope.

Definition RG_TAG : lock := 1.   Definition RG_EVENT : lock := 2.  Definition RG_DEP : lock := 3.
Definition RG_META : lock := 4.  Definition RG_CLEAR : lock := 5.  Definition RG_CHECK : lock := 6.
Definition SR : lock := 7.       Definition LO : lock := 8.        Definition LM : lock := 9.

(* Once/OnceCell < registry tables < statistics registry < order queue < store *)
Definition rank (l : lock) : N := l.

Definition a (l : lock) (m : mode) : prog := Act (Acq l m).
Definition r (l : lock) : prog := Act (Rel l).
Fixpoint seqs (ps : list prog) : prog :=
  match ps with [] => Skip | [p] => p | p :: ps' => Seq p (seqs ps') end.
Definition opt (p : prog) : prog := Alt Skip p.

(* ---- sync global cache (global_cache.rs) ---- *)
Definition get_sync : prog :=
  seqs [a LM R; r LM;
        opt (seqs [a LO W; a LM W; r LM; r LO]);      (* expired: remove from both *)
        opt (seqs [a LO W; r LO]);                    (* LRU / ARC / TLRU: move to the back *)
        opt (seqs [a LM W; r LM])].                   (* LFU / ARC / TLRU: hit counter *)
Definition evict_nested : prog := seqs [a LM W; r LM].
Definition insert_sync : prog :=
  seqs [a LM W; r LM; a LO W; opt evict_nested; r LO].
Definition insert_mem_sync : prog :=
  seqs [a LM W; r LM; a LO W; a LM R; r LM;
        Alt (seqs [a LM W; r LM; r LO])                                        (* oversize *)
            (seqs [Star (seqs [a LM R; r LM; opt evict_nested]); opt evict_nested; r LO])].

(* ---- async cache (async_global_cache.rs): every structural update inside one O section ---- *)
Definition get_async : prog := opt (seqs [a LO W; r LO]).
Definition insert_async : prog := seqs [a LO W; r LO].

(* ---- first-call registrations (inside Once / OnceCell, which are taken with nothing held) ---- *)
Definition registration : prog :=
  seqs [opt (seqs [a SR W; r SR]);
        opt (seqs [a RG_TAG W; r RG_TAG; a RG_EVENT W; r RG_EVENT; a RG_DEP W; r RG_DEP;
                   a RG_META W; r RG_META; a RG_CLEAR W; r RG_CLEAR]);
        opt (seqs [a RG_CHECK W; r RG_CHECK])].

Definition call_sync : prog :=
  seqs [registration; get_sync; opt (Alt insert_sync insert_mem_sync)].
(* the awaited body sits between lookup and store: any number of suspensions, nothing held *)
Definition call_async : prog :=
  seqs [registration; get_async; Star (Act Yield); opt insert_async].

(* ---- callbacks registered by the macros ---- *)
Definition clear_cb : prog := Alt (seqs [a LO W; a LM W; r LM; r LO]) (seqs [a LO W; r LO]).
Definition cond_cb : prog := Alt (seqs [a LO W; a LM W; r LM; r LO]) (seqs [a LO W; r LO]).

(* ---- invalidation.rs / stats_registry.rs entry points ---- *)
Definition inv_by : prog :=
  seqs [Alt (seqs [a RG_TAG R; r RG_TAG]) (Alt (seqs [a RG_EVENT R; r RG_EVENT]) (seqs [a RG_DEP R; r RG_DEP]));
        a RG_CLEAR R; Star clear_cb; r RG_CLEAR].
Definition invc : prog := seqs [a RG_CLEAR R; opt clear_cb; r RG_CLEAR].
Definition invw : prog := seqs [a RG_CHECK R; opt cond_cb; r RG_CHECK].
Definition invall : prog := seqs [a RG_CHECK R; Star cond_cb; r RG_CHECK].
Definition stats_op : prog := seqs [a SR R; r SR].

Definition cachelito_progs : list prog :=
  [call_sync; call_async; inv_by; invc; invw; invall; stats_op].

Definition ordered (p : prog) : bool :=
  match wo rank [] p with Some [] => true | _ => false end.

Lemma cachelito_progs_ordered : forallb ordered cachelito_progs = true.
Proof. vm_compute. reflexivity. Qed.

(* the unrepaired conditional-invalidation callback took the store lock first *)
Definition cond_cb_unrepaired : prog := seqs [a LM W; a LO W; r LO; r LM].
Lemma unrepaired_callback_rejected :
  ordered (seqs [a RG_CHECK R; cond_cb_unrepaired; r RG_CHECK]) = false.
Proof. vm_compute. reflexivity. Qed.

Lemma ordered_spec : forall p, ordered p = true -> wo rank [] p = Some [].
Proof. intros p H. unfold ordered in H. destruct (wo rank [] p) as [[|x l]|]; congruence. Qed.

(* Any number of threads, each running any sequence of cachelito operations (each
   operation contributing any trace of its program), under any schedule and any lock
   implementation in which a blocked acquisition means that another thread holds the
   lock: some thread can always move, or all have finished. *)
Theorem cachelito_no_deadlock :
  forall (enabled : config -> nat -> bool),
    EnabledNonAcq enabled -> BlockedMeansHeld enabled ->
    forall c0 : config,
      (forall i th, nth_error c0 i = Some th ->
         held th = [] /\
         exists ts, Forall (fun t => exists p, In p cachelito_progs /\ lang p t) ts /\ todo th = concat ts) ->
      forall c, reachable enabled c0 c ->
        (forall i th, nth_error c i = Some th -> todo th = []) \/
        exists i c', step enabled c i c'.
Proof.
  intros enabled H1 H2 c0 H0 c Hr.
  apply (no_deadlock_reachable_closed rank enabled H1 H2 c0); [|exact Hr].
  intros i th Hn. destruct (H0 i th Hn) as [Hh [ts [Hts Htodo]]]. split; [exact Hh|].
  exists ts. split; [|exact Htodo].
  eapply Forall_impl; [|exact Hts].
  intros t [p [Hin Hl]]. exists p. split; [|exact Hl].
  apply ordered_spec.
  pose proof cachelito_progs_ordered as Hall. rewrite forallb_forall in Hall. apply Hall. exact Hin.
Qed.

(* The same statement for TRACES instead of programs: threads whose operations are any lock
   traces that respect the order (acquire only locks ranked above everything held, release
   only what is held, end holding nothing) never deadlock.  This is what the correspondence
   checks on every recorded trace of the real code, whatever the shape of the code that
   produced it; the programs above describe the shapes known today. *)
Fixpoint prog_of_trace (t : list action) : prog :=
  match t with [] => Skip | x :: t' => Seq (Act x) (prog_of_trace t') end.

Lemma lang_prog_of_trace : forall t, lang (prog_of_trace t) t.
Proof.
  induction t as [|x t IH]; cbn [prog_of_trace].
  - constructor.
  - change (x :: t) with ([x] ++ t). constructor; [constructor|exact IH].
Qed.

Lemma wo_prog_of_trace : forall rk h t, wo rk h (prog_of_trace t) = wo_trace rk h t.
Proof.
  intros rk h t. revert h. induction t as [|x t IH]; intro h; cbn [prog_of_trace wo wo_trace].
  - reflexivity.
  - destruct (step_held rk h x) as [h'|]; [apply IH|reflexivity].
Qed.

Definition trace_ordered (t : list action) : bool :=
  match wo_trace rank [] t with Some [] => true | _ => false end.

Theorem cachelito_no_deadlock_traces :
  forall (enabled : config -> nat -> bool),
    EnabledNonAcq enabled -> BlockedMeansHeld enabled ->
    forall c0 : config,
      (forall i th, nth_error c0 i = Some th ->
         held th = [] /\
         exists ts, Forall (fun t => trace_ordered t = true) ts /\ todo th = concat ts) ->
      forall c, reachable enabled c0 c ->
        (forall i th, nth_error c i = Some th -> todo th = []) \/
        exists i c', step enabled c i c'.
Proof.
  intros enabled H1 H2 c0 H0 c Hr.
  apply (no_deadlock_reachable_closed rank enabled H1 H2 c0); [|exact Hr].
  intros i th Hn. destruct (H0 i th Hn) as [Hh [ts [Hts Htodo]]]. split; [exact Hh|].
  exists ts. split; [|exact Htodo].
  eapply Forall_impl; [|exact Hts].
  intros t Ht. exists (prog_of_trace t). split; [|apply lang_prog_of_trace].
  rewrite wo_prog_of_trace. unfold trace_ordered in Ht.
  destruct (wo_trace rank [] t) as [[|x l]|]; congruence.
Qed.

(* a suspended async call holds no cache lock *)
Theorem suspended_call_holds_nothing :
  forall (cfg : config) (i : nat) (th : thread) (rest : list action),
    (forall i th, nth_error cfg i = Some th -> wo_trace rank (held th) (todo th) <> None) ->
    nth_error cfg i = Some th -> todo th = Yield :: rest -> held th = [].
Proof. intros. eapply yield_holds_nothing_closed; eauto. Qed.

Print Assumptions cachelito_no_deadlock.
Print Assumptions cachelito_no_deadlock_traces.
Print Assumptions suspended_call_holds_nothing.
Print Assumptions cachelito_progs_ordered.
