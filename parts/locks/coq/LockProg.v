(* LockProg.v -- lock programs: definitions only (all executable except the
   inductive language [lang]).  No proofs in this file; see LockOrder.v.

   Everything here is meant to be extracted with ExtrOcamlBasic; [N] is kept
   as the stdlib binary natural numbers. *)

From Coq Require Import List NArith Bool.
Import ListNotations.

(* ------------------------------------------------------------------ *)
(* Locks, actions, programs                                            *)
(* ------------------------------------------------------------------ *)

Definition lock := N.

Inductive mode := R | W.

(* [Yield] is an await point of an async function. *)
Inductive action :=
| Acq (l : lock) (m : mode)
| Rel (l : lock)
| Yield.

(* Regular programs over actions.  There is no constructor for the empty
   language; [deriv] below therefore returns an [option prog]. *)
Inductive prog :=
| Skip
| Act (a : action)
| Seq (p q : prog)
| Alt (p q : prog)
| Star (p : prog).

(* Finite-trace language of a program. *)
Inductive lang : prog -> list action -> Prop :=
| L_Skip : lang Skip []
| L_Act : forall a, lang (Act a) [a]
| L_Seq : forall p q s t, lang p s -> lang q t -> lang (Seq p q) (s ++ t)
| L_AltL : forall p q t, lang p t -> lang (Alt p q) t
| L_AltR : forall p q t, lang q t -> lang (Alt p q) t
| L_Star0 : forall p, lang (Star p) []
| L_StarS : forall p s t, lang p s -> lang (Star p) t -> lang (Star p) (s ++ t).

(* ------------------------------------------------------------------ *)
(* Held sets (lists of locks, read as sets)                            *)
(* ------------------------------------------------------------------ *)

Definition mem (l : lock) (hs : list lock) : bool := existsb (N.eqb l) hs.

(* Removes every occurrence, so that held lists behave as sets. *)
Definition remove_lock (l : lock) (hs : list lock) : list lock :=
  filter (fun x => negb (N.eqb x l)) hs.

(* [rank l] is strictly above the rank of every lock in [hs]. *)
Definition rank_above (rank : lock -> N) (l : lock) (hs : list lock) : bool :=
  forallb (fun h => N.ltb (rank h) (rank l)) hs.

Definition subset (a b : list lock) : bool := forallb (fun x => mem x b) a.

(* Held sets are compared AS SETS (mutual inclusion); order and
   multiplicity are irrelevant. *)
Definition same_set (a b : list lock) : bool := subset a b && subset b a.

(* ------------------------------------------------------------------ *)
(* The discipline, one action at a time                                *)
(* ------------------------------------------------------------------ *)

(* The effect of an action on a held list, without any check. *)
Definition do_action (held : list lock) (a : action) : list lock :=
  match a with
  | Acq l _ => l :: held
  | Rel l => remove_lock l held
  | Yield => held
  end.

(* The checked effect of an action:
   - [Acq l _] only when [rank l] is STRICTLY greater than the rank of every
     lock held (hence never a re-acquisition of a held lock);
   - [Rel l] only when [l] is held;
   - [Yield] only when nothing is held. *)
Definition step_held (rank : lock -> N) (held : list lock) (a : action)
  : option (list lock) :=
  match a with
  | Acq l _ => if rank_above rank l held then Some (l :: held) else None
  | Rel l => if mem l held then Some (remove_lock l held) else None
  | Yield => match held with [] => Some [] | _ :: _ => None end
  end.

(* Trace-level discipline. *)
Fixpoint wo_trace (rank : lock -> N) (held : list lock) (t : list action)
  : option (list lock) :=
  match t with
  | [] => Some held
  | a :: t' =>
      match step_held rank held a with
      | Some h => wo_trace rank h t'
      | None => None
      end
  end.

(* Program-level static checker.
   - [Alt p q]: both branches must succeed from [held] and their results must
     be equal as sets ([same_set]); the result of the LEFT branch is returned.
   - [Star p]: the body must succeed from [held] with a result equal to
     [held] as a set (the body is held-neutral); [held] itself is returned. *)
Fixpoint wo (rank : lock -> N) (held : list lock) (p : prog)
  : option (list lock) :=
  match p with
  | Skip => Some held
  | Act a => step_held rank held a
  | Seq p q =>
      match wo rank held p with
      | Some h => wo rank h q
      | None => None
      end
  | Alt p q =>
      match wo rank held p, wo rank held q with
      | Some h1, Some h2 => if same_set h1 h2 then Some h1 else None
      | _, _ => None
      end
  | Star p =>
      match wo rank held p with
      | Some h => if same_set h held then Some held else None
      | None => None
      end
  end.

(* ------------------------------------------------------------------ *)
(* Trace acceptance by Brzozowski derivatives                          *)
(* ------------------------------------------------------------------ *)

Definition mode_eqb (a b : mode) : bool :=
  match a, b with
  | R, R => true
  | W, W => true
  | _, _ => false
  end.

Definition action_eqb (a b : action) : bool :=
  match a, b with
  | Acq l m, Acq l' m' => N.eqb l l' && mode_eqb m m'
  | Rel l, Rel l' => N.eqb l l'
  | Yield, Yield => true
  | _, _ => false
  end.

Fixpoint prog_eqb (p q : prog) : bool :=
  match p, q with
  | Skip, Skip => true
  | Act a, Act b => action_eqb a b
  | Seq p1 p2, Seq q1 q2 => prog_eqb p1 q1 && prog_eqb p2 q2
  | Alt p1 p2, Alt q1 q2 => prog_eqb p1 q1 && prog_eqb p2 q2
  | Star p1, Star q1 => prog_eqb p1 q1
  | _, _ => false
  end.

Fixpoint nullable (p : prog) : bool :=
  match p with
  | Skip => true
  | Act _ => false
  | Seq p q => nullable p && nullable q
  | Alt p q => nullable p || nullable q
  | Star _ => true
  end.

(* Smart constructors: they keep derivatives small on long traces.
   - [mk_seq Skip q = q];
   - [mk_alt p q] reads a right-nested [Alt] as a set of alternatives and adds
     the alternatives of [p] to [q], skipping those already present
     (associativity, commutativity and idempotence of [Alt]).  This is the
     classical normalisation that keeps the set of iterated derivatives
     finite, also for ambiguous programs. *)
Definition mk_seq (p q : prog) : prog :=
  match p with
  | Skip => q
  | _ => Seq p q
  end.

(* Is [p] one of the alternatives of the right-nested [Alt] list [q]? *)
Fixpoint alt_mem (p q : prog) : bool :=
  match q with
  | Alt q1 q2 => prog_eqb p q1 || alt_mem p q2
  | _ => prog_eqb p q
  end.

Definition alt_add (p q : prog) : prog :=
  if alt_mem p q then q else Alt p q.

Fixpoint mk_alt (p q : prog) : prog :=
  match p with
  | Alt p1 p2 => mk_alt p1 (mk_alt p2 q)
  | _ => alt_add p q
  end.

(* [None] stands for the empty language. *)
Definition seq_opt (o : option prog) (q : prog) : option prog :=
  match o with
  | Some p => Some (mk_seq p q)
  | None => None
  end.

Definition alt_opt (o1 o2 : option prog) : option prog :=
  match o1, o2 with
  | None, o => o
  | o, None => o
  | Some p, Some q => Some (mk_alt p q)
  end.

(* [deriv a p] denotes { t | a :: t in lang p }. *)
Fixpoint deriv (a : action) (p : prog) : option prog :=
  match p with
  | Skip => None
  | Act b => if action_eqb a b then Some Skip else None
  | Seq p q =>
      alt_opt (seq_opt (deriv a p) q)
              (if nullable p then deriv a q else None)
  | Alt p q => alt_opt (deriv a p) (deriv a q)
  | Star p => seq_opt (deriv a p) (Star p)
  end.

Fixpoint accepts (p : prog) (t : list action) : bool :=
  match t with
  | [] => nullable p
  | a :: t' =>
      match deriv a p with
      | Some p' => accepts p' t'
      | None => false
      end
  end.

(* ------------------------------------------------------------------ *)
(* Threads and configurations                                          *)
(* ------------------------------------------------------------------ *)

Record thread := { held : list lock; todo : list action }.

Definition config := list thread.

(* A thread is finished when [todo = []]. *)
Definition finished (th : thread) : bool :=
  match todo th with [] => true | _ :: _ => false end.

Definition is_acq (a : action) : bool :=
  match a with Acq _ _ => true | _ => false end.

(* Replace thread number [i]. *)
Fixpoint upd (cfg : config) (i : nat) (th : thread) : config :=
  match cfg, i with
  | [], _ => []
  | _ :: c, O => th :: c
  | x :: c, S i' => x :: upd c i' th
  end.

(* Thread [i] performs its next action (no enabledness check). *)
Definition fire (cfg : config) (i : nat) : option config :=
  match nth_error cfg i with
  | Some th =>
      match todo th with
      | a :: rest =>
          Some (upd cfg i {| held := do_action (held th) a; todo := rest |})
      | [] => None
      end
  | None => None
  end.

(* ------------------------------------------------------------------ *)
(* The plain-mutex instance of "enabled"                               *)
(* ------------------------------------------------------------------ *)

(* Does some thread OTHER than number [i] hold [l]? *)
Fixpoint holds_except (cfg : config) (i : nat) (l : lock) : bool :=
  match cfg with
  | [] => false
  | th :: c =>
      match i with
      | O => existsb (fun t => mem l (held t)) c
      | S i' => mem l (held th) || holds_except c i' l
      end
  end.

(* A thread is blocked exactly when its next action is an [Acq l _] whose
   lock is held by another thread; otherwise it is enabled. *)
Definition mutex_enabled (cfg : config) (i : nat) : bool :=
  match nth_error cfg i with
  | Some th =>
      match todo th with
      | Acq l _ :: _ => negb (holds_except cfg i l)
      | _ => true
      end
  | None => true
  end.
