(* C20 (lock half) — a suspended async call holds no cache lock; every other operation
   completes while it is suspended (no_deadlock with the Yield actions of call_async). *)
From Coq Require Import List NArith Bool.
From CLL Require Import LockProg LockOrder LockProgs.
Import ListNotations.

Theorem C20_suspended_call_holds_no_lock :
  forall (cfg : config) (i : nat) (th : thread) (rest : list action),
    (forall i th, nth_error cfg i = Some th -> wo_trace rank (held th) (todo th) <> None) ->
    nth_error cfg i = Some th -> todo th = Yield :: rest -> held th = [].
Proof. exact suspended_call_holds_nothing. Qed.
Print Assumptions C20_suspended_call_holds_no_lock.

Theorem C20_async_call_program_ordered : ordered call_async = true.
Proof. vm_compute. reflexivity. Qed.
Print Assumptions C20_async_call_program_ordered.
