(* locks_driver.ml — checks recorded lock traces (vh-macro traces) against the extracted
   lock programs of LockProgs.v:
     trace_ordered t      (the trace respects the lock order and ends holding nothing: the
                          hypothesis of C17_no_deadlock_for_ordered_traces — correspondence)
     accepts prog trace   (the trace has the shape written down in LockProgs.v: informational;
                          a restructured but ordered trace is counted, not reported)
   input: TR lines on stdin.  output: V <n> ok | MISMATCH ..., F <n> order ..., STAT *)
open Locks_model

let split_on c s = List.filter (fun x -> x <> "") (String.split_on_char c s)

let lock_of = function
  | "RG_TAG" -> Some rG_TAG | "RG_EVENT" -> Some rG_EVENT | "RG_DEP" -> Some rG_DEP
  | "RG_META" -> Some rG_META | "RG_CLEAR" -> Some rG_CLEAR | "RG_CHECK" -> Some rG_CHECK
  | "SR" -> Some sR | "O" | "O@" -> Some lO | "M" | "M@" -> Some lM | _ -> None

let () =
  let n = ref 0 and ok = ref 0 and bad = ref 0 and reshaped = ref 0 in
  let kinds = Hashtbl.create 16 in
  (try while true do
       let line = input_line stdin in
       if String.length line > 3 && String.sub line 0 3 = "TR " then begin
         incr n;
         match String.split_on_char '|' line with
         | [head; op; res; evs] ->
           let h = split_on ' ' head in
           let tag = List.nth h 1 and fl = List.nth h 3 in
           let unknown = ref None in
           let trace = List.filter_map (fun e ->
               match String.split_on_char ':' e with
               | ["A"; l; m] -> (match lock_of l with
                   | Some lk -> Some (Acq (lk, (if m = "W" then W else R)))
                   | None -> unknown := Some l; None)
               | ["L"; l] -> (match lock_of l with Some lk -> Some (Rel lk) | None -> unknown := Some l; None)
               | _ -> None) (split_on ' ' evs) in
           let prog, pname = (match tag with
               | "first_call" | "hit_or_recheck" | "store" | "hit2" | "expired_or_hit" | "store_after_clear" ->
                 if fl = "a" then (call_async, "call_async") else (call_sync, "call_sync")
               | "invw" -> (invw, "invw") | "invc" -> (invc, "invc")
               | "sget" | "sreset" -> (stats_op, "stats_op")
               | "group" -> (inv_by, "inv_by") | "invall" -> (invall, "invall")
               | _ -> (Skip, "?")) in
           Hashtbl.replace kinds pname (1 + (try Hashtbl.find kinds pname with Not_found -> 0));
           let id = Printf.sprintf "%d" !n in
           (match !unknown with
            | Some l -> incr bad; Printf.printf "V %s MISMATCH unknown lock %s in trace of %s (%s)\n" id l (String.trim op) (String.trim evs)
            | None ->
              (* the hypothesis of C17_no_deadlock_for_ordered_traces, on the real trace *)
              let ordered_ok = trace_ordered trace in
              if not ordered_ok then begin
                incr bad;
                Printf.printf "F %s order the lock trace of [%s] violates the lock order or leaks a lock: %s\n" id (String.trim op) (String.trim evs)
              end
              else if accepts prog trace then (incr ok; Printf.printf "V %s ok %s\n" id pname)
              else begin
                (* ordered, but not a trace of the program written down for this operation: the code
                   was restructured; the trace-level theorem still covers it *)
                incr ok; incr reshaped;
                Printf.printf "V %s ok reshaped [%s] (%s) is not a trace of program %s: %s\n" id (String.trim op) (String.trim res) pname (String.trim evs)
              end)
         | _ -> ()
       end
     done with End_of_file -> ());
  Hashtbl.iter (fun k v -> Printf.printf "STAT traces_%s %d\n" k v) kinds;
  Printf.printf "STAT traces %d\nSTAT ordered %d\nSTAT rejected %d\nSTAT ordered_but_not_in_the_modelled_programs %d\n" !n !ok !bad !reshaped
