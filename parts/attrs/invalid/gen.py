#!/usr/bin/env python3
"""Generate a small crate whose items each carry ONE attribute list.

usage: gen.py <outdir>

  src/lib.rs      valid control items (always compiled)
  src/invalid.rs  invalid items           (feature "invalid")
  src/probes.rs   accepted-but-surprising (feature "probes")
  items.json      [{id, kind, file, first, last, attr, why}]
"""
import json, os, sys

out = sys.argv[1]
os.makedirs(os.path.join(out, "src"), exist_ok=True)

CARGO = '''[package]
name = "attrs-invalid"
version = "0.1.0"
edition = "2021"

[workspace]

[features]
default = ["stats"]
stats = []
invalid = []
probes = []

[dependencies]
cachelito = { path = "/repo" }
cachelito-async = { path = "/repo/cachelito-async" }
cachelito-core = { path = "/repo/cachelito-core" }
once_cell = "1.21.3"
parking_lot = "0.12"
dashmap = "6.1"
'''

# (attribute line, why)  -- S = #[cache], A = #[cache_async]
INVALID = [
    ('S', 'limt = 5', 'unknown name (typo of limit)'),
    ('A', 'size = 5', 'unknown name'),
    ('S', 'Limit = 5', 'unknown name (case)'),
    ('S', 'policy = "mru"', 'policy outside the table'),
    ('S', 'policy = "LRU"', 'policy is case sensitive'),
    ('S', 'policy = lru', 'policy not a string'),
    ('A', 'policy = "lifo"', 'policy outside the table (async)'),
    ('S', 'scope = "process"', 'scope outside the table'),
    ('S', 'scope = thread', 'scope not a string'),
    ('S', 'scope = "Thread"', 'scope is case sensitive'),
    ('S', 'scope = "GLOBAL"', 'scope is case sensitive'),
    ('S', 'scope = "thread "', 'scope with trailing blank'),
    ('S', 'scope = ""', 'empty scope'),
    ('A', 'policy = "Fifo"', 'policy is case sensitive (async)'),
    ('S', 'policy = ""', 'empty policy'),
    ('S', 'policy = " lru"', 'policy with leading blank'),
    ('S', 'max_memory = ""', 'empty max_memory'),
    ('S', 'max_memory = "-1KB"', 'negative max_memory'),
    ('S', 'ttl = -1', 'ttl negative'),
    ('A', 'limit = -1', 'limit negative (async)'),
    ('A', 'scope = "global"', 'scope is not an async attribute'),
    ('S', 'limit = "10"', 'limit not an integer'),
    ('S', 'limit = 1.5', 'limit not an integer'),
    ('S', 'limit = 18446744073709551616', 'limit = usize::MAX + 1'),
    ('S', 'limit = -1', 'limit negative'),
    ('S', 'ttl = "60"', 'ttl not an integer'),
    ('S', 'ttl = 18446744073709551616', 'ttl = u64::MAX + 1'),
    ('A', 'ttl = 2.5', 'ttl not an integer (async)'),
    ('S', 'max_memory = "10 MB"', 'max_memory malformed'),
    ('S', 'max_memory = "10TB"', 'max_memory unknown unit'),
    ('S', 'max_memory = 1.5', 'max_memory neither integer nor string'),
    ('S', 'max_memory = "17179869184GB"', 'max_memory product overflows usize'),
    ('S', 'max_memory = "18446744073709551616"', 'max_memory number overflows usize'),
    ('A', 'max_memory = "MB"', 'max_memory without number (async)'),
    ('S', 'tags = "a"', 'tags not an array'),
    ('S', 'tags = ["a", 1]', 'tags element not a string'),
    ('A', 'events = [evt]', 'events element not a string (async)'),
    ('S', 'invalidate_on = "is_stale"', 'invalidate_on not a path'),
    ('S', 'cache_if = should_cache()', 'cache_if not a path'),
    ('S', 'frequency_weight = 0.0', 'frequency_weight must be > 0.0'),
    ('S', 'frequency_weight = "1.5"', 'frequency_weight not a number'),
    ('S', 'limit = 5, polcy = "lru", ttl = 3', 'unknown name in the middle of a valid list'),
    ('S', 'limit = 5, limit = "x"', 'valid limit overwritten by an invalid one'),
    ('A', 'ttl = 3, policy = "lru", ttl = "x"', 'valid ttl overwritten by an invalid one (async)'),
    ('S', 'limit', 'not name = value'),
    # former finding F1: an invalid value followed by a valid repetition must still be rejected
    ('S', 'limit = "abc", limit = 5', 'invalid limit, then a valid one'),
    ('A', 'limit = "abc", limit = 5', 'invalid limit, then a valid one (async)'),
    ('S', 'ttl = "x", ttl = 5', 'invalid ttl, then a valid one'),
    ('A', 'ttl = "x", ttl = 5', 'invalid ttl, then a valid one (async)'),
    ('S', 'max_memory = "10 MB", max_memory = "1MB"', 'invalid max_memory, then a valid one'),
    ('A', 'max_memory = "10 MB", max_memory = "1MB"', 'invalid max_memory, then a valid one (async)'),
    ('S', 'frequency_weight = 0.0, frequency_weight = 1.5', 'invalid frequency_weight, then a valid one'),
    # former finding F2: product overflow must be rejected (in every profile)
    ('A', 'max_memory = "17179869184GB"', 'max_memory product overflows usize (async)'),
    ('S', 'max_memory = "17179869184GB", max_memory = "1GB"', 'overflowing max_memory, then a valid one'),
]

VALID = [
    ('S', '', 'no attributes'),
    ('S', 'limit = 100, policy = "lru", ttl = 60', 'limit + policy + ttl'),
    ('S', 'max_memory = "1MB", limit = 10', 'max_memory string'),
    ('S', 'max_memory = 4096', 'max_memory integer'),
    ('S', 'scope = "thread", policy = "lfu"', 'thread scope'),
    ('S', 'scope = "global", name = "my_cache"', 'global scope + name'),
    ('S', 'tags = ["a", "b"], events = ["e"], dependencies = ["v1"]', 'invalidation metadata'),
    ('S', 'invalidate_on = is_stale, cache_if = checks::should_cache', 'predicates'),
    ('S', 'policy = "tlru", frequency_weight = 1.5, limit = 8, ttl = 30', 'tlru + weight'),
    ('S', 'ttl = 18446744073709551615, limit = 18446744073709551615', 'u64::MAX / usize::MAX'),
    ('A', 'limit = 10, policy = "arc", ttl = 5', 'async limit + policy + ttl'),
    ('A', 'max_memory = "2kb", name = "an_async_cache", tags = ["t"]', 'async max_memory + name + tags'),
    ('A', 'policy = "random", cache_if = checks::should_cache, invalidate_on = is_stale', 'async predicates'),
]

# accepted although surprising (oddities; the model predicts acceptance): (which, attrs, why, tag)
PROBES = [
    ('S', 'name = 5', 'non-string name silently ignored', 'oddity=O1'),
    ('S', 'policy = "tlru", frequency_weight = 0', 'integer 0 accepted where 0.0 is rejected', 'oddity=O2'),
    ('S', 'max_memory = "+1KBkb"', 'leading + and repeated unit accepted', 'oddity=O3'),
    ('S', 'limit = 5f64', 'float-suffixed integer literal accepted for limit', 'oddity=O4'),
]

PRELUDE = '''#![allow(dead_code, unused_imports, unused_variables)]
use cachelito::cache;
use cachelito_async::cache_async;

pub fn is_stale(_key: &String, _value: &i32) -> bool { false }
pub mod checks {
    pub fn should_cache(_key: &String, _value: &i32) -> bool { true }
}
'''
MOD_PRELUDE = '''use cachelito::cache;
use cachelito_async::cache_async;
use crate::{checks, is_stale};
'''

items = []

def emit(path, header, entries, kind, start_index=0):
    lines = header.rstrip('\n').split('\n')
    lines.append('')
    for i, e in enumerate(entries):
        which, attrs, why = e[0], e[1], e[2]
        ident = '%s_%02d' % (kind, i + start_index)
        first = len(lines) + 1
        lines.append('// %s: %s' % (ident, why))
        macro = 'cache' if which == 'S' else 'cache_async'
        lines.append('#[%s(%s)]' % (macro, attrs) if attrs else '#[%s]' % macro)
        if which == 'S':
            lines.append('pub fn %s(x: i32) -> i32 {' % ident)
        else:
            lines.append('pub async fn %s(x: i32) -> i32 {' % ident)
        lines.append('    x + 1')
        lines.append('}')
        last = len(lines)
        lines.append('')
        items.append({'id': '%s-%d' % (kind, i + start_index), 'kind': kind, 'file': path, 'first': first,
                      'last': last, 'attr': '#[%s(%s)]' % (macro, attrs), 'why': why,
                      'tag': e[3] if len(e) > 3 else ''})
    with open(os.path.join(out, path), 'w') as f:
        f.write('\n'.join(lines) + '\n')

with open(os.path.join(out, 'Cargo.toml'), 'w') as f:
    f.write(CARGO)
lib_header = PRELUDE + '\n#[cfg(feature = "invalid")]\npub mod invalid;\n#[cfg(feature = "probes")]\npub mod probes;\n'
emit('src/lib.rs', lib_header, VALID, 'valid')
emit('src/invalid.rs', MOD_PRELUDE, INVALID, 'invalid')
emit('src/probes.rs', MOD_PRELUDE, PROBES, 'probe')
with open(os.path.join(out, 'items.json'), 'w') as f:
    json.dump(items, f, indent=1)
print('generated %d valid, %d invalid, %d probe items in %s' % (len(VALID), len(INVALID), len(PROBES), out))
