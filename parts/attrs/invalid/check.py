#!/usr/bin/env python3
"""Run cargo check on the generated crate and verify, from the spans of the
JSON diagnostics, that EVERY invalid item produced an error and NO valid
item (and no probe item) did.

usage: check.py <crate-dir> <target-dir>
prints  V invalid-<n> ok|MISMATCH ...   V valid-<n> ok|MISMATCH ...   V probe-<n> ok|MISMATCH ...
"""
import json, os, subprocess, sys

crate, target = sys.argv[1], sys.argv[2]
items = json.load(open(os.path.join(crate, 'items.json')))

def spans_of(span, acc):
    acc.append((span.get('file_name'), span.get('line_start'), span.get('line_end')))
    exp = span.get('expansion')
    if exp and exp.get('span'):
        spans_of(exp['span'], acc)

def run(features):
    env = dict(os.environ, CARGO_NET_OFFLINE='true', CARGO_TARGET_DIR=target)
    env.pop('RUST_BACKTRACE', None)
    cmd = ['cargo', 'check', '--offline', '--message-format=json', '--quiet']
    if features:
        cmd += ['--features', features]
    p = subprocess.run(cmd, cwd=crate, env=env, stdout=subprocess.PIPE, stderr=subprocess.PIPE,
                       universal_newlines=True, timeout=900)
    errors = []  # (message, [(file, first, last)])
    for line in p.stdout.splitlines():
        try:
            m = json.loads(line)
        except ValueError:
            continue
        if m.get('reason') != 'compiler-message':
            continue
        if m.get('target', {}).get('name') != 'attrs-invalid' and 'attrs-invalid' not in m.get('package_id', ''):
            continue
        msg = m['message']
        if msg.get('level') != 'error':
            continue
        acc = []
        for s in msg.get('spans', []):
            spans_of(s, acc)
        errors.append((msg.get('message', ''), acc))
    return p.returncode, errors

def hits(item, errors):
    out = []
    for text, spans in errors:
        for (f, a, b) in spans:
            if f and f.replace('\\', '/').endswith(item['file']) and a is not None \
               and not (b < item['first'] or a > item['last']):
                out.append(text)
                break
    return out

bad = 0
# pass 1: valid items only: the crate must compile
rc1, err1 = run('')
for it in [i for i in items if i['kind'] == 'valid']:
    h = hits(it, err1)
    if rc1 == 0 and not h:
        print('V %s ok accepted %s' % (it['id'], it['attr']))
    else:
        bad += 1
        print('F %s C19 a valid attribute list does not compile: %s -> %s' % (it['id'], it['attr'], (h or ['build failed'])[0][:80]))
if rc1 != 0 and not err1:
    print('V valid-build MISMATCH cargo check failed without a located error')
    bad += 1

# pass 2: probes: accepted although surprising (oddities; the model predicts acceptance)
rc2, err2 = run('probes')
for it in [i for i in items if i['kind'] == 'probe']:
    h = hits(it, err2)
    if rc2 == 0 and not h:
        print('V %s ok accepted-as-the-model-predicts %s %s (%s)' % (it['id'], it['tag'], it['attr'], it['why']))
    else:
        bad += 1
        print('V %s MISMATCH expected=accepted got=%s %s' % (it['id'], (h or ['build failed'])[0][:80], it['attr']))

# pass 3: invalid items: each one must be the location of >= 1 error, valid ones of none
rc3, err3 = run('invalid')
for it in [i for i in items if i['kind'] == 'invalid']:
    h = hits(it, err3)
    if h:
        print('V %s ok rejected %s  [%s]' % (it['id'], it['attr'], h[0].split('\n')[0][:70]))
    else:
        bad += 1
        print('F %s C19 an invalid attribute list is accepted at compile time instead of being rejected: %s (%s)' % (it['id'], it['attr'], it['why']))
for it in [i for i in items if i['kind'] == 'valid']:
    h = hits(it, err3)
    if h:
        bad += 1
        print('V %s MISMATCH error attributed to a valid item: %s' % (it['id'], h[0][:80]))
unlocated = [t for (t, s) in err3 if not any(hits(it, [(t, s)]) for it in items)
             and not t.startswith('aborting due to') and not t.startswith('could not compile')]
for t in unlocated:
    bad += 1
    print('V invalid-unlocated MISMATCH error outside every item: %s' % t[:100])
if rc3 == 0:
    bad += 1
    print('V invalid-build MISMATCH cargo check succeeded with the invalid items enabled')
n_inv = len([i for i in items if i['kind'] == 'invalid'])
print('STAT invalid-crate valid=%d probes=%d invalid=%d errors-reported=%d mismatches=%d' % (
    len([i for i in items if i['kind'] == 'valid']), len([i for i in items if i['kind'] == 'probe']),
    n_inv, len(err3), bad))
sys.exit(1 if bad else 0)
