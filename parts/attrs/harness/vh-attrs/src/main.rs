//! vh-attrs: differential harness for the cachelito attribute parsers.
//!
//! usage: vh-attrs <seed> <count>
//!
//! Generates attribute lists, feeds the *real* `parse_sync_attributes` /
//! `parse_async_attributes` (cachelito-macro-utils) under `catch_unwind`,
//! and prints one TAB separated line per case:
//!
//!   C <id> <S|A> <class> <mode> <model-input> <outcome> [<field>=<value>]* src=<text>
//!
//! <model-input> is the abstract attribute list handed to the Coq model
//! (space separated, prefix coded):
//!   list := <n> attr*          attr := <name> lit
//!   lit  := I <dec> | S <hex|-> | F <m> <e> | B <0|1> | X | A <n> lit* | P <n> seg* | O
//! <mode> : full (compare verdict, error kind and every field),
//!          verdict (accept / reject only), syntax (no model run, expect ERR).
//! <outcome> : ERR | PANIC | OK   (OK is followed by the normalised fields;
//!          a field holding `compile_error!` tokens is printed as CE; since /repo
//!          commit dbaa653 that must not happen any more).

use cachelito_macro_utils::{parse_async_attributes, parse_sync_attributes};
use proc_macro2::TokenStream;
use std::panic::{self, AssertUnwindSafe};

// ------------------------------------------------------------------ rng --

struct Rng(u64);
impl Rng {
    fn next(&mut self) -> u64 {
        self.0 = self.0.wrapping_add(0x9E37_79B9_7F4A_7C15);
        let mut z = self.0;
        z = (z ^ (z >> 30)).wrapping_mul(0xBF58_476D_1CE4_E5B9);
        z = (z ^ (z >> 27)).wrapping_mul(0x94D0_49BB_1331_11EB);
        z ^ (z >> 31)
    }
    fn below(&mut self, n: u64) -> u64 {
        self.next() % n
    }
    fn chance(&mut self, num: u64, den: u64) -> bool {
        self.below(den) < num
    }
    fn pick<'a, T>(&mut self, xs: &'a [T]) -> &'a T {
        &xs[self.below(xs.len() as u64) as usize]
    }
}

// --------------------------------------------------------------- values --

#[derive(Clone)]
struct Val {
    enc: String,  // abstract literal for the model
    text: String, // Rust source text
}
#[derive(Clone)]
struct Attr {
    name: String,
    val: Val,
}

fn hex(b: &[u8]) -> String {
    if b.is_empty() {
        return "-".into();
    }
    b.iter().map(|x| format!("{:02x}", x)).collect()
}

fn with_underscores(rng: &mut Rng, s: &str) -> String {
    let mut out = String::new();
    for (i, c) in s.chars().enumerate() {
        if i > 0 && rng.chance(1, 3) {
            out.push('_');
        }
        out.push(c);
    }
    out
}

fn int_text(rng: &mut Rng, v: u128) -> String {
    match rng.below(10) {
        0 => format!("{:#x}", v),
        1 => format!("{:#o}", v),
        2 => format!("{:#b}", v),
        3 => with_underscores(rng, &v.to_string()),
        4 => format!("{}{}", v, rng.pick(&["usize", "u64", "u8", "i32", "u128", "f64", "f32"])),
        5 => format!("0x{}", with_underscores(rng, &format!("{:X}", v))),
        6 => format!("00{}", v),
        _ => v.to_string(),
    }
}
fn v_int(rng: &mut Rng, v: u128) -> Val {
    Val { enc: format!("I {}", v), text: int_text(rng, v) }
}
fn v_int_plain(v: u128) -> Val {
    Val { enc: format!("I {}", v), text: v.to_string() }
}
fn v_str(rng: &mut Rng, s: &str) -> Val {
    let text = if !s.contains('"') && !s.contains('#') && !s.contains('\r') && rng.chance(1, 6) {
        if rng.chance(1, 2) { format!("r\"{}\"", s) } else { format!("r#\"{}\"#", s) }
    } else {
        format!("{:?}", s)
    };
    Val { enc: format!("S {}", hex(s.as_bytes())), text }
}
fn v_str_plain(s: &str) -> Val {
    Val { enc: format!("S {}", hex(s.as_bytes())), text: format!("{:?}", s) }
}
fn float_text(rng: &mut Rng, m: u128, e: i32) -> String {
    let digits = m.to_string();
    if e < 0 && rng.chance(2, 3) && (-e) < 40 {
        let k = (-e) as usize;
        if k < digits.len() {
            format!("{}.{}", &digits[..digits.len() - k], &digits[digits.len() - k..])
        } else {
            format!("0.{}{}", "0".repeat(k - digits.len()), digits)
        }
    } else if e == 0 && rng.chance(1, 2) {
        format!("{}.0", digits)
    } else if e > 0 && e < 20 && rng.chance(1, 2) {
        format!("{}{}.0", digits, "0".repeat(e as usize))
    } else {
        match rng.below(3) {
            0 => format!("{}e{}", digits, e),
            1 => format!("{}E{}", digits, e),
            _ => format!("{}.0e{}", digits, e),
        }
    }
}
fn v_float(rng: &mut Rng, m: u128, e: i32) -> Val {
    Val { enc: format!("F {} {}", m, e), text: float_text(rng, m, e) }
}
fn v_float_text(m: u128, e: i32, text: &str) -> Val {
    Val { enc: format!("F {} {}", m, e), text: text.into() }
}
fn v_bool(b: bool) -> Val {
    Val { enc: format!("B {}", b as u8), text: format!("{}", b) }
}
fn v_otherlit(rng: &mut Rng) -> Val {
    let t = *rng.pick(&["'c'", "b'x'", "b\"ab\"", "'\\n'", "br\"raw\"", "c\"cstr\""]);
    Val { enc: "X".into(), text: t.into() }
}
fn v_arr(items: Vec<Val>) -> Val {
    let mut enc = format!("A {}", items.len());
    for i in &items {
        enc.push(' ');
        enc.push_str(&i.enc);
    }
    let text = format!("[{}]", items.iter().map(|i| i.text.clone()).collect::<Vec<_>>().join(", "));
    Val { enc, text }
}
fn v_path(segs: &[&str]) -> Val {
    Val { enc: format!("P {} {}", segs.len(), segs.join(" ")), text: segs.join("::") }
}
fn v_other(rng: &mut Rng) -> Val {
    let t = *rng.pick(&[
        "foo()", "1 + 2", "(5)", "{ 5 }", "&\"x\"", "\"a\".to_string()", "!true", "(1, 2)",
        "x.y", "a[0]", "5 as usize", "|| 1", "Some(5)", "f::<u8>(1)", "10 * 1024", "- x",
        "if a { 1 } else { 2 }", "..", "1..2", "*p",
    ]);
    Val { enc: "O".into(), text: t.into() }
}

// ------------------------------------------------------ value generators --

const U64MAX: u128 = u64::MAX as u128;

fn small_or_boundary_ok(rng: &mut Rng) -> u128 {
    match rng.below(12) {
        0 => 0,
        1 => 1,
        2 => U64MAX,
        3 => U64MAX - 1,
        4 => 1u128 << 63,
        5 => 1u128 << 32,
        6 => (1u128 << 53) + 1,
        7 => rng.next() as u128,
        _ => rng.below(100_000) as u128,
    }
}
fn too_big(rng: &mut Rng) -> u128 {
    match rng.below(5) {
        0 => U64MAX + 1,
        1 => U64MAX + 2,
        2 => (U64MAX + 1) * 10,
        3 => 1_000_000_000_000_000_000_000_000_000_000u128,
        _ => U64MAX + 1 + rng.next() as u128,
    }
}

const WORDS: &[&str] = &[
    "users", "user_data", "profile", "a", "", "my cache", "get_user", "x-y", "Ünï", "q\"uote", "back\\slash",
    "user_updated", "tab\tsep", "new\nline", "fifo", "100MB", "éa\u{301}", "#hash", "日本", "limit",
];
fn rand_word(rng: &mut Rng) -> String {
    if rng.chance(3, 4) {
        (*rng.pick(WORDS)).to_string()
    } else {
        let n = rng.below(8);
        (0..n).map(|_| (b'a' + rng.below(26) as u8) as char).collect()
    }
}

const POLICIES: &[&str] = &["fifo", "lru", "lfu", "arc", "random", "tlru"];
const SCOPES: &[&str] = &["global", "thread"];
const SYNC_NAMES: &[&str] = &[
    "limit", "policy", "ttl", "scope", "name", "max_memory", "tags", "events", "dependencies",
    "invalidate_on", "cache_if", "frequency_weight",
];
const PATHS: &[&[&str]] = &[
    &["is_stale"], &["should_cache"], &["my_mod", "is_stale"], &["crate", "checks", "fresh"],
    &["self", "f"], &["super", "g"], &["a", "b", "c", "d"], &["None"], &["r#fn"],
];

fn rand_case(rng: &mut Rng, s: &str) -> String {
    s.chars().map(|c| if rng.chance(1, 2) { c.to_ascii_lowercase() } else { c.to_ascii_uppercase() }).collect()
}

/// accepted, documented max_memory strings: digits + optional KB/MB/GB in any case
fn mem_string_ok(rng: &mut Rng) -> String {
    let k = rng.below(4) as u32; // 0 = plain number
    let cap: u128 = (U64MAX + 1) >> (10 * k); // n * 1024^k < 2^64  <=>  n < cap
    let n: u128 = match rng.below(8) {
        0 => cap - 1,
        1 => 0,
        2 => 1,
        3 => (rng.next() as u128) % cap,
        _ => rng.below(5000) as u128,
    };
    let unit = ["", "KB", "MB", "GB"][k as usize];
    let num = if rng.chance(1, 8) { format!("00{}", n) } else { n.to_string() };
    format!("{}{}", num, rand_case(rng, unit))
}

fn float_ok(rng: &mut Rng) -> Val {
    match rng.below(12) {
        0 => v_float_text(3, -324, "3e-324"),                       // rounds up to the least subnormal
        1 => v_float_text(17976931348623157, 292, "1.7976931348623157e308"), // f64::MAX
        2 => v_float_text(17976931348623158, 292, "1.7976931348623158e308"), // still rounds to MAX
        3 => v_float(rng, 1, -300),
        4 => v_float(rng, 1, 300),
        5 => v_float(rng, 3, -1),
        6 => v_float(rng, 15, -1),
        _ => {
            let m = 1 + rng.below(99_999) as u128;
            let e = rng.below(9) as i32 - 6;
            v_float(rng, m, e)
        }
    }
}

fn valid_value(rng: &mut Rng, name: &str) -> Val {
    match name {
        "limit" | "ttl" => { let v = small_or_boundary_ok(rng); v_int(rng, v) }
        "policy" => { let p = *rng.pick(POLICIES); v_str(rng, p) }
        "scope" => { let p = *rng.pick(SCOPES); v_str(rng, p) }
        "name" => { let w = rand_word(rng); v_str(rng, &w) }
        "max_memory" => {
            if rng.chance(1, 4) { let v = small_or_boundary_ok(rng); v_int(rng, v) }
            else { let s = mem_string_ok(rng); v_str(rng, &s) }
        }
        "tags" | "events" | "dependencies" => {
            let n = rng.below(4);
            let items = (0..n).map(|_| { let w = rand_word(rng); v_str(rng, &w) }).collect();
            v_arr(items)
        }
        "invalidate_on" | "cache_if" => v_path(*rng.pick::<&[&str]>(PATHS)),
        "frequency_weight" => {
            if rng.chance(1, 4) {
                let v = if rng.chance(1, 3) { small_or_boundary_ok(rng) } else { 1 + rng.below(9) as u128 };
                v_int(rng, v)
            } else { float_ok(rng) }
        }
        _ => unreachable!(),
    }
}

fn names_for(which: char) -> Vec<&'static str> {
    SYNC_NAMES.iter().copied().filter(|n| which == 'S' || *n != "scope").collect()
}

fn shuffle<T>(rng: &mut Rng, v: &mut Vec<T>) {
    for i in (1..v.len()).rev() {
        let j = rng.below(i as u64 + 1) as usize;
        v.swap(i, j);
    }
}

fn valid_list(rng: &mut Rng, which: char, exclude: Option<&str>) -> Vec<Attr> {
    let mut names = names_for(which);
    if let Some(x) = exclude {
        names.retain(|n| *n != x);
    }
    shuffle(rng, &mut names);
    let keep = match rng.below(6) {
        0 => 0,
        1 => names.len(),
        _ => rng.below(names.len() as u64 + 1) as usize,
    };
    names.truncate(keep);
    names.into_iter().map(|n| Attr { name: n.into(), val: valid_value(rng, n) }).collect()
}

// -------------------------------------------------------- invalid values --

fn wrong_kind(rng: &mut Rng, avoid: &[&str]) -> Val {
    // a value of some kind not listed in `avoid` (int,str,float,bool,xlit,arr,path,other)
    loop {
        let (k, v) = match rng.below(8) {
            0 => ("int", { let x = rng.below(100) as u128; v_int(rng, x) }),
            1 => ("str", { let w = rand_word(rng); v_str(rng, &w) }),
            2 => ("float", float_ok(rng)),
            3 => ("bool", v_bool(rng.chance(1, 2))),
            4 => ("xlit", v_otherlit(rng)),
            5 => ("arr", {
                let n = rng.below(3);
                let items = (0..n).map(|_| if rng.chance(1, 2) { let w = rand_word(rng); v_str(rng, &w) } else { v_int_plain(7) }).collect();
                v_arr(items)
            }),
            6 => ("path", v_path(*rng.pick::<&[&str]>(PATHS))),
            _ => ("other", v_other(rng)),
        };
        if !avoid.contains(&k) {
            return v;
        }
    }
}

const BAD_MEM: &[&str] = &[
    "10 MB", "MB", "GB", "KB", "10TB", "1.5GB", "-5MB", "10M", "ten", "", "10KBMB", "0x10", "1_000",
    "10kib", "10µb", "10\u{212a}b", "10B", "10 ", " 10", "+", "++5", "+-5", "5+KB", "10MBs", "10mbb",
    "1e3", "10MB ", "١٠", "10ſb", "GBGB", "B", "10GBKBGB",
    "18446744073709551616", "18446744073709551616KB", "99999999999999999999999MB", "+18446744073709551616",
];
const OVERFLOW_MEM: &[&str] = &[
    "17179869184GB", "17592186044416MB", "18014398509481984KB", "18446744073709551615kb",
    "18446744073709551615GB", "17179869184gbGB", "+17592186044416mb", "4611686018427387904KB",
];
const ODD_MEM: &[(&str, u32)] = &[
    ("+10KB", 0), ("10KBKB", 0), ("10kbKB", 0), ("+5", 0), ("007MB", 0), ("3GbgB", 0), ("+0gb", 0),
    ("17179869183GB", 0), ("18014398509481983KB", 0), ("17592186044415MB", 0), ("18446744073709551615", 0),
    ("0MBMBMB", 0), ("+00000000000000000000001kb", 0),
];

fn typo(rng: &mut Rng, which: char) -> String {
    let known = names_for(which);
    for _ in 0..20 {
        let base = *rng.pick(SYNC_NAMES);
        let chars: Vec<char> = base.chars().collect();
        let cand: String = match rng.below(9) {
            0 => { let i = rng.below(chars.len() as u64) as usize; chars.iter().enumerate().filter(|(j, _)| *j != i).map(|(_, c)| *c).collect() }
            1 => { let i = rng.below(chars.len() as u64) as usize; let mut c = chars.clone(); c.insert(i, chars[i]); c.into_iter().collect() }
            2 => { let mut c = chars.clone(); c[0] = c[0].to_ascii_uppercase(); c.into_iter().collect() }
            3 => format!("{}s", base),
            4 => format!("r#{}", base),
            5 => { if chars.len() < 2 { continue; } let i = rng.below(chars.len() as u64 - 1) as usize; let mut c = chars.clone(); c.swap(i, i + 1); c.into_iter().collect() }
            6 => base.to_ascii_uppercase(),
            7 => (*rng.pick(&["size", "capacity", "key", "expire", "max_size", "maxmemory", "tag", "event", "depends_on", "invalidate", "when", "weight", "a::b", "cachelito::limit", "_"])).to_string(),
            _ => format!("{}_", base),
        };
        if !known.contains(&cand.as_str()) && !cand.is_empty() {
            return cand;
        }
    }
    "bogus".into()
}

/// One invalid attribute: (name, value, class label, soft?)
/// soft = the per-attribute parser reports the error as embedded compile_error! tokens
/// (before /repo commit dbaa653 a later repetition could overwrite it; now it is returned as Err)
fn invalid_attr(rng: &mut Rng, which: char) -> (Attr, &'static str, bool) {
    let a = |n: &str, v: Val| Attr { name: n.into(), val: v };
    loop {
        let k = rng.below(27);
        return match k {
            0 => { let s = *rng.pick(&["LRU", "Fifo", "mru", "", "lru ", " fifo", "lifo", "tLRU", "fifo\0", "ａｒｃ", "random2"]); (a("policy", v_str(rng, s)), "inv-policy-str", false) }
            1 => (a("policy", wrong_kind(rng, &["str"])), "inv-policy-lit", false),
            2 => { if which == 'A' { continue; } let s = *rng.pick(&["Global", "local", "", "thread_local", "threads", "THREAD", "process"]); (a("scope", v_str(rng, s)), "inv-scope-str", false) }
            3 => { if which == 'A' { continue; } (a("scope", wrong_kind(rng, &["str"])), "inv-scope-lit", false) }
            4 => { if which == 'S' { continue; } let v = if rng.chance(1, 2) { let s = *rng.pick(SCOPES); v_str(rng, s) } else { wrong_kind(rng, &[]) }; (a("scope", v), "inv-scope-async", false) }
            5 => (a("limit", wrong_kind(rng, &["int"])), "inv-limit-lit", true),
            6 => { let v = too_big(rng); (a("limit", v_int(rng, v)), "inv-limit-range", true) }
            7 => (a("ttl", wrong_kind(rng, &["int"])), "inv-ttl-lit", true),
            8 => { let v = too_big(rng); (a("ttl", v_int(rng, v)), "inv-ttl-range", false) }
            9 => { let s = *rng.pick(BAD_MEM); (a("max_memory", v_str(rng, s)), "inv-mem-str", true) }
            10 => (a("max_memory", wrong_kind(rng, &["int", "str"])), "inv-mem-lit", true),
            11 => { let v = too_big(rng); (a("max_memory", v_int(rng, v)), "inv-mem-range", false) }
            12 => { let s = *rng.pick(OVERFLOW_MEM); (a("max_memory", v_str(rng, s)), "inv-mem-overflow", false) }
            13 => { let n = *rng.pick(&["tags", "events", "dependencies"]); (a(n, wrong_kind(rng, &["arr"])), "inv-strs-notarray", false) }
            14 => {
                let n = *rng.pick(&["tags", "events", "dependencies"]);
                let len = 1 + rng.below(3) as usize;
                let bad = rng.below(len as u64) as usize;
                let items = (0..len).map(|i| if i == bad { wrong_kind(rng, &["str"]) } else { let w = rand_word(rng); v_str(rng, &w) }).collect();
                (a(n, v_arr(items)), "inv-strs-elem", false)
            }
            15 => { let n = *rng.pick(&["invalidate_on", "cache_if"]); (a(n, wrong_kind(rng, &["path"])), "inv-path", false) }
            16 => (a("frequency_weight", wrong_kind(rng, &["int", "float"])), "inv-fw-lit", true),
            17 => {
                let v = match rng.below(5) {
                    0 => v_float_text(0, -1, "0.0"),
                    1 => v_float_text(0, 5, "0e5"),
                    2 => v_float_text(1, -400, "1e-400"),
                    3 => v_float_text(2, -324, "2e-324"),
                    _ => v_float_text(0, -3, "0.000"),
                };
                (a("frequency_weight", v), "inv-fw-zero", true)
            }
            18 => {
                let v = match rng.below(3) {
                    0 => v_float_text(1, 400, "1e400"),
                    1 => v_float_text(17976931348623159, 292, "1.7976931348623159e308"),
                    _ => v_float_text(2, 308, "2e308"),
                };
                (a("frequency_weight", v), "inv-fw-inf", false)
            }
            19 => { let v = too_big(rng); (a("frequency_weight", v_int(rng, v)), "inv-fw-range", false) }
            20..=23 => { let n = typo(rng, which); let v = if rng.chance(1, 2) { let x = rng.below(100) as u128; v_int(rng, x) } else { wrong_kind(rng, &[]) }; (Attr { name: n, val: v }, "unknown-name", false) }
            _ => continue,
        };
    }
}

// ---------------------------------------------------------------- cases --

struct Case {
    which: char,
    class: String,
    mode: &'static str,
    attrs: Vec<Attr>,
    trailing_comma: bool,
    raw: Option<String>, // for syntax cases
}

fn gen_case(rng: &mut Rng) -> Case {
    let which = if rng.chance(1, 2) { 'S' } else { 'A' };
    let tc = rng.chance(1, 3);
    let roll = rng.below(100);
    let mk = |class: String, mode: &'static str, attrs: Vec<Attr>| Case { which, class, mode, attrs, trailing_comma: tc, raw: None };
    if roll < 32 {
        let l = valid_list(rng, which, None);
        mk("valid".into(), "full", l)
    } else if roll < 42 {
        let mut l = valid_list(rng, which, None);
        let names = names_for(which);
        for _ in 0..(1 + rng.below(4)) {
            let n = *rng.pick(&names);
            let at = rng.below(l.len() as u64 + 1) as usize;
            l.insert(at, Attr { name: n.into(), val: valid_value(rng, n) });
        }
        mk("valid-dup".into(), "full", l)
    } else if roll < 82 {
        let (bad, label, _soft) = invalid_attr(rng, which);
        let mut class = label.to_string();
        // the rest of the list: valid attributes, usually with other names
        let mut l = if rng.chance(3, 4) { valid_list(rng, which, Some(&bad.name)) } else { valid_list(rng, which, None) };
        let at = rng.below(l.len() as u64 + 1) as usize;
        let nm = bad.name.clone();
        l.insert(at, bad);
        if rng.chance(1, 4) && names_for(which).contains(&nm.as_str()) {
            // same attribute again, later, with a valid value
            let at2 = at + 1 + rng.below((l.len() - at) as u64) as usize;
            l.insert(at2, Attr { name: nm.clone(), val: valid_value(rng, &nm) });
            class.push_str("+ovr");
        }
        mk(class, "full", l)
    } else if roll < 88 {
        // accepted-but-surprising inputs
        let mut l = valid_list(rng, which, None);
        let (a, label) = match rng.below(5) {
            0 => (Attr { name: "name".into(), val: wrong_kind(rng, &["str"]) }, "odd-name-nonstr"),
            1 => (Attr { name: "frequency_weight".into(), val: v_int(rng, 0) }, "odd-fw-int0"),
            2 | 3 => { let s = rng.pick(ODD_MEM).0; (Attr { name: "max_memory".into(), val: v_str(rng, s) }, "odd-mem-form") }
            _ => (Attr { name: "invalidate_on".into(), val: v_path(&["None"]) }, "odd-path-none"),
        };
        l.retain(|x| x.name != a.name);
        let at = rng.below(l.len() as u64 + 1) as usize;
        l.insert(at, a);
        mk(label.into(), "full", l)
    } else if roll < 94 {
        // soup: random names with random kinds of values
        let n = rng.below(6);
        let names = names_for(which);
        let l = (0..n).map(|_| {
            let nm = if rng.chance(1, 12) { typo(rng, which) } else { (*rng.pick(&names)).to_string() };
            let v = if rng.chance(1, 2) && names.contains(&nm.as_str()) { valid_value(rng, &nm) } else { wrong_kind(rng, &[]) };
            Attr { name: nm, val: v }
        }).collect();
        mk("soup".into(), "full", l)
    } else if roll < 98 {
        // negative literals: syn yields Lit (last position, no trailing comma) or Unary
        let mut l = valid_list(rng, which, None);
        let n = *rng.pick(&["limit", "ttl", "max_memory", "frequency_weight"]);
        l.retain(|x| x.name != n);
        let text = if n == "frequency_weight" && rng.chance(1, 2) { "-1.5".to_string() } else { format!("-{}", 1 + rng.below(9)) };
        let at = rng.below(l.len() as u64 + 1) as usize;
        l.insert(at, Attr { name: n.into(), val: Val { enc: "O".into(), text } });
        mk("negative".into(), "verdict", l)
    } else {
        let raw = *rng.pick(&[
            "limit", "limit 5", "limit =", "limit = 5 policy = \"lru\"", "= 5", "limit == 5", "\"limit\" = 5",
            "limit = 5;", "limit(5)", "limit = 5,, ttl = 3", ",", "limit: 5", "max-memory = 5", "limit = #[a] 5",
            "5", "limit = 5 ttl",
        ]);
        Case { which, class: "syntax".into(), mode: "syntax", attrs: vec![], trailing_comma: false, raw: Some(raw.into()) }
    }
}

fn fixed_cases() -> Vec<Case> {
    let mut out = Vec::new();
    let mut rng = Rng(0); // only used by helpers that need one; forms chosen below are explicit
    let a = |n: &str, v: Val| Attr { name: n.into(), val: v };
    let mut push = |which: char, class: &str, mode: &'static str, attrs: Vec<Attr>| {
        out.push(Case { which, class: class.into(), mode, attrs, trailing_comma: false, raw: None })
    };
    for w in ['S', 'A'] {
        push(w, "fixed-empty", "full", vec![]);
        // README style
        push(w, "fixed-doc", "full", vec![a("limit", v_int_plain(100)), a("policy", v_str_plain("lru")), a("ttl", v_int_plain(60))]);
        push(w, "fixed-doc", "full", vec![a("max_memory", v_str_plain("100MB")), a("name", v_str_plain("my_cache"))]);
        push(w, "fixed-doc", "full", vec![a("policy", v_str_plain("tlru")), a("frequency_weight", v_float_text(15, -1, "1.5")), a("limit", v_int_plain(10))]);
        push(w, "fixed-doc", "full", vec![
            a("tags", v_arr(vec![v_str_plain("user_data"), v_str_plain("profile")])),
            a("events", v_arr(vec![v_str_plain("user_updated")])),
            a("dependencies", v_arr(vec![v_str_plain("get_user")])),
            a("invalidate_on", v_path(&["is_stale"])),
            a("cache_if", v_path(&["my_mod", "should_cache"])),
        ]);
        for (s, _) in ODD_MEM {
            push(w, "odd-mem-form", "full", vec![a("max_memory", v_str_plain(s))]);
        }
        for s in ["10kb", "3Mb", "2GB", "17", "1gB", "500KB", "0", "0kb"] {
            push(w, "fixed-mem", "full", vec![a("max_memory", v_str_plain(s))]);
        }
        for s in BAD_MEM {
            push(w, "inv-mem-str", "full", vec![a("max_memory", v_str_plain(s))]);
        }
        for s in OVERFLOW_MEM {
            push(w, "inv-mem-overflow", "full", vec![a("max_memory", v_str_plain(s))]);
        }
        for n in ["limit", "ttl", "max_memory", "frequency_weight"] {
            push(w, "fixed-bound", "full", vec![a(n, v_int_plain(U64MAX))]);
            push(w, "fixed-bound", "full", vec![a(n, v_int_plain(U64MAX + 1))]);
            push(w, "fixed-bound", "full", vec![a(n, v_int_plain(0))]);
            // an invalid value must be rejected even when a later valid one repeats the attribute
            push(w, "inv-then-valid", "full", vec![a(n, v_str_plain("abc")), a(n, v_int_plain(5))]);
            push(w, "valid-then-inv", "full", vec![a(n, v_int_plain(5)), a(n, v_str_plain("abc"))]);
        }
        push(w, "inv-then-valid", "full", vec![a("limit", v_str_plain("abc")), a("limit", v_int_plain(5))]);
        push(w, "inv-then-valid", "full", vec![a("ttl", v_str_plain("x")), a("ttl", v_int_plain(5))]);
        push(w, "inv-then-valid", "full", vec![a("max_memory", v_str_plain("10 MB")), a("max_memory", v_str_plain("1MB"))]);
        push(w, "inv-then-valid", "full", vec![a("max_memory", v_str_plain("17179869184GB")), a("max_memory", v_str_plain("1GB"))]);
        push(w, "inv-then-valid", "full", vec![a("frequency_weight", v_float_text(0, -1, "0.0")), a("frequency_weight", v_float_text(15, -1, "1.5"))]);
        push(w, "odd-name-nonstr", "full", vec![a("name", v_str_plain("a")), a("name", v_int_plain(5))]);
        push(w, "odd-name-nonstr", "full", vec![a("name", v_path(&["my_cache"]))]);
        // qself is dropped: <Foo as Bar>::baz becomes the path Bar::baz
        push(w, "odd-path-qself", "full", vec![a("invalidate_on", Val { enc: "P 2 Bar baz".into(), text: "<Foo as Bar>::baz".into() })]);
        push(w, "odd-path-leading-colon", "full", vec![a("cache_if", Val { enc: "P 2 a b".into(), text: "::a::b".into() })]);
        // syn classifies `5f64` (digits + float suffix, no '.' or exponent) as an INTEGER literal
        push(w, "odd-int-fsuffix", "full", vec![a("limit", Val { enc: "I 5".into(), text: "5f64".into() })]);
        push(w, "odd-int-fsuffix", "full", vec![a("frequency_weight", Val { enc: "I 0".into(), text: "0f64".into() })]);
        push(w, "inv-fw-zero", "full", vec![a("frequency_weight", v_float_text(0, -1, "0.0f64"))]);
        push(w, "odd-fw-int0", "full", vec![a("frequency_weight", v_int_plain(0))]);
        push(w, "fixed-scope", "full", vec![a("scope", v_str_plain("thread"))]);
        push(w, "fixed-scope", "full", vec![a("scope", v_str_plain("global")), a("limit", v_int_plain(1))]);
        // an early returned Err hides nothing: later attributes are never looked at
        push(w, "unknown-name", "full", vec![a("limt", v_int_plain(5)), a("ttl", v_int_plain(U64MAX + 1))]);
        push(w, "inv-ttl-range", "full", vec![a("ttl", v_int_plain(U64MAX + 1)), a("limt", v_int_plain(5))]);
        push(w, "inv-limit-lit", "full", vec![a("limit", v_str_plain("5")), a("policy", v_str_plain("mru"))]);
    }
    let _ = &mut rng;
    out
}

// ----------------------------------------------------------- real parser --

fn squash(ts: &TokenStream) -> String {
    let s = ts.to_string();
    if s.contains("compile_error") {
        "CE".into()
    } else {
        s.split_whitespace().collect::<String>()
    }
}
fn name_out(n: &Option<String>) -> String {
    match n {
        None => "N".into(),
        Some(s) => format!("S{}", hex(s.as_bytes())),
    }
}
fn strs_out(v: &[String]) -> String {
    let mut s = format!("{}", v.len());
    for x in v {
        s.push(',');
        s.push_str(&hex(x.as_bytes()));
    }
    s
}
fn path_out(p: &Option<syn::Path>) -> String {
    match p {
        None => "N".into(),
        Some(p) => {
            let ts = quote::quote!(#p);
            format!("P{}", ts.to_string().split_whitespace().collect::<String>())
        }
    }
}

fn run_real(which: char, text: &str) -> String {
    let ts: TokenStream = match text.parse() {
        Ok(t) => t,
        Err(_) => return "LEXERR".into(),
    };
    let r = panic::catch_unwind(AssertUnwindSafe(|| {
        if which == 'S' {
            match parse_sync_attributes(ts) {
                Err(_) => "ERR".to_string(),
                Ok(a) => format!(
                    "OK\tlimit={}\tpolicy={}\tttl={}\tscope={}\tname={}\tmax_memory={}\ttags={}\tevents={}\tdependencies={}\tinvalidate_on={}\tcache_if={}\tfrequency_weight={}",
                    squash(&a.limit), squash(&a.policy), squash(&a.ttl), squash(&a.scope), name_out(&a.custom_name),
                    squash(&a.max_memory), strs_out(&a.tags), strs_out(&a.events), strs_out(&a.dependencies),
                    path_out(&a.invalidate_on), path_out(&a.cache_if), squash(&a.frequency_weight)
                ),
            }
        } else {
            match parse_async_attributes(ts) {
                Err(_) => "ERR".to_string(),
                Ok(a) => format!(
                    "OK\tlimit={}\tpolicy={}\tttl={}\tscope=-\tname={}\tmax_memory={}\ttags={}\tevents={}\tdependencies={}\tinvalidate_on={}\tcache_if={}\tfrequency_weight={}",
                    squash(&a.limit), squash(&a.policy), squash(&a.ttl), name_out(&a.custom_name),
                    squash(&a.max_memory), strs_out(&a.tags), strs_out(&a.events), strs_out(&a.dependencies),
                    path_out(&a.invalidate_on), path_out(&a.cache_if), squash(&a.frequency_weight)
                ),
            }
        }
    }));
    match r {
        Ok(s) => s,
        Err(_) => "PANIC".into(),
    }
}

fn emit(id: &str, c: &Case) {
    let text = match &c.raw {
        Some(r) => r.clone(),
        None => {
            let mut t = c.attrs.iter().map(|a| format!("{} = {}", a.name, a.val.text)).collect::<Vec<_>>().join(", ");
            if c.trailing_comma && !c.attrs.is_empty() {
                t.push(',');
            }
            t
        }
    };
    let mut enc = format!("{}", c.attrs.len());
    for a in &c.attrs {
        enc.push(' ');
        enc.push_str(&a.name);
        enc.push(' ');
        enc.push_str(&a.val.enc);
    }
    let outcome = run_real(c.which, &text);
    let src: String = text.chars().map(|ch| if ch == '\t' || ch == '\n' || ch == '\r' { ' ' } else { ch }).collect();
    println!("C\t{}\t{}\t{}\t{}\t{}\t{}\tsrc={}", id, c.which, c.class, c.mode, enc, outcome, src);
}

fn main() {
    let args: Vec<String> = std::env::args().collect();
    if args.get(1).map(|s| s.as_str()) == Some("--probe") {
        // vh-attrs --probe <S|A> '<attribute list text>'
        panic::set_hook(Box::new(|_| {}));
        let w = args[2].chars().next().unwrap();
        println!("{}", run_real(w, &args[3]));
        return;
    }
    let seed: u64 = args.get(1).and_then(|s| s.parse().ok()).unwrap_or(1);
    let count: u64 = args.get(2).and_then(|s| s.parse().ok()).unwrap_or(1000);
    panic::set_hook(Box::new(|_| {}));
    for (i, c) in fixed_cases().iter().enumerate() {
        emit(&format!("f{:03}", i), c);
    }
    let mut rng = Rng(seed);
    for i in 0..count {
        let c = gen_case(&mut rng);
        emit(&format!("r{:06}", i), &c);
    }
}
