(* ====================================================================== *)
(*  AttrsProofs.v -- machine-checked theorems about the model in Attrs.v   *)
(*  (vocabulary: AttrsSpec.v).  No axioms, no admits.                      *)
(* ====================================================================== *)

From Coq Require Import List String Ascii NArith ZArith Bool Lia Permutation.
From CLA Require Import Attrs AttrsSpec.
Import ListNotations.
Local Open Scope string_scope.
Local Open Scope N_scope.
Local Open Scope list_scope.

(* ====================================================================== *)
(*  M. max_memory strings: mem_scan computes exactly mem_syntax            *)
(* ====================================================================== *)

Section Mem.
Local Open Scope char_scope.

Definition dstep (acc : N) (c : ascii) : N := acc * 10 + digit_val c.

Lemma digits_value_all : forall ds acc,
  all_digits ds -> digits_value ds acc = Some (fold_left dstep ds acc).
Proof.
  induction ds as [|c ds IH]; intros acc H; simpl.
  - reflexivity.
  - inversion H; subst. rewrite H2. apply IH. assumption.
Qed.

Lemma digits_value_inv : forall ds acc n,
  digits_value ds acc = Some n -> all_digits ds /\ fold_left dstep ds acc = n.
Proof.
  induction ds as [|c ds IH]; intros acc n H; simpl in *.
  - inversion H. split; [constructor | reflexivity].
  - destruct (is_digit c) eqn:E; [|discriminate].
    apply IH in H. destruct H as [H1 H2]. split; [constructor; assumption | assumption].
Qed.

Lemma digit_not_plus : forall c, is_digit c = true -> (c =? "+") = false.
Proof.
  intros c H. destruct (Ascii.eqb_spec c "+"); [subst; vm_compute in H; discriminate | reflexivity].
Qed.

Lemma digit_not_B : forall c, is_digit c = true -> (c =? "B") = false.
Proof.
  intros c H. destruct (Ascii.eqb_spec c "B"); [subst; vm_compute in H; discriminate | reflexivity].
Qed.

Lemma parse_unsigned_ok : forall sign ds,
  (sign = [] \/ sign = ["+"]) -> ds <> [] -> all_digits ds ->
  parse_unsigned (sign ++ ds) = Some (dec_value ds).
Proof.
  intros sign ds Hs Hne Hd. unfold parse_unsigned, dec_value.
  destruct ds as [|c ds]; [congruence|].
  destruct Hs as [-> | ->].
  - simpl app. inversion Hd; subst. rewrite (digit_not_plus c H1).
    exact (digits_value_all (c :: ds) 0 Hd).
  - exact (digits_value_all (c :: ds) 0 Hd).
Qed.

Lemma parse_unsigned_inv : forall l n,
  parse_unsigned l = Some n ->
  exists sign ds, l = sign ++ ds /\ (sign = [] \/ sign = ["+"]) /\ ds <> [] /\
                  all_digits ds /\ dec_value ds = n.
Proof.
  intros l n H. unfold parse_unsigned in H.
  destruct l as [|c r]; [discriminate|].
  destruct (Ascii.eqb_spec c "+") as [->|Hc].
  - destruct r as [|d r']; [discriminate|].
    apply digits_value_inv in H. destruct H as [H1 H2].
    exists ["+"], (d :: r').
    split; [reflexivity|]. split; [right; reflexivity|]. split; [discriminate|]. split; assumption.
  - apply digits_value_inv in H. destruct H as [H1 H2].
    exists [], (c :: r).
    split; [reflexivity|]. split; [left; reflexivity|]. split; [discriminate|]. split; assumption.
Qed.

Lemma rep_snoc : forall {A} r (l : list A), rep r l ++ l = l ++ rep r l.
Proof.
  induction r as [|r IH]; intros l; simpl.
  - rewrite app_nil_r. reflexivity.
  - rewrite <- app_assoc. rewrite IH. reflexivity.
Qed.

Lemma rev_rep2 : forall r (a b : ascii), rev (rep r [a; b]) = rep r [b; a].
Proof.
  induction r as [|r IH]; intros a b.
  - reflexivity.
  - change (rep (S r) [a; b]) with ([a; b] ++ rep r [a; b]).
    rewrite rev_app_distr. rewrite IH. simpl rev.
    change (rep (S r) [b; a]) with ([b; a] ++ rep r [b; a]).
    apply rep_snoc.
Qed.

(* a "tail" that the trimming loop cannot eat: it starts with a digit *)
Definition digit_headed (t : list ascii) : Prop :=
  exists d t', t = d :: t' /\ is_digit d = true.

Lemma trim_rev_stop : forall c t, digit_headed t -> trim_rev c t = t.
Proof.
  intros c t (d & t' & -> & Hd). simpl. destruct t' as [|b t'']; [reflexivity|].
  rewrite (digit_not_B d Hd). reflexivity.
Qed.

Lemma trim_rev_rep : forall c r t, digit_headed t -> trim_rev c (rep r ["B"; c] ++ t) = t.
Proof.
  intros c r t Ht. induction r as [|r IH].
  - simpl. apply trim_rev_stop. assumption.
  - change (rep (S r) ["B"; c] ++ t) with ("B" :: c :: (rep r ["B"; c] ++ t)).
    simpl. rewrite Ascii.eqb_refl. simpl. exact IH.
Qed.

Lemma ends2_digit_headed : forall c t, digit_headed t -> ends2 c t = false.
Proof.
  intros c t (d & t' & -> & Hd). simpl. destruct t'; [reflexivity|].
  rewrite (digit_not_B d Hd). reflexivity.
Qed.

Lemma rev_digits_headed : forall ds sign,
  ds <> [] -> all_digits ds -> digit_headed (rev ds ++ rev sign).
Proof.
  intros ds sign Hne Hd.
  destruct (rev ds) as [|d t] eqn:E.
  - apply (f_equal (@rev ascii)) in E. rewrite rev_involutive in E. simpl in E. congruence.
  - exists d, (t ++ rev sign). split; [reflexivity|].
    assert (In d ds) as Hin.
    { apply in_rev. rewrite E. left. reflexivity. }
    unfold all_digits in Hd. rewrite Forall_forall in Hd. apply Hd. assumption.
Qed.

Lemma mem_scan_complete : forall s n k, mem_syntax s n k -> mem_scan s = Some (n, k).
Proof.
  intros s n k (sign & ds & r & Hs & Hne & Hd & Hv & Hk & Hu).
  unfold mem_scan. rewrite Hu.
  pose proof (rev_digits_headed ds sign Hne Hd) as Hh.
  destruct Hk as [[-> ->] | [Hk Hr]].
  - (* plain number *)
    simpl rep. rewrite app_nil_r.
    rewrite rev_app_distr.
    rewrite !(ends2_digit_headed _ _ Hh).
    rewrite (parse_unsigned_ok sign ds Hs Hne Hd). rewrite Hv. reflexivity.
  - destruct r as [|r]; [congruence|]. clear Hr.
    assert (forall c, rev (sign ++ ds ++ rep (S r) [c; "B"])
                      = "B" :: c :: (rep r ["B"; c] ++ (rev ds ++ rev sign))) as Hrev.
    { intros c. rewrite app_assoc, rev_app_distr, rev_rep2, rev_app_distr. reflexivity. }
    assert (forall c, rev (trim_rev c ("B" :: c :: (rep r ["B"; c] ++ (rev ds ++ rev sign))))
                      = sign ++ ds) as Htrim.
    { intros c.
      change ("B" :: c :: (rep r ["B"; c] ++ (rev ds ++ rev sign)))
        with (rep (S r) ["B"; c] ++ (rev ds ++ rev sign)).
      rewrite (trim_rev_rep c (S r) _ Hh).
      rewrite rev_app_distr, !rev_involutive. reflexivity. }
    destruct Hk as [-> | [-> | ->]]; simpl unit_chars; rewrite Hrev.
    + (* KB *) simpl ends2. rewrite Htrim.
      rewrite (parse_unsigned_ok sign ds Hs Hne Hd). rewrite Hv. reflexivity.
    + (* MB *) simpl ends2. rewrite Htrim.
      rewrite (parse_unsigned_ok sign ds Hs Hne Hd). rewrite Hv. reflexivity.
    + (* GB *) simpl ends2. rewrite Htrim.
      rewrite (parse_unsigned_ok sign ds Hs Hne Hd). rewrite Hv. reflexivity.
Qed.

Lemma trim_rev_spec_len : forall c m l, (List.length l <= m)%nat ->
  exists j, l = rep j ["B"; c] ++ trim_rev c l.
Proof.
  intros c m. induction m as [|m IH]; intros l Hl.
  - destruct l; [|simpl in Hl; lia]. exists O. reflexivity.
  - destruct l as [|a [|b l']].
    + exists O. reflexivity.
    + exists O. reflexivity.
    + simpl trim_rev.
      destruct (Ascii.eqb_spec a "B") as [->|Ha]; simpl andb.
      * destruct (Ascii.eqb_spec b c) as [->|Hb].
        -- destruct (IH l') as [j Hj]. { simpl in Hl. lia. }
           exists (S j). change (rep (S j) ["B"; c]) with (["B"; c] ++ rep j ["B"; c]).
           simpl. f_equal. f_equal. exact Hj.
        -- exists O. reflexivity.
      * exists O. reflexivity.
Qed.

Lemma ends2_true : forall c l, ends2 c l = true ->
  exists l', l = "B" :: c :: l' /\ exists j, l = rep (S j) ["B"; c] ++ trim_rev c l.
Proof.
  intros c l H. destruct l as [|a [|b l']]; simpl in H; try discriminate.
  apply andb_true_iff in H. destruct H as [Ha Hb].
  apply Ascii.eqb_eq in Ha. apply Ascii.eqb_eq in Hb. subst.
  exists l'. split; [reflexivity|].
  destruct (trim_rev_spec_len c (List.length l') l' (le_n _)) as [j Hj].
  exists j. simpl trim_rev. rewrite !Ascii.eqb_refl. simpl andb.
  change (rep (S j) ["B"; c]) with (["B"; c] ++ rep j ["B"; c]).
  simpl. f_equal. f_equal. exact Hj.
Qed.

Lemma mem_scan_unit_sound : forall s c k n,
  unit_chars k = [c; "B"] -> (k = 1 \/ k = 2 \/ k = 3) ->
  ends2 c (rev (upper_chars s)) = true ->
  parse_unsigned (rev (trim_rev c (rev (upper_chars s)))) = Some n ->
  mem_syntax s n k.
Proof.
  intros s c k n Hu Hk He Hp.
  destruct (ends2_true _ _ He) as (l' & _ & j & Hj).
  destruct (parse_unsigned_inv _ _ Hp) as (sign & ds & Hl & Hs & Hne & Hd & Hv).
  exists sign, ds, (S j).
  split; [exact Hs|]. split; [exact Hne|]. split; [exact Hd|]. split; [exact Hv|].
  split.
  - right. split; [assumption | discriminate].
  - rewrite Hu.
    rewrite <- (rev_involutive (upper_chars s)). rewrite Hj at 1.
    rewrite rev_app_distr. rewrite Hl. rewrite rev_rep2. rewrite <- app_assoc. reflexivity.
Qed.

Lemma mem_scan_sound : forall s n k, mem_scan s = Some (n, k) -> mem_syntax s n k.
Proof.
  intros s n k H. unfold mem_scan in H.
  destruct (ends2 "G" (rev (upper_chars s))) eqn:EG.
  { destruct (parse_unsigned _) eqn:EP in H; [|discriminate]. inversion H; subst.
    eapply mem_scan_unit_sound; eauto. reflexivity. }
  destruct (ends2 "M" (rev (upper_chars s))) eqn:EM.
  { destruct (parse_unsigned _) eqn:EP in H; [|discriminate]. inversion H; subst.
    eapply mem_scan_unit_sound; eauto. reflexivity. }
  destruct (ends2 "K" (rev (upper_chars s))) eqn:EK.
  { destruct (parse_unsigned _) eqn:EP in H; [|discriminate]. inversion H; subst.
    eapply mem_scan_unit_sound; eauto. reflexivity. }
  destruct (parse_unsigned _) eqn:EP in H; [|discriminate]. inversion H; subst.
  destruct (parse_unsigned_inv _ _ EP) as (sign & ds & Hl & Hs & Hne & Hd & Hv).
  exists sign, ds, O.
  split; [exact Hs|]. split; [exact Hne|]. split; [exact Hd|]. split; [exact Hv|].
  split; [left; split; reflexivity|].
  simpl. rewrite app_nil_r. assumption.
Qed.

End Mem.

Theorem mem_scan_spec : forall s n k, mem_scan s = Some (n, k) <-> mem_syntax s n k.
Proof. intros; split; [apply mem_scan_sound | apply mem_scan_complete]. Qed.

Lemma pow1024_pos : forall k, 1 <= 1024 ^ k.
Proof.
  intros k. pose proof (N.pow_nonzero 1024 k). lia.
Qed.

Lemma mem_value_ok : forall s n k,
  mem_syntax s n k -> n * 1024 ^ k < two64 -> mem_value s = MOk (n * 1024 ^ k).
Proof.
  intros s n k Hs Hlt. unfold mem_value. rewrite (mem_scan_complete _ _ _ Hs).
  pose proof (pow1024_pos k) as Hp.
  assert (n < two64) as Hn.
  { set (p := 1024 ^ k) in *. nia. }
  apply N.ltb_lt in Hn. rewrite Hn. apply N.ltb_lt in Hlt. rewrite Hlt. reflexivity.
Qed.

Lemma mem_value_overflow : forall s n k,
  mem_syntax s n k -> n < two64 -> two64 <= n * 1024 ^ k -> mem_value s = MOverflow.
Proof.
  intros s n k Hs Hn Hov. unfold mem_value. rewrite (mem_scan_complete _ _ _ Hs).
  apply N.ltb_lt in Hn. rewrite Hn.
  apply N.ltb_ge in Hov. rewrite Hov. reflexivity.
Qed.

Lemma mem_value_big : forall s n k,
  mem_syntax s n k -> two64 <= n -> mem_value s = MBad.
Proof.
  intros s n k Hs Hn. unfold mem_value. rewrite (mem_scan_complete _ _ _ Hs).
  apply N.ltb_ge in Hn. rewrite Hn. reflexivity.
Qed.

Lemma mem_value_malformed : forall s,
  (forall n k, ~ mem_syntax s n k) -> mem_value s = MBad.
Proof.
  intros s H. unfold mem_value. destruct (mem_scan s) as [[n k]|] eqn:E; [|reflexivity].
  exfalso. apply (H n k). apply mem_scan_sound. assumption.
Qed.

(* ====================================================================== *)
(*  A. Name classification                                                 *)
(* ====================================================================== *)

Lemma classify_name : forall w f,
  (f = AScope -> w = Sync) -> classify w (name_of f) = Some f.
Proof.
  intros w f H. destruct f; try (destruct w; reflexivity).
  rewrite (H eq_refl). reflexivity.
Qed.

Lemma classify_some : forall w nm f,
  classify w nm = Some f -> nm = name_of f /\ (f = AScope -> w = Sync).
Proof.
  intros w nm f. unfold classify.
  repeat match goal with
  | |- context [String.eqb nm ?c] =>
      destruct (String.eqb_spec nm c);
      [ subst nm; try (destruct w); cbn; intros H; inversion H; subst;
        (split; [reflexivity | intros; try reflexivity; try discriminate]) | ]
  end.
  destruct w; cbn; intros H; discriminate.
Qed.

Lemma classify_unknown : forall w nm, ~ known_name w nm -> classify w nm = None.
Proof.
  intros w nm H. destruct (classify w nm) as [f|] eqn:E; [|reflexivity].
  exfalso. apply H. apply classify_some in E. destruct E as [-> Hs].
  unfold known_name. destruct f; destruct w; simpl; try tauto.
  specialize (Hs eq_refl). discriminate.
Qed.

Lemma name_of_inj : forall f g, name_of f = name_of g -> f = g.
Proof. intros f g; destruct f; destruct g; simpl; intros H; try reflexivity; discriminate. Qed.

(* ====================================================================== *)
(*  B. A well-formed attribute performs exactly its update                 *)
(* ====================================================================== *)

Definition field_of (fv : fieldval) : aname :=
  match fv with
  | FVlimit _ => ALimit | FVpolicy _ => APolicy | FVttl _ => ATtl | FVscope _ => AScope
  | FVname _ => AName | FVmem _ => AMaxMemory | FVtags _ => ATags | FVevents _ => AEvents
  | FVdeps _ => ADependencies | FVinv _ => AInvalidateOn | FVcif _ => ACacheIf
  | FVfw _ _ => AFrequencyWeight
  end.

Definition cfg_apply (c : config) (fv : fieldval) : config :=
  match fv with
  | FVlimit n => set_limit (Some n) c
  | FVpolicy p => set_policy p c
  | FVttl n => set_ttl (Some n) c
  | FVscope s => set_scope s c
  | FVname s => set_name (Some s) c
  | FVmem b => set_max_memory (Some b) c
  | FVtags l => set_tags l c
  | FVevents l => set_events l c
  | FVdeps l => set_dependencies l c
  | FVinv p => set_invalidate_on (Some p) c
  | FVcif p => set_cache_if (Some p) c
  | FVfw m e => set_frequency_weight (Some (m, e)) c
  end.

Lemma written_name : forall w a fv, written w a fv -> fst a = name_of (field_of fv).
Proof. intros w a fv H; inversion H; reflexivity. Qed.

Lemma strs_of_map : forall ss, strs_of (map LStr ss) = Some ss.
Proof. induction ss as [|s ss IH]; simpl; [reflexivity | rewrite IH; reflexivity]. Qed.

Lemma strs_of_inv : forall l ss, strs_of l = Some ss -> l = map LStr ss.
Proof.
  induction l as [|x l IH]; intros ss H; simpl in H.
  - inversion H. reflexivity.
  - destruct x; try discriminate.
    destruct (strs_of l) as [ss'|] eqn:E; [|discriminate].
    inversion H; subst. simpl. f_equal. apply IH. reflexivity.
Qed.

Lemma policy_named_spec : forall s p, policy_of_string s = Some p <-> policy_named s p.
Proof.
  intros s p; split.
  - unfold policy_of_string.
    repeat match goal with
    | |- context [String.eqb s ?c] =>
        destruct (String.eqb_spec s c); [subst; intros H; inversion H; constructor|]
    end.
    discriminate.
  - intros H; inversion H; reflexivity.
Qed.

Lemma scope_named_spec : forall s sc, scope_of_string s = Some sc <-> scope_named s sc.
Proof.
  intros s sc; split.
  - unfold scope_of_string.
    repeat match goal with
    | |- context [String.eqb s ?c] =>
        destruct (String.eqb_spec s c); [subst; intros H; inversion H; constructor|]
    end.
    discriminate.
  - intros H; inversion H; reflexivity.
Qed.

Lemma step_unfold : forall w c nm v f,
  classify w nm = Some f ->
  step w c (nm, v) =
  match f with
  | ALimit =>
      match v with
      | LInt n => if n <? two64 then inl (set_limit (Some n) c) else inr EReturned
      | _ => inr EReturned
      end
  | APolicy =>
      match v with
      | LStr s => match policy_of_string s with
                  | Some p => inl (set_policy p c)
                  | None => inr EReturned
                  end
      | _ => inr EReturned
      end
  | ATtl =>
      match v with
      | LInt n => if n <? two64 then inl (set_ttl (Some n) c) else inr EPanic
      | _ => inr EReturned
      end
  | AScope =>
      match v with
      | LStr s => match scope_of_string s with
                  | Some sc => inl (set_scope sc c)
                  | None => inr EReturned
                  end
      | _ => inr EReturned
      end
  | AName =>
      match v with
      | LStr s => inl (set_name (Some s) c)
      | _ => inl (set_name None c)
      end
  | AMaxMemory =>
      match v with
      | LStr s => match mem_value s with
                  | MOk b => inl (set_max_memory (Some b) c)
                  | MBad => inr EReturned
                  | MOverflow => inr EReturned
                  end
      | LInt n => if n <? two64 then inl (set_max_memory (Some n) c) else inr EPanic
      | _ => inr EReturned
      end
  | ATags =>
      match v with
      | LArr l => match strs_of l with
                  | Some ss => inl (set_tags ss c)
                  | None => inr EReturned
                  end
      | _ => inr EReturned
      end
  | AEvents =>
      match v with
      | LArr l => match strs_of l with
                  | Some ss => inl (set_events ss c)
                  | None => inr EReturned
                  end
      | _ => inr EReturned
      end
  | ADependencies =>
      match v with
      | LArr l => match strs_of l with
                  | Some ss => inl (set_dependencies ss c)
                  | None => inr EReturned
                  end
      | _ => inr EReturned
      end
  | AInvalidateOn =>
      match v with
      | LPath p => inl (set_invalidate_on (Some p) c)
      | _ => inr EReturned
      end
  | ACacheIf =>
      match v with
      | LPath p => inl (set_cache_if (Some p) c)
      | _ => inr EReturned
      end
  | AFrequencyWeight =>
      match v with
      | LFloat m e =>
          match f64_classify m e with
          | FZero => inr EReturned
          | FFinite => inl (set_frequency_weight (Some (m, e)) c)
          | FInf => inr EPanic
          end
      | LInt n => if n <? two64 then inl (set_frequency_weight (Some (n, 0%Z)) c) else inr EPanic
      | _ => inr EReturned
      end
  end.
Proof.
  intros w c nm v f H. unfold step. rewrite H. destruct f; reflexivity.
Qed.

Lemma written_classify : forall w a fv,
  written w a fv -> classify w (fst a) = Some (field_of fv).
Proof.
  intros w a fv H. rewrite (written_name _ _ _ H). apply classify_name.
  intros E. inversion H; subst; simpl in E; try discriminate. reflexivity.
Qed.

Lemma step_written : forall w c a fv,
  written w a fv -> step w c a = inl (cfg_apply c fv).
Proof.
  intros w c a fv H. pose proof (written_classify _ _ _ H) as Hc.
  destruct a as [nm v]. simpl in Hc. rewrite (step_unfold _ _ _ _ _ Hc).
  inversion H; subst; simpl field_of; cbv iota;
  repeat match goal with
  | Hm : mem_syntax ?s ?n ?k, Hlt : (?n * 1024 ^ ?k < two64) |- _ =>
      rewrite (mem_value_ok _ _ _ Hm Hlt); clear Hm
  | Hlt : (_ < two64) |- _ => apply N.ltb_lt in Hlt; rewrite Hlt
  | Hp : policy_named _ _ |- _ => apply policy_named_spec in Hp; rewrite Hp
  | Hs : scope_named _ _ |- _ => apply scope_named_spec in Hs; rewrite Hs
  | Hf : f64_classify _ _ = _ |- _ => rewrite Hf; clear Hf
  end; try rewrite strs_of_map; reflexivity.
Qed.

(* ====================================================================== *)
(*  C. The loop on well-formed lists                                       *)
(* ====================================================================== *)

Lemma run_app : forall w l1 l2 c,
  run w c (l1 ++ l2) =
  match run w c l1 with inl c' => run w c' l2 | inr k => inr k end.
Proof.
  intros w l1. induction l1 as [|a l1 IH]; intros l2 c; simpl.
  - reflexivity.
  - destruct (step w c a); [apply IH | reflexivity].
Qed.

Lemma run_written : forall w l fvs c,
  all_written w l fvs -> run w c l = inl (fold_left cfg_apply fvs c).
Proof.
  intros w l fvs c H. revert c. induction H as [|a fv l fvs Ha Hl IH]; intros c; simpl.
  - reflexivity.
  - rewrite (step_written _ _ _ _ Ha). apply IH.
Qed.

(* every well-formed list is accepted, and the result is the left-to-right
   composition of the field updates *)
Lemma parse_written : forall w l fvs,
  all_written w l fvs -> parse w l = Ok (fold_left cfg_apply fvs default_config).
Proof.
  intros w l fvs H. unfold parse. rewrite (run_written _ _ _ _ H). reflexivity.
Qed.

(* ====================================================================== *)
(*  E. Field updates: read-back, independence, commutation                 *)
(* ====================================================================== *)

Lemma has_apply : forall c fv, has (cfg_apply c fv) fv.
Proof. intros c fv; destruct fv; reflexivity. Qed.

Lemma has_apply_other : forall c fv g,
  field_of g <> field_of fv -> has c fv -> has (cfg_apply c g) fv.
Proof. intros c fv g Hne H; destruct fv; destruct g; simpl in *; try assumption; congruence. Qed.

Lemma same_field_apply_other : forall f c g,
  field_of g <> f -> same_field f (cfg_apply c g) c.
Proof. intros f c g Hne; destruct f; destruct g; simpl in *; try reflexivity; congruence. Qed.

Lemma same_field_trans : forall f a b c, same_field f a b -> same_field f b c -> same_field f a c.
Proof. intros f a b c; destruct f; simpl; intros; congruence. Qed.

Lemma same_field_refl : forall f c, same_field f c c.
Proof. intros f c; destruct f; reflexivity. Qed.

Lemma cfg_apply_comm : forall c g h,
  field_of g <> field_of h -> cfg_apply (cfg_apply c g) h = cfg_apply (cfg_apply c h) g.
Proof. intros c g h Hne; destruct g; destruct h; simpl in *; try reflexivity; congruence. Qed.

Lemma cfg_apply_shadow : forall c g h,
  field_of g = field_of h -> cfg_apply (cfg_apply c g) h = cfg_apply c h.
Proof. intros c g h He; destruct g; destruct h; simpl in *; try reflexivity; discriminate. Qed.

Lemma fold_has_preserved : forall fvs c fv,
  Forall (fun g => field_of g <> field_of fv) fvs -> has c fv ->
  has (fold_left cfg_apply fvs c) fv.
Proof.
  induction fvs as [|g fvs IH]; intros c fv HF H; simpl.
  - assumption.
  - inversion HF; subst. apply IH; [assumption|]. apply has_apply_other; assumption.
Qed.

Lemma fold_same_field : forall fvs f c,
  Forall (fun g => field_of g <> f) fvs -> same_field f (fold_left cfg_apply fvs c) c.
Proof.
  induction fvs as [|g fvs IH]; intros f c HF; simpl.
  - apply same_field_refl.
  - inversion HF; subst. eapply same_field_trans; [apply IH; assumption|].
    apply same_field_apply_other; assumption.
Qed.

(* names of the attributes = names of the fields they write *)
Lemma written_names : forall w l fvs,
  all_written w l fvs -> map fst l = map (fun fv => name_of (field_of fv)) fvs.
Proof.
  intros w l fvs H. induction H as [|a fv l fvs Ha Hl IH]; simpl.
  - reflexivity.
  - rewrite (written_name _ _ _ Ha), IH. reflexivity.
Qed.

Lemma not_in_names : forall fvs nm,
  ~ In nm (map (fun fv => name_of (field_of fv)) fvs) ->
  Forall (fun g => name_of (field_of g) <> nm) fvs.
Proof.
  induction fvs as [|g fvs IH]; intros nm H; constructor.
  - intros E. apply H. left. assumption.
  - apply IH. intros E. apply H. right. assumption.
Qed.

Lemma Forall_field_ne : forall fvs f,
  Forall (fun g => name_of (field_of g) <> name_of f) fvs ->
  Forall (fun g => field_of g <> f) fvs.
Proof.
  intros fvs f H. eapply Forall_impl; [|exact H]. simpl. intros g Hg E. apply Hg. rewrite E. reflexivity.
Qed.

Lemma fold_last_has : forall fvs1 fv fvs2 c,
  Forall (fun g => field_of g <> field_of fv) fvs2 ->
  has (fold_left cfg_apply (fvs1 ++ fv :: fvs2) c) fv.
Proof.
  intros fvs1 fv fvs2 c HF. rewrite fold_left_app. simpl.
  apply fold_has_preserved; [assumption | apply has_apply].
Qed.

(* ====================================================================== *)
(*  THEOREM 1: parse_ok_fields                                             *)
(* ====================================================================== *)

Theorem parse_ok_fields : forall w l fvs,
  distinct_names l -> all_written w l fvs ->
  exists cfg,
    parse w l = Ok cfg /\
    Forall (has cfg) fvs /\
    (forall f, ~ In (name_of f) (map fst l) -> same_field f cfg default_config).
Proof.
  intros w l fvs Hd Hw.
  exists (fold_left cfg_apply fvs default_config).
  split; [apply parse_written; assumption|].
  pose proof (written_names _ _ _ Hw) as Hn.
  unfold distinct_names in Hd. rewrite Hn in Hd.
  split.
  - (* every written value is in the result *)
    apply Forall_forall. intros fv Hin.
    destruct (in_split _ _ Hin) as (fvs1 & fvs2 & ->).
    apply fold_last_has.
    rewrite map_app in Hd. simpl in Hd. apply NoDup_remove_2 in Hd.
    apply Forall_field_ne. apply not_in_names.
    intros E. apply Hd. apply in_or_app. right. assumption.
  - (* every field that is not named keeps its default *)
    intros f Hf. rewrite Hn in Hf.
    apply fold_same_field. apply Forall_field_ne. apply not_in_names. assumption.
Qed.

(* ====================================================================== *)
(*  THEOREM 2: parse_perm                                                  *)
(* ====================================================================== *)

Lemma fold_perm : forall fvs fvs',
  Permutation fvs fvs' ->
  NoDup (map field_of fvs) ->
  forall c, fold_left cfg_apply fvs c = fold_left cfg_apply fvs' c.
Proof.
  intros fvs fvs' HP. induction HP as [| x l l' HP IH | x y l | l l' l'' HP1 IH1 HP2 IH2]; intros Hnd c.
  - reflexivity.
  - simpl. apply IH. inversion Hnd; assumption.
  - simpl. rewrite cfg_apply_comm; [reflexivity|].
    inversion Hnd as [|? ? Hx Hr]; subst. intros E. apply Hx. left. symmetry. exact E.
  - rewrite IH1 by assumption. apply IH2.
    eapply Permutation_NoDup; [|exact Hnd]. apply Permutation_map. assumption.
Qed.

Lemma NoDup_names_fields : forall fvs,
  NoDup (map (fun fv => name_of (field_of fv)) fvs) -> NoDup (map field_of fvs).
Proof.
  induction fvs as [|g fvs IH]; simpl; intros H.
  - constructor.
  - inversion H; subst. constructor; [|apply IH; assumption].
    intros Hin. apply H2. rewrite in_map_iff in Hin. destruct Hin as (x & Hx & Hin).
    rewrite in_map_iff. exists x. split; [rewrite Hx; reflexivity | assumption].
Qed.

Theorem parse_perm : forall w l l',
  distinct_names l -> valid_list w l -> Permutation l l' ->
  parse w l' = parse w l.
Proof.
  intros w l l' Hd (fvs & Hw) HP.
  destruct (Permutation_Forall2 HP Hw) as (fvs' & HP' & Hw').
  rewrite (parse_written _ _ _ Hw), (parse_written _ _ _ Hw').
  f_equal. symmetry. apply fold_perm; [assumption|].
  apply NoDup_names_fields. rewrite <- (written_names _ _ _ Hw). exact Hd.
Qed.

(* ====================================================================== *)
(*  THEOREM 3: parse_last_wins                                             *)
(* ====================================================================== *)

Theorem parse_last_wins : forall w l1 a l2 fvs1 fv fvs2,
  all_written w l1 fvs1 -> written w a fv -> all_written w l2 fvs2 ->
  ~ In (fst a) (map fst l2) ->
  exists cfg, parse w (l1 ++ a :: l2) = Ok cfg /\ has cfg fv.
Proof.
  intros w l1 a l2 fvs1 fv fvs2 H1 Ha H2 Hlast.
  assert (all_written w (l1 ++ a :: l2) (fvs1 ++ fv :: fvs2)) as Hw.
  { apply Forall2_app; [assumption | constructor; assumption]. }
  exists (fold_left cfg_apply (fvs1 ++ fv :: fvs2) default_config).
  split; [apply parse_written; assumption|].
  apply fold_last_has.
  rewrite (written_name _ _ _ Ha), (written_names _ _ _ H2) in Hlast.
  apply Forall_field_ne. apply not_in_names. assumption.
Qed.

(* an occurrence that is followed by another attribute of the same name is
   irrelevant: removing it does not change the result *)
Lemma aname_eq_dec_aux : forall a b : aname, {a = b} + {a <> b}.
Proof. decide equality. Qed.

Lemma fold_shadowed : forall fvs2 c g h,
  field_of g = field_of h ->
  fold_left cfg_apply (fvs2 ++ [h]) (cfg_apply c g) = fold_left cfg_apply (fvs2 ++ [h]) c.
Proof.
  induction fvs2 as [|x fvs2 IH]; intros c g h He; simpl.
  - rewrite cfg_apply_shadow by assumption. reflexivity.
  - destruct (aname_eq_dec_aux (field_of g) (field_of x)) as [E|E].
    + rewrite cfg_apply_shadow by assumption. reflexivity.
    + rewrite cfg_apply_comm by assumption. apply IH. assumption.
Qed.

Theorem parse_shadowed : forall w l1 a l2 a' l3,
  valid_list w (l1 ++ a :: l2 ++ a' :: l3) -> fst a = fst a' ->
  parse w (l1 ++ a :: l2 ++ a' :: l3) = parse w (l1 ++ l2 ++ a' :: l3).
Proof.
  intros w l1 a l2 a' l3 (fvs & Hw) Hn.
  apply Forall2_app_inv_l in Hw. destruct Hw as (fvs1 & r1 & H1 & Hr1 & ->).
  inversion Hr1 as [|? g ? r2 Ha Hr2]; subst.
  apply Forall2_app_inv_l in Hr2. destruct Hr2 as (fvs2 & r3 & H2 & Hr3 & ->).
  inversion Hr3 as [|? h ? fvs3 Ha' H3]; subst.
  assert (all_written w (l1 ++ a :: l2 ++ a' :: l3) (fvs1 ++ g :: fvs2 ++ h :: fvs3)) as HwA.
  { apply Forall2_app; [assumption|]. constructor; [assumption|].
    apply Forall2_app; [assumption|]. constructor; assumption. }
  assert (all_written w (l1 ++ l2 ++ a' :: l3) (fvs1 ++ fvs2 ++ h :: fvs3)) as HwB.
  { apply Forall2_app; [assumption|]. apply Forall2_app; [assumption|]. constructor; assumption. }
  rewrite (parse_written _ _ _ HwA), (parse_written _ _ _ HwB). f_equal.
  rewrite !fold_left_app. cbn [fold_left]. rewrite !fold_left_app. cbn [fold_left].
  assert (field_of g = field_of h) as He.
  { apply name_of_inj. rewrite <- (written_name _ _ _ Ha), <- (written_name _ _ _ Ha'). assumption. }
  pose proof (fold_shadowed fvs2 (fold_left cfg_apply fvs1 default_config) g h He) as Hs.
  rewrite !fold_left_app in Hs. cbn [fold_left] in Hs. rewrite Hs. reflexivity.
Qed.

(* ====================================================================== *)
(*  THEOREM 4: parse_rejects                                               *)
(* ====================================================================== *)

Lemma not_named_policy : forall s, (forall p, ~ policy_named s p) -> policy_of_string s = None.
Proof.
  intros s H. destruct (policy_of_string s) as [p|] eqn:E; [|reflexivity].
  exfalso. apply (H p). apply policy_named_spec. assumption.
Qed.

Lemma not_named_scope : forall s, (forall sc, ~ scope_named s sc) -> scope_of_string s = None.
Proof.
  intros s H. destruct (scope_of_string s) as [p|] eqn:E; [|reflexivity].
  exfalso. apply (H p). apply scope_named_spec. assumption.
Qed.

Lemma strs_of_none : forall l, (forall ss, LArr l <> LArr (map LStr ss)) -> strs_of l = None.
Proof.
  intros l H. destruct (strs_of l) as [ss|] eqn:E; [|reflexivity].
  exfalso. apply (H ss). f_equal. apply strs_of_inv. assumption.
Qed.

Definition is_err {A} (x : A + err_kind) : Prop := exists k, x = inr k.

(* the loop stops AT a rejected attribute, whatever the state *)
Lemma step_rejected : forall w c a, rejected w a -> is_err (step w c a).
Proof.
  intros w c a H. unfold is_err.
  inversion H; subst.
  - (* unknown *) unfold step. rewrite (classify_unknown _ _ H0). eauto.
  - (* policy, bad string *)
    rewrite (step_unfold w c "policy" _ APolicy) by (destruct w; reflexivity).
    rewrite (not_named_policy _ H0). eauto.
  - (* policy, not a string *)
    rewrite (step_unfold w c "policy" _ APolicy) by (destruct w; reflexivity).
    destruct v; eauto. exfalso. eapply H0. reflexivity.
  - (* scope, bad string *)
    destruct w.
    + rewrite (step_unfold Sync c "scope" _ AScope) by reflexivity.
      rewrite (not_named_scope _ H0). eauto.
    + unfold step. simpl. eauto.
  - (* scope, not a string *)
    destruct w.
    + rewrite (step_unfold Sync c "scope" _ AScope) by reflexivity.
      destruct v; eauto. exfalso. eapply H0. reflexivity.
    + unfold step. simpl. eauto.
  - (* limit, not an integer *)
    rewrite (step_unfold w c "limit" _ ALimit) by (destruct w; reflexivity).
    destruct v; eauto. exfalso. eapply H0. reflexivity.
  - (* limit out of range *)
    rewrite (step_unfold w c "limit" _ ALimit) by (destruct w; reflexivity).
    apply N.ltb_ge in H0. rewrite H0. eauto.
  - (* ttl, not an integer *)
    rewrite (step_unfold w c "ttl" _ ATtl) by (destruct w; reflexivity).
    destruct v; eauto. exfalso. eapply H0. reflexivity.
  - (* ttl out of range *)
    rewrite (step_unfold w c "ttl" _ ATtl) by (destruct w; reflexivity).
    apply N.ltb_ge in H0. rewrite H0. eauto.
  - (* max_memory, neither integer nor string *)
    rewrite (step_unfold w c "max_memory" _ AMaxMemory) by (destruct w; reflexivity).
    destruct v; eauto.
    + exfalso. eapply H0. reflexivity.
    + exfalso. eapply H1. reflexivity.
  - (* max_memory integer out of range *)
    rewrite (step_unfold w c "max_memory" _ AMaxMemory) by (destruct w; reflexivity).
    apply N.ltb_ge in H0. rewrite H0. eauto.
  - (* max_memory string not of the accepted form *)
    rewrite (step_unfold w c "max_memory" _ AMaxMemory) by (destruct w; reflexivity).
    rewrite (mem_value_malformed _ H0). eauto.
  - (* max_memory number does not fit usize *)
    rewrite (step_unfold w c "max_memory" _ AMaxMemory) by (destruct w; reflexivity).
    rewrite (mem_value_big _ _ _ H0 H1). eauto.
  - (* max_memory product overflow *)
    rewrite (step_unfold w c "max_memory" _ AMaxMemory) by (destruct w; reflexivity).
    rewrite (mem_value_overflow _ _ _ H0 H1 H2). eauto.
  - (* tags / events / dependencies *)
    destruct H0 as [-> | [-> | ->]].
    + rewrite (step_unfold w c "tags" _ ATags) by (destruct w; reflexivity).
      destruct v; eauto. rewrite (strs_of_none _ H1). eauto.
    + rewrite (step_unfold w c "events" _ AEvents) by (destruct w; reflexivity).
      destruct v; eauto. rewrite (strs_of_none _ H1). eauto.
    + rewrite (step_unfold w c "dependencies" _ ADependencies) by (destruct w; reflexivity).
      destruct v; eauto. rewrite (strs_of_none _ H1). eauto.
  - (* invalidate_on / cache_if *)
    destruct H0 as [-> | ->].
    + rewrite (step_unfold w c "invalidate_on" _ AInvalidateOn) by (destruct w; reflexivity).
      destruct v; eauto. exfalso. eapply H1. reflexivity.
    + rewrite (step_unfold w c "cache_if" _ ACacheIf) by (destruct w; reflexivity).
      destruct v; eauto. exfalso. eapply H1. reflexivity.
  - (* frequency_weight, wrong kind of literal *)
    rewrite (step_unfold w c "frequency_weight" _ AFrequencyWeight) by (destruct w; reflexivity).
    destruct v; eauto.
    + exfalso. eapply H0. reflexivity.
    + exfalso. eapply H1. reflexivity.
  - (* frequency_weight integer out of range *)
    rewrite (step_unfold w c "frequency_weight" _ AFrequencyWeight) by (destruct w; reflexivity).
    apply N.ltb_ge in H0. rewrite H0. eauto.
  - (* frequency_weight rounds to zero *)
    rewrite (step_unfold w c "frequency_weight" _ AFrequencyWeight) by (destruct w; reflexivity).
    rewrite H0. eauto.
  - (* frequency_weight rounds to infinity *)
    rewrite (step_unfold w c "frequency_weight" _ AFrequencyWeight) by (destruct w; reflexivity).
    rewrite H0. eauto.
Qed.

Lemma run_rejected : forall w l1 a l2 c,
  rejected w a -> is_err (run w c (l1 ++ a :: l2)).
Proof.
  intros w l1 a l2 c H. rewrite run_app.
  destruct (run w c l1) as [c'|k]; [|exists k; reflexivity].
  simpl. destruct (step_rejected w c' a H) as [k Hk]. rewrite Hk. exists k. reflexivity.
Qed.

Theorem parse_rejects : forall w l,
  (exists a, In a l /\ rejected w a) -> is_compile_error (parse w l).
Proof.
  intros w l (a & Hin & Hr). destruct (in_split _ _ Hin) as (l1 & l2 & ->).
  destruct (run_rejected w l1 a l2 default_config Hr) as [k Hk].
  unfold parse. rewrite Hk. exists k. reflexivity.
Qed.

(* Conversely: a list is accepted ONLY IF every attribute is accepted on its
   own terms, i.e. parse never "skips" an attribute: each step either applies
   a field update or stops.  (Sanity lemma used for the dichotomy below.)    *)
Lemma parse_ok_no_rejected : forall w l cfg,
  parse w l = Ok cfg -> forall a, In a l -> ~ rejected w a.
Proof.
  intros w l cfg H a Hin Hr.
  destruct (parse_rejects w l (ex_intro _ a (conj Hin Hr))) as [k Hk].
  rewrite Hk in H. discriminate.
Qed.

(* ====================================================================== *)
(*  THEOREM 5: scope_async_rejected                                        *)
(* ====================================================================== *)

Theorem scope_async_rejected : forall l v,
  In ("scope", v) l -> is_compile_error (parse AsyncM l).
Proof.
  intros l v Hin. apply parse_rejects. exists ("scope", v). split; [exact Hin|].
  apply R_unknown. unfold known_name. simpl.
  intros H. repeat (destruct H as [H | H]; [discriminate|]). exact H.
Qed.

(* ====================================================================== *)
(*  Examples: the hypotheses are satisfiable on non-trivial lists          *)
(* ====================================================================== *)

Section Examples.

Local Open Scope Z_scope.
Local Open Scope N_scope.

Definition ex_list : list attr :=
  [ ("ttl", LInt 60);
    ("max_memory", LStr "10mB");
    ("policy", LStr "tlru");
    ("scope", LStr "thread");
    ("tags", LArr [LStr "a"; LStr "b"]);
    ("frequency_weight", LFloat 15 (-1));
    ("cache_if", LPath ["checks"; "should_cache"]) ].

Definition ex_fvs : list fieldval :=
  [ FVttl 60; FVmem (10 * 1024 ^ 2); FVpolicy TLRU; FVscope ThreadLocal;
    FVtags ["a"; "b"]; FVfw 15 (-1); FVcif ["checks"; "should_cache"] ].

Example ex_mem_syntax : mem_syntax "10mB" 10 2.
Proof.
  exists [], ["1"; "0"]%char, 1%nat.
  split; [left; reflexivity|]. split; [discriminate|].
  split; [repeat constructor|]. split; [reflexivity|].
  split; [right; split; [right; left; reflexivity | discriminate]|].
  reflexivity.
Qed.

Example ex_distinct : distinct_names ex_list.
Proof.
  unfold distinct_names, ex_list. simpl.
  repeat (constructor; [simpl; intuition discriminate|]). constructor.
Qed.

Example ex_written : all_written Sync ex_list ex_fvs.
Proof.
  unfold all_written, ex_list, ex_fvs.
  constructor; [apply W_ttl; reflexivity|].
  constructor; [apply W_mem_str; [exact ex_mem_syntax | reflexivity]|].
  constructor; [apply W_policy; constructor|].
  constructor; [apply W_scope; [reflexivity | constructor]|].
  constructor; [exact (W_tags Sync ["a"; "b"])|].
  constructor; [apply W_fw_float; vm_compute; reflexivity|].
  constructor; [apply W_cif|].
  constructor.
Qed.

(* parse_ok_fields applies; and this is what it yields *)
Example ex_ok_fields :
  exists cfg, parse Sync ex_list = Ok cfg /\ Forall (has cfg) ex_fvs /\
    (forall f, ~ In (name_of f) (map fst ex_list) -> same_field f cfg default_config).
Proof. exact (parse_ok_fields Sync ex_list ex_fvs ex_distinct ex_written). Qed.

Example ex_ok_computed :
  parse Sync ex_list =
  Ok (mkConfig None TLRU (Some 60) (Some 10485760) (Some (15, (-1)%Z)) ThreadLocal None
        ["a"; "b"] [] [] None (Some ["checks"; "should_cache"])).
Proof. vm_compute. reflexivity. Qed.

(* parse_perm *)
Example ex_perm : parse Sync (rev ex_list) = parse Sync ex_list.
Proof.
  apply parse_perm.
  - exact ex_distinct.
  - exists ex_fvs. exact ex_written.
  - apply Permutation_rev.
Qed.

(* parse_last_wins *)
Example ex_last_wins :
  exists cfg,
    parse AsyncM ([("limit", LInt 5); ("policy", LStr "lru")] ++ ("limit", LInt 7) :: [("ttl", LInt 1)])
      = Ok cfg /\ has cfg (FVlimit 7).
Proof.
  eapply (parse_last_wins AsyncM _ _ _ [FVlimit 5; FVpolicy LRU] (FVlimit 7) [FVttl 1]).
  - constructor; [apply W_limit; reflexivity|]. constructor; [apply W_policy; constructor|]. constructor.
  - apply W_limit; reflexivity.
  - constructor; [apply W_ttl; reflexivity|]. constructor.
  - simpl. intuition discriminate.
Qed.

(* parse_rejects: an unknown name in the middle of an otherwise valid list *)
Example ex_reject_unknown :
  is_compile_error (parse Sync [("limit", LInt 5); ("limt", LInt 6); ("policy", LStr "lru")]).
Proof.
  apply parse_rejects. exists ("limt", LInt 6). split; [simpl; auto|].
  apply R_unknown. unfold known_name. simpl.
  intros H. repeat (destruct H as [H | H]; [discriminate|]). exact H.
Qed.

Example ex_malformed_mem : forall n k, ~ mem_syntax "10 MB" n k.
Proof.
  intros n k H. apply mem_scan_complete in H. vm_compute in H. discriminate.
Qed.

(* parse_rejects: a malformed max_memory, even when it is repeated later
   with a valid value *)
Example ex_reject_mem :
  is_compile_error
    (parse AsyncM [("ttl", LInt 5); ("max_memory", LStr "10 MB"); ("policy", LStr "lfu");
                   ("max_memory", LStr "1MB")]).
Proof.
  apply parse_rejects. exists ("max_memory", LStr "10 MB"). split; [simpl; auto|].
  apply R_mem_form. exact ex_malformed_mem.
Qed.

(* parse_rejects: limit = 2^64 *)
Example ex_reject_limit :
  is_compile_error (parse Sync [("limit", LInt 18446744073709551616); ("ttl", LInt 1)]).
Proof.
  apply parse_rejects. exists ("limit", LInt 18446744073709551616). split; [simpl; auto|].
  apply R_limit_range. vm_compute. discriminate.
Qed.

(* parse_rejects: a max_memory whose product does not fit usize *)
Example ex_reject_mem_overflow :
  is_compile_error (parse Sync [("max_memory", LStr "17179869184GB")]).
Proof.
  apply parse_rejects. exists ("max_memory", LStr "17179869184GB"). split; [simpl; auto|].
  apply (R_mem_overflow Sync "17179869184GB" 17179869184 3).
  - apply mem_scan_sound. vm_compute. reflexivity.
  - reflexivity.
  - vm_compute. discriminate.
Qed.

(* former finding F1 (repaired by /repo commit dbaa653): an invalid value is
   NOT dropped when the attribute is repeated with a valid value             *)
Example ex_invalid_then_valid_is_rejected :
  is_compile_error (parse Sync [("limit", LStr "abc"); ("limit", LInt 5)])
  /\ parse Sync [("limit", LStr "abc"); ("limit", LInt 5)] = CompileError EReturned.
Proof.
  split; [|vm_compute; reflexivity].
  apply parse_rejects. exists ("limit", LStr "abc"). split; [simpl; auto|].
  apply R_limit_lit. intros n; discriminate.
Qed.

(* scope_async_rejected *)
Example ex_scope_async :
  is_compile_error (parse AsyncM [("limit", LInt 5); ("scope", LStr "global")]).
Proof. apply (scope_async_rejected _ (LStr "global")). simpl. auto. Qed.

(* 1024-based units, at the edge of usize *)
Example ex_mem_edge :
  mem_value "17179869183GB" = MOk 18446744072635809792 /\
  mem_value "17179869184gb" = MOverflow /\
  mem_value "18446744073709551616" = MBad /\
  mem_value "+10KBkb" = MOk 10240.
Proof. vm_compute. repeat split. Qed.

End Examples.
