(* Extraction of the executable model to OCaml (ocaml/attrs_model.ml). *)
From Coq Require Import NArith ZArith.
From CLA Require Import Attrs.
Require Extraction.
Require Import ExtrOcamlBasic.    (* bool, option, unit, list, prod, sumbool -> OCaml natives *)
Require Import ExtrOcamlString.   (* ascii -> char, string -> char list *)
Extraction Language OCaml.
(* N, positive, Z stay the extracted inductives.  N.of_uint / N.to_uint and
   Z.of_N are only used by the driver to read / print decimal numbers.      *)
Extraction "../ocaml/attrs_model.ml"
  parse run mem_value f64_classify two64 N.of_uint N.to_uint Z.of_N Z.opp N.eqb Z.eqb.
