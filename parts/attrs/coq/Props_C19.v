(* ====================================================================== *)
(*  Props_C19.v -- the C19 statements about macro attribute lists,         *)
(*  re-stated on their own and closed by the theorems of AttrsProofs.v.    *)
(*  Vocabulary: Attrs.v (model), AttrsSpec.v (written, has, rejected ...) *)
(* ====================================================================== *)

From Coq Require Import List String NArith ZArith Permutation.
From CLA Require Import Attrs AttrsSpec AttrsProofs.
Import ListNotations.
Local Open Scope string_scope.
Local Open Scope list_scope.

(* Each attribute takes effect as written; everything else keeps its default. *)
Theorem C19_parse_ok_fields : forall w l fvs,
  distinct_names l -> all_written w l fvs ->
  exists cfg,
    parse w l = Ok cfg /\
    Forall (has cfg) fvs /\
    (forall f, ~ In (name_of f) (map fst l) -> same_field f cfg default_config).
Proof. exact parse_ok_fields. Qed.
Print Assumptions C19_parse_ok_fields.

(* The order in which the attributes are written does not matter. *)
Theorem C19_parse_perm : forall w l l',
  distinct_names l -> valid_list w l -> Permutation l l' ->
  parse w l' = parse w l.
Proof. exact parse_perm. Qed.
Print Assumptions C19_parse_perm.

(* Of a repeated attribute the last occurrence wins ... *)
Theorem C19_parse_last_wins : forall w l1 a l2 fvs1 fv fvs2,
  all_written w l1 fvs1 -> written w a fv -> all_written w l2 fvs2 ->
  ~ In (fst a) (map fst l2) ->
  exists cfg, parse w (l1 ++ a :: l2) = Ok cfg /\ has cfg fv.
Proof. exact parse_last_wins. Qed.
Print Assumptions C19_parse_last_wins.

(* ... and an occurrence that is repeated later is irrelevant. *)
Theorem C19_parse_shadowed : forall w l1 a l2 a' l3,
  valid_list w (l1 ++ a :: l2 ++ a' :: l3) -> fst a = fst a' ->
  parse w (l1 ++ a :: l2 ++ a' :: l3) = parse w (l1 ++ l2 ++ a' :: l3).
Proof. exact parse_shadowed. Qed.
Print Assumptions C19_parse_shadowed.

(* Unknown attribute names and invalid policy / scope / limit / ttl /
   max_memory / tags.. / predicate / frequency_weight values are compile
   errors: a list containing ONE rejected attribute is rejected, wherever
   that attribute stands, whatever else the list contains, and whether or
   not the attribute is repeated later with a valid value.                  *)
Theorem C19_parse_rejects : forall w l,
  (exists a, In a l /\ rejected w a) -> is_compile_error (parse w l).
Proof. exact parse_rejects. Qed.
Print Assumptions C19_parse_rejects.

(* Contrapositive reading: an accepted list contains no rejected attribute. *)
Theorem C19_parse_ok_no_rejected : forall w l cfg,
  parse w l = Ok cfg -> forall a, In a l -> ~ rejected w a.
Proof. exact parse_ok_no_rejected. Qed.
Print Assumptions C19_parse_ok_no_rejected.

(* `scope` is not an attribute of #[cache_async]. *)
Theorem C19_scope_async_rejected : forall l v,
  In ("scope", v) l -> is_compile_error (parse AsyncM l).
Proof. exact scope_async_rejected. Qed.
Print Assumptions C19_scope_async_rejected.

(* The scanner of max_memory strings accepts exactly the documented shape
   (plus an optional '+' and repeated units) ...                           *)
Theorem C19_mem_scan_spec : forall s n k, mem_scan s = Some (n, k) <-> mem_syntax s n k.
Proof. exact mem_scan_spec. Qed.
Print Assumptions C19_mem_scan_spec.

(* ... and the value is N * 1024^k (KB, MB, GB = 1024^1, ^2, ^3). *)
Theorem C19_mem_value_ok : forall s n k,
  mem_syntax s n k -> (n * 1024 ^ k < two64)%N -> mem_value s = MOk (n * 1024 ^ k)%N.
Proof. exact mem_value_ok. Qed.
Print Assumptions C19_mem_value_ok.
