(* ====================================================================== *)
(*  AttrsSpec.v -- vocabulary of the C19 theorems (definitions only).      *)
(*                                                                         *)
(*  These definitions say, independently of the control flow of `parse`,   *)
(*    - which (name, value) pairs are well-formed for a macro and what     *)
(*      they mean                      (written, has)                      *)
(*    - which pairs must be rejected   (rejected) *)
(*    - what "field keeps its default" means (same_field)                  *)
(* ====================================================================== *)

From Coq Require Import List String Ascii NArith ZArith Bool.
From CLA Require Import Attrs.
Import ListNotations.
Local Open Scope string_scope.
Local Open Scope N_scope.
Local Open Scope list_scope.

(* ---------------------------------------------------------------------- *)
(*  The tables, stated as relations                                        *)
(* ---------------------------------------------------------------------- *)

Inductive policy_named : string -> policy_t -> Prop :=
| PN_fifo   : policy_named "fifo" FIFO
| PN_lru    : policy_named "lru" LRU
| PN_lfu    : policy_named "lfu" LFU
| PN_arc    : policy_named "arc" ARC
| PN_random : policy_named "random" Random
| PN_tlru   : policy_named "tlru" TLRU.

Inductive scope_named : string -> scope_t -> Prop :=
| SN_global : scope_named "global" Global
| SN_thread : scope_named "thread" ThreadLocal.

Definition names_of (w : which) : list string :=
  match w with
  | Sync => ["limit"; "policy"; "ttl"; "scope"; "name"; "max_memory"; "tags"; "events";
             "dependencies"; "invalidate_on"; "cache_if"; "frequency_weight"]
  | AsyncM => ["limit"; "policy"; "ttl"; "name"; "max_memory"; "tags"; "events";
               "dependencies"; "invalidate_on"; "cache_if"; "frequency_weight"]
  end.

Definition known_name (w : which) (nm : string) : Prop := In nm (names_of w).

(* ---------------------------------------------------------------------- *)
(*  The shape of a max_memory string                                       *)
(* ---------------------------------------------------------------------- *)

(* value of a string of decimal digits *)
Definition dec_value (ds : list ascii) : N :=
  fold_left (fun acc c => acc * 10 + digit_val c) ds 0.

Definition all_digits (ds : list ascii) : Prop := Forall (fun c => is_digit c = true) ds.

(* the upper-cased unit for 1024^k *)
Definition unit_chars (k : N) : list ascii :=
  match k with
  | 1 => ["K"; "B"]%char
  | 2 => ["M"; "B"]%char
  | 3 => ["G"; "B"]%char
  | _ => []
  end.

Fixpoint rep {A} (r : nat) (l : list A) : list A :=
  match r with O => [] | S r' => l ++ rep r' l end.

(* [mem_syntax s n k]: after ASCII upper-casing, s is
        [+] digits                     (k = 0)
        [+] digits (KB)+               (k = 1)
        [+] digits (MB)+               (k = 2)
        [+] digits (GB)+               (k = 3)
   and the digits denote n.  "NKB" / "NMB" / "NGB" / "N" in any letter
   case are the instances sign = [] and r = 1 (r = 0 for k = 0); the optional
   '+' and the repeated unit are accepted by the Rust code as well.         *)
Definition mem_syntax (s : string) (n k : N) : Prop :=
  exists (sign ds : list ascii) (r : nat),
    (sign = [] \/ sign = ["+"%char]) /\
    ds <> [] /\ all_digits ds /\ dec_value ds = n /\
    ((k = 0 /\ r = O) \/ ((k = 1 \/ k = 2 \/ k = 3) /\ r <> O)) /\
    upper_chars s = sign ++ ds ++ rep r (unit_chars k).

(* ---------------------------------------------------------------------- *)
(*  Well-formed attributes and their meaning                               *)
(* ---------------------------------------------------------------------- *)

Inductive fieldval :=
| FVlimit (n : N)
| FVpolicy (p : policy_t)
| FVttl (n : N)
| FVscope (s : scope_t)
| FVname (s : string)
| FVmem (bytes : N)
| FVtags (l : list string)
| FVevents (l : list string)
| FVdeps (l : list string)
| FVinv (p : path)
| FVcif (p : path)
| FVfw (m : N) (e : Z).

(* [written w a fv]: attribute a is valid for macro w, and fv is what it says *)
Inductive written (w : which) : attr -> fieldval -> Prop :=
| W_limit n : n < two64 -> written w ("limit", LInt n) (FVlimit n)
| W_policy s p : policy_named s p -> written w ("policy", LStr s) (FVpolicy p)
| W_ttl n : n < two64 -> written w ("ttl", LInt n) (FVttl n)
| W_scope s sc : w = Sync -> scope_named s sc -> written w ("scope", LStr s) (FVscope sc)
| W_name s : written w ("name", LStr s) (FVname s)
| W_mem_int n : n < two64 -> written w ("max_memory", LInt n) (FVmem n)
| W_mem_str s n k : mem_syntax s n k -> n * 1024 ^ k < two64 ->
    written w ("max_memory", LStr s) (FVmem (n * 1024 ^ k))
| W_tags ss : written w ("tags", LArr (map LStr ss)) (FVtags ss)
| W_events ss : written w ("events", LArr (map LStr ss)) (FVevents ss)
| W_deps ss : written w ("dependencies", LArr (map LStr ss)) (FVdeps ss)
| W_inv p : written w ("invalidate_on", LPath p) (FVinv p)
| W_cif p : written w ("cache_if", LPath p) (FVcif p)
| W_fw_int n : n < two64 -> written w ("frequency_weight", LInt n) (FVfw n 0)
| W_fw_float m e : f64_classify m e = FFinite ->
    written w ("frequency_weight", LFloat m e) (FVfw m e).

(* configuration c has the value fv in the corresponding field *)
Definition has (c : config) (fv : fieldval) : Prop :=
  match fv with
  | FVlimit n => c_limit c = Some n
  | FVpolicy p => c_policy c = p
  | FVttl n => c_ttl c = Some n
  | FVscope s => c_scope c = s
  | FVname s => c_name c = Some s
  | FVmem b => c_max_memory c = Some b
  | FVtags l => c_tags c = l
  | FVevents l => c_events c = l
  | FVdeps l => c_dependencies c = l
  | FVinv p => c_invalidate_on c = Some p
  | FVcif p => c_cache_if c = Some p
  | FVfw m e => c_frequency_weight c = Some (m, e)
  end.

Definition name_of (f : aname) : string :=
  match f with
  | ALimit => "limit" | APolicy => "policy" | ATtl => "ttl" | AScope => "scope"
  | AName => "name" | AMaxMemory => "max_memory" | ATags => "tags" | AEvents => "events"
  | ADependencies => "dependencies" | AInvalidateOn => "invalidate_on"
  | ACacheIf => "cache_if" | AFrequencyWeight => "frequency_weight"
  end.

(* field f has the same value in c and c' *)
Definition same_field (f : aname) (c c' : config) : Prop :=
  match f with
  | ALimit => c_limit c = c_limit c'
  | APolicy => c_policy c = c_policy c'
  | ATtl => c_ttl c = c_ttl c'
  | AScope => c_scope c = c_scope c'
  | AName => c_name c = c_name c'
  | AMaxMemory => c_max_memory c = c_max_memory c'
  | ATags => c_tags c = c_tags c'
  | AEvents => c_events c = c_events c'
  | ADependencies => c_dependencies c = c_dependencies c'
  | AInvalidateOn => c_invalidate_on c = c_invalidate_on c'
  | ACacheIf => c_cache_if c = c_cache_if c'
  | AFrequencyWeight => c_frequency_weight c = c_frequency_weight c'
  end.

(* every attribute of the list is valid for w *)
Definition all_written (w : which) (l : list attr) (fvs : list fieldval) : Prop :=
  Forall2 (written w) l fvs.

Definition valid_list (w : which) (l : list attr) : Prop :=
  exists fvs, all_written w l fvs.

Definition distinct_names (l : list attr) : Prop := NoDup (map fst l).

(* ---------------------------------------------------------------------- *)
(*  Attributes that must be rejected                                       *)
(* ---------------------------------------------------------------------- *)

Definition is_strs_name (nm : string) : Prop :=
  nm = "tags" \/ nm = "events" \/ nm = "dependencies".
Definition is_path_name (nm : string) : Prop :=
  nm = "invalidate_on" \/ nm = "cache_if".

(* [rejected w a]: attribute a must not be accepted by macro w.  The parser
   stops with Err(..) or panics AT such an attribute, so a list containing
   one is rejected wherever the attribute stands, whatever else the list
   holds, and whether or not the attribute is repeated later.               *)
Inductive rejected (w : which) : attr -> Prop :=
(* names *)
| R_unknown nm v : ~ known_name w nm -> rejected w (nm, v)
(* policy / scope *)
| R_policy_str s : (forall p, ~ policy_named s p) -> rejected w ("policy", LStr s)
| R_policy_lit v : (forall s, v <> LStr s) -> rejected w ("policy", v)
| R_scope_str s : (forall sc, ~ scope_named s sc) -> rejected w ("scope", LStr s)
| R_scope_lit v : (forall s, v <> LStr s) -> rejected w ("scope", v)
(* limit *)
| R_limit_lit v : (forall n, v <> LInt n) -> rejected w ("limit", v)
| R_limit_range n : two64 <= n -> rejected w ("limit", LInt n)
(* ttl *)
| R_ttl_lit v : (forall n, v <> LInt n) -> rejected w ("ttl", v)
| R_ttl_range n : two64 <= n -> rejected w ("ttl", LInt n)
(* max_memory *)
| R_mem_lit v : (forall n, v <> LInt n) -> (forall s, v <> LStr s) -> rejected w ("max_memory", v)
| R_mem_range n : two64 <= n -> rejected w ("max_memory", LInt n)
| R_mem_form s : (forall n k, ~ mem_syntax s n k) -> rejected w ("max_memory", LStr s)
| R_mem_big s n k : mem_syntax s n k -> two64 <= n -> rejected w ("max_memory", LStr s)
| R_mem_overflow s n k : mem_syntax s n k -> n < two64 -> two64 <= n * 1024 ^ k ->
    rejected w ("max_memory", LStr s)
(* tags / events / dependencies, invalidate_on / cache_if *)
| R_strs nm v : is_strs_name nm -> (forall ss, v <> LArr (map LStr ss)) -> rejected w (nm, v)
| R_path nm v : is_path_name nm -> (forall p, v <> LPath p) -> rejected w (nm, v)
(* frequency_weight *)
| R_fw_lit v : (forall n, v <> LInt n) -> (forall m e, v <> LFloat m e) ->
    rejected w ("frequency_weight", v)
| R_fw_range n : two64 <= n -> rejected w ("frequency_weight", LInt n)
| R_fw_zero m e : f64_classify m e = FZero -> rejected w ("frequency_weight", LFloat m e)
| R_fw_inf m e : f64_classify m e = FInf -> rejected w ("frequency_weight", LFloat m e).

Definition is_compile_error (r : result) : Prop := exists k, r = CompileError k.
