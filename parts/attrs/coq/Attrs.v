(* ====================================================================== *)
(*  Attrs.v  --  executable model of how cachelito interprets the          *)
(*  attribute lists of  #[cache(...)]  and  #[cache_async(...)].           *)
(*                                                                         *)
(*  Source mirrored: /repo/cachelito-macro-utils/src/lib.rs                *)
(*    parse_sync_attributes / parse_async_attributes /                     *)
(*    parse_common_attribute and the per-attribute parsers,                *)
(*  plus the way cachelito-macros / cachelito-async-macros consume the     *)
(*  result (Err => panic!, spliced compile_error! => compile error).       *)
(*                                                                         *)
(*  This file contains definitions only (no lemmas, no proofs).            *)
(*  Standard library only.                                                 *)
(* ====================================================================== *)

From Coq Require Import List String Ascii NArith ZArith Bool.
Import ListNotations.
Local Open Scope string_scope.
Local Open Scope N_scope.

(* ---------------------------------------------------------------------- *)
(*  1. Abstract syntax of an attribute list                                *)
(* ---------------------------------------------------------------------- *)

(* The value expression on the right of `name = <expr>`, abstracted to the
   distinctions the Rust code makes (syn::Expr / syn::Lit variants).

   LInt n       Expr::Lit(Lit::Int)   -- n is the mathematical value of the
                literal (syn's base10_digits: radix prefix, `_` and type
                suffix are already gone); unbounded.
   LStr s       Expr::Lit(Lit::Str)   -- s = LitStr::value(), as UTF-8 bytes
   LFloat m e   Expr::Lit(Lit::Float) -- the written decimal  m * 10^e
   LBool b      Expr::Lit(Lit::Bool)
   LOtherLit    Expr::Lit(any other literal: char, byte, byte string, ...)
   LArr l       Expr::Array
   LPath p      Expr::Path (list of segments)
   LOther       every other expression (call, unary minus, paren, block...) *)
Inductive lit : Type :=
| LInt (n : N)
| LStr (s : string)
| LFloat (m : N) (e : Z)
| LBool (b : bool)
| LOtherLit
| LArr (l : list lit)
| LPath (p : list string)
| LOther.

Definition attr : Type := (string * lit)%type.

Inductive which := Sync | AsyncM.

(* ---------------------------------------------------------------------- *)
(*  2. Result: the configuration the generated code is built from          *)
(* ---------------------------------------------------------------------- *)

Inductive policy_t := FIFO | LRU | LFU | ARC | Random | TLRU.
Inductive scope_t := Global | ThreadLocal.
Definition path := list string.

(* frequency_weight is kept as the written decimal (m, e) = m * 10^e; an
   integer literal n is (n, 0).  The implementation rounds it to f64.      *)
Record config := mkConfig {
  c_limit            : option N;
  c_policy           : policy_t;
  c_ttl              : option N;
  c_max_memory       : option N;
  c_frequency_weight : option (N * Z);
  c_scope            : scope_t;          (* async caches: always Global *)
  c_name             : option string;
  c_tags             : list string;
  c_events           : list string;
  c_dependencies     : list string;
  c_invalidate_on    : option path;
  c_cache_if         : option path
}.

(* How the compile error arises (both are compile errors for the user):
   EReturned  parse_*_attributes returned Err(..)  => the macro does panic!()
   EPanic     an .expect(..) or the Literal::f64_suffixed assertion panicked
              inside the parser
   [Before /repo commit dbaa653 there was a third kind, "parser returned Ok
   but a spliced field holds compile_error! tokens".  The top-level parsers
   now return Err as soon as the limit / ttl / max_memory / frequency_weight
   parser produces such tokens (helper is_compile_error), so that kind can
   no longer come out of parse_sync_attributes / parse_async_attributes; the
   harness still looks for it and would report it as a mismatch.]            *)
Inductive err_kind := EReturned | EPanic.

Inductive result :=
| Ok (c : config)
| CompileError (k : err_kind).

Definition default_config : config :=
  mkConfig None FIFO None None None Global None [] [] [] None None.

(* ---------------------------------------------------------------------- *)
(*  3. Parser state                                                        *)
(* ---------------------------------------------------------------------- *)

(* The state of the loop is the configuration built so far.  The four
   TokenStream fields limit / ttl / max_memory / frequency_weight could hold
   `compile_error!(..)` tokens, but since commit dbaa653 the loop returns
   Err(those tokens) immediately when that happens, so no reachable state
   carries such a field and no error flags are needed.                       *)

(* field setters on config *)
Definition set_limit (x : option N) (c : config) : config :=
  mkConfig x (c_policy c) (c_ttl c) (c_max_memory c) (c_frequency_weight c)
    (c_scope c) (c_name c) (c_tags c) (c_events c) (c_dependencies c)
    (c_invalidate_on c) (c_cache_if c).
Definition set_policy (x : policy_t) (c : config) : config :=
  mkConfig (c_limit c) x (c_ttl c) (c_max_memory c) (c_frequency_weight c)
    (c_scope c) (c_name c) (c_tags c) (c_events c) (c_dependencies c)
    (c_invalidate_on c) (c_cache_if c).
Definition set_ttl (x : option N) (c : config) : config :=
  mkConfig (c_limit c) (c_policy c) x (c_max_memory c) (c_frequency_weight c)
    (c_scope c) (c_name c) (c_tags c) (c_events c) (c_dependencies c)
    (c_invalidate_on c) (c_cache_if c).
Definition set_max_memory (x : option N) (c : config) : config :=
  mkConfig (c_limit c) (c_policy c) (c_ttl c) x (c_frequency_weight c)
    (c_scope c) (c_name c) (c_tags c) (c_events c) (c_dependencies c)
    (c_invalidate_on c) (c_cache_if c).
Definition set_frequency_weight (x : option (N * Z)) (c : config) : config :=
  mkConfig (c_limit c) (c_policy c) (c_ttl c) (c_max_memory c) x
    (c_scope c) (c_name c) (c_tags c) (c_events c) (c_dependencies c)
    (c_invalidate_on c) (c_cache_if c).
Definition set_scope (x : scope_t) (c : config) : config :=
  mkConfig (c_limit c) (c_policy c) (c_ttl c) (c_max_memory c) (c_frequency_weight c)
    x (c_name c) (c_tags c) (c_events c) (c_dependencies c)
    (c_invalidate_on c) (c_cache_if c).
Definition set_name (x : option string) (c : config) : config :=
  mkConfig (c_limit c) (c_policy c) (c_ttl c) (c_max_memory c) (c_frequency_weight c)
    (c_scope c) x (c_tags c) (c_events c) (c_dependencies c)
    (c_invalidate_on c) (c_cache_if c).
Definition set_tags (x : list string) (c : config) : config :=
  mkConfig (c_limit c) (c_policy c) (c_ttl c) (c_max_memory c) (c_frequency_weight c)
    (c_scope c) (c_name c) x (c_events c) (c_dependencies c)
    (c_invalidate_on c) (c_cache_if c).
Definition set_events (x : list string) (c : config) : config :=
  mkConfig (c_limit c) (c_policy c) (c_ttl c) (c_max_memory c) (c_frequency_weight c)
    (c_scope c) (c_name c) (c_tags c) x (c_dependencies c)
    (c_invalidate_on c) (c_cache_if c).
Definition set_dependencies (x : list string) (c : config) : config :=
  mkConfig (c_limit c) (c_policy c) (c_ttl c) (c_max_memory c) (c_frequency_weight c)
    (c_scope c) (c_name c) (c_tags c) (c_events c) x
    (c_invalidate_on c) (c_cache_if c).
Definition set_invalidate_on (x : option path) (c : config) : config :=
  mkConfig (c_limit c) (c_policy c) (c_ttl c) (c_max_memory c) (c_frequency_weight c)
    (c_scope c) (c_name c) (c_tags c) (c_events c) (c_dependencies c)
    x (c_cache_if c).
Definition set_cache_if (x : option path) (c : config) : config :=
  mkConfig (c_limit c) (c_policy c) (c_ttl c) (c_max_memory c) (c_frequency_weight c)
    (c_scope c) (c_name c) (c_tags c) (c_events c) (c_dependencies c)
    (c_invalidate_on c) x.

(* ---------------------------------------------------------------------- *)
(*  4. Number ranges                                                       *)
(* ---------------------------------------------------------------------- *)

(* usize and u64 are both 64 bit on the targets considered:
   base10_parse::<usize>/<u64> and str::parse::<usize> succeed iff n < 2^64 *)
Definition two64 : N := 18446744073709551616.

(* f64: a written positive decimal v rounds (nearest, ties to even)
     to 0    iff v <= 2^-1075           (half of the least subnormal 2^-1074)
     to +inf iff v >= 2^1024 - 2^970    (half way between f64::MAX and 2^1024)
   Rust's str::parse::<f64> is correctly rounded, and never fails on the
   digits of a float literal.                                              *)
Inductive f64_class := FZero | FFinite | FInf.

Definition f64_inf_threshold : N := 2 ^ 1024 - 2 ^ 970.

Definition f64_classify (m : N) (e : Z) : f64_class :=
  match e with
  | Zneg p =>
      let d := 10 ^ (Npos p) in            (* value = m / d *)
      if m * 2 ^ 1075 <=? d then FZero
      else if f64_inf_threshold * d <=? m then FInf
      else FFinite
  | _ =>
      let v := m * 10 ^ (Z.to_N e) in
      if v =? 0 then FZero
      else if f64_inf_threshold <=? v then FInf
      else FFinite
  end.

(* ---------------------------------------------------------------------- *)
(*  5. max_memory strings                                                  *)
(* ---------------------------------------------------------------------- *)

(* str::to_uppercase restricted to ASCII; bytes >= 128 are left alone.
   (The only non-ASCII characters whose Unicode upper-casing contains an
   ASCII letter are U+0131 -> 'I' and U+017F -> 'S', neither of which can
   occur in an accepted max_memory string, and no non-ASCII character
   upper-cases to a digit, '+', 'G', 'M', 'K' or 'B'; so for the accept /
   reject verdict and the value this restriction loses nothing.)           *)
Definition upper_ascii (c : ascii) : ascii :=
  let n := N_of_ascii c in
  if (97 <=? n) && (n <=? 122) then ascii_of_N (n - 32) else c.

Definition upper_chars (s : string) : list ascii :=
  map upper_ascii (list_ascii_of_string s).

Definition is_digit (c : ascii) : bool :=
  let n := N_of_ascii c in (48 <=? n) && (n <=? 57).

Definition digit_val (c : ascii) : N := N_of_ascii c - 48.

Fixpoint digits_value (l : list ascii) (acc : N) : option N :=
  match l with
  | [] => Some acc
  | c :: r => if is_digit c then digits_value r (acc * 10 + digit_val c) else None
  end.

(* str::parse::<usize>() without the range check: optional single leading
   '+', then one or more ASCII digits.                                      *)
Definition parse_unsigned (l : list ascii) : option N :=
  let body := match l with
              | c :: r => if (c =? "+")%char then r else l
              | [] => []
              end in
  match body with
  | [] => None
  | _ => digits_value body 0
  end.

(* s.ends_with("xB") on the reversed string *)
Definition ends2 (c : ascii) (r : list ascii) : bool :=
  match r with
  | a :: b :: _ => ((a =? "B") && (b =? c))%char
  | _ => false
  end.

(* s.trim_end_matches("xB") on the reversed string: strips EVERY trailing
   repetition of the suffix                                                 *)
Fixpoint trim_rev (c : ascii) (r : list ascii) : list ascii :=
  match r with
  | a :: b :: r' => if ((a =? "B") && (b =? c))%char then trim_rev c r' else r
  | _ => r
  end.

(* the syntactic part: Some (n, k) means "number n, unit 1024^k" *)
Definition mem_scan (s : string) : option (N * N) :=
  let u := upper_chars s in
  let r := rev u in
  let num (digits : list ascii) (k : N) :=
      match parse_unsigned digits with Some n => Some (n, k) | None => None end in
  if ends2 "G" r then num (rev (trim_rev "G" r)) 3
  else if ends2 "M" r then num (rev (trim_rev "M" r)) 2
  else if ends2 "K" r then num (rev (trim_rev "K" r)) 1
  else num u 0.

Inductive mem_result := MOk (bytes : N) | MBad | MOverflow.

(* parse::<usize>() fails for n >= 2^64 (same message as a malformed
   number); `n.checked_mul(1024^k)` is None iff the mathematical product is
   >= 2^64: "max_memory is too large" (commit 71067e3; in every build
   profile).  MBad and MOverflow are both embedded compile_error! tokens.   *)
Definition mem_value (s : string) : mem_result :=
  match mem_scan s with
  | None => MBad
  | Some (n, k) =>
      if n <? two64
      then (if n * 1024 ^ k <? two64 then MOk (n * 1024 ^ k) else MOverflow)
      else MBad
  end.

(* ---------------------------------------------------------------------- *)
(*  6. Per-attribute tables                                                *)
(* ---------------------------------------------------------------------- *)

Definition policy_of_string (s : string) : option policy_t :=
  if (s =? "fifo")%string then Some FIFO
  else if (s =? "lru")%string then Some LRU
  else if (s =? "lfu")%string then Some LFU
  else if (s =? "arc")%string then Some ARC
  else if (s =? "random")%string then Some Random
  else if (s =? "tlru")%string then Some TLRU
  else None.

Definition scope_of_string (s : string) : option scope_t :=
  if (s =? "thread")%string then Some ThreadLocal
  else if (s =? "global")%string then Some Global
  else None.

(* parse_string_array_attribute on the elements of an Expr::Array *)
Fixpoint strs_of (l : list lit) : option (list string) :=
  match l with
  | [] => Some []
  | LStr s :: r => match strs_of r with Some ss => Some (s :: ss) | None => None end
  | _ :: _ => None
  end.

Inductive aname :=
| ALimit | APolicy | ATtl | AScope | AName | AMaxMemory | ATags | AEvents
| ADependencies | AInvalidateOn | ACacheIf | AFrequencyWeight.

(* The if / else-if chain on `nv.path.is_ident("...")`, in source order
   (parse_sync_attributes, then parse_common_attribute).  The async chain
   has no "scope" test, so `scope` falls through to "unknown attribute".
   The tests are on pairwise different constants, so their order does not
   matter; a multi-segment path or raw identifier is just another string
   that equals none of them.                                               *)
Definition classify (w : which) (nm : string) : option aname :=
  if (nm =? "limit")%string then Some ALimit
  else if (nm =? "policy")%string then Some APolicy
  else if (nm =? "ttl")%string then Some ATtl
  else if (match w with Sync => (nm =? "scope")%string | AsyncM => false end) then Some AScope
  else if (nm =? "name")%string then Some AName
  else if (nm =? "max_memory")%string then Some AMaxMemory
  else if (nm =? "tags")%string then Some ATags
  else if (nm =? "events")%string then Some AEvents
  else if (nm =? "dependencies")%string then Some ADependencies
  else if (nm =? "invalidate_on")%string then Some AInvalidateOn
  else if (nm =? "cache_if")%string then Some ACacheIf
  else if (nm =? "frequency_weight")%string then Some AFrequencyWeight
  else None.

(* ---------------------------------------------------------------------- *)
(*  7. One loop iteration                                                  *)
(* ---------------------------------------------------------------------- *)

Definition step (w : which) (c : config) (a : attr) : config + err_kind :=
  let '(nm, v) := a in
  match classify w nm with
  | None => inr EReturned                                  (* Unknown attribute *)
  | Some ALimit =>                                         (* parse_limit_attribute *)
      match v with
      | LInt n => if n <? two64 then inl (set_limit (Some n) c)
                  else inr EReturned                       (* compile_error! => Err *)
      | _ => inr EReturned                                 (* compile_error! => Err *)
      end
  | Some APolicy =>                                        (* parse_policy_attribute *)
      match v with
      | LStr s => match policy_of_string s with
                  | Some p => inl (set_policy p c)
                  | None => inr EReturned
                  end
      | _ => inr EReturned
      end
  | Some ATtl =>                                           (* parse_ttl_attribute *)
      match v with
      | LInt n => if n <? two64 then inl (set_ttl (Some n) c)
                  else inr EPanic                          (* .expect(..) *)
      | _ => inr EReturned                                 (* compile_error! => Err *)
      end
  | Some AScope =>                                         (* parse_scope_attribute *)
      match v with
      | LStr s => match scope_of_string s with
                  | Some sc => inl (set_scope sc c)
                  | None => inr EReturned
                  end
      | _ => inr EReturned
      end
  | Some AName =>                                          (* parse_name_attribute *)
      match v with
      | LStr s => inl (set_name (Some s) c)
      | _ => inl (set_name None c)                         (* silently None *)
      end
  | Some AMaxMemory =>                                     (* parse_max_memory_attribute *)
      match v with
      | LStr s => match mem_value s with
                  | MOk b => inl (set_max_memory (Some b) c)
                  | MBad => inr EReturned                  (* compile_error! => Err *)
                  | MOverflow => inr EReturned             (* "too large"    => Err *)
                  end
      | LInt n => if n <? two64 then inl (set_max_memory (Some n) c)
                  else inr EPanic                          (* .expect(..) *)
      | _ => inr EReturned                                 (* compile_error! => Err *)
      end
  | Some ATags =>                                          (* parse_string_array_attribute *)
      match v with
      | LArr l => match strs_of l with
                  | Some ss => inl (set_tags ss c)
                  | None => inr EReturned
                  end
      | _ => inr EReturned
      end
  | Some AEvents =>
      match v with
      | LArr l => match strs_of l with
                  | Some ss => inl (set_events ss c)
                  | None => inr EReturned
                  end
      | _ => inr EReturned
      end
  | Some ADependencies =>
      match v with
      | LArr l => match strs_of l with
                  | Some ss => inl (set_dependencies ss c)
                  | None => inr EReturned
                  end
      | _ => inr EReturned
      end
  | Some AInvalidateOn =>                                  (* parse_invalidate_on_attribute *)
      match v with
      | LPath p => inl (set_invalidate_on (Some p) c)
      | _ => inr EReturned
      end
  | Some ACacheIf =>                                       (* parse_cache_if_attribute *)
      match v with
      | LPath p => inl (set_cache_if (Some p) c)
      | _ => inr EReturned
      end
  | Some AFrequencyWeight =>                               (* parse_frequency_weight_attribute *)
      match v with
      | LFloat m e =>
          match f64_classify m e with
          | FZero => inr EReturned                         (* val <= 0.0: compile_error! => Err *)
          | FFinite => inl (set_frequency_weight (Some (m, e)) c)
          | FInf => inr EPanic                             (* Literal::f64_suffixed(inf) *)
          end
      | LInt n => if n <? two64 then inl (set_frequency_weight (Some (n, 0%Z)) c)
                  else inr EPanic                          (* .expect(..) *)
      | _ => inr EReturned                                 (* compile_error! => Err *)
      end
  end.

(* ---------------------------------------------------------------------- *)
(*  8. The loop and the final verdict                                      *)
(* ---------------------------------------------------------------------- *)

(* `for nv in parsed_args { ... }` with early `return Err(..)` / panic *)
Fixpoint run (w : which) (c : config) (l : list attr) : config + err_kind :=
  match l with
  | [] => inl c
  | a :: r => match step w c a with
              | inl c' => run w c' r
              | inr k => inr k
              end
  end.

Definition parse (w : which) (l : list attr) : result :=
  match run w default_config l with
  | inl c => Ok c
  | inr k => CompileError k
  end.
