#!/bin/bash
# run.sh <seed> <count> <workdir>
#
# Builds the Coq model + proofs, the extracted OCaml driver, the Rust
# differential harness (against /repo's CURRENT tree) and the invalid-items
# crate inside <workdir>, then prints all V / STAT lines.
# Exit status: 0 iff no MISMATCH and every build step succeeded.
set -u
HERE="$(cd "$(dirname "$0")" && pwd)"
SEED="${1:-1}"; COUNT="${2:-3000}"; WORK="${3:-/tmp/attrs-work}"
mkdir -p "$WORK"; WORK="$(cd "$WORK" && pwd)"
export CARGO_NET_OFFLINE=true
export CARGO_TARGET_DIR="$WORK/target"
unset RUST_BACKTRACE
FAIL=0
say() { echo "$@"; }

# ---------------------------------------------------------------- 1. Coq --
mkdir -p "$WORK/coq" "$WORK/ocaml"
cp -pu "$HERE"/coq/*.v "$HERE"/coq/_CoqProject "$WORK/coq/"
cp -pu "$HERE"/ocaml/attrs_driver.ml "$WORK/ocaml/"
(
  cd "$WORK/coq" &&
  coq_makefile -f _CoqProject -o Makefile > /dev/null 2>&1 &&
  timeout 1500 make -j8 > "$WORK/coq-build.log" 2>&1
) 
if [ $? -ne 0 ]; then say "V coq-build MISMATCH (see $WORK/coq-build.log)"; tail -5 "$WORK/coq-build.log"; FAIL=1
else say "V coq-build ok"; fi
# statements + Print Assumptions (always re-checked; ~4 s)
( cd "$WORK/coq" && timeout 600 coqc -Q . CLA Props_C19.v > "$WORK/props.log" 2>&1 )
if [ $? -ne 0 ]; then say "V coq-props MISMATCH (see $WORK/props.log)"; FAIL=1; fi
NTHM=$(grep -c '^Theorem C19_' "$WORK/coq/Props_C19.v")
NCLOSED=$(grep -c '^Closed under the global context' "$WORK/props.log")
NAX=$(grep -c -i 'axiom' "$WORK/props.log")
if [ "$NTHM" -gt 0 ] && [ "$NTHM" = "$NCLOSED" ] && [ "$NAX" = 0 ] && ! grep -q -E 'Admitted|admit\.|^Axiom|^Parameter' "$WORK"/coq/*.v
then say "V coq-assumptions ok theorems=$NTHM closed-under-the-global-context=$NCLOSED admits=0"
else say "V coq-assumptions MISMATCH theorems=$NTHM closed=$NCLOSED axioms-mentioned=$NAX"; FAIL=1; fi

# ------------------------------------------------------- 2. OCaml driver --
(
  cd "$WORK/ocaml" &&
  timeout 600 ocamlfind ocamlopt -w -a attrs_model.mli attrs_model.ml attrs_driver.ml -o attrs_driver > "$WORK/ocaml-build.log" 2>&1
)
if [ $? -ne 0 ]; then say "V ocaml-build MISMATCH (see $WORK/ocaml-build.log)"; FAIL=1; else say "V ocaml-build ok"; fi

# --------------------------------------------------------- 3. Rust harness --
mkdir -p "$WORK/harness"
rm -rf "$WORK/harness/vh-attrs"; cp -rp "$HERE/harness/vh-attrs" "$WORK/harness/vh-attrs"
cp /repo/Cargo.lock "$WORK/harness/vh-attrs/Cargo.lock"
( cd "$WORK/harness/vh-attrs" && timeout 1200 cargo build --offline > "$WORK/harness-build.log" 2>&1 )
if [ $? -ne 0 ]; then say "V harness-build MISMATCH (see $WORK/harness-build.log)"; FAIL=1; else say "V harness-build ok"; fi

if [ -x "$WORK/target/debug/vh-attrs" ] && [ -x "$WORK/ocaml/attrs_driver" ]; then
  timeout 600 "$WORK/target/debug/vh-attrs" "$SEED" "$COUNT" > "$WORK/cases.txt" 2> "$WORK/cases.err"
  timeout 600 "$WORK/ocaml/attrs_driver" < "$WORK/cases.txt" > "$WORK/verdicts.txt"
  [ $? -ne 0 ] && FAIL=1
  cat "$WORK/verdicts.txt"
else
  say "V attrs-differential MISMATCH harness or driver missing"; FAIL=1
fi

# ----------------------------------------------- 4. invalid items crate --
rm -rf "$WORK/inv"
python3 "$HERE/invalid/gen.py" "$WORK/inv" > "$WORK/inv-gen.log" 2>&1 && cp /repo/Cargo.lock "$WORK/inv/Cargo.lock"
timeout 1200 python3 "$HERE/invalid/check.py" "$WORK/inv" "$WORK/target" 2> "$WORK/inv-check.err"
[ $? -ne 0 ] && FAIL=1

if [ $FAIL -eq 0 ]; then say "STAT run seed=$SEED count=$COUNT result=ALL-OK"; else say "STAT run seed=$SEED count=$COUNT result=MISMATCH"; fi
exit $FAIL
