(* attrs_driver: reads the lines printed by harness/vh-attrs on stdin, runs
   the model extracted from coq/Attrs.v on the abstract attribute list of
   each case and compares it with the outcome of the real parser.

   Output:  V <case-id> ok
            V <case-id> MISMATCH <field> model=<..> impl=<..>
            STAT ...
   Exit status 1 if any case mismatched (or a line could not be read).     *)

open Attrs_model

(* ------------------------------------------------------------ numbers -- *)

let explode s = List.init (String.length s) (String.get s)
let implode l = String.of_seq (List.to_seq l)

let uint_of_string (s : string) : uint =
  let rec go i =
    if i >= String.length s then Nil
    else
      let r = go (i + 1) in
      match s.[i] with
      | '0' -> D0 r | '1' -> D1 r | '2' -> D2 r | '3' -> D3 r | '4' -> D4 r
      | '5' -> D5 r | '6' -> D6 r | '7' -> D7 r | '8' -> D8 r | '9' -> D9 r
      | c -> failwith (Printf.sprintf "bad digit %C in %S" c s)
  in
  if s = "" then failwith "empty number" else go 0

let rec string_of_uint (u : uint) : string =
  match u with
  | Nil -> ""
  | D0 r -> "0" ^ string_of_uint r | D1 r -> "1" ^ string_of_uint r
  | D2 r -> "2" ^ string_of_uint r | D3 r -> "3" ^ string_of_uint r
  | D4 r -> "4" ^ string_of_uint r | D5 r -> "5" ^ string_of_uint r
  | D6 r -> "6" ^ string_of_uint r | D7 r -> "7" ^ string_of_uint r
  | D8 r -> "8" ^ string_of_uint r | D9 r -> "9" ^ string_of_uint r

let n_of_string s : n = N.of_uint (uint_of_string s)
let string_of_n (x : n) : string =
  let s = string_of_uint (N.to_uint x) in if s = "" then "0" else s
let z_of_string s : z =
  if String.length s > 0 && s.[0] = '-'
  then Z.opp (Z.of_N (n_of_string (String.sub s 1 (String.length s - 1))))
  else Z.of_N (n_of_string s)
let string_of_z (x : z) : string =
  match x with
  | Z0 -> "0"
  | Zpos p -> string_of_n (Npos p)
  | Zneg p -> "-" ^ string_of_n (Npos p)

let unhex (h : string) : string =
  if h = "-" then ""
  else String.init (String.length h / 2) (fun i -> Char.chr (int_of_string ("0x" ^ String.sub h (2 * i) 2)))
let hex (s : string) : string =
  if s = "" then "-" else String.concat "" (List.map (fun c -> Printf.sprintf "%02x" (Char.code c)) (explode s))

(* --------------------------------------------------- model input parser -- *)

let rec take_lit (t : string list) : lit * string list =
  match t with
  | "I" :: d :: r -> (LInt (n_of_string d), r)
  | "S" :: h :: r -> (LStr (explode (unhex h)), r)
  | "F" :: m :: e :: r -> (LFloat (n_of_string m, z_of_string e), r)
  | "B" :: b :: r -> (LBool (b = "1"), r)
  | "X" :: r -> (LOtherLit, r)
  | "O" :: r -> (LOther, r)
  | "A" :: k :: r ->
      let rec go k r acc =
        if k = 0 then (List.rev acc, r)
        else let (x, r') = take_lit r in go (k - 1) r' (x :: acc) in
      let (xs, r') = go (int_of_string k) r [] in
      (LArr xs, r')
  | "P" :: k :: r ->
      let rec go k r acc =
        if k = 0 then (List.rev acc, r)
        else match r with
          | s :: r' -> go (k - 1) r' (explode s :: acc)
          | [] -> failwith "short path" in
      let (xs, r') = go (int_of_string k) r [] in
      (LPath xs, r')
  | _ -> failwith "bad literal encoding"

let parse_attrs (enc : string) : (char list * lit) list =
  match String.split_on_char ' ' enc with
  | k :: r ->
      let rec go k r acc =
        if k = 0 then (if r <> [] then failwith "trailing tokens"; List.rev acc)
        else match r with
          | nm :: r' -> let (v, r'') = take_lit r' in go (k - 1) r'' ((explode nm, v) :: acc)
          | [] -> failwith "short list" in
      go (int_of_string k) r []
  | [] -> failwith "empty encoding"

(* ----------------------------------------------------- impl field parse -- *)

let strip_prefix p s =
  let lp = String.length p in
  if String.length s >= lp && String.sub s 0 lp = p then Some (String.sub s lp (String.length s - lp)) else None
let strip_suffix p s =
  let lp = String.length p and ls = String.length s in
  if ls >= lp && String.sub s (ls - lp) lp = p then Some (String.sub s 0 (ls - lp)) else None

(* "Some(<x><suffix>)" -> Some x *)
let some_arg suffix s =
  match strip_prefix "Some(" s with
  | None -> None
  | Some r -> (match strip_suffix (suffix ^ ")") r with Some x -> Some x | None -> None)

let all_digits s = s <> "" && String.for_all (fun c -> c >= '0' && c <= '9') s

(* rendering of model values in the same normal form as the impl fields *)
let show_opt_n w ty (x : n option) =
  match x with
  | None -> if w = Sync then "None" else "Option::<" ^ ty ^ ">::None"
  | Some v -> "Some(" ^ string_of_n v ^ ty ^ ")"

let show_policy w (p : policy_t) =
  match w, p with
  | Sync, FIFO -> "cachelito_core::EvictionPolicy::FIFO"
  | Sync, LRU -> "cachelito_core::EvictionPolicy::LRU"
  | Sync, LFU -> "cachelito_core::EvictionPolicy::LFU"
  | Sync, ARC -> "cachelito_core::EvictionPolicy::ARC"
  | Sync, Random -> "cachelito_core::EvictionPolicy::Random"
  | Sync, TLRU -> "cachelito_core::EvictionPolicy::TLRU"
  | AsyncM, FIFO -> "\"fifo\"" | AsyncM, LRU -> "\"lru\"" | AsyncM, LFU -> "\"lfu\""
  | AsyncM, ARC -> "\"arc\"" | AsyncM, Random -> "\"random\"" | AsyncM, TLRU -> "\"tlru\""

let show_scope w (s : scope_t) =
  match w, s with
  | Sync, Global -> "cachelito_core::CacheScope::Global"
  | Sync, ThreadLocal -> "cachelito_core::CacheScope::ThreadLocal"
  | AsyncM, Global -> "-"
  | AsyncM, ThreadLocal -> "<async-thread-local?>"

let show_name (x : char list option) =
  match x with None -> "N" | Some s -> "S" ^ hex (implode s)

let show_strs (l : char list list) =
  String.concat "," (string_of_int (List.length l) :: List.map (fun s -> hex (implode s)) l)

let show_path (p : char list list option) =
  match p with None -> "N" | Some segs -> "P" ^ String.concat "::" (List.map implode segs)

let norm_impl_path s =
  match strip_prefix "P::" s with Some r -> "P" ^ r | None -> s

let show_fw_model (x : (n * z) option) =
  match x with None -> "None" | Some (m, e) -> Printf.sprintf "Some(%se%s)" (string_of_n m) (string_of_z e)

(* frequency_weight: the impl prints the f64 the written decimal was rounded
   to; compare as floats (float_of_string is correctly rounded).            *)
let fw_equal w (x : (n * z) option) (impl : string) : bool =
  match x with
  | None -> impl = (if w = Sync then "None" else "Option::<f64>::None")
  | Some (m, e) ->
      (match some_arg "f64" impl with
       | None -> false
       | Some v ->
           (try
              let a = float_of_string (string_of_n m ^ "e" ^ string_of_z e) in
              let b = float_of_string v in
              classify_float a <> FP_nan && classify_float a <> FP_infinite && a = b
            with _ -> false))

(* ------------------------------------------------------------- compare -- *)

type stat = { mutable total : int; mutable ok : int; mutable bad : int;
              mutable m_ok : int; mutable m_ret : int; mutable m_panic : int }
let stats : (string, stat) Hashtbl.t = Hashtbl.create 64
let attr_stats : (string, int ref) Hashtbl.t = Hashtbl.create 64
let stat_of key =
  match Hashtbl.find_opt stats key with
  | Some s -> s
  | None -> let s = { total = 0; ok = 0; bad = 0; m_ok = 0; m_ret = 0; m_panic = 0 } in
            Hashtbl.add stats key s; s

let total = ref 0 and total_bad = ref 0

let field_of (fields : (string * string) list) k =
  match List.assoc_opt k fields with Some v -> v | None -> "<missing>"

let check_case (id : string) (wch : string) (cls : string) (mode : string) (enc : string)
    (outcome : string) (fields : (string * string) list) : string list =
  let w = if wch = "S" then Sync else AsyncM in
  let mism = ref [] in
  let add f m i = mism := Printf.sprintf "%s model=%s impl=%s" f m i :: !mism in
  let st = stat_of (cls ^ " which=" ^ wch) in
  st.total <- st.total + 1;
  ignore id;
  if mode = "syntax" then begin
    if outcome <> "ERR" then add "verdict" "SyntaxError" outcome
  end else begin
    let attrs = parse_attrs enc in
    List.iter (fun (nm, _) ->
        let k = implode nm in
        match Hashtbl.find_opt attr_stats k with
        | Some r -> incr r
        | None -> Hashtbl.add attr_stats k (ref 1)) attrs;
    let res = parse w attrs in
    let ce_fields = List.filter (fun (_, v) -> v = "CE") fields |> List.map fst |> List.sort compare in
    let impl_verdict =
      match outcome with
      | "ERR" -> "CompileError(returned)"
      | "PANIC" -> "CompileError(panic)"
      | "OK" -> if ce_fields = [] then "Ok" else "CompileError(embedded)"
      | o -> "?" ^ o in
    (match res with
     | Ok _ -> st.m_ok <- st.m_ok + 1
     | CompileError EReturned -> st.m_ret <- st.m_ret + 1
     | CompileError EPanic -> st.m_panic <- st.m_panic + 1);
    let model_verdict =
      match res with
      | Ok _ -> "Ok"
      | CompileError EReturned -> "CompileError(returned)"
      | CompileError EPanic -> "CompileError(panic)" in
    let coarse v = if v = "Ok" then "Ok" else if String.length v > 0 && v.[0] = '?' then v else "CompileError" in
    if mode = "verdict" then begin
      if coarse model_verdict <> coarse impl_verdict then add "verdict" model_verdict impl_verdict
    end else begin
      (* since /repo commit dbaa653 the parsers never return Ok with a field holding
         compile_error!: an impl verdict "CompileError(embedded)" matches no model verdict *)
      if model_verdict <> impl_verdict then add "verdict" model_verdict impl_verdict
    end;
    (match res, outcome with
     | Ok c, "OK" when ce_fields = [] ->
         let cmp f m = let i = field_of fields f in if m <> i then add f m i in
         cmp "limit" (show_opt_n w "usize" c.c_limit);
         cmp "policy" (show_policy w c.c_policy);
         cmp "ttl" (show_opt_n w "u64" c.c_ttl);
         cmp "scope" (show_scope w c.c_scope);
         cmp "name" (show_name c.c_name);
         cmp "max_memory" (show_opt_n w "usize" c.c_max_memory);
         cmp "tags" (show_strs c.c_tags);
         cmp "events" (show_strs c.c_events);
         cmp "dependencies" (show_strs c.c_dependencies);
         (let i = norm_impl_path (field_of fields "invalidate_on") in
          let m = show_path c.c_invalidate_on in if m <> i then add "invalidate_on" m i);
         (let i = norm_impl_path (field_of fields "cache_if") in
          let m = show_path c.c_cache_if in if m <> i then add "cache_if" m i);
         (let i = field_of fields "frequency_weight" in
          if not (fw_equal w c.c_frequency_weight i) then add "frequency_weight" (show_fw_model c.c_frequency_weight) i)
     | _ -> ())
  end;
  if !mism = [] then st.ok <- st.ok + 1 else st.bad <- st.bad + 1;
  List.rev !mism

let () =
  let bad_lines = ref 0 in
  (try
     while true do
       let line = input_line stdin in
       match String.split_on_char '\t' line with
       | "C" :: id :: wch :: cls :: mode :: enc :: outcome :: rest ->
           incr total;
           let fields =
             List.filter_map (fun kv ->
                 match String.index_opt kv '=' with
                 | Some i -> Some (String.sub kv 0 i, String.sub kv (i + 1) (String.length kv - i - 1))
                 | None -> None) rest in
           let fields = List.filter (fun (k, _) -> k <> "src") fields in
           let ms =
             try check_case id wch cls mode enc outcome fields
             with e -> [Printf.sprintf "driver-exception model=%s impl=-" (Printexc.to_string e)] in
           if ms = [] then Printf.printf "V %s ok\n" id
           else begin
             incr total_bad;
             List.iter (fun m -> Printf.printf "V %s MISMATCH %s\n" id m) ms;
             Printf.printf "V %s INPUT %s\n" id (match List.rev rest with s :: _ -> s | [] -> "")
           end
       | _ -> if String.trim line <> "" then (incr bad_lines; Printf.printf "V ? MISMATCH unreadable-line model=- impl=%s\n" line)
     done
   with End_of_file -> ());
  let keys = Hashtbl.fold (fun k _ acc -> k :: acc) stats [] |> List.sort compare in
  List.iter (fun k ->
      let s = Hashtbl.find stats k in
      Printf.printf "STAT class=%s cases=%d ok=%d mismatch=%d model:ok=%d returned=%d panic=%d\n"
        k s.total s.ok s.bad s.m_ok s.m_ret s.m_panic) keys;
  let (a, b, c) = Hashtbl.fold (fun _ s (a, b, c) -> (a + s.m_ok, b + s.m_ret, c + s.m_panic)) stats (0, 0, 0) in
  Printf.printf "STAT model-verdicts ok=%d compile-error(returned)=%d compile-error(panic)=%d\n" a b c;
  let akeys = Hashtbl.fold (fun k _ acc -> k :: acc) attr_stats [] |> List.sort compare in
  let known = ["limit"; "policy"; "ttl"; "scope"; "name"; "max_memory"; "tags"; "events"; "dependencies";
               "invalidate_on"; "cache_if"; "frequency_weight"] in
  let unk = ref 0 in
  List.iter (fun k ->
      let c = !(Hashtbl.find attr_stats k) in
      if List.mem k known then Printf.printf "STAT attr=%s occurrences=%d\n" k c else unk := !unk + c) akeys;
  Printf.printf "STAT attr=<unknown-names> occurrences=%d\n" !unk;
  Printf.printf "STAT attrs-total cases=%d ok=%d mismatch=%d unreadable=%d\n" !total (!total - !total_bad) !total_bad !bad_lines;
  if !total_bad > 0 || !bad_lines > 0 then exit 1
