//! vh-core: runs generated histories on the three real cache engines through their
//! public API and records, after every operation, the output and the complete
//! observable state (store with value/size/hit counter/virtual birth, order queue,
//! statistics).  The storage is owned by this harness (the engines only borrow it),
//! so virtual time is obtained by re-stamping entry birth times before each operation;
//! the engines' own clock reads and expiry code stay on the path under test.
//!
//! usage: vh-core <cases-file> <observations-file>
use cachelito_core::{AsyncGlobalCache, CacheEntry, EvictionPolicy, GlobalCache, ThreadLocalCache};
use dashmap::DashMap;
use once_cell::sync::Lazy;
use parking_lot::{Mutex, RwLock};
use std::cell::RefCell;
use std::collections::{HashMap, VecDeque};
use std::io::{BufRead, BufWriter, Write};
use std::panic::{catch_unwind, AssertUnwindSafe};
use std::time::{Duration, Instant, SystemTime, UNIX_EPOCH};

static G_MAP: Lazy<RwLock<HashMap<String, CacheEntry<String>>>> =
    Lazy::new(|| RwLock::new(HashMap::new()));
static G_ORDER: Lazy<Mutex<VecDeque<String>>> = Lazy::new(|| Mutex::new(VecDeque::new()));
static G_STATS: Lazy<cachelito_core::CacheStats> = Lazy::new(cachelito_core::CacheStats::new);

thread_local! {
    static T_MAP: RefCell<HashMap<String, CacheEntry<String>>> = RefCell::new(HashMap::new());
    static T_ORDER: RefCell<VecDeque<String>> = RefCell::new(VecDeque::new());
}

const STR_INLINE: u64 = std::mem::size_of::<String>() as u64;

#[derive(Clone, Copy, PartialEq, Debug)]
enum Fl {
    G,
    T,
    A,
}

struct Cfg {
    fl: Fl,
    pol: EvictionPolicy,
    limit: Option<usize>,
    ttl: Option<u64>,
    maxmem: Option<usize>,
    fw: Option<f64>,
}

fn opt(s: &str) -> Option<u64> {
    if s == "-" {
        None
    } else {
        Some(s.parse().expect("number"))
    }
}

/// frequency weight n/d; numerals of any length (10^308 is a valid attribute value)
fn fweight(n: &str, d: &str) -> Option<f64> {
    if n == "-" || d == "-" {
        None
    } else {
        Some(n.parse::<f64>().expect("weight") / d.parse::<f64>().expect("weight"))
    }
}

fn kname(k: u64) -> String {
    format!("k{}", k)
}
fn knum(s: &str) -> u64 {
    s[1..].parse().expect("key name")
}

/// a String holding the decimal value with exactly the requested estimated size
fn mkval(v: u64, sz: u64) -> String {
    let digits = v.to_string();
    let cap = (sz.saturating_sub(STR_INLINE)) as usize;
    assert!(cap >= digits.len(), "size too small for value");
    let mut s = String::with_capacity(cap);
    s.push_str(&digits);
    assert_eq!(s.capacity(), cap);
    s
}
fn footprint(s: &String) -> u64 {
    STR_INLINE + s.capacity() as u64
}

fn unix_now() -> u64 {
    SystemTime::now().duration_since(UNIX_EPOCH).unwrap().as_secs()
}
/// wait until we are in the first 0.7 s of a wall-clock second (async engine reads whole seconds)
fn wait_safe_second() {
    loop {
        let d = SystemTime::now().duration_since(UNIX_EPOCH).unwrap();
        if d.subsec_millis() < 700 {
            return;
        }
        std::thread::sleep(Duration::from_millis(20));
    }
}

struct Snap {
    hits: u64,
    misses: u64,
    queue: Vec<u64>,
    store: Vec<(u64, u64, u64, u64, u64)>, // key, value, size, freq, born (virtual ms)
}

fn round250(ms: u128) -> u64 {
    (((ms + 125) / 250) * 250) as u64
}

struct AsyncStore {
    map: DashMap<String, (String, u64, u64)>,
    order: Mutex<VecDeque<String>>,
    stats: cachelito_core::CacheStats,
}

struct Runner {
    cfg: Cfg,
    vnow: u64,
    born: HashMap<String, u64>,
    astore: AsyncStore,
    tl_stats_base: (u64, u64),
}

enum Out {
    None,
    Some(u64),
    Unit,
    Panic(String),
}

impl Runner {
    fn reset(&mut self) {
        G_MAP.write().clear();
        G_ORDER.lock().clear();
        G_STATS.reset();
        T_MAP.with(|m| m.borrow_mut().clear());
        T_ORDER.with(|o| o.borrow_mut().clear());
        self.astore.map.clear();
        self.astore.order.lock().clear();
        self.astore.stats.reset();
        self.born.clear();
        self.vnow = 0;
    }

    /// give every stored entry the real birth time that corresponds to its virtual age
    fn restamp(&self) {
        match self.cfg.fl {
            Fl::G => {
                let now = Instant::now();
                for (k, e) in G_MAP.write().iter_mut() {
                    let age = self.vnow - self.born.get(k).copied().unwrap_or(self.vnow);
                    e.inserted_at = now.checked_sub(Duration::from_millis(age)).expect("uptime too short");
                }
            }
            Fl::T => T_MAP.with(|m| {
                let now = Instant::now();
                for (k, e) in m.borrow_mut().iter_mut() {
                    let age = self.vnow - self.born.get(k).copied().unwrap_or(self.vnow);
                    e.inserted_at = now.checked_sub(Duration::from_millis(age)).expect("uptime too short");
                }
            }),
            Fl::A => {
                let now = unix_now();
                for mut e in self.astore.map.iter_mut() {
                    let b = self.born.get(e.key()).copied().unwrap_or(self.vnow);
                    let age_s = self.vnow / 1000 - b / 1000;
                    e.value_mut().1 = now - age_s;
                }
            }
        }
    }

    fn snapshot(&mut self, tl: Option<&ThreadLocalCache<String>>) -> Snap {
        let mut store = Vec::new();
        let queue: Vec<u64>;
        let (hits, misses);
        match self.cfg.fl {
            Fl::G => {
                let now = Instant::now();
                for (k, e) in G_MAP.read().iter() {
                    let age = round250(now.duration_since(e.inserted_at).as_millis());
                    store.push((knum(k), e.value.parse().unwrap_or(u64::MAX), footprint(&e.value), e.frequency, self.vnow.saturating_sub(age)));
                }
                queue = G_ORDER.lock().iter().map(|k| knum(k)).collect();
                hits = G_STATS.hits();
                misses = G_STATS.misses();
            }
            Fl::T => {
                let now = Instant::now();
                T_MAP.with(|m| {
                    for (k, e) in m.borrow().iter() {
                        let age = round250(now.duration_since(e.inserted_at).as_millis());
                        store.push((knum(k), e.value.parse().unwrap_or(u64::MAX), footprint(&e.value), e.frequency, self.vnow.saturating_sub(age)));
                    }
                });
                queue = T_ORDER.with(|o| o.borrow().iter().map(|k| knum(k)).collect());
                let st = tl.expect("tl cache").stats();
                hits = st.hits();
                misses = st.misses();
            }
            Fl::A => {
                let now = unix_now();
                for e in self.astore.map.iter() {
                    let (v, ts, f) = e.value();
                    let age_s = now.saturating_sub(*ts);
                    let born = ((self.vnow / 1000).saturating_sub(age_s)) * 1000;
                    store.push((knum(e.key()), v.parse().unwrap_or(u64::MAX), footprint(v), *f, born));
                }
                queue = self.astore.order.lock().iter().map(|k| knum(k)).collect();
                hits = self.astore.stats.hits();
                misses = self.astore.stats.misses();
            }
        }
        store.sort();
        self.born.clear();
        for (k, _, _, _, b) in &store {
            self.born.insert(kname(*k), *b);
        }
        Snap { hits, misses, queue, store }
    }
}

fn policy(s: &str) -> EvictionPolicy {
    match s {
        "fifo" => EvictionPolicy::FIFO,
        "lru" => EvictionPolicy::LRU,
        "lfu" => EvictionPolicy::LFU,
        "arc" => EvictionPolicy::ARC,
        "random" => EvictionPolicy::Random,
        "tlru" => EvictionPolicy::TLRU,
        _ => panic!("policy {}", s),
    }
}

fn write_snap(w: &mut impl Write, s: &Snap) {
    let q: Vec<String> = s.queue.iter().map(|k| k.to_string()).collect();
    let st: Vec<String> = s
        .store
        .iter()
        .map(|(k, v, sz, f, b)| format!("{}:{}:{}:{}:{}", k, v, sz, f, b))
        .collect();
    writeln!(
        w,
        "S {} {} | {} | {}",
        s.hits,
        s.misses,
        if q.is_empty() { "-".to_string() } else { q.join(",") },
        if st.is_empty() { "-".to_string() } else { st.join(";") }
    )
    .unwrap();
}

/// A real-time case on the async engine: no re-stamping; operations run at chosen offsets
/// from the start of a wall-clock second, so the engine's whole-second clock is exercised
/// with real sub-second phases. Virtual time = milliseconds since that second started.
fn run_rt_case(header: &str, ops: &[String]) -> String {
    use std::fmt::Write as _;
    let t: Vec<&str> = header.split_whitespace().collect();
    let fw = fweight(t[7], t[8]);
    let (pol, limit, ttl, maxmem) = (policy(t[3]), opt(t[4]).map(|x| x as usize), opt(t[5]), opt(t[6]).map(|x| x as usize));
    let store = AsyncStore { map: DashMap::new(), order: Mutex::new(VecDeque::new()), stats: cachelito_core::CacheStats::new() };
    let mut out = String::new();
    writeln!(out, "CASE {}", t[1..].join(" ")).unwrap();
    // wait for the start of the next wall-clock second
    let d = SystemTime::now().duration_since(UNIX_EPOCH).unwrap();
    let base_sec = d.as_secs() + 1;
    let base = UNIX_EPOCH + Duration::from_secs(base_sec);
    let mut vnow: u64 = 0;
    for line in ops {
        let o: Vec<&str> = line.split_whitespace().collect();
        vnow += o[1].parse::<u64>().unwrap();
        let target = base + Duration::from_millis(vnow);
        if let Ok(wait) = target.duration_since(SystemTime::now()) {
            std::thread::sleep(wait);
        }
        let cache = AsyncGlobalCache::new(&store.map, &store.order, limit, maxmem, pol, ttl, fw, &store.stats);
        let res = catch_unwind(AssertUnwindSafe(|| -> Out {
            match o[2] {
                "get" => match cache.get(&kname(o[3].parse().unwrap())) { Some(v) => Out::Some(v.parse().unwrap_or(u64::MAX)), None => Out::None },
                "ins" => { cache.insert(&kname(o[3].parse().unwrap()), mkval(o[4].parse().unwrap(), o[5].parse().unwrap())); Out::Unit }
                "insm" => { cache.insert_with_memory(&kname(o[3].parse().unwrap()), mkval(o[4].parse().unwrap(), o[5].parse().unwrap())); Out::Unit }
                x => panic!("op {}", x),
            }
        }));
        let late = SystemTime::now().duration_since(target).map(|d| d.as_millis()).unwrap_or(0);
        writeln!(out, "O {} {}", vnow, o[2..].join(" ")).unwrap();
        match res {
            Ok(Out::None) => writeln!(out, "R none").unwrap(),
            Ok(Out::Some(v)) => writeln!(out, "R some {}", v).unwrap(),
            Ok(Out::Unit) => writeln!(out, "R unit").unwrap(),
            Ok(Out::Panic(m)) => writeln!(out, "R panic {}", m).unwrap(),
            Err(_) => writeln!(out, "R panic ?").unwrap(),
        }
        let mut st: Vec<(u64, u64, u64, u64, i64)> = Vec::new();
        for e in store.map.iter() {
            let (v, ts, f) = e.value();
            // birth relative to the base second; a timestamp in the future shows as such
            let born = (*ts as i64 - base_sec as i64) * 1000;
            st.push((knum(e.key()), v.parse().unwrap_or(u64::MAX), footprint(v), *f, born));
        }
        st.sort();
        let q: Vec<String> = store.order.lock().iter().map(|k| knum(k).to_string()).collect();
        let sts: Vec<String> = st.iter().map(|(k, v, sz, f, b)| format!("{}:{}:{}:{}:{}", k, v, sz, f, (*b).max(0))).collect();
        writeln!(out, "S {} {} | {} | {}", store.stats.hits(), store.stats.misses(),
                 if q.is_empty() { "-".to_string() } else { q.join(",") },
                 if sts.is_empty() { "-".to_string() } else { sts.join(";") }).unwrap();
        if late > 120 {
            writeln!(out, "W timing").unwrap();
        }
    }
    writeln!(out, "END").unwrap();
    out
}

fn main() {
    let args: Vec<String> = std::env::args().collect();
    let inp = std::io::BufReader::new(std::fs::File::open(&args[1]).expect("cases"));
    let mut out = BufWriter::new(std::fs::File::create(&args[2]).expect("obs"));
    std::panic::set_hook(Box::new(|_| {}));

    let mut r = Runner {
        cfg: Cfg { fl: Fl::G, pol: EvictionPolicy::FIFO, limit: None, ttl: None, maxmem: None, fw: None },
        vnow: 0,
        born: HashMap::new(),
        astore: AsyncStore { map: DashMap::new(), order: Mutex::new(VecDeque::new()), stats: cachelito_core::CacheStats::new() },
        tl_stats_base: (0, 0),
    };
    let _ = r.tl_stats_base;
    let mut tl: Option<ThreadLocalCache<String>> = None;

    let mut rt_cases: Vec<(String, Vec<String>)> = Vec::new();
    let mut in_rt = false;
    for line in inp.lines() {
        let line = line.unwrap();
        let t: Vec<&str> = line.split_whitespace().collect();
        if t.is_empty() {
            continue;
        }
        if t[0] == "RTCASE" {
            rt_cases.push((line.clone(), Vec::new()));
            in_rt = true;
            continue;
        }
        if in_rt {
            if t[0] == "END" {
                in_rt = false;
            } else {
                rt_cases.last_mut().unwrap().1.push(line.clone());
            }
            continue;
        }
        match t[0] {
            "CASE" => {
                // CASE id fl pol limit ttl maxmem fwn fwd seed
                let fl = match t[2] { "g" => Fl::G, "t" => Fl::T, "a" => Fl::A, x => panic!("flavour {}", x) };
                let fw = fweight(t[7], t[8]);
                r.cfg = Cfg {
                    fl,
                    pol: policy(t[3]),
                    limit: opt(t[4]).map(|x| x as usize),
                    ttl: opt(t[5]),
                    maxmem: opt(t[6]).map(|x| x as usize),
                    fw,
                };
                r.reset();
                fastrand::seed(t[9].parse().unwrap());
                tl = if fl == Fl::T {
                    Some(ThreadLocalCache::new(&T_MAP, &T_ORDER, r.cfg.limit, r.cfg.maxmem, r.cfg.pol, r.cfg.ttl, r.cfg.fw))
                } else {
                    None
                };
                writeln!(out, "{}", line).unwrap();
            }
            "END" => {
                writeln!(out, "END").unwrap();
            }
            "O" => {
                // O dt opname args...
                let dt: u64 = t[1].parse().unwrap();
                r.vnow += dt;
                let mut attempts = 0;
                loop {
                    attempts += 1;
                    if r.cfg.fl == Fl::A {
                        wait_safe_second();
                    }
                    let sec0 = unix_now();
                    let t0 = Instant::now();
                    r.restamp();
                    let c = &r.cfg;
                    let res = catch_unwind(AssertUnwindSafe(|| -> Out {
                        let name = t[2];
                        match c.fl {
                            Fl::G => {
                                let cache = GlobalCache::<String>::new(&G_MAP, &G_ORDER, c.limit, c.maxmem, c.pol, c.ttl, c.fw, &G_STATS);
                                match name {
                                    "get" => match cache.get(&kname(t[3].parse().unwrap())) { Some(v) => Out::Some(v.parse().unwrap_or(u64::MAX)), None => Out::None },
                                    "ins" => { cache.insert(&kname(t[3].parse().unwrap()), mkval(t[4].parse().unwrap(), t[5].parse().unwrap())); Out::Unit }
                                    "insm" => { cache.insert_with_memory(&kname(t[3].parse().unwrap()), mkval(t[4].parse().unwrap(), t[5].parse().unwrap())); Out::Unit }
                                    "clear" => { cache.clear(); Out::Unit }
                                    x => panic!("op {}", x),
                                }
                            }
                            Fl::T => {
                                let cache = tl.as_ref().unwrap();
                                match name {
                                    "get" => match cache.get(&kname(t[3].parse().unwrap())) { Some(v) => Out::Some(v.parse().unwrap_or(u64::MAX)), None => Out::None },
                                    "ins" => { cache.insert(&kname(t[3].parse().unwrap()), mkval(t[4].parse().unwrap(), t[5].parse().unwrap())); Out::Unit }
                                    "insm" => { cache.insert_with_memory(&kname(t[3].parse().unwrap()), mkval(t[4].parse().unwrap(), t[5].parse().unwrap())); Out::Unit }
                                    x => panic!("op {}", x),
                                }
                            }
                            Fl::A => {
                                let cache = AsyncGlobalCache::new(&r.astore.map, &r.astore.order, c.limit, c.maxmem, c.pol, c.ttl, c.fw, &r.astore.stats);
                                match name {
                                    "get" => match cache.get(&kname(t[3].parse().unwrap())) { Some(v) => Out::Some(v.parse().unwrap_or(u64::MAX)), None => Out::None },
                                    "ins" => { cache.insert(&kname(t[3].parse().unwrap()), mkval(t[4].parse().unwrap(), t[5].parse().unwrap())); Out::Unit }
                                    "insm" => { cache.insert_with_memory(&kname(t[3].parse().unwrap()), mkval(t[4].parse().unwrap(), t[5].parse().unwrap())); Out::Unit }
                                    x => panic!("op {}", x),
                                }
                            }
                        }
                    }));
                    // the snapshot reads entry ages against the clock too: it belongs to the timed window
                    let s = r.snapshot(tl.as_ref());
                    let took = t0.elapsed();
                    let sec1 = unix_now();
                    let res = match res {
                        Ok(o) => o,
                        Err(e) => {
                            let msg = e.downcast_ref::<String>().cloned().or_else(|| e.downcast_ref::<&str>().map(|s| s.to_string())).unwrap_or_else(|| "?".into());
                            Out::Panic(msg.split_whitespace().collect::<Vec<_>>().join("_"))
                        }
                    };
                    // an operation that straddled a second boundary (async) or took too long (sync)
                    // is not trustworthy for virtual time; panics are reported as they are
                    let bad_time = (r.cfg.fl == Fl::A && sec0 != sec1) || took > Duration::from_millis(100);
                    if bad_time && attempts < 2 && !matches!(res, Out::Panic(_)) {
                        eprintln!("vh-core: timing disturbance, result kept but flagged");
                    }
                    writeln!(out, "O {} {}", r.vnow, t[2..].join(" ")).unwrap();
                    match res {
                        Out::None => writeln!(out, "R none").unwrap(),
                        Out::Some(v) => writeln!(out, "R some {}", v).unwrap(),
                        Out::Unit => writeln!(out, "R unit").unwrap(),
                        Out::Panic(m) => writeln!(out, "R panic {}", m).unwrap(),
                    }
                    write_snap(&mut out, &s);
                    if bad_time {
                        writeln!(out, "W timing").unwrap();
                    }
                    break;
                }
            }
            _ => panic!("bad line {}", line),
        }
    }
    // real-time cases run concurrently, each on its own storage
    let handles: Vec<_> = rt_cases
        .into_iter()
        .map(|(h, ops)| std::thread::spawn(move || run_rt_case(&h, &ops)))
        .collect();
    for h in handles {
        let s = h.join().unwrap_or_else(|_| String::new());
        out.write_all(s.as_bytes()).unwrap();
    }
    out.flush().unwrap();
}
