//! runtime of the corpus functions: scripted bodies and predicates, logs, value encoding
use std::cell::RefCell;
use std::future::Future;
use std::pin::Pin;
use std::task::{Context, Poll, RawWaker, RawWakerVTable, Waker};

#[derive(Clone, Default)]
pub struct Script {
    pub ok: bool,
    pub v: u64,
    pub len: usize, // string length of String payloads (controls the estimated size)
    pub inv: bool,
    pub cif: bool,
}

#[derive(Default)]
pub struct Log {
    pub executed: u32,
    pub inv: Vec<(String, u64)>, // key, encoded value
    pub cif: Vec<(String, u64)>,
}

thread_local! {
    pub static SCRIPT: RefCell<Script> = RefCell::new(Script::default());
    pub static LOG: RefCell<Log> = RefCell::new(Log::default());
}

thread_local! {
    /// one-shot: the next body executed on this thread takes this much REAL time (a slow backend)
    pub static BODY_SLEEP_MS: std::cell::Cell<u64> = std::cell::Cell::new(0);
}

fn executed() -> Script {
    LOG.with(|l| l.borrow_mut().executed += 1);
    let ms = BODY_SLEEP_MS.with(|c| c.replace(0));
    if ms > 0 {
        std::thread::sleep(std::time::Duration::from_millis(ms));
    }
    SCRIPT.with(|s| s.borrow().clone())
}
fn pad(v: u64, len: usize) -> String {
    let s = format!("{:0width$}", v, width = len);
    s
}

pub fn body_u64(_f: usize, _x: u32) -> u64 {
    executed().v
}
pub fn body_string(_f: usize, _x: u32) -> String {
    let s = executed();
    let mut out = String::with_capacity(s.len + 17);
    out.push_str(&pad(s.v, s.len));
    out
}
/// a function without a return value, cached for its effect: the effect is the execution count
pub fn body_unit(_f: usize, _x: u32) {
    let _ = executed();
}
pub fn body_res_u64(_f: usize, _x: u32) -> Result<u64, u64> {
    let s = executed();
    if s.ok { Ok(s.v) } else { Err(s.v) }
}
pub fn body_res_string(_f: usize, _x: u32) -> std::result::Result<String, String> {
    let s = executed();
    if s.ok { Ok(pad(s.v, s.len)) } else { Err(pad(s.v, s.len)) }
}

thread_local! {
    pub static INV_FLIP: std::cell::Cell<bool> = std::cell::Cell::new(false);
}
pub fn inv(_f: usize, key: &String, encv: u64) -> bool {
    LOG.with(|l| l.borrow_mut().inv.push((key.clone(), encv)));
    let verdict = SCRIPT.with(|s| s.borrow().inv);
    if INV_FLIP.with(|c| c.get()) {
        SCRIPT.with(|s| s.borrow_mut().inv = false);
    }
    verdict
}
pub fn cif(_f: usize, key: &String, encv: u64) -> bool {
    LOG.with(|l| l.borrow_mut().cif.push((key.clone(), encv)));
    SCRIPT.with(|s| s.borrow().cif)
}

/// value encoding shared with the model: Ok v -> 2v, Err v -> 2v+1
pub trait Encode {
    fn encode(&self) -> u64;
    fn estimate(&self) -> usize;
}
// `estimate` is the size the MODEL works with. For the built-in types it is computed HERE, from
// the definition in the property (inline size + heap capacity owned; what the cache stores is a
// clone, whose capacity is its length) and not by the library's estimator, so that a wrong
// estimator shows up as a cache that evicts or refuses differently from the model.
impl Encode for u64 {
    fn encode(&self) -> u64 { 2 * *self }
    fn estimate(&self) -> usize { std::mem::size_of::<u64>() }
}
impl Encode for () {
    // `()` carries no value: what the call "returned" is this call's scripted value (the bodies of
    // unit functions are only used with pure scripts, where it is the function's value for the key)
    fn encode(&self) -> u64 { 2 * SCRIPT.with(|s| s.borrow().v) }
    fn estimate(&self) -> usize { 0 }
}
impl Encode for String {
    fn encode(&self) -> u64 { 2 * self.trim().parse::<u64>().unwrap_or(999_999) }
    fn estimate(&self) -> usize { std::mem::size_of::<String>() + self.len() }
}
impl Encode for Result<u64, u64> {
    fn encode(&self) -> u64 { match self { Ok(v) => 2 * v, Err(v) => 2 * v + 1 } }
    fn estimate(&self) -> usize { std::mem::size_of::<Result<u64, u64>>() }
}
impl Encode for Result<String, String> {
    fn encode(&self) -> u64 {
        match self {
            Ok(v) => 2 * v.parse::<u64>().unwrap_or(999_999),
            Err(v) => 2 * v.parse::<u64>().unwrap_or(999_999) + 1,
        }
    }
    fn estimate(&self) -> usize {
        std::mem::size_of::<Result<String, String>>() + match self { Ok(v) | Err(v) => v.len() }
    }
}
pub fn enc<T: Encode>(v: &T) -> u64 {
    v.encode()
}

pub struct Ret {
    pub enc: u64,
    pub size: usize,
}
impl Ret {
    pub fn from_val<T: Encode>(v: &T) -> Ret {
        Ret { enc: v.encode(), size: v.estimate() }
    }
}

/// encode a value cloned out of a cache by the probe
pub fn enc_any(v: &dyn std::any::Any) -> Option<u64> {
    if let Some(x) = v.downcast_ref::<u64>() { return Some(x.encode()); }
    if let Some(x) = v.downcast_ref::<String>() { return Some(x.encode()); }
    if let Some(x) = v.downcast_ref::<Result<u64, u64>>() { return Some(x.encode()); }
    if let Some(x) = v.downcast_ref::<Result<String, String>>() { return Some(x.encode()); }
    if let Some(x) = v.downcast_ref::<Slow>() { return Some(x.encode()); }
    if let Some(x) = v.downcast_ref::<Weighted>() { return Some(x.encode()); }
    None
}

fn noop_waker() -> Waker {
    fn clone(_: *const ()) -> RawWaker { RawWaker::new(std::ptr::null(), &VT) }
    fn noop(_: *const ()) {}
    static VT: RawWakerVTable = RawWakerVTable::new(clone, noop, noop, noop);
    unsafe { Waker::from_raw(RawWaker::new(std::ptr::null(), &VT)) }
}

/// the corpus bodies never suspend; poll to completion
pub fn block_on<F: Future>(f: F) -> F::Output {
    let mut f = Box::pin(f);
    let w = noop_waker();
    let mut cx = Context::from_waker(&w);
    loop {
        if let Poll::Ready(v) = Pin::as_mut(&mut f).poll(&mut cx) {
            return v;
        }
    }
}

// An await point of a corpus body: pending while the gate of the polling thread is closed
// (per thread, so that only the call under test is suspended).
thread_local! {
    pub static GATE_OPEN: std::cell::Cell<bool> = std::cell::Cell::new(true);
}
pub fn set_gate(open: bool) {
    GATE_OPEN.with(|g| g.set(open));
}
pub struct Gate;
impl Future for Gate {
    type Output = ();
    fn poll(self: Pin<&mut Self>, _cx: &mut Context<'_>) -> Poll<()> {
        if GATE_OPEN.with(|g| g.get()) { Poll::Ready(()) } else { Poll::Pending }
    }
}
pub fn gate() -> Gate {
    Gate
}
pub fn poll_once<F: Future + ?Sized>(f: Pin<&mut F>) -> Poll<F::Output> {
    let w = noop_waker();
    let mut cx = Context::from_waker(&w);
    f.poll(&mut cx)
}

/// A value whose `Clone` can be held by the harness, so that two lookups overlap in real time
/// while one of them is inside the cache (holding whatever guard the engine holds while cloning).
#[derive(Debug)]
pub struct Slow(pub u64);
thread_local! {
    pub static HOLD_CLONES: std::cell::Cell<bool> = std::cell::Cell::new(false);
}
pub static CLONES_HELD: std::sync::atomic::AtomicUsize = std::sync::atomic::AtomicUsize::new(0);
pub static RELEASE_CLONES: std::sync::atomic::AtomicBool = std::sync::atomic::AtomicBool::new(false);
impl Clone for Slow {
    fn clone(&self) -> Slow {
        if HOLD_CLONES.with(|h| h.get()) {
            CLONES_HELD.fetch_add(1, std::sync::atomic::Ordering::SeqCst);
            let t0 = std::time::Instant::now();
            while !RELEASE_CLONES.load(std::sync::atomic::Ordering::SeqCst) && t0.elapsed() < std::time::Duration::from_secs(3) {
                std::thread::sleep(std::time::Duration::from_millis(1));
            }
        }
        Slow(self.0)
    }
}
impl cachelito_core::MemoryEstimator for Slow {}
impl Encode for Slow {
    fn encode(&self) -> u64 { 2 * self.0 }
    fn estimate(&self) -> usize { 8 }
}
pub fn body_slow(_f: usize, _x: u32) -> Slow {
    Slow(executed().v)
}

/// A user type that reports its own size: 24 + 16 * (value mod 7) bytes.
#[derive(Debug, Clone)]
pub struct Weighted(pub u64);
thread_local! {
    /// one-shot: the next `estimate_memory` of a `Weighted` on this thread parks until released. The engines
    /// call the estimator of the value being stored while they hold the order-queue lock, so this parks a
    /// thread INSIDE a store's critical section without any hook in the library.
    pub static HOLD_EST: std::cell::Cell<bool> = std::cell::Cell::new(false);
}
pub static EST_HELD: std::sync::atomic::AtomicUsize = std::sync::atomic::AtomicUsize::new(0);
pub static RELEASE_EST: std::sync::atomic::AtomicBool = std::sync::atomic::AtomicBool::new(false);
impl cachelito_core::MemoryEstimator for Weighted {
    fn estimate_memory(&self) -> usize {
        if HOLD_EST.with(|h| h.replace(false)) {
            EST_HELD.fetch_add(1, std::sync::atomic::Ordering::SeqCst);
            let t0 = std::time::Instant::now();
            while !RELEASE_EST.load(std::sync::atomic::Ordering::SeqCst) && t0.elapsed() < std::time::Duration::from_secs(3) {
                std::thread::sleep(std::time::Duration::from_millis(1));
            }
        }
        24 + 16 * (self.0 % 7) as usize
    }
}
impl Encode for Weighted {
    fn encode(&self) -> u64 { 2 * self.0 }
    fn estimate(&self) -> usize { cachelito_core::MemoryEstimator::estimate_memory(&self.clone()) }
}
pub fn body_weighted(_f: usize, _x: u32) -> Weighted {
    Weighted(executed().v)
}
