//! Concurrency harness on the macro-generated functions, using the observable locks of the
//! `verif` feature (hook H1):
//!   * `traces`  — per operation kind, the real sequence of lock acquisitions and releases;
//!   * `sched`   — two-thread schedules at lock-acquisition granularity: thread A is parked
//!                 before its n-th acquisition, thread B runs, A resumes; deadlock detection by
//!                 "every unfinished thread is waiting for a lock" + deadline; state snapshots
//!                 at quiescence.
use crate::{corpus, do_call, rt, take_snapshot};
use cachelito_core::verif_sync::{set_observer, LockObserver, Mode};
use std::cell::Cell;
use std::collections::HashMap;
use std::sync::{Arc, Condvar, Mutex};
use std::time::{Duration, Instant};

thread_local! {
    static TID: Cell<usize> = Cell::new(usize::MAX);
}
pub fn set_tid(t: usize) {
    TID.with(|c| c.set(t));
}

#[derive(Clone, Debug)]
pub struct Ev {
    pub tid: usize,
    pub lock: usize,
    pub write: bool,
    pub kind: u8, // 0 before, 1 acquired, 2 released
}

#[derive(Default)]
struct Ctl {
    events: Vec<Ev>,
    counts: HashMap<usize, usize>,
    pause: Option<(usize, usize)>,
    paused: bool,
    resume: bool,
    waiting: HashMap<usize, usize>,      // tid -> lock it is about to acquire (not yet acquired)
    held: HashMap<usize, Vec<usize>>,    // tid -> locks held
}

pub struct Tracer {
    ctl: Mutex<Ctl>,
    cv: Condvar,
}

impl Tracer {
    pub fn new() -> Arc<Tracer> {
        Arc::new(Tracer { ctl: Mutex::new(Ctl::default()), cv: Condvar::new() })
    }
    pub fn reset(&self) {
        let mut c = self.ctl.lock().unwrap();
        *c = Ctl::default();
    }
    pub fn take_events(&self) -> Vec<Ev> {
        std::mem::take(&mut self.ctl.lock().unwrap().events)
    }
    pub fn set_pause(&self, tid: usize, nth: usize) {
        let mut c = self.ctl.lock().unwrap();
        c.pause = Some((tid, nth));
        c.paused = false;
        c.resume = false;
    }
    /// wait until the pause point is reached or the predicate says the thread is done
    pub fn wait_paused(&self, done: &dyn Fn() -> bool, deadline: Instant) -> bool {
        let mut c = self.ctl.lock().unwrap();
        loop {
            if c.paused {
                return true;
            }
            if done() || Instant::now() > deadline {
                return false;
            }
            let (g, _) = self.cv.wait_timeout(c, Duration::from_millis(2)).unwrap();
            c = g;
        }
    }
    /// let the parked thread run on to a later acquisition of its own
    pub fn rearm(&self, tid: usize, nth: usize) {
        let mut c = self.ctl.lock().unwrap();
        c.pause = Some((tid, nth));
        c.paused = false;
        c.resume = true;
        self.cv.notify_all();
    }
    pub fn resume(&self) {
        let mut c = self.ctl.lock().unwrap();
        c.resume = true;
        c.pause = None;
        self.cv.notify_all();
    }
    pub fn waiting_on(&self, tid: usize) -> Option<usize> {
        self.ctl.lock().unwrap().waiting.get(&tid).copied()
    }
    pub fn held_by(&self, tid: usize) -> Vec<usize> {
        self.ctl.lock().unwrap().held.get(&tid).cloned().unwrap_or_default()
    }
    pub fn acquisitions(&self, tid: usize) -> usize {
        self.ctl.lock().unwrap().counts.get(&tid).copied().unwrap_or(0)
    }
}

impl LockObserver for Tracer {
    fn before_acquire(&self, lock: usize, mode: Mode) {
        let tid = TID.with(|c| c.get());
        if tid == usize::MAX {
            return;
        }
        let mut c = self.ctl.lock().unwrap();
        let n = {
            let e = c.counts.entry(tid).or_insert(0);
            *e += 1;
            *e
        };
        c.events.push(Ev { tid, lock, write: mode == Mode::Write, kind: 0 });
        if c.pause == Some((tid, n)) {
            c.paused = true;
            c.resume = false;
            self.cv.notify_all();
            while !c.resume {
                c = self.cv.wait(c).unwrap();
            }
        }
        c.waiting.insert(tid, lock);
    }
    fn acquired(&self, lock: usize, mode: Mode) {
        let tid = TID.with(|c| c.get());
        if tid == usize::MAX {
            return;
        }
        let mut c = self.ctl.lock().unwrap();
        c.waiting.remove(&tid);
        c.held.entry(tid).or_default().push(lock);
        c.events.push(Ev { tid, lock, write: mode == Mode::Write, kind: 1 });
    }
    fn released(&self, lock: usize, mode: Mode) {
        let tid = TID.with(|c| c.get());
        if tid == usize::MAX {
            return;
        }
        let mut c = self.ctl.lock().unwrap();
        if let Some(h) = c.held.get_mut(&tid) {
            if let Some(p) = h.iter().rposition(|l| *l == lock) {
                h.remove(p);
            }
        }
        c.events.push(Ev { tid, lock, write: mode == Mode::Write, kind: 2 });
    }
}

/// role of a lock address: "M:<probe>", "O:<probe>", "RG_TAG", .., "SR", or "?<addr>"
pub fn roles() -> HashMap<usize, String> {
    let mut m = HashMap::new();
    for (owner, role, id) in cachelito_core::verif::lock_table() {
        let name = if owner == "registry" { role.clone() } else { format!("{}:{}", role, owner) };
        m.insert(id, name);
    }
    m
}

pub fn fmt_events(evs: &[Ev], own_probe: &str) -> String {
    let r = roles();
    let mut out = Vec::new();
    for e in evs {
        if e.kind == 0 {
            continue;
        }
        let role = r.get(&e.lock).cloned().unwrap_or_else(|| format!("?{:x}", e.lock));
        // locks of the cache the operation is about are written M / O; those of other caches M@ / O@
        let role = if let Some((kind, owner)) = role.split_once(':') {
            if owner == own_probe { kind.to_string() } else { format!("{}@", kind) }
        } else {
            role
        };
        if e.kind == 1 {
            out.push(format!("A:{}:{}", role, if e.write { "W" } else { "R" }));
        } else {
            out.push(format!("L:{}", role));
        }
    }
    out.join(" ")
}

/// one operation in the small language shared with the macro-level cases
pub fn run_op(t: &[&str]) -> String {
    match t[0] {
        "call" => {
            let f: usize = t[1].parse().unwrap();
            let x: u32 = t[2].parse().unwrap();
            let script = rt::Script { ok: t[4] == "ok", v: t[5].parse().unwrap(), len: t[6].parse().unwrap(), inv: t[7] == "1", cif: t[8] == "1" };
            let r = do_call(f, x, script);
            match r.panic {
                Some(m) => format!("call exec={} panic={}", r.executed, m),
                None => format!("call exec={} enc={}", r.executed, r.enc),
            }
        }
        "tag" => format!("count {}", cachelito_core::invalidate_by_tag(t[1])),
        "event" => format!("count {}", cachelito_core::invalidate_by_event(t[1])),
        "dep" => format!("count {}", cachelito_core::invalidate_by_dependency(t[1])),
        "invc" => format!("bool {}", cachelito_core::invalidate_cache(corpus::cache_name(t[1].parse().unwrap())) as u8),
        "invw" => {
            let f: usize = t[1].parse().unwrap();
            let keys: Vec<String> = if t[2] == "-" { vec![] } else { t[2].split(',').map(|x| corpus::expected_key(f, x.parse().unwrap())).collect() };
            format!("bool {}", cachelito_core::invalidate_with(corpus::cache_name(f), |k| keys.iter().any(|q| q == k)) as u8)
        }
        "invall" => format!("count {}", cachelito_core::invalidate_all_with(|_, _| true)),
        "sget" => match cachelito_core::stats_registry::get(corpus::cache_name(t[1].parse().unwrap())) {
            Some(s) => format!("stats {} {}", s.hits(), s.misses()),
            None => "stats none".into(),
        },
        "sreset" => format!("bool {}", cachelito_core::stats_registry::reset(corpus::cache_name(t[1].parse().unwrap())) as u8),
        "age" => {
            // age f x ms: give the entry of key x that age (virtual time for ttl)
            set_age(t[1].parse().unwrap(), t[2].parse().unwrap(), t[3].parse().unwrap());
            "unit".into()
        }
        x => panic!("op {}", x),
    }
}

fn set_age(f: usize, key_x: u32, age: u64) {
    use cachelito_core::verif::{probe, ProbeCmd};
    let k = corpus::expected_key(f, key_x);
    probe(corpus::probe_name(f), &mut ProbeCmd::SetAges(&move |q: &str| if q == k { Some(age) } else { None }));
}

/// `traces`: for every global/async function of the corpus, the lock trace of each kind of operation
pub fn traces(out: &mut impl std::io::Write) {
    let tr = Tracer::new();
    set_observer(Some(tr.clone()));
    set_tid(0);
    let mut trace_of = |tag: &str, f: usize, op: Vec<String>, out: &mut dyn std::io::Write| {
        tr.take_events();
        let toks: Vec<&str> = op.iter().map(|s| s.as_str()).collect();
        let res = run_op(&toks);
        let evs = tr.take_events();
        writeln!(out, "TR {} f{} {} | {} | {} | {}", tag, f, corpus::flavour(f), op.join(" "), res, fmt_events(&evs, corpus::probe_name(f))).unwrap();
    };
    for f in 0..corpus::N_FUNCS {
        if corpus::flavour(f) == 't' {
            continue;
        }
        let call = |x: u32, v: u64| -> Vec<String> {
            vec!["call".into(), f.to_string(), x.to_string(), "0".into(), "ok".into(), v.to_string(), "8".into(), "1".into(), "1".into()]
        };
        trace_of("first_call", f, call(0, 1), out);
        trace_of("hit_or_recheck", f, call(0, 1), out);
        for x in 1..7u32 {
            trace_of("store", f, call(x, 10 + x as u64), out);
        }
        trace_of("hit2", f, call(6, 16), out);
        // an expired entry (only has an effect with ttl)
        set_age(f, 6, 1_000_000);
        trace_of("expired_or_hit", f, call(6, 17), out);
        trace_of("invw", f, vec!["invw".into(), f.to_string(), "5,6".into()], out);
        trace_of("invc", f, vec!["invc".into(), f.to_string()], out);
        trace_of("sget", f, vec!["sget".into(), f.to_string()], out);
        trace_of("sreset", f, vec!["sreset".into(), f.to_string()], out);
        trace_of("store_after_clear", f, call(1, 21), out);
    }
    for (kind, label) in [("tag", "t1"), ("tag", "t2"), ("event", "e1"), ("dep", "d1"), ("tag", "nosuch")] {
        trace_of("group", 0, vec![kind.into(), label.into()], out);
    }
    trace_of("invall", 0, vec!["invall".into()], out);
    set_observer(None);
}

/// `sched`: one two-thread schedule (see module comment). Input: lines P/A/B/PAUSE/Q.
pub fn sched(input: &str, out: &mut impl std::io::Write) {
    let tr = Tracer::new();
    set_observer(Some(tr.clone()));
    let mut a_op: Vec<String> = vec![];
    let mut b_op: Vec<String> = vec![];
    let mut c_op: Vec<String> = vec![];
    let mut pause = 0usize;
    let mut pause2 = 0usize;
    let mut probes: Vec<Vec<String>> = vec![];
    let mut used: Vec<usize> = vec![];
    let note_used = |t: &[&str], used: &mut Vec<usize>| {
        if matches!(t[0], "call" | "invw" | "invc" | "sget" | "sreset" | "age") {
            let f: usize = t[1].parse().unwrap();
            if !used.contains(&f) {
                used.push(f);
            }
        }
    };
    for line in input.lines() {
        let t: Vec<&str> = line.split_whitespace().collect();
        if t.is_empty() {
            continue;
        }
        match t[0] {
            "CCASE" => writeln!(out, "{}", line).unwrap(),
            "P" => {
                set_tid(usize::MAX);
                note_used(&t[1..], &mut used);
                let r = run_op(&t[1..]);
                writeln!(out, "P {} => {}", t[1..].join(" "), r).unwrap();
            }
            "A" => { a_op = t[1..].iter().map(|s| s.to_string()).collect(); note_used(&t[1..], &mut used); writeln!(out, "AOP {}", t[1..].join(" ")).unwrap(); }
            "B" => { b_op = t[1..].iter().map(|s| s.to_string()).collect(); note_used(&t[1..], &mut used); writeln!(out, "BOP {}", t[1..].join(" ")).unwrap(); }
            "C" => { c_op = t[1..].iter().map(|s| s.to_string()).collect(); note_used(&t[1..], &mut used); writeln!(out, "COP {}", t[1..].join(" ")).unwrap(); }
            "PAUSE" => pause = t[1].parse().unwrap(),
            "PAUSE2" => pause2 = t[1].parse().unwrap(),
            "Q" => { probes.push(t[1..].iter().map(|s| s.to_string()).collect()); note_used(&t[1..], &mut used); }
            "END" => {}
            _ => panic!("sched line {}", line),
        }
    }
    tr.reset();
    if pause > 0 {
        tr.set_pause(1, pause);
    }
    let done_a = Arc::new(Mutex::new(None::<String>));
    let done_b = Arc::new(Mutex::new(None::<String>));
    let (da, ao) = (done_a.clone(), a_op.clone());
    let ha = std::thread::spawn(move || {
        set_tid(1);
        let toks: Vec<&str> = ao.iter().map(|s| s.as_str()).collect();
        let r = run_op(&toks);
        *da.lock().unwrap() = Some(r);
    });
    let deadline = Instant::now() + Duration::from_millis(1500);
    let da2 = done_a.clone();
    let reached = pause > 0 && tr.wait_paused(&move || da2.lock().unwrap().is_some(), deadline);
    let held_at_pause = tr.held_by(1);
    let (db, bo) = (done_b.clone(), b_op.clone());
    let hb = std::thread::spawn(move || {
        set_tid(2);
        let toks: Vec<&str> = bo.iter().map(|s| s.as_str()).collect();
        let r = run_op(&toks);
        *db.lock().unwrap() = Some(r);
    });
    // let B run until it finishes or is stuck waiting for a lock
    let mut b_blocked = false;
    let t0 = Instant::now();
    loop {
        if done_b.lock().unwrap().is_some() {
            break;
        }
        if let Some(_l) = tr.waiting_on(2) {
            if t0.elapsed() > Duration::from_millis(40) {
                b_blocked = true;
                break;
            }
        }
        if t0.elapsed() > Duration::from_millis(400) {
            b_blocked = true;
            break;
        }
        std::thread::sleep(Duration::from_millis(1));
    }
    // mid-execution snapshot: A is parked between two of its critical sections holding nothing
    // and B has finished, so the caches can be read; they must be consistent up to A's pending store
    let mut mid: Vec<String> = Vec::new();
    if reached && held_at_pause.is_empty() && !b_blocked && done_b.lock().unwrap().is_some() {
        let me = TID.with(|c| c.get());
        set_tid(usize::MAX);
        for f in &used {
            if corpus::flavour(*f) == 't' {
                continue;
            }
            let s = take_snapshot(*f);
            let q: Vec<String> = s.queue.iter().map(|k| k.to_string()).collect();
            let st: Vec<String> = s.store.iter().map(|(k, e, fr, _)| format!("{}:{}:{}", k, e, fr)).collect();
            mid.push(format!("WM {} | {} | {}", f, if q.is_empty() { "-".into() } else { q.join(",") }, if st.is_empty() { "-".into() } else { st.join(";") }));
        }
        set_tid(me);
    }
    // second preemption: A runs on to a later acquisition of its own, then a third thread C runs
    let done_c = Arc::new(Mutex::new(None::<String>));
    let mut hc = None;
    let mut reached2 = false;
    let mut c_blocked = false;
    if !c_op.is_empty() {
        if reached && pause2 > pause {
            tr.rearm(1, pause2);
            let da3 = done_a.clone();
            reached2 = tr.wait_paused(&move || da3.lock().unwrap().is_some(), Instant::now() + Duration::from_millis(1500));
        }
        let (dc, co) = (done_c.clone(), c_op.clone());
        hc = Some(std::thread::spawn(move || {
            set_tid(3);
            let toks: Vec<&str> = co.iter().map(|s| s.as_str()).collect();
            let r = run_op(&toks);
            *dc.lock().unwrap() = Some(r);
        }));
        let t0 = Instant::now();
        loop {
            if done_c.lock().unwrap().is_some() {
                break;
            }
            if tr.waiting_on(3).is_some() && t0.elapsed() > Duration::from_millis(40) {
                c_blocked = true;
                break;
            }
            if t0.elapsed() > Duration::from_millis(400) {
                c_blocked = true;
                break;
            }
            std::thread::sleep(Duration::from_millis(1));
        }
    } else {
        *done_c.lock().unwrap() = Some(String::new());
    }
    tr.resume();
    // both must finish
    let mut dl = Instant::now() + Duration::from_millis(1200);
    let hard = Instant::now() + Duration::from_secs(15);
    loop {
        let fa = done_a.lock().unwrap().is_some();
        let fb = done_b.lock().unwrap().is_some() && done_c.lock().unwrap().is_some();
        if fa && fb {
            break;
        }
        if Instant::now() > dl {
            // a deadlock means: every unfinished thread is waiting for a lock. A thread that is
            // merely slow (loaded machine) is not waiting; give it more time.
            let stuck = (fa || tr.waiting_on(1).is_some()) && (fb || tr.waiting_on(2).is_some() || tr.waiting_on(3).is_some());
            if !stuck && Instant::now() < hard {
                dl = Instant::now() + Duration::from_millis(500);
                continue;
            }
            if !stuck {
                writeln!(out, "SCHED reached={} b_blocked={} deadlock=0 timeout=1", reached as u8, b_blocked as u8).unwrap();
                writeln!(out, "END").unwrap();
                out.flush().unwrap();
                std::process::exit(0);
            }
            let r = roles();
            let name = |l: usize| r.get(&l).cloned().unwrap_or_else(|| format!("?{:x}", l));
            let desc = |tid: usize| {
                format!("waits={} holds=[{}]", tr.waiting_on(tid).map(name).unwrap_or_else(|| "-".into()),
                        tr.held_by(tid).into_iter().map(name).collect::<Vec<_>>().join(","))
            };
            writeln!(out, "SCHED reached={} b_blocked={} deadlock=1 A:{} B:{}", reached as u8, b_blocked as u8, desc(1), desc(2)).unwrap();
            writeln!(out, "END").unwrap();
            out.flush().unwrap();
            std::process::exit(0);
        }
        std::thread::sleep(Duration::from_millis(2));
    }
    ha.join().ok();
    hb.join().ok();
    if let Some(h) = hc {
        h.join().ok();
    }
    set_tid(usize::MAX);
    let r = roles();
    writeln!(out, "SCHED reached={} b_blocked={} deadlock=0 acqA={} heldAtPause=[{}]", reached as u8, b_blocked as u8, tr.acquisitions(1),
             held_at_pause.iter().map(|l| r.get(l).cloned().unwrap_or_else(|| "?".into())).collect::<Vec<_>>().join(",")).unwrap();
    writeln!(out, "RA {}", done_a.lock().unwrap().clone().unwrap()).unwrap();
    writeln!(out, "RB {}", done_b.lock().unwrap().clone().unwrap()).unwrap();
    if !c_op.is_empty() {
        writeln!(out, "RC reached2={} c_blocked={} {}", reached2 as u8, c_blocked as u8, done_c.lock().unwrap().clone().unwrap()).unwrap();
    }
    for l in &mid {
        writeln!(out, "{}", l).unwrap();
    }
    let dump = |out: &mut dyn std::io::Write, used: &Vec<usize>| {
        for f in used {
            if corpus::flavour(*f) == 't' {
                continue;
            }
            let s = take_snapshot(*f);
            let q: Vec<String> = s.queue.iter().map(|k| k.to_string()).collect();
            let st: Vec<String> = s.store.iter().map(|(k, e, fr, _)| format!("{}:{}:{}", k, e, fr)).collect();
            writeln!(out, "W {} | {} | {}", f, if q.is_empty() { "-".into() } else { q.join(",") }, if st.is_empty() { "-".into() } else { st.join(";") }).unwrap();
        }
    };
    dump(out, &used);
    for p in probes {
        let toks: Vec<&str> = p.iter().map(|s| s.as_str()).collect();
        let res = run_op(&toks);
        writeln!(out, "Q {} => {}", p.join(" "), res).unwrap();
        dump(out, &used);
    }
    // statistics at quiescence: every completed call performed exactly one lookup (C15 under concurrency)
    let resets = input.lines().any(|l| l.split_whitespace().nth(1) == Some("sreset"));
    if !resets {
        for f in &used {
            if corpus::flavour(*f) == 't' {
                continue;
            }
            let calls = input.lines().filter(|l| {
                let t: Vec<&str> = l.split_whitespace().collect();
                t.len() > 2 && matches!(t[0], "P" | "A" | "B" | "C" | "Q") && t[1] == "call" && t[2].parse::<usize>().ok() == Some(*f)
            }).count();
            match cachelito_core::stats_registry::get(corpus::cache_name(*f)) {
                Some(s) => writeln!(out, "STATS {} {} {} {}", f, s.hits(), s.misses(), calls).unwrap(),
                None => writeln!(out, "STATS {} none none {}", f, calls).unwrap(),
            }
        }
    }
    writeln!(out, "END").unwrap();
    set_observer(None);
}

/// `par`: two lookups of a stored key that overlap in real time: thread A is held inside the
/// value's `Clone` (i.e. inside the cache, holding whatever guard the engine holds while it
/// clones), thread B looks the same key up meanwhile. Input: lines P / A / B.
pub fn par(input: &str, out: &mut impl std::io::Write) {
    use std::sync::atomic::Ordering::SeqCst;
    let mut a_op: Vec<String> = vec![];
    let mut b_op: Vec<String> = vec![];
    for line in input.lines() {
        let t: Vec<&str> = line.split_whitespace().collect();
        if t.is_empty() {
            continue;
        }
        match t[0] {
            "PCASE" => writeln!(out, "{}", line.replacen("PCASE", "CCASE", 1)).unwrap(),
            "P" => {
                let r = run_op(&t[1..]);
                writeln!(out, "P {} => {}", t[1..].join(" "), r).unwrap();
            }
            "A" => a_op = t[1..].iter().map(|s| s.to_string()).collect(),
            "B" => { b_op = t[1..].iter().map(|s| s.to_string()).collect(); writeln!(out, "BOP {}", t[1..].join(" ")).unwrap(); }
            _ => {}
        }
    }
    rt::RELEASE_CLONES.store(false, SeqCst);
    rt::CLONES_HELD.store(0, SeqCst);
    rt::RELEASE_EST.store(false, SeqCst);
    rt::EST_HELD.store(0, SeqCst);
    let head_f: Option<usize> = input.lines().next().and_then(|l| l.split_whitespace().nth(2).map(|s| s.to_string())).and_then(|s| s[1..].parse().ok());
    let done_a = Arc::new(Mutex::new(None::<String>));
    let done_b = Arc::new(Mutex::new(None::<String>));
    let (da, ao) = (done_a.clone(), a_op.clone());
    let ha = std::thread::spawn(move || {
        rt::HOLD_CLONES.with(|h| h.set(true));
        rt::HOLD_EST.with(|h| h.set(true));
        let toks: Vec<&str> = ao.iter().map(|s| s.as_str()).collect();
        let r = run_op(&toks);
        *da.lock().unwrap() = Some(r);
    });
    let t0 = Instant::now();
    while rt::CLONES_HELD.load(SeqCst) == 0 && rt::EST_HELD.load(SeqCst) == 0 && t0.elapsed() < Duration::from_millis(500) && done_a.lock().unwrap().is_none() {
        std::thread::sleep(Duration::from_millis(1));
    }
    let held = rt::CLONES_HELD.load(SeqCst) + rt::EST_HELD.load(SeqCst);
    let (db, bo) = (done_b.clone(), b_op.clone());
    let hb = std::thread::spawn(move || {
        let toks: Vec<&str> = bo.iter().map(|s| s.as_str()).collect();
        let r = run_op(&toks);
        *db.lock().unwrap() = Some(r);
    });
    let t1 = Instant::now();
    while done_b.lock().unwrap().is_none() && t1.elapsed() < Duration::from_millis(150) {
        std::thread::sleep(Duration::from_millis(1));
    }
    let b_early = done_b.lock().unwrap().is_some();
    rt::RELEASE_CLONES.store(true, SeqCst);
    rt::RELEASE_EST.store(true, SeqCst);
    let dl = Instant::now() + Duration::from_secs(4);
    while (done_a.lock().unwrap().is_none() || done_b.lock().unwrap().is_none()) && Instant::now() < dl {
        std::thread::sleep(Duration::from_millis(2));
    }
    if done_a.lock().unwrap().is_none() || done_b.lock().unwrap().is_none() {
        writeln!(out, "SCHED reached={} b_blocked=1 deadlock=1 A:overlapping-lookups B:never-returned", (held > 0) as u8).unwrap();
        writeln!(out, "END").unwrap();
        out.flush().unwrap();
        std::process::exit(0);
    }
    ha.join().ok();
    hb.join().ok();
    writeln!(out, "SCHED reached={} b_blocked={} deadlock=0 overlap=1", (held > 0) as u8, (!b_early) as u8).unwrap();
    writeln!(out, "RA {}", done_a.lock().unwrap().clone().unwrap()).unwrap();
    writeln!(out, "RB {}", done_b.lock().unwrap().clone().unwrap()).unwrap();
    // the cache of the case's function at quiescence
    if let Some(f) = head_f {
        if corpus::flavour(f) != 't' {
            let s = take_snapshot(f);
            let q: Vec<String> = s.queue.iter().map(|k| k.to_string()).collect();
            let st: Vec<String> = s.store.iter().map(|(k, e, fr, _)| format!("{}:{}:{}", k, e, fr)).collect();
            writeln!(out, "W {} | {} | {}", f, if q.is_empty() { "-".into() } else { q.join(",") }, if st.is_empty() { "-".into() } else { st.join(";") }).unwrap();
        }
    }
    writeln!(out, "END").unwrap();
}

/// `stress`: free-running threads (real parallelism, no scheduler) hammering one function with
/// calls and invalidations; afterwards the cache is dumped at quiescence together with the
/// statistics and the number of lookups performed. Input: one line
///   `STRESS id f<idx> threads ops seed`
pub fn stress(input: &str, out: &mut impl std::io::Write) {
    let t: Vec<&str> = input.split_whitespace().collect();
    let f: usize = t[2][1..].parse().unwrap();
    let threads: usize = t[3].parse().unwrap();
    let ops: usize = t[4].parse().unwrap();
    let seed: u64 = t[5].parse().unwrap();
    let limit: u32 = t[6].parse().unwrap_or(3);
    if t.get(7) == Some(&"race") {
        return race(t[1], f, threads, ops, out);
    }
    writeln!(out, "CCASE {} f{} {} stress -", t[1], f, corpus::flavour(f)).unwrap();
    // register and warm up on this thread
    let v0 = |x: u32| ((f as u64) * 37 + (x as u64) * 11) % 500 + 1;
    let r = do_call(f, 0, rt::Script { ok: true, v: v0(0), len: 8, inv: false, cif: true });
    let mut calls: u64 = 1;
    let _ = r;
    let bad = Arc::new(Mutex::new(Vec::<String>::new()));
    let total_calls = Arc::new(std::sync::atomic::AtomicU64::new(0));
    let mut hs = Vec::new();
    for th in 0..threads {
        let (bad, total_calls) = (bad.clone(), total_calls.clone());
        hs.push(std::thread::spawn(move || {
            let mut s = seed.wrapping_mul(0x9E3779B97F4A7C15).wrapping_add(th as u64 + 1);
            let mut next = || {
                s = s.wrapping_add(0x9E3779B97F4A7C15);
                let mut z = s;
                z = (z ^ (z >> 30)).wrapping_mul(0xBF58476D1CE4E5B9);
                z = (z ^ (z >> 27)).wrapping_mul(0x94D049BB133111EB);
                z ^ (z >> 31)
            };
            for _ in 0..ops {
                let k = next() % 100;
                if k < 90 {
                    let x = (next() % (limit as u64 + 3)) as u32;
                    let want = ((f as u64) * 37 + (x as u64) * 11) % 500 + 1;
                    let r = do_call(f, x, rt::Script { ok: true, v: want, len: 8, inv: false, cif: true });
                    total_calls.fetch_add(1, std::sync::atomic::Ordering::SeqCst);
                    if let Some(p) = r.panic {
                        bad.lock().unwrap().push(format!("PANIC {}", p));
                    } else if r.enc != 2 * want {
                        bad.lock().unwrap().push(format!("VALUE call f{} x={} returned enc {}, the function's value is {}", f, x, r.enc, want));
                    }
                } else if k < 95 {
                    let x = (next() % (limit as u64 + 3)) as u32;
                    let key = corpus::expected_key(f, x);
                    cachelito_core::invalidate_with(corpus::cache_name(f), |q| q == key);
                } else if k < 98 {
                    cachelito_core::invalidate_cache(corpus::cache_name(f));
                } else {
                    let _ = cachelito_core::stats_registry::get(corpus::cache_name(f));
                }
            }
        }));
    }
    // every call must return: threads that are still running after the deadline are stuck
    let dl = Instant::now() + Duration::from_secs(40);
    while hs.iter().any(|h| !h.is_finished()) && Instant::now() < dl {
        std::thread::sleep(Duration::from_millis(5));
    }
    let stuck = hs.iter().filter(|h| !h.is_finished()).count();
    if stuck > 0 {
        writeln!(out, "X hung {} of {} threads never finished their calls ({} calls completed)", stuck, threads,
                 total_calls.load(std::sync::atomic::Ordering::SeqCst)).unwrap();
        writeln!(out, "END").unwrap();
        out.flush().unwrap();
        std::process::exit(0);
    }
    for h in hs {
        let _ = h.join();
    }
    calls += total_calls.load(std::sync::atomic::Ordering::SeqCst);
    for b in bad.lock().unwrap().iter().take(5) {
        writeln!(out, "BAD {}", b).unwrap();
    }
    let snap = take_snapshot(f);
    let q: Vec<String> = snap.queue.iter().map(|k| k.to_string()).collect();
    let st: Vec<String> = snap.store.iter().map(|(k, e, fr, _)| format!("{}:{}:{}", k, e, fr)).collect();
    writeln!(out, "SCHED reached=1 b_blocked=0 deadlock=0 stress=1").unwrap();
    writeln!(out, "W {} | {} | {}", f, if q.is_empty() { "-".into() } else { q.join(",") }, if st.is_empty() { "-".into() } else { st.join(";") }).unwrap();
    match cachelito_core::stats_registry::get(corpus::cache_name(f)) {
        Some(s) => writeln!(out, "STATS {} {} {} {}", f, s.hits(), s.misses(), calls).unwrap(),
        None => writeln!(out, "STATS {} none none {}", f, calls).unwrap(),
    }
    // a sequential probe: the bound must hold again
    for x in 10..16u32 {
        let want = ((f as u64) * 37 + (x as u64) * 11) % 500 + 1;
        let r = do_call(f, x, rt::Script { ok: true, v: want, len: 8, inv: false, cif: true });
        writeln!(out, "Q call {} {} 0 ok {} 8 0 1 => call exec={} enc={}", f, x, want, r.executed, r.enc).unwrap();
    }
    let snap = take_snapshot(f);
    let q: Vec<String> = snap.queue.iter().map(|k| k.to_string()).collect();
    let st: Vec<String> = snap.store.iter().map(|(k, e, fr, _)| format!("{}:{}:{}", k, e, fr)).collect();
    writeln!(out, "W {} | {} | {}", f, if q.is_empty() { "-".into() } else { q.join(",") }, if st.is_empty() { "-".into() } else { st.join(";") }).unwrap();
    writeln!(out, "END").unwrap();
}

/// `race` (a STRESS line ending in `race`): first-call races on a function WITHOUT limit, ttl, memory
/// bound, predicates or invalidation. For each of `keys` fresh keys all threads start together (spin
/// barrier), call f(k) — they may all miss and all store, each later store REPLACING the entry — and
/// at once call f(k) again. A thread's second call starts after its own first call has stored the
/// result and returned, so it must be served: a thread that runs the body twice for one key saw the
/// key absent while another thread was replacing it.
fn race(id: &str, f: usize, threads: usize, keys: usize, out: &mut impl std::io::Write) {
    use std::sync::atomic::{AtomicUsize, Ordering::SeqCst};
    writeln!(out, "CCASE {} f{} {} race -", id, f, corpus::flavour(f)).unwrap();
    let _ = do_call(f, 0, rt::Script { ok: true, v: ((f as u64) * 37) % 500 + 1, len: 8, inv: false, cif: true });
    let arrived = Arc::new(AtomicUsize::new(0));
    let bad = Arc::new(Mutex::new(Vec::<String>::new()));
    let twice = Arc::new(AtomicUsize::new(0));
    let mut hs = Vec::new();
    for th in 0..threads {
        let (arrived, bad, twice) = (arrived.clone(), bad.clone(), twice.clone());
        hs.push(std::thread::spawn(move || {
            for k in 0..keys {
                let x = 100 + k as u32;
                let want = ((f as u64) * 37 + (x as u64) * 11) % 500 + 1;
                // all threads leave the barrier of round k together
                arrived.fetch_add(1, SeqCst);
                let t0 = Instant::now();
                while arrived.load(SeqCst) < (k + 1) * threads {
                    if t0.elapsed() > Duration::from_secs(20) {
                        return;
                    }
                    std::hint::spin_loop();
                }
                let mut execs = 0;
                for _ in 0..3 {
                    let r = do_call(f, x, rt::Script { ok: true, v: want, len: 8, inv: false, cif: true });
                    if r.panic.is_some() || r.enc != 2 * want {
                        bad.lock().unwrap().push(format!("VALUE call f{} x={} returned enc {} (panic {:?}), the function's value is {}", f, x, r.enc, r.panic, want));
                    }
                    execs += r.executed;
                }
                if execs > 1 {
                    twice.fetch_add(1, SeqCst);
                    let mut b = bad.lock().unwrap();
                    if b.len() < 3 {
                        b.push(format!("MISS f{}: thread {} ran the body {} times for x={}: a call that started after the thread's own call had stored the result and returned was not served (first-call race of {} threads)", f, th, execs, x, threads));
                    }
                }
            }
        }));
    }
    let dl = Instant::now() + Duration::from_secs(60);
    while hs.iter().any(|h| !h.is_finished()) && Instant::now() < dl {
        std::thread::sleep(Duration::from_millis(5));
    }
    if hs.iter().any(|h| !h.is_finished()) {
        writeln!(out, "X hung threads of the race never finished").unwrap();
        writeln!(out, "END").unwrap();
        out.flush().unwrap();
        std::process::exit(0);
    }
    for h in hs {
        let _ = h.join();
    }
    for b in bad.lock().unwrap().iter().take(4) {
        writeln!(out, "BAD {}", b).unwrap();
    }
    writeln!(out, "SCHED reached=1 b_blocked=0 deadlock=0 race=1 keys={} threads={} reruns={}", keys, threads, twice.load(SeqCst)).unwrap();
    writeln!(out, "END").unwrap();
}
