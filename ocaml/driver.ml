(* driver.ml — replays the observations recorded from the Rust engines on the extracted
   Coq model (Model = extraction of SeqModel.v / Spec.v), step by step:
     - model step from the implementation's own pre-state, compared with the
       implementation's post-state and output under a field mask  (correspondence);
     - the extracted trace predicates c01_step .. c15_step evaluated on the
       implementation's trace                                      (violation search).
   usage: driver <obs-file> --mask f1,f2,.. --props p1,p2,.. [--dump]
   mask fields: out keys nkeys queue qset vals size freq born stats
   Output: one line per case  "V <id> ok|MISMATCH ..|PANIC ..|SKIP .."  (correspondence), lines "F <id> <prop> <op index>"
   for every trace predicate that fails on the implementation's trace, and STAT lines. *)
open Model

let rec pos_of_int i = if i = 1 then XH else if i land 1 = 0 then XO (pos_of_int (i lsr 1)) else XI (pos_of_int (i lsr 1))
let n_of_int i = if i <= 0 then N0 else Npos (pos_of_int i)
let rec int_of_pos = function XH -> 1 | XO p -> 2 * int_of_pos p | XI p -> 2 * int_of_pos p + 1
let int_of_n = function N0 -> 0 | Npos p -> int_of_pos p

(* decimal numerals of any length (extreme frequency weights such as 10^308) *)
let pos_of_decimal (s : string) : positive =
  let ten = Npos (pos_of_int 10) in
  let acc = ref N0 in
  String.iter (fun ch ->
      if ch < '0' || ch > '9' then failwith ("number " ^ s);
      acc := N.add (N.mul !acc ten) (n_of_int (Char.code ch - 48))) s;
  match !acc with Npos p -> p | N0 -> failwith "zero weight"

let split_on c s = List.filter (fun x -> x <> "") (String.split_on_char c s)
let opt_n s = if s = "-" then None else if s = "0" then Some N0 else Some (Npos (pos_of_decimal s))

type iout = INone | ISome of int | IUnit | IPanic of string

type isnap = { hits : int; misses : int; queue : int list; store : (int * (int * int * int * int)) list }
(* key -> value, size, freq, born *)

let state_of_snap (s : isnap) : state =
  { st_store = List.map (fun (k, (v, sz, f, b)) ->
        (n_of_int k, { e_val = n_of_int v; e_size = n_of_int sz; e_born = n_of_int b; e_freq = n_of_int f })) s.store;
    st_queue = List.map n_of_int s.queue;
    st_hits = n_of_int s.hits; st_misses = n_of_int s.misses }

let snap_of_state (s : state) : isnap =
  { hits = int_of_n s.st_hits; misses = int_of_n s.st_misses;
    queue = List.map int_of_n s.st_queue;
    store = List.sort compare (List.map (fun (k, e) ->
        (int_of_n k, (int_of_n e.e_val, int_of_n e.e_size, int_of_n e.e_freq, int_of_n e.e_born))) s.st_store) }

let parse_snap (line : string) : isnap =
  (* S hits misses | q | store *)
  match String.split_on_char '|' line with
  | [a; q; st] ->
    let a = split_on ' ' a in
    let hits = int_of_string (List.nth a 1) and misses = int_of_string (List.nth a 2) in
    let q = String.trim q and st = String.trim st in
    let queue = if q = "-" then [] else List.map int_of_string (split_on ',' q) in
    let store = if st = "-" then [] else
        List.map (fun e -> match List.map int_of_string (split_on ':' e) with
            | [k; v; sz; f; b] -> (k, (v, sz, f, b))
            | _ -> failwith ("entry " ^ e)) (split_on ';' st) in
    { hits; misses; queue; store = List.sort compare store }
  | _ -> failwith ("snapshot line: " ^ line)

let pol_of = function
  | "fifo" -> FIFO | "lru" -> LRU | "lfu" -> LFU | "arc" -> ARC | "random" -> Random | "tlru" -> TLRU
  | s -> failwith ("policy " ^ s)
let fl_of = function "g" -> Global | "t" -> ThreadLocal | "a" -> Async | s -> failwith ("flavour " ^ s)

let show_snap (s : isnap) =
  Printf.sprintf "h=%d m=%d q=[%s] st=[%s]" s.hits s.misses
    (String.concat "," (List.map string_of_int s.queue))
    (String.concat ";" (List.map (fun (k, (v, sz, f, b)) -> Printf.sprintf "%d:%d:%d:%d:%d" k v sz f b) s.store))

let show_out = function INone -> "none" | ISome v -> "some " ^ string_of_int v | IUnit -> "unit" | IPanic m -> "panic " ^ m

(* permutations of a small list *)
let rec perms = function
  | [] -> [[]]
  | l -> List.concat_map (fun x -> List.map (fun p -> x :: p) (perms (List.filter (fun y -> y <> x) l))) l

let mask = ref ["out"; "keys"; "queue"; "vals"; "size"; "freq"; "born"; "stats"]
let props = ref []
let dump = ref false

(* compare model post-state with implementation post-state under the mask; returns the first differing field *)
let compare_states (m : isnap) (i : isnap) : string option =
  let has f = List.mem f !mask in
  let keys s = List.map fst s.store in
  let proj f s = List.map (fun (k, e) -> (k, f e)) s.store in
  if has "keys" && keys m <> keys i then Some "keys"
  else if has "nkeys" && List.length m.store <> List.length i.store then Some "nkeys"
  else if has "queue" && m.queue <> i.queue then Some "queue"
  else if has "qset" && List.sort compare m.queue <> List.sort compare i.queue then Some "qset"
  else if has "vals" && keys m = keys i && proj (fun (v, _, _, _) -> v) m <> proj (fun (v, _, _, _) -> v) i then Some "vals"
  else if has "size" && keys m = keys i && proj (fun (_, s, _, _) -> s) m <> proj (fun (_, s, _, _) -> s) i then Some "size"
  else if has "freq" && keys m = keys i && proj (fun (_, _, f, _) -> f) m <> proj (fun (_, _, f, _) -> f) i then Some "freq"
  else if has "born" && keys m = keys i && proj (fun (_, _, _, b) -> b) m <> proj (fun (_, _, _, b) -> b) i then Some "born"
  else if has "stats" && (m.hits <> i.hits || m.misses <> i.misses) then Some "stats"
  else None

let stat : (string, int) Hashtbl.t = Hashtbl.create 64
let bump k = Hashtbl.replace stat k (1 + (try Hashtbl.find stat k with Not_found -> 0))
let bumpn k n = Hashtbl.replace stat k (n + (try Hashtbl.find stat k with Not_found -> 0))

let step_preds = [
  ("c01", c01_step); ("c04", c04_step); ("c05", c05_step); ("c06", c06_step);
  ("c07", c07_step); ("c08", c08_step); ("c13", c13_step); ("c15", c15_step) ]

let () =
  let args = Array.to_list Sys.argv in
  let file = List.nth args 1 in
  let rec pa = function
    | "--mask" :: v :: r -> mask := split_on ',' v; pa r
    | "--props" :: v :: r -> props := split_on ',' v; pa r
    | "--dump" :: r -> dump := true; pa r
    | _ :: r -> pa r
    | [] -> () in
  pa (List.tl (List.tl args));
  let ic = open_in file in
  let cur_id = ref "" and cur_cfg = ref None in
  let pre = ref { hits = 0; misses = 0; queue = []; store = [] } in
  let trace = ref [] in             (* reversed list of obs *)
  let verdict = ref None in         (* first problem of the current case *)
  let opidx = ref 0 in
  let skip = ref false in
  let pending_op = ref None in
  let pending_out = ref IUnit in
  let set_verdict v = if !verdict = None then verdict := Some v in
  let nontrivial = ref false in
  let finish_case () =
    match !cur_cfg with
    | None -> ()
    | Some c ->
      let tr = List.rev !trace in
      if not !skip then begin
        (* the documented score raises the hit count to the power of the weight's numerator: computable only for
           the weights C08 quantifies over (0.1 .. 3); extreme weights (C04X, C16) are outside that predicate *)
        let rec small p n = n > 0 && (match p with XH -> true | XO q | XI q -> small q (n - 1)) in
        let c08_applies = (match c.fw with Some (n, d) -> small n 8 && small d 8 | None -> true) in
        if List.mem "c08" !props && not c08_applies then bump "c08_skipped_extreme_weight";
        List.iter (fun (name, p) ->
            if List.mem name !props && (name <> "c08" || c08_applies) then begin
              let idx = int_of_n (first_fail p c [] (n_of_int 1) tr) in
              if idx <> 0 then Printf.printf "F %s %s %d\n" !cur_id name idx
            end) step_preds;
        (* structural well-formedness of every snapshot is part of every engine-level property *)
        if List.mem "wf" !props then
          (match List.find_opt (fun (_, o) -> not (wf_state o.ob_post)) (List.mapi (fun i o -> (i + 1, o)) tr) with
           | Some (i, _) -> Printf.printf "F %s wf %d\n" !cur_id i
           | None -> ())
      end;
      bump "cases";
      if !nontrivial then bump "cases_nontrivial";
      (match !verdict with
       | None -> Printf.printf "V %s %s\n" !cur_id (if !skip then "SKIP timing" else "ok")
       | Some v -> Printf.printf "V %s %s\n" !cur_id v);
      cur_cfg := None in
  (try
     while true do
       let line = input_line ic in
       let t = split_on ' ' line in
       match t with
       | "CASE" :: id :: fl :: pol :: lim :: ttl :: mm :: fwn :: fwd :: _ ->
         cur_id := id;
         let fw = match fwn, fwd with
           | "-", _ | _, "-" -> None
           | n, d -> Some (pos_of_decimal n, pos_of_decimal d) in
         cur_cfg := Some { fl = fl_of fl; pol = pol_of pol; limit = opt_n lim; ttl = opt_n ttl; maxmem = opt_n mm; fw };
         pre := { hits = 0; misses = 0; queue = []; store = [] };
         trace := []; verdict := None; opidx := 0; skip := false; nontrivial := false
       | "O" :: now :: name :: rest ->
         incr opidx;
         let k i = n_of_int (int_of_string (List.nth rest i)) in
         let o = match name with
           | "get" -> Get (k 0)
           | "ins" -> Ins (k 0, k 1, k 2)
           | "insm" -> InsMem (k 0, k 1, k 2)
           | "inserr" -> InsErr (k 0)
           | "clear" -> Clear
           | "inval" -> InvalWith (match rest with [] | ["-"] -> [] | s :: _ -> List.map (fun x -> n_of_int (int_of_string x)) (split_on ',' s))
           | s -> failwith ("op " ^ s) in
         bump ("op_" ^ name);
         pending_op := Some (n_of_int (int_of_string now), o)
       | "R" :: kind :: rest ->
         pending_out := (match kind with
             | "none" -> INone | "some" -> ISome (int_of_string (List.hd rest)) | "unit" -> IUnit
             | _ -> IPanic (String.concat " " rest))
       | "W" :: _ -> skip := true; bump "timing_discards"
       | "S" :: _ ->
         let post = parse_snap line in
         (match !cur_cfg, !pending_op with
          | Some c, Some (now, o) ->
            let pre_st = state_of_snap !pre in
            let post_st = state_of_snap post in
            let iout = !pending_out in
            (match iout with
             | IPanic m -> bump "panics"; set_verdict (Printf.sprintf "PANIC %d %s" !opidx m)
             | _ -> ());
            (* statistics about what the history exercised *)
            let prekeys = List.map fst !pre.store and postkeys = List.map fst post.store in
            let removedk = List.filter (fun x -> not (List.mem x postkeys)) prekeys in
            (match o, iout with
             | Get _, ISome _ -> bump "hits"
             | Get kk, INone -> if List.mem (int_of_n kk) prekeys then (bump "expired_lookups"; nontrivial := true) else bump "plain_misses"
             | (Ins _ | InsMem _), _ ->
               let nrem = List.length removedk in
               if nrem = 1 then (bump "stores_evicting_one"; nontrivial := true)
               else if nrem > 1 then (bump "stores_evicting_many"; nontrivial := true)
               else bump "stores_evicting_none"
             | _ -> ());
            if not !skip && !verdict = None then begin
              (* correspondence: model step from the implementation's pre-state *)
              let candidates =
                (* Random: any queue position; LFU/ARC/TLRU: ties are broken arbitrarily, the
                   model accepts any minimiser named by the choices *)
                if c.pol = Random || c.pol = LFU || c.pol = ARC || c.pol = TLRU then
                  let rem = List.map int_of_n (removed { ob_pre = pre_st; ob_now = now; ob_op = o; ob_out = OUnit; ob_post = post_st }) in
                  let ps = if List.length rem <= 5 then perms rem else [rem] in
                  if c.pol = Random then ps else [] :: ps
                else [[]] in
              let results = List.map (fun ch ->
                  let (s', r) = step c now pre_st o (List.map n_of_int ch) in
                  (snap_of_state s', r)) candidates in
              let out_ok r = (not (List.mem "out" !mask)) ||
                             (match r, iout with
                              | OVal None, INone -> true
                              | OVal (Some v), ISome w -> int_of_n v = w
                              | OUnit, IUnit -> true
                              | _, _ -> false) in
              let ok = List.exists (fun (m, r) -> out_ok r && compare_states m post = None) results in
              if not ok then begin
                let (m, r) = List.hd results in
                let field = if not (out_ok r) then "out" else match compare_states m post with Some f -> f | None -> "?" in
                set_verdict (Printf.sprintf "MISMATCH %d %s model={%s %s} impl={%s %s}" !opidx field
                               (match r with OVal None -> "none" | OVal (Some v) -> "some " ^ string_of_int (int_of_n v) | OUnit -> "unit")
                               (show_snap m) (show_out iout) (show_snap post))
              end
            end;
            let oout = match iout with INone -> OVal None | ISome v -> OVal (Some (n_of_int v)) | IUnit -> OUnit | IPanic _ -> OUnit in
            trace := { ob_pre = pre_st; ob_now = now; ob_op = o; ob_out = oout; ob_post = post_st } :: !trace;
            if !dump then Printf.printf "D %s %d %s\n" !cur_id !opidx (show_snap post);
            pre := post;
            pending_op := None
          | _ -> failwith "S without op")
       | ["END"] -> finish_case ()
       | [] -> ()
       | _ -> failwith ("line: " ^ line)
     done
   with End_of_file -> ());
  Hashtbl.iter (fun k v -> Printf.printf "STAT %s %d\n" k v) stat
