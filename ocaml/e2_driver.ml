(* e2_driver.ml — lockstep replay of macro-level observations (vh-macro) on the extracted
   Wrapper/Registry model (Wrapper.v: call, world_call, invalidations, statistics).
   usage: e2_driver <corpus_table> <obs-file> [--preds p1,p2,..]
   Output: "V <case> ok | MISMATCH <event idx> <what> .. | PANIC .. | SKIP timing | CRASH",
           "F <case> <pred> <event idx> <detail>" for property oracles failing on the
           implementation's own trace, and STAT lines. *)
open Model

let rec pos_of_int i = if i = 1 then XH else if i land 1 = 0 then XO (pos_of_int (i lsr 1)) else XI (pos_of_int (i lsr 1))
let n_of_int i = if i <= 0 then N0 else Npos (pos_of_int i)
let rec int_of_pos = function XH -> 1 | XO p -> 2 * int_of_pos p | XI p -> 2 * int_of_pos p + 1
let int_of_n = function N0 -> 0 | Npos p -> int_of_pos p
let split_on c s = List.filter (fun x -> x <> "") (String.split_on_char c s)
let opt_n s = if s = "-" then None else Some (n_of_int (int_of_string s))

let pol_of = function
  | "fifo" -> FIFO | "lru" -> LRU | "lfu" -> LFU | "arc" -> ARC | "random" -> Random | "tlru" -> TLRU
  | s -> failwith ("policy " ^ s)

(* ---- corpus table ---- *)
type fn = { idx : int; name : string; fl : string; w : wcfg; tags : string list; events : string list; deps : string list }

let names : (string, int) Hashtbl.t = Hashtbl.create 64
let intern s = match Hashtbl.find_opt names s with Some i -> i | None -> let i = Hashtbl.length names + 1 in Hashtbl.add names s i; i

let read_table file =
  let ic = open_in file in
  let fns = ref [] in
  (try while true do
       match split_on ' ' (input_line ic) with
       | "FN" :: idx :: name :: fl :: pol :: lim :: ttl :: mm :: fwn :: fwd :: isres :: cif :: inv :: _kind :: tg :: ev :: dp :: _ ->
         let fw = match fwn, fwd with "-", _ | _, "-" -> None | n, d -> Some (pos_of_int (int_of_string n), pos_of_int (int_of_string d)) in
         let flavour = match fl with "g" -> Global | "t" -> ThreadLocal | "a" -> Async | _ -> failwith "flavour" in
         let c = { fl = flavour; pol = pol_of pol; limit = opt_n lim; ttl = opt_n ttl; maxmem = opt_n mm; fw } in
         let lst s = if s = "-" then [] else split_on ',' s in
         fns := { idx = int_of_string idx; name; fl;
                  w = { w_cfg = c; w_result = isres = "1"; w_cache_if = cif = "1"; w_inval_on = inv = "1" };
                  tags = lst tg; events = lst ev; deps = lst dp } :: !fns
       | _ -> ()
     done with End_of_file -> ());
  close_in ic;
  Array.of_list (List.rev !fns)

let nthreads = 4

(* world layout: one entry per global/async function, nthreads entries per thread-scope function *)
let build_world (fns : fn array) =
  let entries = ref [] and index = Hashtbl.create 64 in
  Array.iter (fun f ->
      let mk thread =
        { ce_id = n_of_int (intern f.name); ce_w = f.w; ce_thread = thread;
          ce_tags = List.map (fun s -> n_of_int (intern s)) f.tags;
          ce_events = List.map (fun s -> n_of_int (intern s)) f.events;
          ce_deps = List.map (fun s -> n_of_int (intern s)) f.deps;
          ce_used = false; ce_st = init } in
      if f.fl = "t" then
        for tid = 0 to nthreads - 1 do
          Hashtbl.add index (f.idx, tid) (List.length !entries);
          entries := !entries @ [mk true]
        done
      else begin
        Hashtbl.add index (f.idx, -1) (List.length !entries);
        entries := !entries @ [mk false]
      end) fns;
  (!entries, index)

let rec nat_of_int i = if i = 0 then O else S (nat_of_int (i - 1))

(* ---- observation records ---- *)
type winst = { wf : int; wtid : int; wq : int list; wstore : (int * (int * int * int)) list; whits : int option; wmisses : int option }

let fst3 (a, _, _) = a
let entry_sizes : (int * int * int, int) Hashtbl.t = Hashtbl.create 256    (* (f, key, enc) -> estimated size *)

let parse_w line =
  match String.split_on_char '|' line with
  | [a; q; st; stats] ->
    let a = split_on ' ' a in
    let wf = int_of_string (List.nth a 1) in
    let wtid = (match List.nth a 2 with "g" -> -1 | s -> int_of_string s) in
    let q = String.trim q and st = String.trim st in
    let wq = if q = "-" then [] else List.map int_of_string (split_on ',' q) in
    let wstore = if st = "-" then [] else
        List.map (fun e -> match List.map int_of_string (split_on ':' e) with
            | [k; v; f; b] -> (k, (v, f, b))
            | [k; v; f; b; sz] -> Hashtbl.replace entry_sizes (wf, k, v) sz; (k, (v, f, b))
            | _ -> failwith ("entry " ^ e)) (split_on ';' st) in
    let whits, wmisses = (match split_on ' ' stats with
        | ["-"; "-"] -> (None, None)
        | [h; m] -> (Some (int_of_string h), Some (int_of_string m))
        | _ -> (None, None)) in
    { wf; wtid; wq; wstore = List.sort compare wstore; whits; wmisses }
  | _ -> failwith ("W line " ^ line)

let inst_of_state (s : state) =
  (List.map int_of_n s.st_queue,
   List.sort compare (List.map (fun (k, e) -> (int_of_n k, (int_of_n e.e_val, int_of_n e.e_freq, int_of_n e.e_born))) s.st_store),
   int_of_n s.st_hits, int_of_n s.st_misses)

let show_inst (q, st, h, m) =
  Printf.sprintf "q=[%s] st=[%s] h=%d m=%d" (String.concat "," (List.map string_of_int q))
    (String.concat ";" (List.map (fun (k, (v, f, b)) -> Printf.sprintf "%d:%d:%d:%d" k v f b) st)) h m

let rec perms = function
  | [] -> [[]]
  | l -> List.concat_map (fun x -> List.map (fun p -> x :: p) (perms (List.filter (fun y -> y <> x) l))) l

let stat : (string, int) Hashtbl.t = Hashtbl.create 64
let bump k = Hashtbl.replace stat k (1 + (try Hashtbl.find stat k with Not_found -> 0))

let preds = ref []
let mask = ref ["ret"; "keys"; "queue"; "vals"; "freq"; "born"; "stats"; "counts"]
let resync = ref true

let () =
  let args = Array.to_list Sys.argv in
  let fns = read_table (List.nth args 1) in
  let file = List.nth args 2 in
  let rec pa = function
    | "--preds" :: v :: r -> preds := split_on ',' v; pa r
    | "--mask" :: v :: r -> mask := split_on ',' v; pa r
    | "--lockstep" :: r -> resync := false; pa r
    | _ :: r -> pa r | [] -> () in
  pa args;
  let ic = open_in file in
  let cur_id = ref "" in
  let world = ref [] and index = ref (Hashtbl.create 1) in
  let verdict = ref None and evidx = ref 0 and skip = ref false in
  let set_verdict v = if !verdict = None then verdict := Some v in
  let fails = ref [] in
  let fail p d = fails := (p, !evidx, d) :: !fails in
  (* pending event *)
  let ev = ref [] and rline = ref [] and ws = ref [] in
  (* property oracles on the implementation's own trace (independent of the model) *)
  let seen_calls : (int * int * int, int) Hashtbl.t = Hashtbl.create 64 in    (* (f, x, tid-or--1) -> executions *)
  let last_body : (int * int * int, int) Hashtbl.t = Hashtbl.create 64 in
  (* the previous event, when it was a call: (event index, f, x, thread, body ran, result to be cached) *)
  let prev_call : (int * int * int * int * bool * bool * int) option ref = ref None in
  let seen_calls_thread : (int * int * int, unit) Hashtbl.t = Hashtbl.create 64 in
  let nontrivial = ref false in
  let inval_seen = ref false in
  let pending_call : (int * int * call_in * (key * res) option) option ref = ref None in   (* f, world index, input, asked_inv *)
  let stored_at : (int * int * int, int) Hashtbl.t = Hashtbl.create 64 in
  (* virtual time of the store that produced the entry now held for (f, instance, key): the entry's birth
     according to the HISTORY, independent of the birth time the implementation keeps *)
  let stored_time : (int * int * int, int) Hashtbl.t = Hashtbl.create 64 in
  let used_at : (int * int * int, int) Hashtbl.t = Hashtbl.create 64 in
  let hits_since : (int * int * int, int) Hashtbl.t = Hashtbl.create 64 in
  let prev_inst : (int * int, winst) Hashtbl.t = Hashtbl.create 64 in       (* last snapshot of every instance *)
  let exp_stats : (int, int * int) Hashtbl.t = Hashtbl.create 64 in          (* f -> hits, misses expected from exec flags *)
  let has p = List.mem p !preds in
  let is_plain (f : fn) = f.w.w_cfg.limit = None && f.w.w_cfg.ttl = None && f.w.w_cfg.maxmem = None
                          && not f.w.w_cache_if && not f.w.w_inval_on && not f.w.w_result in
  let impl_store_decision (f : fn) ok cif =
    if f.fl = "a" then (if f.w.w_cache_if then cif else if f.w.w_result then ok else true)
    else (if f.w.w_cache_if then cif else true) && (if f.w.w_result then ok else true) in
  (* frame oracle: every instance except those in [touched] must be unchanged since the previous event *)
  let check_frame what touched instances =
    List.iter (fun wi ->
        if not (List.mem (wi.wf, wi.wtid) touched) then
          match Hashtbl.find_opt prev_inst (wi.wf, wi.wtid) with
          | Some p when p.wq <> wi.wq || p.wstore <> wi.wstore ->
            fail what (Printf.sprintf "instance f%d/%d changed although the operation does not concern it" wi.wf wi.wtid)
          | _ -> ()) instances in
  let inst_key (f : fn) tid = if f.fl = "t" then tid else -1 in
  let get_entry f tid = List.nth !world (Hashtbl.find !index (f, tid)) in
  let set_world w = world := w in
  let process_event () =
    match !ev with
    | [] -> ()
    | now_s :: kind :: rest ->
      incr evidx;
      let now = n_of_int (int_of_string now_s) in
      bump ("ev_" ^ kind);
      let rl = !rline in
      let instances = List.rev !ws in
      (* ---- run the model ---- *)
      let expect_r = ref "" and got_r = ref (String.concat " " rl) in
      let hasm f = List.mem f !mask in
      let check_instances () =
        (* every observed instance must equal the model's state of that instance, under the field mask *)
        List.iter (fun wi ->
            let e = get_entry wi.wf wi.wtid in
            let (mq, mst, mh, mm) = inst_of_state e.ce_st in
            let keys l = List.map fst l in
            let proj f l = List.map (fun (k, x) -> (k, f x)) l in
            let same_keys = keys mst = keys wi.wstore in
            let diff =
              if hasm "keys" && not same_keys then Some "keys"
              else if hasm "nkeys" && List.length mst <> List.length wi.wstore then Some "nkeys"
              else if hasm "queue" && mq <> wi.wq then Some "queue"
              else if hasm "qset" && List.sort compare mq <> List.sort compare wi.wq then Some "qset"
              else if hasm "vals" && same_keys && proj (fun (v, _, _) -> v) mst <> proj (fun (v, _, _) -> v) wi.wstore then Some "vals"
              else if hasm "freq" && same_keys && proj (fun (_, f, _) -> f) mst <> proj (fun (_, f, _) -> f) wi.wstore then Some "freq"
              else if hasm "born" && same_keys && proj (fun (_, _, b) -> b) mst <> proj (fun (_, _, b) -> b) wi.wstore then Some "born"
              else if hasm "stats" && (match wi.whits, wi.wmisses with Some h, Some m -> (h, m) <> (mh, mm) | _ -> false) then Some "stats"
              else None in
            (match diff with
             | Some fld ->
               let impl = (wi.wq, wi.wstore, (match wi.whits with Some h -> h | None -> mh), (match wi.wmisses with Some m -> m | None -> mm)) in
               set_verdict (Printf.sprintf "MISMATCH %d state(%s) f%d/%d model={%s} impl={%s}" !evidx fld wi.wf wi.wtid
                              (show_inst (mq, mst, mh, mm)) (show_inst impl))
             | None -> ())) instances in
      (* step-wise: the next event starts from the implementation's own state *)
      let resync_instances () =
        if !resync then
          List.iter (fun wi ->
              let widx = Hashtbl.find !index (wi.wf, wi.wtid) in
              let e = List.nth !world widx in
              let st = List.map (fun (k, (v, f, b)) ->
                  let sz = (try Hashtbl.find entry_sizes (wi.wf, k, v) with Not_found ->
                      (match List.find_opt (fun (k', _) -> int_of_n k' = k) e.ce_st.st_store with Some (_, en) -> int_of_n en.e_size | None -> 0)) in
                  (n_of_int k, { e_val = n_of_int v; e_size = n_of_int sz; e_born = n_of_int b; e_freq = n_of_int f })) wi.wstore in
              let (h, m) = (match wi.whits, wi.wmisses with Some h, Some m -> (n_of_int h, n_of_int m) | _ -> (e.ce_st.st_hits, e.ce_st.st_misses)) in
              let s' = { st_store = st; st_queue = List.map n_of_int wi.wq; st_hits = h; st_misses = m } in
              world := List.mapi (fun i x -> if i = widx then { x with ce_used = true; ce_st = s' } else x) !world) instances in
      (match kind with
       | "tag" | "event" | "dep" | "invc" | "invcn" | "invw" | "invwb" | "invall" -> inval_seen := true
       | _ -> ());
      (match kind, rest with
       | "call", f :: x :: tid :: ok :: v :: len :: inv :: cif :: _ ->
         let f = int_of_string f and x = int_of_string x and tid = int_of_string tid in
         let fn = fns.(f) in
         let itid = inst_key fn tid in
         let widx = Hashtbl.find !index (f, itid) in
         let body = if ok = "ok" then ROk (n_of_int (int_of_string v)) else RErr (n_of_int (int_of_string v)) in
         ignore len;
         (* parse R call exec= enc= size= inv= cif= [panic=] *)
         let field name = List.find_map (fun s -> let p = name ^ "=" in
                                          if String.length s > String.length p && String.sub s 0 (String.length p) = p
                                          then Some (String.sub s (String.length p) (String.length s - String.length p)) else None) rl in
         (match field "panic" with
          | Some m -> set_verdict (Printf.sprintf "PANIC %d %s" !evidx m); bump "panics"
          | None -> ());
         let exec = int_of_string (Option.value (field "exec") ~default:"0") in
         let enc_v = int_of_string (Option.value (field "enc") ~default:"0") in
         let size = int_of_string (Option.value (field "size") ~default:"0") in
         let invlog = Option.value (field "inv") ~default:"-" and ciflog = Option.value (field "cif") ~default:"-" in
         (* implementation-side oracles *)
         let key3 = (f, x, itid) in
         if exec > 0 then begin
           Hashtbl.replace seen_calls key3 (exec + (try Hashtbl.find seen_calls key3 with Not_found -> 0));
           Hashtbl.replace last_body key3 (int_of_n (enc body))
         end;
         if exec = 0 then bump "served_from_cache" else bump "body_executions";
         if exec > 1 then fail "exec_twice" (Printf.sprintf "f%d x=%d executed %d times in one call" f x exec);
         (* C01 oracle for pure bodies is done by the caller through --preds pure: returned = body outcome *)
         if List.mem "pure" !preds && field "panic" = None && enc_v <> int_of_n (enc body) then
           fail "pure" (Printf.sprintf "f%d x=%d returned %d but the function's value is %d" f x enc_v (int_of_n (enc body)));
         let this_inst = List.find_opt (fun wi -> wi.wf = f && wi.wtid = itid) instances in
         let stored_after = (match this_inst with Some wi -> List.assoc_opt x wi.wstore | None -> None) in
         let okb = (ok = "ok") and cifb = (cif = "1") and invb = (inv = "1" || inv = "2") in
         if field "panic" = None then begin
           if has "once" && is_plain fn && not !inval_seen then begin
             let first = not (Hashtbl.mem seen_calls (f, x, itid)) || (exec > 0 && Hashtbl.find seen_calls (f, x, itid) = exec) in
             if exec > 0 && not first then fail "once" (Printf.sprintf "f%d x=%d: body ran again although the result was stored before" f x);
             if exec = 0 && first then fail "once" (Printf.sprintf "f%d x=%d: first call was served without running the body" f x)
           end;
           if has "err" && fn.w.w_result && not fn.w.w_cache_if then begin
             if exec = 0 && enc_v land 1 = 1 then fail "err" (Printf.sprintf "f%d x=%d: an Err was served from the cache" f x);
             (match this_inst with
              | Some wi -> List.iter (fun (k, (v, _, _)) -> if v land 1 = 1 then fail "err" (Printf.sprintf "f%d: an Err is stored under key %d" f k)) wi.wstore
              | None -> ())
           end;
           if has "cif" && fn.w.w_cache_if then begin
             let want = if exec > 0 then Printf.sprintf "%d:%d" x (int_of_n (enc body)) else "-" in
             if ciflog <> want then fail "cif" (Printf.sprintf "f%d x=%d: cache_if consultations %s, expected %s" f x ciflog want);
             if exec > 0 && not cifb && not fn.w.w_inval_on && stored_after <> None then
               fail "cif" (Printf.sprintf "f%d x=%d: result rejected by cache_if is stored" f x)
           end;
           if has "inv" && fn.w.w_inval_on then begin
             if exec = 0 && invlog = "-" then fail "inv" (Printf.sprintf "f%d x=%d: cached value served without consulting invalidate_on" f x);
             if invlog <> "-" && invb && exec = 0 then fail "inv" (Printf.sprintf "f%d x=%d: stale entry served" f x);
             if invlog <> "-" && invb && exec > 0 && enc_v <> int_of_n (enc body) then
               fail "inv" (Printf.sprintf "f%d x=%d: the check rejected the cached entry and the body ran, yet the call returned %d instead of the body's result %d" f x enc_v (int_of_n (enc body)));
             if invlog <> "-" && not invb && exec > 0 then fail "inv" (Printf.sprintf "f%d x=%d: fresh entry recomputed" f x);
             let fits = (match fn.w.w_cfg.maxmem with None -> true | Some m -> size <= int_of_n m) in
             let newest_survives = fn.w.w_cfg.maxmem = None || fn.fl = "a" || fn.w.w_cfg.pol = FIFO || fn.w.w_cfg.pol = LRU in
             if invlog <> "-" && invb && exec > 0 && impl_store_decision fn okb cifb && not fits then
               (match stored_after with
                | Some _ -> fail "inv" (Printf.sprintf "f%d x=%d: the stale entry is still stored after a refresh whose result is too large to be cached" f x)
                | None -> ());
             if invlog <> "-" && invb && exec > 0 && impl_store_decision fn okb cifb && fits && newest_survives then
               (match stored_after with
                | Some (v, _, _) when v = int_of_n (enc body) -> ()
                | _ -> fail "inv" (Printf.sprintf "f%d x=%d: fresh result did not replace the stale entry" f x))
           end;
           (* engine-level properties observed through the macro-generated code *)
           let prev = Hashtbl.find_opt prev_inst (f, itid) in
           let prev_store = (match prev with Some p -> p.wstore | None -> []) in
           let post_store = (match this_inst with Some wi -> wi.wstore | None -> []) in
           let gone = List.filter (fun (k, _) -> k <> x && not (List.mem_assoc k post_store)) prev_store in
           let cfgc = fn.w.w_cfg in
           (* "stored and then served": what the store decision of the wrapper (M2) says, observed on the
              implementation.  [settled]: nothing else can remove or refuse the new entry at once — no
              memory pressure on a policy that may pick the newest entry, the value fits *)
           let fits = (match cfgc.maxmem with None -> true | Some m -> size <= int_of_n m) in
           let newest_survives = fn.fl = "a" || cfgc.pol = FIFO || cfgc.pol = LRU || (cfgc.maxmem = None && cfgc.limit = None) in
           let unexpired_before =
             (match List.assoc_opt x prev_store, cfgc.ttl with
              | None, _ -> false
              | Some _, None -> true
              | Some (_, _, born), Some t ->
                let born = (try Hashtbl.find stored_time (f, itid, x) with Not_found -> born) in
                let t = int_of_n t and nowi = int_of_n now in
                (if fn.fl = "a" then nowi / 1000 - born / 1000 else (nowi - born) / 1000) < t) in
           let decision = impl_store_decision fn okb cifb in
           if (has "err" && fn.w.w_result && not fn.w.w_cache_if) || (has "cif" && fn.w.w_cache_if) then begin
             let what = if fn.w.w_cache_if then "cif" else "err" in
             if exec > 0 && decision && fits && newest_survives then
               (match stored_after with
                | Some (v, _, _) when v = int_of_n (enc body) -> ()
                | _ -> fail what (Printf.sprintf "f%d x=%d: a result that is to be cached (%s) is not stored after the call" f x
                                    (if fn.w.w_cache_if then "predicate true" else "Ok")));
             if exec > 0 && (not decision) && not fn.w.w_inval_on then
               (match stored_after with
                | Some (v, _, _) when v = int_of_n (enc body) && not (List.mem_assoc x prev_store && fst3 (List.assoc x prev_store) = v) ->
                  fail what (Printf.sprintf "f%d x=%d: a result that must not be cached (%s) is stored" f x
                               (if fn.w.w_cache_if && not cifb then "predicate false" else "Err"))
                | _ -> ());
             if exec > 0 && unexpired_before && not fn.w.w_inval_on then
               fail what (Printf.sprintf "f%d x=%d: the body ran although an unexpired entry for these arguments was stored" f x);
             (* a call whose result is NOT to be cached leaves the entry stored for its key alone (a stale entry whose
                refresh failed or was rejected stays, and is served again once the check accepts it) *)
             if exec > 0 && (not decision) && unexpired_before && stored_after = None then
               fail what (Printf.sprintf "f%d x=%d: a call whose result is not cached (%s) removed the unexpired entry stored for its key" f x
                            (if fn.w.w_cache_if && not cifb then "predicate false" else "Err"))
           end;
           if has "limit" then begin
             (match cfgc.limit with
              | Some l ->
                let l = int_of_n l in
                if List.length post_store > l then
                  fail "limit" (Printf.sprintf "f%d holds %d entries, limit is %d" f (List.length post_store) l);
                (* entries leave a cache only through a lookup of their own key (expiry), an invalidation or an
                   eviction: during a call for x, keys other than x can only go by eviction, with or without a ttl *)
                if cfgc.maxmem = None then begin
                  let overflow = exec > 0 && List.mem_assoc x post_store && not (List.mem_assoc x prev_store) && List.length prev_store >= l in
                  if overflow && List.length gone <> 1 then
                    fail "limit" (Printf.sprintf "f%d x=%d: overflowing store removed %d entries" f x (List.length gone));
                  if (not overflow) && List.length gone > 0 && List.mem_assoc x post_store then
                    fail "limit" (Printf.sprintf "f%d x=%d: a store that did not overflow removed %d entries" f x (List.length gone))
                end
              | None ->
                if cfgc.maxmem = None && gone <> [] then
                  fail "limit" (Printf.sprintf "f%d x=%d: an entry disappeared from a cache without limits" f x));
             (* structure (the invariant behind the limit theorem): the queue holds every stored key exactly once *)
             (match this_inst with
              | Some wi ->
                let qs = List.sort compare wi.wq and ks = List.sort compare (List.map fst wi.wstore) in
                if qs <> ks then
                  fail "limit" (Printf.sprintf "f%d: the order queue [%s] and the stored keys [%s] disagree" f
                                  (String.concat "," (List.map string_of_int wi.wq)) (String.concat "," (List.map string_of_int ks)))
              | None -> ())
           end;
           if has "mem" then begin
             (match cfgc.maxmem with
              | Some m ->
                let total = List.fold_left (fun acc (k, (v, _, _)) -> acc + (try Hashtbl.find entry_sizes (f, k, v) with Not_found -> 0)) 0 post_store in
                if total > int_of_n m then
                  fail "mem" (Printf.sprintf "f%d: the cached values use %d bytes, max_memory is %d" f total (int_of_n m));
                if exec > 0 && size > int_of_n m && List.mem_assoc x post_store then
                  fail "mem" (Printf.sprintf "f%d x=%d: a value of %d bytes alone exceeds max_memory %d but is cached" f x size (int_of_n m));
                if exec > 0 && size > int_of_n m && gone <> [] then
                  fail "mem" (Printf.sprintf "f%d x=%d: an oversize value displaced %d other entries" f x (List.length gone));
                (* never while it already fits: without limit and ttl, entries other than x disappear on a
                   store only if the survivors plus the new value would not fit *)
                if exec > 0 && size <= int_of_n m && gone <> [] && cfgc.limit = None && cfgc.ttl = None then begin
                  let sz (k, (v, _, _)) = (try Hashtbl.find entry_sizes (f, k, v) with Not_found -> 0) in
                  let others = List.filter (fun (k, _) -> k <> x) prev_store in
                  let before = List.fold_left (fun acc e -> acc + sz e) 0 others in
                  (* whichever entry went last, it was needless if even the largest one could have stayed *)
                  let largest_gone = List.fold_left (fun acc e -> max acc (sz e)) 0 gone in
                  let after = before - List.fold_left (fun acc e -> acc + sz e) 0 gone in
                  if before + size <= int_of_n m then
                    fail "mem" (Printf.sprintf "f%d x=%d: %d entries were evicted although everything fits (%d + %d <= %d)" f x (List.length gone) before size (int_of_n m))
                  else if after + size + largest_gone <= int_of_n m then
                    fail "mem" (Printf.sprintf "f%d x=%d: eviction went on after the total fitted (%d entries gone, %d + %d + %d <= %d)"
                                  f x (List.length gone) after size largest_gone (int_of_n m))
                end
              | None -> ())
           end;
           if has "ttl" then begin
             (match cfgc.ttl, List.assoc_opt x prev_store with
              | Some t, Some (_, _, born) ->
                let born = (try Hashtbl.find stored_time (f, itid, x) with Not_found -> born) in
                let t = int_of_n t and nowi = int_of_n now in
                let age_s = if fn.fl = "a" then nowi / 1000 - born / 1000 else (nowi - born) / 1000 in
                if age_s >= t && exec = 0 then fail "ttl" (Printf.sprintf "f%d x=%d: entry of age %ds served with ttl %d" f x age_s t);
                if age_s < t && exec > 0 && not fn.w.w_inval_on then
                  fail "ttl" (Printf.sprintf "f%d x=%d: entry of age %ds recomputed with ttl %d" f x age_s t);
                (* an expired entry does not survive a lookup of its key: it is gone or replaced by a fresh one *)
                (match List.assoc_opt x prev_store, stored_after with
                 | Some (pv, _, pb), Some (sv, _, sb) when age_s >= t && pv = sv && pb = sb ->
                   fail "ttl" (Printf.sprintf "f%d x=%d: the expired entry (age %ds, ttl %d) is still stored after a lookup of its key" f x age_s t)
                 | _ -> ());
                (* with invalidate_on: an unexpired entry must at least be found and shown to the check *)
                if age_s < t && exec > 0 && fn.w.w_inval_on && invlog = "-" then
                  fail "ttl" (Printf.sprintf "f%d x=%d: entry of age %ds (ttl %d) was not found by the lookup: the check was not consulted and the body ran" f x age_s t)
              | _ -> ())
           end;
           if has "order" && (cfgc.pol = FIFO || cfgc.pol = LRU) && gone <> [] && exec > 0 then begin
             (* stamps from the implementation's own history: last store (FIFO) / last use (LRU) *)
             let stamp k = (try Hashtbl.find (if cfgc.pol = LRU then used_at else stored_at) (f, itid, k) with Not_found -> 0) in
             let surv = List.filter (fun (k, _) -> k <> x) post_store in
             (* expired entries may be dropped first by a lookup; only compare with unexpired survivors *)
             List.iter (fun (r, _) ->
                 List.iter (fun (sv, _) ->
                     if stamp r > stamp sv then
                       fail "order" (Printf.sprintf "f%d: %s evicted key %d although key %d was %s longer ago" f
                                       (if cfgc.pol = LRU then "LRU" else "FIFO") r sv (if cfgc.pol = LRU then "used" else "stored"))) surv) gone
           end;
           if has "score" && exec > 0 && gone <> [] && (match cfgc.pol with LFU | ARC | TLRU -> true | _ -> false)
              && List.length gone = 1 && List.mem_assoc x post_store = (fn.fl = "a" || List.mem_assoc x post_store) then begin
             (* documented score from the implementation's own history: hits since the last store,
                recency rank by last use, remaining lifetime from the birth in the previous snapshot *)
             let hits k = (try Hashtbl.find hits_since (f, itid, k) with Not_found -> 0) in
             let used k = (try Hashtbl.find used_at (f, itid, k) with Not_found -> 0) in
             let cands = List.map fst prev_store in
             let cands = List.filter (fun k -> k <> x) cands in
             let cands = if fn.fl = "a" then cands else x :: cands in        (* sync: the newcomer competes *)
             let hits' k = if k = x && fn.fl <> "a" then 0 else hits k in
             let used' k = if k = x && fn.fl <> "a" then max_int else used k in
             let rank k = 1 + List.length (List.filter (fun k' -> used' k' < used' k) cands) in
             let nowi = int_of_n now in
             let remaining k =
               (match cfgc.ttl with
                | None -> 1
                | Some t ->
                  let t = int_of_n t in
                  let born = if k = x && fn.fl <> "a" then nowi else (match List.assoc_opt k prev_store with Some (_, _, b) -> b | None -> nowi) in
                  if fn.fl = "a" then t - min t (nowi / 1000 - born / 1000) else 1000 * t - min (1000 * t) (nowi - born)) in
             let (wn, wd) = (match cfgc.fw with Some (n, d) -> (int_of_pos n, int_of_pos d) | None -> (1, 1)) in
             let rec pow b e = if e = 0 then 1.0 else b *. pow b (e - 1) in
             let score k =
               (match cfgc.pol with
                | LFU -> float_of_int (hits' k)
                | ARC -> float_of_int (hits' k * rank k)
                | _ -> pow (float_of_int (hits' k)) wn *. pow (float_of_int (rank k * remaining k)) wd) in
             let (victim, _) = List.hd gone in
             let sv = score victim in
             List.iter (fun k ->
                 if score k < sv *. (1.0 -. 1e-9) then
                   fail "score" (Printf.sprintf "f%d: evicted key %d (score %.3g) although key %d has the lower score %.3g" f victim sv k (score k))) cands
           end;
           (* hits since the last store, from the history *)
           (* a lookup that found an unexpired entry is a successful lookup even when invalidate_on then rejects the entry *)
           (if exec = 0 || invlog <> "-" then Hashtbl.replace hits_since (f, itid, x) (1 + (try Hashtbl.find hits_since (f, itid, x) with Not_found -> 0)));
           (if exec > 0 && (match stored_after with Some (v, _, _) -> v = int_of_n (enc body) | None -> false) && impl_store_decision fn okb cifb
            then Hashtbl.replace hits_since (f, itid, x) 0);
           (* update the history stamps *)
           (if exec = 0 then Hashtbl.replace used_at (f, itid, x) !evidx
            else if List.mem_assoc x post_store then begin
              Hashtbl.replace used_at (f, itid, x) !evidx;
              (* a new store stamp and birth only when THIS call's result was stored (a rejected refresh
                 leaves the old entry where it was) *)
              if decision && (match stored_after with Some (v, _, _) -> v = int_of_n (enc body) | None -> false) then begin
                Hashtbl.replace stored_at (f, itid, x) !evidx;
                Hashtbl.replace stored_time (f, itid, x) (int_of_n now) end end);
           if has "iso" then check_frame "iso" [(f, itid)] instances;
           (* sharing / isolation between threads, on two consecutive calls with the same arguments from
              DIFFERENT threads with no time in between: global and async caches serve the second from
              the first one's store; thread-scope caches never do (the first call of a thread for a key
              runs the body) *)
           if has "iso" then begin
             (match !prev_call with
              | Some (pe, pf, px, ptid, pexec, pstored, pnow) when pe = !evidx - 1 && pf = f && px = x && ptid <> tid && pnow = int_of_n now ->
                if fn.fl <> "t" && pexec && pstored && fits && newest_survives && exec > 0 && not fn.w.w_inval_on then
                  fail "iso" (Printf.sprintf "f%d x=%d: thread %d stored the result, the next call (thread %d, same arguments, no time in between) ran the body again: the cache is not shared" f x ptid tid);
                if fn.fl = "t" && exec = 0 && not (Hashtbl.mem seen_calls_thread (f, x, tid)) then
                  fail "iso" (Printf.sprintf "f%d x=%d: the first call of thread %d for these arguments was served without running the body (thread %d had stored the result)" f x tid ptid)
              | _ -> ());
             Hashtbl.replace seen_calls_thread (f, x, tid) ()
           end;
           prev_call := Some (!evidx, f, x, tid, exec > 0, decision, int_of_n now);
           if has "stats" && fn.fl <> "t" then begin
             let (h, m) = (try Hashtbl.find exp_stats f with Not_found -> (0, 0)) in
             (* a hit exactly when an unexpired entry was found: the call was served, or the entry was
                found and shown to invalidate_on (which then judged it stale and the body ran) *)
             let found = exec = 0 || (fn.w.w_inval_on && invlog <> "-") in
             let (h, m) = if found then (h + 1, m) else (h, m + 1) in
             Hashtbl.replace exp_stats f (h, m);
             (match this_inst with
              | Some { whits = Some ih; wmisses = Some im; _ } when (ih, im) <> (h, m) ->
                fail "stats" (Printf.sprintf "f%d: statistics %d/%d, expected %d hits %d misses from the executions seen" f ih im h m)
              | _ -> ())
           end
         end;
         (* choices for the random policy: permutations of the keys that disappeared from this instance *)
         let pre_e = List.nth !world widx in
         let pre_keys = List.map (fun (k, _) -> int_of_n k) pre_e.ce_st.st_store in
         let post_keys = (match List.find_opt (fun wi -> wi.wf = f && wi.wtid = itid) instances with
             | Some wi -> List.map fst wi.wstore | None -> []) in
         let removed = List.filter (fun k -> not (List.mem k post_keys)) (if List.mem x pre_keys then pre_keys else x :: pre_keys) in
         if List.length removed > 0 && exec > 0 then nontrivial := true;
         let scored = (match fn.w.w_cfg.pol with LFU | ARC | TLRU -> true | _ -> false) in
         let cands = if fn.w.w_cfg.pol = Random && List.length removed <= 5 then perms removed
           else if scored && List.length removed <= 5 then [] :: perms removed else [[]] in
         let run ch =
           let ci = { ci_key = n_of_int x; ci_body = body; ci_size = n_of_int size; ci_inv = (inv = "1" || inv = "2"); ci_cif = cif = "1";
                      ci_ch = List.map n_of_int ch } in
           world_call !world (nat_of_int widx) now ci in
         let matches_impl (w', _) =
           match List.find_opt (fun wi -> wi.wf = f && wi.wtid = itid) instances with
           | None -> true
           | Some wi ->
             let e = List.nth w' widx in
             let (mq, mst, _, _) = inst_of_state e.ce_st in
             mq = wi.wq && mst = wi.wstore in
         let results = List.map run cands in
         let (w', co) = (match List.find_opt matches_impl results with Some r -> r | None -> List.hd results) in
         set_world w';
         (match co with
          | None -> set_verdict (Printf.sprintf "MISMATCH %d no-such-instance" !evidx)
          | Some co ->
            let m_exec = if co.co_exec then 1 else 0 in
            let m_enc = int_of_n (enc co.co_ret) in
            let show_asked = function None -> "-" | Some (k, r) -> Printf.sprintf "%d:%d" (int_of_n k) (int_of_n (enc r)) in
            let m_inv = show_asked co.co_inv_asked and m_cif = show_asked co.co_cif_asked in
            expect_r := Printf.sprintf "exec=%d enc=%d inv=%s cif=%s" m_exec m_enc m_inv m_cif;
            if hasm "ret" && field "panic" = None && (m_exec <> exec || m_enc <> enc_v || m_inv <> invlog || m_cif <> ciflog) then
              set_verdict (Printf.sprintf "MISMATCH %d call f%d x=%d model={%s} impl={exec=%d enc=%d inv=%s cif=%s}"
                             !evidx f x !expect_r exec enc_v invlog ciflog))
       | "callA", f :: x :: _tid :: ok :: v :: _len :: inv :: cif :: _ ->
         let f = int_of_string f and x = int_of_string x in
         let fn = fns.(f) in
         let widx = Hashtbl.find !index (f, -1) in
         let body = if ok = "ok" then ROk (n_of_int (int_of_string v)) else RErr (n_of_int (int_of_string v)) in
         let field name = List.find_map (fun s -> let p = name ^ "=" in
                                          if String.length s > String.length p && String.sub s 0 (String.length p) = p
                                          then Some (String.sub s (String.length p) (String.length s - String.length p)) else None) rl in
         let ci = { ci_key = n_of_int x; ci_body = body; ci_size = N0; ci_inv = (inv = "1" || inv = "2"); ci_cif = cif = "1"; ci_ch = [] } in
         ignore fn;
         let (w', res) = world_lookup !world (nat_of_int widx) now ci in
         set_world w';
         let show_asked = function None -> "-" | Some (k, r) -> Printf.sprintf "%d:%d" (int_of_n k) (int_of_n (enc r)) in
         (match res, rl with
          | Some (Some out, a), "callA" :: "done" :: _ ->
            let exp = Printf.sprintf "exec=0 enc=%d inv=%s" (int_of_n (enc out.co_ret)) (show_asked a) in
            let got = Printf.sprintf "exec=%s enc=%s inv=%s" (Option.value (field "exec") ~default:"?") (Option.value (field "enc") ~default:"?") (Option.value (field "inv") ~default:"?") in
            if exp <> got then set_verdict (Printf.sprintf "MISMATCH %d callA f%d x=%d model={served %s} impl={%s}" !evidx f x exp got)
          | Some (None, a), "callA" :: "pending" :: _ ->
            pending_call := Some (f, widx, ci, a);
            bump "suspended_calls";
            if Option.value (field "held") ~default:"0" <> "0" then
              fail "c20" (Printf.sprintf "f%d x=%d: the suspended call holds %s cache lock(s)" f x (Option.value (field "held") ~default:"?"));
            if Option.value (field "exec") ~default:"0" <> "0" then
              fail "c20" (Printf.sprintf "f%d x=%d: the body produced a result before the gate opened" f x);
            (* a lookup removes nothing but an expired entry of its own key *)
            (match List.find_opt (fun wi -> wi.wf = f && wi.wtid = -1) instances, Hashtbl.find_opt prev_inst (f, -1) with
             | Some wi, Some p ->
               let expired_self k = (k = x) && (match fn.w.w_cfg.ttl, List.assoc_opt x p.wstore with
                   | Some t, Some (_, _, born) -> (int_of_n now) / 1000 - born / 1000 >= int_of_n t
                   | _ -> false) in
               List.iter (fun (k, _) ->
                   if not (List.mem_assoc k wi.wstore) && not (expired_self k) then
                     fail "c20" (Printf.sprintf "f%d: the suspended call for x=%d removed the entry of key %d during its lookup" f x k)) p.wstore
             | _ -> ());
            (* ... and it DOES remove its own expired entry: the cache must be as after a plain lookup *)
            (match List.find_opt (fun wi -> wi.wf = f && wi.wtid = -1) instances, Hashtbl.find_opt prev_inst (f, -1) with
             | Some wi, Some p ->
               (match fn.w.w_cfg.ttl, List.assoc_opt x p.wstore with
                | Some t, Some (_, _, born) ->
                  let born = (try Hashtbl.find stored_time (f, -1, x) with Not_found -> born) in
                  if (int_of_n now) / 1000 - born / 1000 >= int_of_n t && List.mem_assoc x wi.wstore then
                    fail "c20" (Printf.sprintf "f%d x=%d: the expired entry is still stored after the lookup of the suspended call" f x)
                | _ -> ())
             | _ -> ());
            if Option.value (field "inv") ~default:"-" <> show_asked a then
              set_verdict (Printf.sprintf "MISMATCH %d callA f%d x=%d invalidate_on log model=%s impl=%s" !evidx f x (show_asked a) (Option.value (field "inv") ~default:"?"))
          | Some (Some _, _), _ -> set_verdict (Printf.sprintf "MISMATCH %d callA f%d x=%d model=served impl=%s" !evidx f x !got_r)
          | Some (None, _), _ -> set_verdict (Printf.sprintf "MISMATCH %d callA f%d x=%d model=suspended-before-body impl=%s" !evidx f x !got_r)
          | None, _ -> set_verdict (Printf.sprintf "MISMATCH %d no-such-instance" !evidx))
       | "callB", _ ->
         (match !pending_call with
          | None -> if rl <> ["callB"; "none"] then set_verdict (Printf.sprintf "MISMATCH %d callB: model has no suspended call, impl=%s" !evidx !got_r)
          | Some _ when rl = ["callB"; "none"] -> set_verdict (Printf.sprintf "MISMATCH %d callB: model has a suspended call, the implementation none" !evidx)
          | Some (f, widx, ci, a) ->
            pending_call := None;
            let field name = List.find_map (fun s -> let p = name ^ "=" in
                                             if String.length s > String.length p && String.sub s 0 (String.length p) = p
                                             then Some (String.sub s (String.length p) (String.length s - String.length p)) else None) rl in
            (match field "panic" with Some m -> set_verdict (Printf.sprintf "PANIC %d %s" !evidx m) | None -> ());
            let size = int_of_string (Option.value (field "size") ~default:"0") in
            let fn = fns.(f) in
            let x = int_of_n ci.ci_key in
            let pre_e = List.nth !world widx in
            let pre_keys = List.map (fun (k, _) -> int_of_n k) pre_e.ce_st.st_store in
            let post_keys = (match List.find_opt (fun wi -> wi.wf = f && wi.wtid = -1) instances with
                | Some wi -> List.map fst wi.wstore | None -> []) in
            let removed = List.filter (fun k -> not (List.mem k post_keys)) (if List.mem x pre_keys then pre_keys else x :: pre_keys) in
            let scored = (match fn.w.w_cfg.pol with LFU | ARC | TLRU -> true | _ -> false) in
            let cands = if fn.w.w_cfg.pol = Random && List.length removed <= 5 then perms removed
              else if scored && List.length removed <= 5 then [] :: perms removed else [[]] in
            let run ch = world_finish !world (nat_of_int widx) now { ci with ci_size = n_of_int size; ci_ch = List.map n_of_int ch } a in
            let matches_impl (w', _) =
              match List.find_opt (fun wi -> wi.wf = f && wi.wtid = -1) instances with
              | None -> true
              | Some wi -> let e = List.nth w' widx in let (mq, mst, _, _) = inst_of_state e.ce_st in mq = wi.wq && mst = wi.wstore in
            let results = List.map run cands in
            let (w', co) = (match List.find_opt matches_impl results with Some r -> r | None -> List.hd results) in
            set_world w';
            nontrivial := true; bump "resumed_calls";
            (match co with
             | None -> set_verdict (Printf.sprintf "MISMATCH %d no-such-instance" !evidx)
             | Some co ->
               let show_asked = function None -> "-" | Some (k, r) -> Printf.sprintf "%d:%d" (int_of_n k) (int_of_n (enc r)) in
               let exp = Printf.sprintf "exec=1 enc=%d inv=%s cif=%s" (int_of_n (enc co.co_ret)) (show_asked co.co_inv_asked) (show_asked co.co_cif_asked) in
               let got = Printf.sprintf "exec=%s enc=%s inv=%s cif=%s" (Option.value (field "exec") ~default:"?") (Option.value (field "enc") ~default:"?")
                   (Option.value (field "inv") ~default:"?") (Option.value (field "cif") ~default:"?") in
               if field "panic" = None && exp <> got then
                 set_verdict (Printf.sprintf "MISMATCH %d callB f%d x=%d model={%s} impl={%s}" !evidx f x exp got);
               (* C10: a resumed call has executed its body, so cache_if is consulted exactly once, with this call's
                  key and result, whatever other calls stored for the key while it was suspended *)
               if has "cif" && fn.w.w_cache_if && field "panic" = None then begin
                 let want = Printf.sprintf "%d:%d" x (int_of_n (enc ci.ci_body)) in
                 let gotc = Option.value (field "cif") ~default:"?" in
                 if gotc <> want then
                   fail "cif" (Printf.sprintf "f%d x=%d: the resumed call ran its body; cache_if consultations %s, expected %s" f x gotc want)
               end;
               if has "c20" && field "panic" = None then
                 (match List.find_opt (fun wi -> wi.wf = f && wi.wtid = -1) instances with
                  | Some wi -> (match List.assoc_opt x wi.wstore with
                      | Some (v, _, born) when v = int_of_n (enc ci.ci_body) && born <> (int_of_n now / 1000) * 1000 ->
                        fail "c20" (Printf.sprintf "f%d x=%d: the entry stored by the resumed call is born at %d ms, the call resumed at %d ms" f x born (int_of_n now))
                      | _ -> ())
                  | None -> ());
               (* history stamps: the resumed call's store is a store like any other *)
               (match List.find_opt (fun wi -> wi.wf = f && wi.wtid = -1) instances with
                | Some wi -> (match List.assoc_opt x wi.wstore with
                    | Some (v, _, _) when v = int_of_n (enc ci.ci_body) ->
                      Hashtbl.replace stored_at (f, -1, x) !evidx; Hashtbl.replace used_at (f, -1, x) !evidx;
                      Hashtbl.replace stored_time (f, -1, x) (int_of_n now)
                    | _ -> ())
                | None -> ());
               (* a resumed store that REPLACES an entry (another call stored the key meanwhile) evicts nothing;
                  the queue holds every stored key once; a result too large to be cached leaves no entry for its key *)
               if has "c20" && field "panic" = None then begin
                 (match List.find_opt (fun wi -> wi.wf = f && wi.wtid = -1) instances, Hashtbl.find_opt prev_inst (f, -1) with
                  | Some wi, Some p ->
                    let okb = (match ci.ci_body with ROk _ -> true | RErr _ -> false) in
                    let fits = (match fn.w.w_cfg.maxmem with None -> true | Some m -> size <= int_of_n m) in
                    let gone = List.filter (fun (k, _) -> k <> x && not (List.mem_assoc k wi.wstore)) p.wstore in
                    (match fn.w.w_cfg.maxmem with
                     | Some m when List.mem_assoc x p.wstore && gone <> [] && fits ->
                       let sz (k, (v, _, _)) = (try Hashtbl.find entry_sizes (f, k, v) with Not_found -> 0) in
                       let others = List.fold_left (fun acc e -> acc + sz e) 0 (List.filter (fun (k, _) -> k <> x) p.wstore) in
                       if others + size <= int_of_n m && (match fn.w.w_cfg.limit with Some l -> List.length p.wstore <= int_of_n l | None -> true) then
                         fail "c20" (Printf.sprintf "f%d x=%d: the resumed call only replaced the entry of its key and everything fits (%d + %d <= %d), yet %d other entries were evicted"
                                       f x others size (int_of_n m) (List.length gone))
                     | _ -> ());
                    if List.mem_assoc x p.wstore && fn.w.w_cfg.maxmem = None && gone <> [] then
                      fail "c20" (Printf.sprintf "f%d x=%d: the resumed call only replaced the entry of its key, yet %d other entries were evicted" f x (List.length gone));
                    if List.sort compare wi.wq <> List.sort compare (List.map fst wi.wstore) then
                      fail "c20" (Printf.sprintf "f%d: after the resumed call the order queue [%s] and the stored keys disagree" f
                                    (String.concat "," (List.map string_of_int wi.wq)));
                    (* a resumed call whose result is not to be cached leaves alone whatever is stored for its key now
                       (another call may have stored a fresh value during the suspension) *)
                    if (not (impl_store_decision fn okb ci.ci_cif)) && List.mem_assoc x p.wstore && not (List.mem_assoc x wi.wstore) then
                      fail "c20" (Printf.sprintf "f%d x=%d: the resumed call's result is not cached (%s), yet the entry stored for its key meanwhile is gone"
                                    f x (if okb then "predicate false" else "Err"));
                    if impl_store_decision fn okb ci.ci_cif && (not fits) && List.mem_assoc x wi.wstore then
                      fail "c20" (Printf.sprintf "f%d x=%d: the resumed call's result is too large to be cached, yet an entry for its key is still stored" f x)
                  | _ -> ())
               end;
               (* "if the call is resumed later it stores its result normally": a result the store decision
                  accepts and that fits is afterwards THE entry of its key — this value, born now, at the back
                  of the queue (the async engine evicts before it inserts, so nothing can remove it at once) *)
               if has "c20" && field "panic" = None then begin
                 let okb = (match ci.ci_body with ROk _ -> true | RErr _ -> false) in
                 let fits = (match fn.w.w_cfg.maxmem with None -> true | Some m -> size <= int_of_n m) in
                 if impl_store_decision fn okb ci.ci_cif && fits then
                   (match List.find_opt (fun wi -> wi.wf = f && wi.wtid = -1) instances with
                    | Some wi ->
                      (match List.assoc_opt x wi.wstore with
                       | Some (v, _, born) when v = int_of_n (enc ci.ci_body) && born = (int_of_n now / 1000) * 1000 ->
                         if (match List.rev wi.wq with last :: _ -> last <> x | [] -> true) then
                           fail "c20" (Printf.sprintf "f%d x=%d: the resumed call did not move its key to the back of the order queue %s" f x
                                         (String.concat "," (List.map string_of_int wi.wq)))
                       | Some (v, _, born) ->
                         fail "c20" (Printf.sprintf "f%d x=%d: after the resumed call the entry holds %d born at %d ms; the call's result is %d and it resumed at %d ms (nothing was stored)"
                                       f x v born (int_of_n (enc ci.ci_body)) (int_of_n now))
                       | None -> fail "c20" (Printf.sprintf "f%d x=%d: the resumed call stored nothing" f x))
                    | None -> ())
               end;
               if has "c20" && field "panic" = None && Option.value (field "enc") ~default:"" <> string_of_int (int_of_n (enc ci.ci_body)) then
                 fail "c20" (Printf.sprintf "f%d x=%d: the resumed call returned %s, its body's result is %d" f x (Option.value (field "enc") ~default:"?") (int_of_n (enc ci.ci_body)))))
       | "callD", _ ->
         (match !pending_call with
          | Some (f, _, ci, _) ->
            pending_call := None; nontrivial := true; bump "dropped_calls";
            (* implementation-side oracle: a dropped call leaves no entry for a result it never produced *)
            if has "c20" then
              (match List.find_opt (fun wi -> wi.wf = f && wi.wtid = -1) instances, Hashtbl.find_opt prev_inst (f, -1) with
               | Some wi, Some p when wi.wstore <> p.wstore || wi.wq <> p.wq ->
                 fail "c20" (Printf.sprintf "f%d: dropping the suspended call for x=%d changed the cache" f (int_of_n ci.ci_key))
               | _ -> ())
          | None -> if rl <> ["callD"; "none"] then set_verdict (Printf.sprintf "MISMATCH %d callD: model has no suspended call, impl=%s" !evidx !got_r))
       | ("tag" | "event" | "dep"), name :: _ ->
         let t = (match kind with "tag" -> ByTag | "event" -> ByEvent | _ -> ByDep) in
         let (w', n) = invalidate_by t (n_of_int (intern name)) !world in
         set_world w';
         (* oracle from the corpus table and what the implementation has used so far *)
         let matching = List.filter (fun wi -> wi.wtid = -1 &&
                                                (let fn = fns.(wi.wf) in
                                                 (fn.tags <> [] || fn.events <> [] || fn.deps <> []) &&
                                                 List.mem name (match kind with "tag" -> fn.tags | "event" -> fn.events | _ -> fn.deps))) instances in
         if has "tags" then begin
           List.iter (fun wi -> if wi.wq <> [] || wi.wstore <> [] then
                         fail "tags" (Printf.sprintf "cache f%d declares %s %s but still holds entries" wi.wf kind name)) matching;
           if rl <> ["count"; string_of_int (List.length matching)] then
             fail "tags" (Printf.sprintf "%s %s returned %s, %d used caches declare it" kind name !got_r (List.length matching))
         end;
         if has "frame" then check_frame "frame" (List.map (fun wi -> (wi.wf, wi.wtid)) matching) instances;
         if int_of_n n > 0 then nontrivial := true;
         if hasm "counts" && rl <> ["count"; string_of_int (int_of_n n)] then
           set_verdict (Printf.sprintf "MISMATCH %d %s %s model=count %d impl=%s" !evidx kind name (int_of_n n) !got_r)
       | "invc", f :: _ ->
         let (w', b) = invalidate_cache (n_of_int (intern fns.(int_of_string f).name)) !world in
         set_world w';
         if has "tags" then begin
           (* by name: true exactly when this global/async cache has been used and declares a tag, event or dependency
              (only then does it register a clear callback); afterwards it holds nothing *)
           let fi = int_of_string f in
           let fn = fns.(fi) in
           let used = List.exists (fun wi -> wi.wf = fi && wi.wtid = -1) instances || Hashtbl.mem prev_inst (fi, -1) in
           let want = used && fn.fl <> "t" && (fn.tags <> [] || fn.events <> [] || fn.deps <> []) in
           (* several functions may share one name attribute; then the model's answer stands *)
           let unique_name = Array.to_list fns |> List.filter (fun g -> g.name = fn.name) |> List.length = 1 in
           if unique_name && rl <> ["bool"; (if want then "1" else "0")] then
             fail "tags" (Printf.sprintf "invalidate_cache(%s) returned %s; the cache %s" fn.name !got_r
                            (if want then "has been used and declares a label, so it is registered under its name" else "is not registered"));
           if unique_name && want then
             List.iter (fun wi -> if wi.wf = fi && wi.wtid = -1 && (wi.wq <> [] || wi.wstore <> []) then
                           fail "tags" (Printf.sprintf "invalidate_cache(%s) returned but f%d still holds entries" fn.name fi)) instances
         end;
         if rl <> ["bool"; (if b then "1" else "0")] then
           set_verdict (Printf.sprintf "MISMATCH %d invc f%s model=%b impl=%s" !evidx f b !got_r)
       | "invcn", name :: _ ->
         let (w', b) = invalidate_cache (n_of_int (intern name)) !world in
         set_world w';
         (* caches that do not carry this NAME keep every entry (the identifier of a function whose cache has
            another name is not a cache name) *)
         if has "frame" || has "tags" then begin
           let touched = List.filter_map (fun wi -> if wi.wtid = -1 && fns.(wi.wf).name = name then Some (wi.wf, wi.wtid) else None) instances in
           check_frame (if has "frame" then "frame" else "tags") touched instances
         end;
         if rl <> ["bool"; (if b then "1" else "0")] then
           set_verdict (Printf.sprintf "MISMATCH %d invcn %s model=%b impl=%s" !evidx name b !got_r)
       | "invw", f :: xs :: _ ->
         let ks = if xs = "-" then [] else List.map (fun s -> n_of_int (int_of_string s)) (split_on ',' xs) in
         let (w', b) = invalidate_with (n_of_int (intern fns.(int_of_string f).name)) ks !world in
         set_world w'; nontrivial := true;
         if has "frame" then begin
           let fi = int_of_string f in
           check_frame "frame" [(fi, -1)] instances;
           let xs' = List.map int_of_n ks in
           (match List.find_opt (fun wi -> wi.wf = fi && wi.wtid = -1) instances, Hashtbl.find_opt prev_inst (fi, -1) with
            | Some wi, Some p ->
              if wi.wstore <> List.filter (fun (k, _) -> not (List.mem k xs')) p.wstore then
                fail "frame" (Printf.sprintf "invalidate_with on f%d did not remove exactly the matching entries" fi);
              if wi.wq <> List.filter (fun k -> not (List.mem k xs')) p.wq then
                fail "frame" (Printf.sprintf "invalidate_with on f%d left the order queue inconsistent" fi)
            | _ -> ())
         end;
         if rl <> ["bool"; (if b then "1" else "0")] then
           set_verdict (Printf.sprintf "MISMATCH %d invw f%s model=%b impl=%s" !evidx f b !got_r)
       | "invwb", f :: k :: _ ->
         (* a budgeted predicate: which keys it accepts depends on the order in which the cache shows them;
            the model removes the keys that disappeared from the implementation's store, so any disagreement
            between store and queue shows in the comparison; the oracle: at most K entries went, and only
            from this cache *)
         let fi = int_of_string f and budget = int_of_string k in
         let gone = (match List.find_opt (fun wi -> wi.wf = fi && wi.wtid = -1) instances, Hashtbl.find_opt prev_inst (fi, -1) with
             | Some wi, Some p -> List.filter (fun (kk, _) -> not (List.mem_assoc kk wi.wstore)) p.wstore
             | _ -> []) in
         let (w', b) = invalidate_with (n_of_int (intern fns.(fi).name)) (List.map (fun (kk, _) -> n_of_int kk) gone) !world in
         set_world w'; nontrivial := true;
         if has "frame" || has "limit" then begin
           check_frame (if has "frame" then "frame" else "limit") [(fi, -1)] instances;
           if List.length gone > budget then
             fail (if has "frame" then "frame" else "limit") (Printf.sprintf "invalidate_with on f%d removed %d entries, its predicate accepted at most %d keys" fi (List.length gone) budget)
         end;
         if rl <> ["bool"; (if b then "1" else "0")] then
           set_verdict (Printf.sprintf "MISMATCH %d invwb f%s model=%b impl=%s" !evidx f b !got_r)
       | "invwn", name :: _ ->
         let (w', b) = invalidate_with (n_of_int (intern name)) [] !world in
         set_world w';
         if has "frame" || has "tags" then begin
           let touched = List.filter_map (fun wi -> if wi.wtid = -1 && fns.(wi.wf).name = name then Some (wi.wf, wi.wtid) else None) instances in
           check_frame (if has "frame" then "frame" else "tags") touched instances
         end;
         if rl <> ["bool"; (if b then "1" else "0")] then
           set_verdict (Printf.sprintf "MISMATCH %d invwn %s model=%b impl=%s" !evidx name b !got_r)
       | "invall", sel :: _ ->
         let table = if sel = "-" then [] else
             List.map (fun part -> match String.split_on_char ':' part with
                 | [fs; xs] -> (intern fns.(int_of_string fs).name, List.map (fun s -> n_of_int (int_of_string s)) (split_on ',' xs))
                 | _ -> failwith "invall") (split_on ';' sel) in
         let ksel id = List.concat (List.filter_map (fun (n, ks) -> if n = int_of_n id then Some ks else None) table) in
         let (w', n) = invalidate_all_with ksel !world in
         set_world w'; nontrivial := true;
         if has "frame" then
           (* per cache name: exactly the selected keys of THAT cache go (store and queue), everything else stays;
              thread-scope instances are never touched *)
           List.iter (fun wi ->
               match Hashtbl.find_opt prev_inst (wi.wf, wi.wtid) with
               | Some p ->
                 let sel_here = if wi.wtid <> -1 then [] else List.map int_of_n (ksel (n_of_int (intern fns.(wi.wf).name))) in
                 let want_store = List.filter (fun (k, _) -> not (List.mem k sel_here)) p.wstore in
                 let want_q = List.filter (fun k -> not (List.mem k sel_here)) p.wq in
                 if wi.wstore <> want_store then
                   fail "frame" (Printf.sprintf "invalidate_all_with: f%d/%d does not hold exactly the entries its own predicate verdicts leave (selected here: [%s])"
                                   wi.wf wi.wtid (String.concat "," (List.map string_of_int sel_here)))
                 else if wi.wq <> want_q then
                   fail "frame" (Printf.sprintf "invalidate_all_with: the order queue of f%d/%d is not the old one without the removed keys" wi.wf wi.wtid)
               | None -> ()) instances;
         if rl <> ["count"; string_of_int (int_of_n n)] then
           set_verdict (Printf.sprintf "MISMATCH %d invall model=count %d impl=%s" !evidx (int_of_n n) !got_r)
       | ("sget" | "sgetn"), a :: _ ->
         let id = if kind = "sget" then intern fns.(int_of_string a).name else intern a in
         let exp = (match stats_get (n_of_int id) !world with
             | Some (h, m) -> ["stats"; string_of_int (int_of_n h); string_of_int (int_of_n m)]
             | None -> ["stats"; "none"]) in
         if rl <> exp then set_verdict (Printf.sprintf "MISMATCH %d %s %s model=%s impl=%s" !evidx kind a (String.concat " " exp) !got_r);
         if has "stats" && kind = "sget" then begin
           let fi = int_of_string a in
           if fns.(fi).fl <> "t" && Hashtbl.mem prev_inst (fi, -1) && rl = ["stats"; "none"] then
             fail "stats" (Printf.sprintf "statistics of f%d are not retrievable under its cache name %s" fi fns.(fi).name);
           (match rl, Hashtbl.find_opt exp_stats fi with
            | ["stats"; h; m], Some (eh, em) when not fns.(fi).w.w_inval_on && (int_of_string h, int_of_string m) <> (eh, em) ->
              fail "stats" (Printf.sprintf "stats_registry::get for f%d returned %s/%s, expected %d/%d" fi h m eh em)
            | _ -> ())
         end
       | "sreset", f :: _ ->
         let (w', b) = stats_reset (n_of_int (intern fns.(int_of_string f).name)) !world in
         set_world w';
         if has "stats" then begin
           let fi = int_of_string f in
           if Hashtbl.mem prev_inst (fi, -1) then Hashtbl.replace exp_stats fi (0, 0);
           List.iter (fun wi -> if wi.wtid = -1 && not fns.(wi.wf).w.w_inval_on then
                         match Hashtbl.find_opt exp_stats wi.wf, wi.whits, wi.wmisses with
                         | Some (h, m), Some ih, Some im when (h, m) <> (ih, im) ->
                           fail "stats" (Printf.sprintf "after reset of f%d the statistics of f%d are %d/%d, expected %d/%d" fi wi.wf ih im h m)
                         | _ -> ()) instances
         end;
         if rl <> ["bool"; (if b then "1" else "0")] then
           set_verdict (Printf.sprintf "MISMATCH %d sreset f%s model=%b impl=%s" !evidx f b !got_r)
       | "nop", _ -> ()
       | "rsleep", _ -> ()
       | _ -> failwith ("event " ^ kind));
      if !verdict = None then check_instances ();
      resync_instances ();
      List.iter (fun wi -> Hashtbl.replace prev_inst (wi.wf, wi.wtid) wi) instances;
      ev := []; rline := []; ws := []
    | _ -> () in
  (try
     while true do
       let line = input_line ic in
       match split_on ' ' line with
       | "CASE" :: id :: _ ->
         cur_id := id;
         Hashtbl.reset names;
         let (w, ix) = build_world fns in
         world := w; index := ix; verdict := None; evidx := 0; skip := false; fails := [];
         Hashtbl.reset seen_calls; Hashtbl.reset last_body; Hashtbl.reset seen_calls_thread; prev_call := None; nontrivial := false;
         Hashtbl.reset prev_inst; Hashtbl.reset exp_stats; inval_seen := false; pending_call := None; Hashtbl.reset stored_at; Hashtbl.reset stored_time; Hashtbl.reset used_at; Hashtbl.reset hits_since;
         ev := []; rline := []; ws := []
       | "E" :: rest -> ev := rest
       | "R" :: rest -> rline := (match rest with "call" :: r -> r | r -> r)
       | "W" :: _ -> ws := parse_w line :: !ws
       | "T" :: _ -> skip := true; bump "timing_discards"
       | "X" :: "blocked" :: _ ->
         set_verdict "BLOCKED"; fails := ("c20", !evidx + 1, "an operation did not return while a call was suspended (or ever)") :: !fails
       | "X" :: _ -> set_verdict "CRASH"
       | ["Z"] -> if not !skip then process_event () else (ev := []; rline := []; ws := [])
       | ["END"] ->
         bump "cases";
         if !nontrivial then bump "cases_nontrivial";
         List.iter (fun (p, i, d) -> Printf.printf "F %s %s %d %s\n" !cur_id p i d) (List.rev !fails);
         (match !verdict with
          | None -> Printf.printf "V %s %s\n" !cur_id (if !skip then "SKIP timing" else "ok")
          | Some v -> Printf.printf "V %s %s\n" !cur_id v)
       | [] -> ()
       | _ -> ()
     done
   with End_of_file -> ());
  Hashtbl.iter (fun k v -> Printf.printf "STAT %s %d\n" k v) stat
