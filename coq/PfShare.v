(* PfShare.v — the concurrent clause of C03 for the sync global cache, in the abstract concurrent
   model (ConcModel): "when several callers miss concurrently the body may run once per such
   caller, but never again once any call that stored the result has returned".

   The premise of C03 is a cache with no limit, ttl, memory bound, predicate or invalidation.  Its
   critical sections are then only: section 1 of a store (map insert: an atomic REPLACE, the key
   is never absent in between), section 2 of a store (queue update; nothing to evict), and the
   recency update of a hit.  [pstep] is that sub-system; [pstep_is_cstep] shows it is exactly the
   corresponding part of [cstep] with limit = None.  Once a key is stored it stays stored, with the
   function's value, whatever the other threads do: every later lookup is a hit.
   (The defect D8 was the async engine violating exactly this: its store REMOVED the entry and
   inserted it again a few statements later.) *)
From CL Require Import ConcModel PfConc.
From Coq Require Import Lia.
Open Scope N_scope.

Inductive pstep (f : key -> N) : cstate -> cstate -> Prop :=
| P_store1 : forall s t k,
    (forall k', ~ In (t, k') (c_pending s)) ->
    pstep f s (mkC (vset k (f k) (c_store s)) (c_queue s) ((t, k) :: c_pending s))
| P_store2 : forall s t k,
    In (t, k) (c_pending s) ->
    pstep f s (mkC (c_store s) (push_back k (remove_first k (c_queue s))) (remove_pending t k (c_pending s)))
| P_touch : forall s k,
    pstep f s (mkC (c_store s) (move_to_end k (c_queue s)) (c_pending s)).

Inductive psteps (f : key -> N) : cstate -> cstate -> Prop :=
| ps_refl : forall s, psteps f s s
| ps_step : forall s1 s2 s3, pstep f s1 s2 -> psteps f s2 s3 -> psteps f s1 s3.

Theorem pstep_is_cstep : forall pc f s s', pstep f s s' -> cstep None pc f s s'.
Proof.
  intros pc f s s' H. destruct H as [s t k Hfree | s t k Hin | s k].
  - apply C_store1. exact Hfree.
  - eapply (C_store2 None pc f s t k (c_store s) (push_back k (remove_first k (c_queue s)))).
    + exact Hin.
    + apply evs_nil.
    + cbn [over]. split; reflexivity.
  - apply C_touch.
Qed.

Lemma pstep_keeps : forall f s s' k,
    pstep f s s' -> vlookup k (c_store s) = Some (f k) -> vlookup k (c_store s') = Some (f k).
Proof.
  intros f s s' k H Hk. destruct H as [s t k0 Hfree | s t k0 Hin | s k0]; cbn [c_store].
  - destruct (N.eq_dec k k0) as [E|E].
    + subst k0. apply vlookup_vset_eq.
    + rewrite vlookup_vset_neq; assumption.
  - exact Hk.
  - exact Hk.
Qed.

(* once stored (section 1 of ANY thread's store has run), always found, with the function's value *)
Theorem stored_stays_stored : forall f s s' k,
    psteps f s s' -> vlookup k (c_store s) = Some (f k) -> vlookup k (c_store s') = Some (f k).
Proof.
  intros f s s' k H. induction H as [s | s1 s2 s3 H1 _ IH]; intro Hk.
  - exact Hk.
  - apply IH. eapply pstep_keeps; eassumption.
Qed.

(* the store itself makes the key found; so after ANY caller's section 1, every later lookup by
   anybody hits, however the remaining sections of all threads interleave *)
Theorem after_a_store_every_lookup_hits : forall f s t k s1 s',
    s1 = mkC (vset k (f k) (c_store s)) (c_queue s) ((t, k) :: c_pending s) ->
    psteps f s1 s' -> vmem k (c_store s') = true /\ vlookup k (c_store s') = Some (f k).
Proof.
  intros f s t k s1 s' E H.
  assert (Hk : vlookup k (c_store s') = Some (f k)).
  { eapply stored_stays_stored; [exact H|]. subst s1. cbn [c_store]. apply vlookup_vset_eq. }
  split; [|exact Hk]. unfold vmem. rewrite Hk. reflexivity.
Qed.

Print Assumptions pstep_is_cstep.
Print Assumptions stored_stays_stored.
Print Assumptions after_a_store_every_lookup_hits.
