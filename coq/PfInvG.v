(* PfInvG.v — the ghost invariant InvG: every stored entry agrees with the ghost record
   recomputed from the history (value, birth time, hit counter, stamps below the index).
   Established by [init] and preserved by every step of the model. *)
From CL Require Export PfInvA Lift.
From Coq Require Import Lia.
Open Scope N_scope.

Arguments N.add : simpl never.
Arguments N.sub : simpl never.
Arguments N.mul : simpl never.
Arguments N.div : simpl never.
Arguments N.eqb : simpl never.
Arguments N.ltb : simpl never.
Arguments N.leb : simpl never.
Arguments N.pow : simpl never.

(* ------------------------------------------------------------------ *)
(** * The ghost association list *)

Lemma glookup_gremove_eq : forall k g, glookup k (gremove k g) = None.
Proof.
  intros k g. induction g as [|[k' i] g IH]; cbn [gremove glookup]; [reflexivity|].
  destruct (N.eqb k k') eqn:E; [exact IH|]. cbn [glookup]. rewrite E. exact IH.
Qed.

Lemma glookup_gremove_neq : forall x k g, x <> k -> glookup x (gremove k g) = glookup x g.
Proof.
  intros x k g Hne. induction g as [|[k' i] g IH]; cbn [gremove glookup]; [reflexivity|].
  destruct (N.eqb_spec k k') as [E|E].
  - subst k'. destruct (N.eqb_spec x k) as [E'|E']; [contradiction|exact IH].
  - cbn [glookup]. rewrite IH. reflexivity.
Qed.

Lemma glookup_gset_eq : forall k i g, glookup k (gset k i g) = Some i.
Proof. intros. unfold gset. cbn [glookup]. rewrite N.eqb_refl. reflexivity. Qed.

Lemma glookup_gset_neq : forall x k i g, x <> k -> glookup x (gset k i g) = glookup x g.
Proof.
  intros x k i g H. unfold gset. cbn [glookup].
  destruct (N.eqb_spec x k) as [E|E]; [contradiction|]. apply glookup_gremove_neq. exact H.
Qed.

(* ------------------------------------------------------------------ *)
(** * InvG on a bare store *)

(* what InvG says about one entry *)
Definition agrees (c : cfg) (idx : N) (e : entry) (i : ginfo) : Prop :=
  e_val e = g_val i /\
  e_born e = g_born i /\
  e_freq e = (if counts_hits (pol c) then g_hits i else 0) /\
  g_stored i < idx /\ g_used i < idx /\ g_stored i <= g_used i.

Definition GI (c : cfg) (idx : N) (m : store) (g : ghost) : Prop :=
  forall k e, lookup k m = Some e -> exists i, glookup k g = Some i /\ agrees c idx e i.

Lemma InvG_GI : forall c idx s g, InvG c idx s g <-> GI c idx (st_store s) g.
Proof. intros. unfold InvG, GI, agrees. tauto. Qed.

Lemma agrees_mono : forall c idx idx' e i, idx <= idx' -> agrees c idx e i -> agrees c idx' e i.
Proof.
  intros c idx idx' e i Hle (H1 & H2 & H3 & H4 & H5 & H6).
  unfold agrees. repeat split; try assumption; lia.
Qed.

(* a store all of whose entries were already there, with the same ghost *)
Lemma GI_sub : forall c idx idx' m m' g,
    (forall k e, lookup k m' = Some e -> lookup k m = Some e) ->
    idx <= idx' -> GI c idx m g -> GI c idx' m' g.
Proof.
  intros c idx idx' m m' g Hsub Hle HG k e Hl.
  destruct (HG k e (Hsub k e Hl)) as (i & Hi & Ha).
  exists i. split; [exact Hi|]. apply (agrees_mono c idx idx'); assumption.
Qed.

Lemma Shrunk_sub : forall m q m' q' k e,
    Shrunk m q m' q' -> lookup k m' = Some e -> lookup k m = Some e.
Proof.
  intros m q m' q' k e Hsh Hl.
  rewrite <- (Shrunk_lookup _ _ _ _ k Hsh); [exact Hl|].
  apply (lookup_Some_In k m' e). exact Hl.
Qed.

Lemma sremove_sub : forall v m k e, lookup k (sremove v m) = Some e -> lookup k m = Some e.
Proof.
  intros v m k e Hl. destruct (N.eq_dec k v) as [E|E].
  - subst k. rewrite lookup_sremove_eq in Hl. discriminate.
  - rewrite lookup_sremove_neq in Hl by exact E. exact Hl.
Qed.

(* a store: the key gets a fresh entry and a fresh ghost record, other entries are old *)
Lemma GI_store : forall c idx now k v sz m m' g,
    (forall x e, lookup x m' = Some e ->
                 (x = k /\ e = new_entry c now v sz) \/ (x <> k /\ lookup x m = Some e)) ->
    GI c idx m g ->
    GI c (idx + 1) m' (gset k (mkG v (birth c now) idx idx 0) g).
Proof.
  intros c idx now k v sz m m' g Hm HG x e Hl.
  destruct (Hm x e Hl) as [(Hx & He)|(Hx & He)].
  - subst x e. exists (mkG v (birth c now) idx idx 0). split; [apply glookup_gset_eq|].
    unfold agrees, new_entry. cbn [e_val e_born e_freq g_val g_born g_hits g_stored g_used].
    repeat split; try lia. destruct (counts_hits (pol c)); reflexivity.
  - destruct (HG x e He) as (i & Hi & Ha). exists i.
    split; [rewrite glookup_gset_neq by exact Hx; exact Hi|].
    apply (agrees_mono c idx (idx + 1)); [lia|exact Ha].
Qed.

(* ------------------------------------------------------------------ *)
(** * insert: the stored key gets the fresh entry, every other entry is an old one *)

Lemma insert_sync_lookup : forall c now wm k v sz m q ch m' q' x e,
    Struct m q -> insert_sync c now wm k v sz m q ch = (m', q') ->
    lookup x m' = Some e ->
    (x = k /\ e = new_entry c now v sz) \/ (x <> k /\ lookup x m = Some e).
Proof.
  intros c now wm k v sz m q ch m' q' x e HS H Hl.
  pose proof (insert_sync_Shrunk _ _ _ _ _ _ _ _ _ _ _ HS H) as Hsh.
  apply (Shrunk_sub _ _ _ _ x e Hsh) in Hl.
  destruct (N.eq_dec x k) as [E|E].
  - subst x. rewrite lookup_upsert_eq in Hl. inversion Hl. left. split; reflexivity.
  - rewrite lookup_upsert_neq in Hl by exact E. right. split; assumption.
Qed.

Lemma insert_async_lookup : forall c now wm k v sz m q ch m' q' x e,
    Struct m q -> insert_async c now wm k v sz m q ch = (m', q') ->
    lookup x m' = Some e ->
    (x = k /\ e = new_entry c now v sz) \/ (x <> k /\ lookup x m = Some e).
Proof.
  intros c now wm k v sz m q ch m' q' x e HS H Hl.
  destruct (insert_async_Shrunk _ _ _ _ _ _ _ _ _ _ _ HS H) as [(Hm & Hq)|(m3 & q3 & Hsh & Hm & Hq)]; subst m'.
  - destruct (N.eq_dec x k) as [E|E].
    + subst x. rewrite lookup_sremove_eq in Hl. discriminate.
    + rewrite lookup_sremove_neq in Hl by exact E. right. split; assumption.
  - destruct (N.eq_dec x k) as [E|E].
    + subst x. rewrite lookup_upsert_eq in Hl. inversion Hl. left. split; reflexivity.
    + rewrite lookup_upsert_neq in Hl by exact E. right. split; [exact E|].
      apply (Shrunk_sub _ _ _ _ x e Hsh) in Hl. apply (sremove_sub k). exact Hl.
Qed.

Lemma insert_lookup : forall c now wm k v sz s ch x e,
    Struct (st_store s) (st_queue s) ->
    lookup x (st_store (insert c now wm k v sz s ch)) = Some e ->
    (x = k /\ e = new_entry c now v sz) \/ (x <> k /\ lookup x (st_store s) = Some e).
Proof.
  intros c now wm k v sz s ch x e HS. rewrite insert_eq. cbn [st_store].
  destruct (is_async c).
  - destruct (insert_async c now wm k v sz (st_store s) (st_queue s) ch) as [m' q'] eqn:E.
    cbn [fst]. apply (insert_async_lookup _ _ _ _ _ _ _ _ _ _ _ x e HS E).
  - destruct (insert_sync c now wm k v sz (st_store s) (st_queue s) ch) as [m' q'] eqn:E.
    cbn [fst]. apply (insert_sync_lookup _ _ _ _ _ _ _ _ _ _ _ x e HS E).
Qed.

Lemma invG_insert : forall c now idx wm k v sz s g ch,
    Struct (st_store s) (st_queue s) -> InvG c idx s g ->
    InvG c (idx + 1) (insert c now wm k v sz s ch) (gset k (mkG v (birth c now) idx idx 0) g).
Proof.
  intros c now idx wm k v sz s g ch HS HG. apply InvG_GI. apply InvG_GI in HG.
  apply (GI_store c idx now k v sz (st_store s)); [|exact HG].
  intros x e Hl. apply (insert_lookup c now wm k v sz s ch x e HS Hl).
Qed.

(* ------------------------------------------------------------------ *)
(** * get *)

(* the three outcomes of a lookup *)
Lemma get_cases : forall c now k s,
    (lookup k (st_store s) = None /\
     get c now k s = (mkSt (st_store s) (st_queue s) (st_hits s) (st_misses s + 1), None)) \/
    (exists e, lookup k (st_store s) = Some e /\ expired c now e = true /\
     get c now k s =
       (mkSt (sremove k (st_store s))
             (if is_async c then remove_all k (st_queue s) else remove_first k (st_queue s))
             (st_hits s) (st_misses s + 1), None)) \/
    (exists e, lookup k (st_store s) = Some e /\ expired c now e = false /\
     snd (get c now k s) = Some (e_val e) /\
     st_store (fst (get c now k s)) =
       (if counts_hits (pol c) then supdate k bump (st_store s) else st_store s) /\
     st_hits (fst (get c now k s)) = st_hits s + 1 /\
     st_misses (fst (get c now k s)) = st_misses s).
Proof.
  intros c now k s. unfold get. destruct (lookup k (st_store s)) as [e|] eqn:El.
  - right. destruct (expired c now e) eqn:Ex.
    + left. exists e. split; [reflexivity|]. split; [exact Ex|reflexivity].
    + right. exists e. cbn [fst snd st_store st_hits st_misses].
      split; [reflexivity|]. split; [exact Ex|]. repeat split; reflexivity.
  - left. split; reflexivity.
Qed.

Lemma invG_get : forall c now idx k s g,
    InvG c idx s g ->
    InvG c (idx + 1) (fst (get c now k s))
         (ghost_step c g idx (mkObs s now (Get k) (OVal (snd (get c now k s))) (fst (get c now k s)))).
Proof.
  intros c now idx k s g HG. apply InvG_GI. apply InvG_GI in HG.
  unfold ghost_step. cbn [ob_op ob_out].
  destruct (get_cases c now k s)
    as [(Hl & Hg)|[(e & Hl & Hex & Hg)|(e & Hl & Hex & Hout & Hst & _ & _)]].
  - rewrite Hg. cbn [fst snd st_store]. apply (GI_sub c idx (idx + 1) (st_store s)); [tauto|lia|exact HG].
  - rewrite Hg. cbn [fst snd st_store].
    apply (GI_sub c idx (idx + 1) (st_store s)); [apply sremove_sub|lia|exact HG].
  - rewrite Hout, Hst. destruct (HG k e Hl) as (i & Hi & Ha). rewrite Hi.
    intros x e' Hl'. destruct (N.eq_dec x k) as [E|E].
    + subst x. exists (mkG (g_val i) (g_born i) (g_stored i) idx (g_hits i + 1)).
      split; [apply glookup_gset_eq|].
      destruct Ha as (H1 & H2 & H3 & H4 & H5 & H6).
      unfold agrees. cbn [g_val g_born g_hits g_stored g_used].
      destruct (counts_hits (pol c)).
      * rewrite lookup_supdate_eq, Hl in Hl'. cbn [option_map] in Hl'. inversion Hl'; subst e'.
        unfold bump. cbn [e_val e_born e_freq]. repeat split; try assumption; lia.
      * rewrite Hl in Hl'. inversion Hl'; subst e'. repeat split; try assumption; lia.
    + assert (Hold : lookup x (st_store s) = Some e').
      { destruct (counts_hits (pol c)); [|exact Hl'].
        rewrite lookup_supdate_neq in Hl' by exact E. exact Hl'. }
      destruct (HG x e' Hold) as (i' & Hi' & Ha'). exists i'.
      split; [rewrite glookup_gset_neq by exact E; exact Hi'|].
      apply (agrees_mono c idx (idx + 1)); [lia|exact Ha'].
Qed.

(* ------------------------------------------------------------------ *)
(** * InvG: initial state and preservation *)

Lemma invG_init : forall c, InvG c 1 init [].
Proof. intros c k e H. cbn [init st_store lookup] in H. discriminate. Qed.

Lemma invG_step : forall c now idx s g o ch,
    wf_cfg c = true -> InvA c s -> InvG c idx s g ->
    InvG c (idx + 1) (fst (step c now s o ch))
         (ghost_step c g idx (mkObs s now o (snd (step c now s o ch)) (fst (step c now s o ch)))).
Proof.
  intros c now idx s g o ch Hwf HA HG.
  pose proof (InvA_Struct c s HA) as HS.
  destruct o as [k|k v sz|k v sz|k| |ks].
  - cbn [step]. pose proof (invG_get c now idx k s g HG) as H.
    destruct (get c now k s) as [s' r]. cbn [fst snd] in *. exact H.
  - cbn [step fst snd]. unfold ghost_step. cbn [ob_op ob_now]. apply invG_insert; assumption.
  - cbn [step fst snd]. unfold ghost_step. cbn [ob_op ob_now]. apply invG_insert; assumption.
  - cbn [step fst snd]. unfold ghost_step. cbn [ob_op]. apply InvG_GI. apply InvG_GI in HG.
    apply (GI_sub c idx (idx + 1) (st_store s)); [tauto|lia|exact HG].
  - cbn [step fst snd]. unfold ghost_step. cbn [ob_op].
    intros k e H. cbn [st_store lookup] in H. discriminate.
  - cbn [step]. destruct (inval_keys ks (st_store s) (st_queue s)) as [m' q'] eqn:E.
    cbn [fst snd]. unfold ghost_step. cbn [ob_op]. apply InvG_GI. apply InvG_GI in HG. cbn [st_store].
    destruct (inval_keys_spec ks _ _ _ _ HS E) as (Hsh & _ & _).
    apply (GI_sub c idx (idx + 1) (st_store s)); [|lia|exact HG].
    intros k e. apply (Shrunk_sub _ _ _ _ k e Hsh).
Qed.

Print Assumptions invG_init.
Print Assumptions invG_step.
