(* PfAsyncMicro.v — during an async store a lock-free reader never sees a stored key absent unless
   the store really evicts it; the replaced key is never absent; and the map operations, once all
   done, produce exactly the state of the validated sequential model (C03 concurrent clause, C18;
   the defect D8 was a store that removed the replaced key first). *)
From CL Require Import AsyncMicro Lemmas PfInvA PfAsyncConc.
From Coq Require Import Lia.
Open Scope N_scope.

Lemma lookup_sremove_all_notin : forall R x m, ~ In x R -> lookup x (sremove_all R m) = lookup x m.
Proof.
  induction R as [|r R IH]; intros x m H; cbn [sremove_all]; [reflexivity|].
  rewrite IH by (intro H'; apply H; right; exact H').
  apply lookup_sremove_neq. intro E. apply H. left. symmetry. exact E.
Qed.

Lemma lookup_sremove_all_in : forall R x m, In x R -> lookup x (sremove_all R m) = None.
Proof.
  induction R as [|r R IH]; intros x m H; cbn [sremove_all]; [destruct H|].
  destruct (in_dec N.eq_dec x R) as [HR|HR]; [apply IH; exact HR|].
  destruct H as [E|H]; [|contradiction]. subst r.
  rewrite lookup_sremove_all_notin by exact HR. apply lookup_sremove_eq.
Qed.

Lemma In_victims : forall k m m' x,
    In x (victims_of k m m') <-> In x (keys m) /\ x <> k /\ mem x m' = false.
Proof.
  intros k m m' x. unfold victims_of. rewrite filter_In, In_keys_sremove.
  destruct (mem x m'); cbn [negb]; intuition congruence.
Qed.

Lemma victims_not_k : forall k m m', ~ In k (victims_of k m m').
Proof. intros k m m' H. apply In_victims in H. tauto. Qed.

(* the key being stored: its old entry stays visible until the one insert replaces it *)
Theorem replaced_key_never_absent : forall k m m' R,
    incl R (victims_of k m m') ->
    lookup k (visible_during m R) = lookup k m.
Proof.
  intros k m m' R Hincl. unfold visible_during. apply lookup_sremove_all_notin.
  intro H. apply Hincl in H. exact (victims_not_k k m m' H).
Qed.

(* every other key that is still stored after the store is visible, unchanged, all the time *)
Theorem surviving_key_never_absent : forall c now wm k v sz m q ch m' q' x R,
    Struct m q -> insert_async c now wm k v sz m q ch = (m', q') ->
    x <> k -> mem x m' = true -> incl R (victims_of k m m') ->
    lookup x (visible_during m R) = lookup x m /\ lookup x m' = lookup x m.
Proof.
  intros c now wm k v sz m q ch m' q' x R HS H Hne Hm Hincl. split.
  - unfold visible_during. apply lookup_sremove_all_notin. intro HR. apply Hincl in HR.
    apply In_victims in HR. destruct HR as (_ & _ & Hf). congruence.
  - apply mem_In in Hm. destruct (In_keys_lookup x m' Hm) as [e He].
    destruct (insert_async_lookup c now wm k v sz m q ch m' q' x e HS H He) as [[E _]|Hl];
      [contradiction|]. congruence.
Qed.

(* a key is absent at some moment during the store only if the store evicts it *)
Theorem absent_only_if_evicted : forall k m m' R x,
    incl R (victims_of k m m') -> mem x m = true ->
    lookup x (visible_during m R) = None -> x <> k /\ mem x m' = false.
Proof.
  intros k m m' R x Hincl Hm Hnone. unfold visible_during in Hnone.
  destruct (in_dec N.eq_dec x R) as [HR|HR].
  - apply Hincl in HR. apply In_victims in HR. tauto.
  - rewrite lookup_sremove_all_notin in Hnone by exact HR.
    unfold mem in Hm. rewrite Hnone in Hm. discriminate.
Qed.

(* when the last map operation is done, the map is the one of the sequential model *)
Theorem map_operations_reach_the_model_state : forall c now wm k v sz m q ch m' q' x,
    Struct m q -> insert_async c now wm k v sz m q ch = (m', q') ->
    lookup x (after_last_op c now k v sz m m') = lookup x m'.
Proof.
  intros c now wm k v sz m q ch m' q' x HS H. unfold after_last_op.
  destruct (insert_async_Shrunk c now wm k v sz m q ch m' q' HS H)
    as [(Hm & _)|(m3 & q3 & Hsh & Hm & _)].
  - (* refused: the replaced entry is dropped, nothing else changes *)
    subst m'. replace (mem k (sremove k m)) with false
      by (symmetry; apply mem_false; rewrite In_keys_sremove; tauto).
    destruct (N.eq_dec x k) as [E|E].
    + subst x. rewrite !lookup_sremove_eq. reflexivity.
    + rewrite !lookup_sremove_neq by exact E. apply lookup_sremove_all_notin.
      intro HV. apply In_victims in HV. destruct HV as (Hin & _ & Hf).
      apply mem_false in Hf. apply Hf. rewrite In_keys_sremove. tauto.
  - subst m'. fold (new_entry c now v sz).
    replace (mem k (upsert k (new_entry c now v sz) m3)) with true
      by (symmetry; apply mem_In; rewrite In_keys_upsert; tauto).
    destruct (N.eq_dec x k) as [E|E].
    + subst x. rewrite !lookup_upsert_eq. reflexivity.
    + rewrite !lookup_upsert_neq by exact E.
      destruct Hsh as (_ & Hsub & Hlk & _).
      destruct (in_dec N.eq_dec x (keys m3)) as [H3|H3].
      * rewrite (Hlk x H3). rewrite lookup_sremove_neq by exact E.
        apply lookup_sremove_all_notin. intro HV. apply In_victims in HV.
        destruct HV as (_ & _ & Hf). apply mem_false in Hf. apply Hf.
        rewrite In_keys_upsert. tauto.
      * replace (lookup x m3) with (@None entry) by (symmetry; apply lookup_None; exact H3).
        destruct (in_dec N.eq_dec x (keys m)) as [Hm|Hm].
        -- apply lookup_sremove_all_in. apply In_victims. split; [exact Hm|]. split; [exact E|].
           apply mem_false. rewrite In_keys_upsert. tauto.
        -- destruct (in_dec N.eq_dec x (victims_of k m (upsert k (new_entry c now v sz) m3))) as [HV|HV].
           ++ apply lookup_sremove_all_in. exact HV.
           ++ rewrite lookup_sremove_all_notin by exact HV. apply lookup_None. exact Hm.
Qed.

Print Assumptions replaced_key_never_absent.
Print Assumptions surviving_key_never_absent.
Print Assumptions absent_only_if_evicted.
Print Assumptions map_operations_reach_the_model_state.

(* premises are satisfiable, with a real victim: FIFO, limit 2, keys 1 and 2 stored, key 3 arrives *)
Example micro_example :
  let c := mkCfg Async FIFO (Some 2) None None None in
  let s1 := insert c 0 false 2 20 8 (insert c 0 false 1 10 8 init []) [] in
  let r := insert_async c 0 false 3 30 8 (st_store s1) (st_queue s1) [] in
  victims_of 3 (st_store s1) (fst r) = [1] /\
  mem 2 (visible_during (st_store s1) [1]) = true /\
  mem 1 (visible_during (st_store s1) [1]) = false.
Proof. vm_compute. repeat split. Qed.
