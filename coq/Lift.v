(* Lift.v — from a one-step obligation under an invariant to every trace of the model. *)
From CL Require Export Inv.
Open Scope N_scope.

Section Lift.
  Variable c : cfg.
  Variable P : step_pred.
  Variable I : N -> state -> ghost -> Prop.   (* index of the next observation, state, ghost *)

  Hypothesis I_step : forall now idx s g o ch,
      I idx s g ->
      let s' := fst (step c now s o ch) in
      let ob := mkObs s now o (snd (step c now s o ch)) s' in
      P c g idx ob = true /\ I (idx + 1) s' (ghost_step c g idx ob).

  Lemma lift_from : forall h now idx s g,
      I idx s g -> check_from P c g idx (trace c now s h) = true.
  Proof.
    induction h as [|e h IH]; intros now idx s g HI; [reflexivity|].
    cbn [trace].
    pose proof (I_step (now + ev_dt e) idx s g (ev_op e) (ev_ch e) HI) as Hs.
    destruct (step c (now + ev_dt e) s (ev_op e) (ev_ch e)) as [s' r] eqn:E.
    cbn [fst snd] in Hs. destruct Hs as [HP HI'].
    cbn [check_from]. rewrite HP. cbn [andb].
    apply IH. exact HI'.
  Qed.

  Lemma lift : I 1 init [] -> forall h, check_trace P c (trace c 0 init h) = true.
  Proof. intros H0 h. unfold check_trace. apply lift_from. exact H0. Qed.
End Lift.
