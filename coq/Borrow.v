(* Borrow.v — the RefCell borrow discipline of ThreadLocalCache (thread_local_cache.rs),
   as event programs per operation path.  A `RefCell` panics ("already borrowed" /
   "already mutably borrowed") when a mutable borrow meets any live borrow of the same
   cell, or a shared borrow meets a live mutable one.  No proofs in this file. *)
From Coq Require Import List Bool Arith.
From CL Require Import Base.
Import ListNotations.

Inductive cell := CMap | COrd.
Inductive bev := BMut (c : cell) | BShr (c : cell) | BRelMut (c : cell) | BRelShr (c : cell).

Record bst := mkB { m_map : bool; m_ord : bool; s_map : nat; s_ord : nat }.
Definition b0 := mkB false false 0 0.

Definition bstep (s : bst) (e : bev) : option bst :=
  match e with
  | BMut CMap => if m_map s || negb (Nat.eqb (s_map s) 0) then None else Some (mkB true (m_ord s) (s_map s) (s_ord s))
  | BMut COrd => if m_ord s || negb (Nat.eqb (s_ord s) 0) then None else Some (mkB (m_map s) true (s_map s) (s_ord s))
  | BShr CMap => if m_map s then None else Some (mkB (m_map s) (m_ord s) (S (s_map s)) (s_ord s))
  | BShr COrd => if m_ord s then None else Some (mkB (m_map s) (m_ord s) (s_map s) (S (s_ord s)))
  | BRelMut CMap => Some (mkB false (m_ord s) (s_map s) (s_ord s))
  | BRelMut COrd => Some (mkB (m_map s) false (s_map s) (s_ord s))
  | BRelShr CMap => Some (mkB (m_map s) (m_ord s) (pred (s_map s)) (s_ord s))
  | BRelShr COrd => Some (mkB (m_map s) (m_ord s) (s_map s) (pred (s_ord s)))
  end.

Fixpoint brun (s : bst) (p : list bev) : option bst :=
  match p with
  | [] => Some s
  | e :: p' => match bstep s e with Some s' => brun s' p' | None => None end
  end.

(* building blocks, as in the source *)
Definition with_map_mut := [BMut CMap; BRelMut CMap].          (* cache.with(|c| c.borrow_mut()...) *)
Definition with_map_shr := [BShr CMap; BRelShr CMap].          (* cache.with(|c| ... c.borrow() ...) *)
Definition with_ord_mut := [BMut COrd; BRelMut COrd].
(* remove_key: cache.with(|c| order.with(|o| remove(&mut c.borrow_mut(), &mut o.borrow_mut()))) *)
Definition remove_key := [BMut CMap; BMut COrd; BRelMut COrd; BRelMut CMap].
(* remove_key_with_order(order, k): the caller's queue borrow is reused *)
Definition remove_key_with_order := with_map_mut.

(* one eviction with the order queue already mutably borrowed by the caller *)
Definition evict_held (p : policy) (found : bool) (pops : nat) : list bev :=
  match p with
  | LFU | ARC | TLRU => with_map_shr ++ (if found then remove_key_with_order else [])
  | Random => with_map_mut
  | FIFO | LRU => concat (repeat with_map_mut pops)
  end.

(* the same with the pre-repair code: the scored policies called remove_key *)
Definition evict_held_prefix (p : policy) (found : bool) (pops : nat) : list bev :=
  match p with
  | LFU | ARC | TLRU => with_map_shr ++ (if found then remove_key else [])
  | _ => evict_held p found pops
  end.

Definition tl_insert (p : policy) (over found : bool) (pops : nat) : list bev :=
  with_map_mut ++ [BMut COrd] ++ (if over then evict_held p found pops else []) ++ [BRelMut COrd].

Fixpoint mem_rounds (p : policy) (rounds : list (bool * nat)) : list bev :=
  match rounds with
  | [] => with_map_shr                                   (* the sum that ends the loop *)
  | (found, pops) :: r => with_map_shr ++ evict_held p found pops ++ mem_rounds p r
  end.

Definition tl_insert_mem (p : policy) (oversize : bool) (rounds : list (bool * nat))
           (over found : bool) (pops : nat) : list bev :=
  with_map_mut ++ [BMut COrd] ++ with_map_shr ++
  (if oversize then with_map_mut
   else mem_rounds p rounds ++ (if over then evict_held p found pops else []))
  ++ [BRelMut COrd].

Definition tl_get (p : policy) (present expired : bool) : list bev :=
  with_map_shr ++
  (if present then
     if expired then remove_key
     else match p with
          | LRU => with_ord_mut
          | LFU => with_map_mut
          | ARC | TLRU => with_ord_mut ++ with_map_mut
          | _ => []
          end
   else []).
