(* AsyncCall.v — M9: the async wrapper as two synchronous phases around the awaited body:
   lookup (get + invalidate_on check) ... await points, nothing of the cache touched or
   held ... store (cache_if / is_ok guard + insert).  A call dropped at an await point has
   performed the lookup phase only.  No proofs in this file. *)
From CL Require Export Wrapper.
Open Scope N_scope.

(* phase 1: Some out = served from the cache, the call is complete; None = the body must run *)
Definition call_lookup (w : wcfg) (now : N) (s : state) (i : call_in)
  : state * option call_out * option (key * res) :=
  let c := w_cfg w in
  let k := ci_key i in
  let '(s1, r) := get c now k s in
  let asked_inv := match r with
                   | Some v => if w_inval_on w then Some (k, dec v) else None
                   | None => None end in
  let serve := match r with
               | Some _ => if w_inval_on w then negb (ci_inv i) else true
               | None => false end in
  match r, serve with
  | Some v, true => (s1, Some (mkCO (dec v) false asked_inv None), asked_inv)
  | _, _ => (s1, None, asked_inv)
  end.

(* phase 2, at a possibly later time and in a possibly different state *)
Definition call_finish (w : wcfg) (now : N) (s : state) (i : call_in) (asked_inv : option (key * res))
  : state * call_out :=
  let c := w_cfg w in
  let s2 := if store_decision w i
            then insert c now (w_mem w) (ci_key i) (enc (ci_body i)) (ci_size i) s (ci_ch i)
            else s in
  (s2, mkCO (ci_body i) true asked_inv (if w_cache_if w then Some (ci_key i, ci_body i) else None)).

(* the same on a world of cache instances *)
Fixpoint world_lookup (w : world) (idx : nat) (now : N) (i : call_in)
  : world * option (option call_out * option (key * res)) :=
  match w, idx with
  | [], _ => ([], None)
  | e :: w', O =>
      let '(s', o, a) := call_lookup (ce_w e) now (ce_st e) i in (mark_used e s' :: w', Some (o, a))
  | e :: w', S n => let '(w'', o) := world_lookup w' n now i in (e :: w'', o)
  end.

Fixpoint world_finish (w : world) (idx : nat) (now : N) (i : call_in) (a : option (key * res))
  : world * option call_out :=
  match w, idx with
  | [], _ => ([], None)
  | e :: w', O => let '(s', o) := call_finish (ce_w e) now (ce_st e) i a in (set_st e s' :: w', Some o)
  | e :: w', S n => let '(w'', o) := world_finish w' n now i a in (e :: w'', o)
  end.
