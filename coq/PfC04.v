(* PfC04.v — C04: with an entry limit L >= 1 the store never holds more than L entries;
   a store that overflows removes exactly one key, one that does not removes none
   (when memory pressure is not in play). *)
From CL Require Export PfInvA Lift.
From Coq Require Import Lia.
Open Scope N_scope.

Arguments N.add : simpl never.
Arguments N.sub : simpl never.
Arguments N.mul : simpl never.
Arguments N.div : simpl never.
Arguments N.eqb : simpl never.
Arguments N.ltb : simpl never.
Arguments N.leb : simpl never.
Arguments N.pow : simpl never.

(* Outcome of a store without memory pressure, as membership in the key set:
   either nothing is displaced, or exactly one key [w] of  k :: keys m  is. *)
Definition nomem_outcome (k : key) (L : N) (m m' : store) : Prop :=
  ((In k (keys m) \/ N.of_nat (length m) < L) /\
   forall x, In x (keys m') <-> x = k \/ In x (keys m)) \/
  ((~ In k (keys m) /\ L <= N.of_nat (length m)) /\
   exists w, (w = k \/ In w (keys m)) /\
             forall x, In x (keys m') <-> (x = k \/ In x (keys m)) /\ x <> w).

Lemma insert_sync_nomem_keys : forall c now (wm : bool) k v sz m q ch m' q' L,
    is_async c = false -> Struct m q -> limit c = Some L ->
    N.of_nat (length m) <= L ->
    (if wm then maxmem c else None) = None ->
    insert_sync c now wm k v sz m q ch = (m', q') ->
    nomem_outcome k L m m'.
Proof.
  intros c now wm k v sz m q ch m' q' L Ha HS HL Hb Hmm H.
  pose proof (Struct_upsert_push k (new_entry c now v sz) m q HS) as HS1.
  pose proof (Struct_length _ _ HS1) as Hlen1.
  pose proof (length_upsert_le k (new_entry c now v sz) m) as Hup.
  destruct (insert_sync_cases _ _ _ _ _ _ _ _ _ _ _ H)
    as [(M & HM & _)|[(M & m2 & q2 & ch2 & ch3 & HM & _)|(_ & ch3 & Hel)]]; try congruence.
  destruct (entry_limit_spec _ _ _ _ _ _ _ _ HS1 Hel)
    as [(Hm & Hq & _ & [Hn|(L' & HL' & Ho)])|[(L' & HL' & Ho & Hq0 & Hm & Hq)|(L' & w & HL' & Ho & Hw & Hm & Hq)]];
    try congruence.
  - (* no eviction *)
    rewrite HL in HL'. inversion HL'; subst L'. clear HL'.
    unfold over_limit in Ho. rewrite Ha in Ho. apply N.ltb_ge in Ho.
    left. split.
    + destruct (in_dec N.eq_dec k (keys m)) as [Hk|Hk]; [left; exact Hk|right].
      pose proof (length_upsert_notin k (new_entry c now v sz) m Hk). lia.
    + intro x. subst m'. apply In_keys_upsert.
  - exfalso. apply (push_back_not_nil k (remove_first k q)). exact Hq0.
  - (* one eviction *)
    rewrite HL in HL'. inversion HL'; subst L'. clear HL'.
    unfold over_limit in Ho. rewrite Ha in Ho. apply N.ltb_lt in Ho.
    right. split.
    + destruct (in_dec N.eq_dec k (keys m)) as [Hk|Hk].
      * exfalso. pose proof (length_upsert_in k (new_entry c now v sz) m (proj1 (proj2 HS)) Hk). lia.
      * split; [exact Hk|]. lia.
    + exists w. split.
      * apply In_keys_upsert with (e := new_entry c now v sz). apply HS1. exact Hw.
      * intro x. subst m'. rewrite In_keys_sremove, In_keys_upsert. tauto.
Qed.

Lemma insert_async_nomem_keys : forall c now (wm : bool) k v sz m q ch m' q' L,
    is_async c = true -> Struct m q -> limit c = Some L -> 1 <= L ->
    N.of_nat (length m) <= L ->
    (if wm then maxmem c else None) = None ->
    insert_async c now wm k v sz m q ch = (m', q') ->
    nomem_outcome k L m m'.
Proof.
  intros c now wm k v sz m q ch m' q' L Ha HS HL H1 Hb Hmm H.
  pose proof (Struct_remove_all k m q HS) as HS0.
  pose proof (Struct_length _ _ HS0) as Hlen0.
  pose proof (length_sremove_le k m) as Hrm.
  destruct (insert_async_cases _ _ _ _ _ _ _ _ _ _ _ H)
    as [(M & HM & _)|[(M & m2 & q2 & ch2 & m3 & q3 & ch3 & HM & _)
                     |(_ & m3 & q3 & ch3 & Hel & Hm' & Hq')]]; try congruence.
  destruct (entry_limit_spec _ _ _ _ _ _ _ _ HS0 Hel)
    as [(Hm & Hq & _ & [Hn|(L' & HL' & Ho)])|[(L' & HL' & Ho & Hq0 & Hm & Hq)|(L' & w & HL' & Ho & Hw & Hm & Hq)]];
    try congruence.
  - rewrite HL in HL'. inversion HL'; subst L'. clear HL'.
    unfold over_limit in Ho. rewrite Ha in Ho. apply N.leb_gt in Ho.
    left. split.
    + destruct (in_dec N.eq_dec k (keys m)) as [Hk|Hk]; [left; exact Hk|right].
      rewrite (sremove_notin k m Hk) in Ho. exact Ho.
    + intro x. subst m' m3. rewrite In_keys_upsert, In_keys_sremove.
      destruct (N.eq_dec x k) as [E|E]; tauto.
  - exfalso. rewrite HL in HL'. inversion HL'; subst L'.
    unfold over_limit in Ho. rewrite Ha in Ho. apply N.leb_le in Ho.
    rewrite Hq0 in Hlen0. cbn [length] in Hlen0. lia.
  - rewrite HL in HL'. inversion HL'; subst L'. clear HL'.
    unfold over_limit in Ho. rewrite Ha in Ho. apply N.leb_le in Ho.
    assert (Hw' : In w (keys m) /\ w <> k).
    { apply In_keys_sremove. apply HS0. exact Hw. }
    right. split.
    + destruct (in_dec N.eq_dec k (keys m)) as [Hk|Hk].
      * exfalso. pose proof (length_sremove_in k m (proj1 (proj2 HS)) Hk). lia.
      * split; [exact Hk|]. lia.
    + exists w. split; [right; apply Hw'|].
      intro x. subst m' m3. rewrite In_keys_upsert, !In_keys_sremove.
      destruct Hw' as [Hw1 Hw2]. destruct (N.eq_dec x k) as [E|E].
      * subst x. split; [intros _; split; [left; reflexivity|congruence]|intros _; left; reflexivity].
      * tauto.
Qed.

Lemma insert_nomem_keys : forall c now (wm : bool) k v sz s ch L,
    Struct (st_store s) (st_queue s) -> limit c = Some L -> 1 <= L ->
    N.of_nat (length (st_store s)) <= L ->
    (if wm then maxmem c else None) = None ->
    nomem_outcome k L (st_store s) (st_store (insert c now wm k v sz s ch)).
Proof.
  intros c now wm k v sz s ch L HS HL H1 Hb Hmm. rewrite insert_eq. cbn [st_store].
  destruct (is_async c) eqn:Ha.
  - destruct (insert_async c now wm k v sz (st_store s) (st_queue s) ch) as [m' q'] eqn:E.
    cbn [fst]. apply (insert_async_nomem_keys _ _ _ _ _ _ _ _ _ _ _ L Ha HS HL H1 Hb Hmm E).
  - destruct (insert_sync c now wm k v sz (st_store s) (st_queue s) ch) as [m' q'] eqn:E.
    cbn [fst]. apply (insert_sync_nomem_keys _ _ _ _ _ _ _ _ _ _ _ L Ha HS HL Hb Hmm E).
Qed.

(* counting the removed keys *)
Lemma nomem_outcome_removed : forall k L m m',
    NoDup (keys m) -> nomem_outcome k L m m' ->
    length (diff (if inb k (keys m) then keys m else k :: keys m) (keys m')) =
    if negb (inb k (keys m)) && (L <=? N.of_nat (length m)) then 1%nat else 0%nat.
Proof.
  intros k L m m' Hnd Hout.
  set (cand := if inb k (keys m) then keys m else k :: keys m).
  assert (Hcnd : NoDup cand).
  { unfold cand. destruct (inb k (keys m)) eqn:Ek; [exact Hnd|].
    constructor; [apply inb_false; exact Ek|exact Hnd]. }
  assert (Hcin : forall x, In x cand <-> x = k \/ In x (keys m)).
  { intro x. unfold cand. destruct (inb k (keys m)) eqn:Ek.
    - apply inb_In in Ek. split; [right; assumption|]. intros [E|E]; [subst; exact Ek|exact E].
    - cbn [In]. split; (intros [E|E]; [left; symmetry; exact E|right; exact E]). }
  destruct Hout as [(Hcond & Hkeys)|((Hk & HLm) & w & Hw & Hkeys)].
  - rewrite diff_nil_incl by (intros x Hx; apply Hkeys; apply Hcin; exact Hx).
    replace (negb (inb k (keys m)) && (L <=? N.of_nat (length m))) with false; [reflexivity|].
    symmetry. destruct Hcond as [Hin|Hlt].
    + apply inb_In in Hin. rewrite Hin. reflexivity.
    + apply N.leb_gt in Hlt. rewrite Hlt. apply andb_false_r.
  - replace (negb (inb k (keys m)) && (L <=? N.of_nat (length m))) with true.
    + unfold diff. rewrite (filter_singleton _ cand w); [reflexivity|exact Hcnd|apply Hcin; exact Hw|].
      intros x Hx. rewrite negb_true_iff, inb_false, Hkeys. apply Hcin in Hx.
      destruct (N.eq_dec x w) as [E|E]; tauto.
    + symmetry. apply inb_false in Hk. rewrite Hk. apply N.leb_le in HLm. rewrite HLm. reflexivity.
Qed.

Lemma c04_insert : forall c now (wm : bool) k v sz s ch L o r,
    InvA c s -> limit c = Some L -> 1 <= L ->
    (if wm then maxmem c else None) = None ->
    store_key o = Some k ->
    (let ob := mkObs s now o r (insert c now wm k v sz s ch) in
     if negb (inb k (skeys s)) && (L <=? slen s)
     then Nat.eqb (length (removed ob)) 1
     else Nat.eqb (length (removed ob)) 0) = true.
Proof.
  intros c now wm k v sz s ch L o r HI HL H1 Hmm Hsk. cbv zeta.
  pose proof (InvA_Struct c s HI) as HS.
  pose proof (InvA_limit c s L HI HL H1) as Hb.
  pose proof (insert_nomem_keys c now wm k v sz s ch L HS HL H1 Hb Hmm) as Hout.
  pose proof (nomem_outcome_removed k L _ _ (proj1 (proj2 HS)) Hout) as Hlen.
  unfold removed. cbn [ob_op ob_pre ob_post]. rewrite Hsk. unfold skeys, slen.
  rewrite Hlen.
  destruct (negb (inb k (keys (st_store s))) && (L <=? N.of_nat (length (st_store s)))); reflexivity.
Qed.

Lemma c04_one : forall c now s o ch g idx,
    wf_cfg c = true -> InvA c s ->
    c04_step c g idx (mkObs s now o (snd (step c now s o ch)) (fst (step c now s o ch))) = true.
Proof.
  intros c now s o ch g idx Hwf HI. unfold c04_step.
  destruct (limit c) as [L|] eqn:HL; [|reflexivity].
  assert (H1 : 1 <= L).
  { unfold wf_cfg in Hwf. rewrite HL in Hwf. apply andb_true_iff in Hwf.
    destruct Hwf as [Hwf _]. apply N.leb_le. exact Hwf. }
  cbn [ob_post ob_op ob_pre]. apply andb_true_iff. split.
  - apply N.leb_le. unfold slen.
    apply (InvA_limit c _ L (invA_step c now s o ch Hwf HI) HL H1).
  - destruct o as [k|k v sz|k v sz|k| |ks]; try reflexivity.
    + cbn [mem_op step fst snd].
      apply (c04_insert c now false k v sz s ch L (Ins k v sz) OUnit HI HL H1); reflexivity.
    + cbn [mem_op]. unfold has_mem. destruct (maxmem c) as [M|] eqn:EM; [reflexivity|].
      cbn [is_some step fst snd].
      apply (c04_insert c now true k v sz s ch L (InsMem k v sz) OUnit HI HL H1); [exact EM|reflexivity].
Qed.

Theorem c04_holds : forall c h,
    wf_cfg c = true -> check_trace c04_step c (trace c 0 init h) = true.
Proof.
  intros c h Hwf. apply (lift c c04_step (fun _ s _ => InvA c s)); [|apply invA_init].
  intros now idx s g o ch HI. cbv zeta. split.
  - apply c04_one; assumption.
  - apply invA_step; assumption.
Qed.

Print Assumptions c04_holds.
