(* C08 — LFU / ARC / TLRU evict the entry with the lowest documented score.
   Histories: when max_memory is configured every store goes through insert_with_memory
   (what the macros generate); otherwise arbitrary. *)
From CL Require Import PfC08.
Theorem C08_lowest_score_evicted :
  forall c h, wf_cfg c = true -> (maxmem c <> None -> mem_only h) ->
    check_trace c08_step c (trace c 0 init h) = true.
Proof. exact c08_holds. Qed.
Print Assumptions C08_lowest_score_evicted.
