(* C07 — FIFO evicts the oldest store, LRU the least recently used entry. *)
From CL Require Import PfC07 PfInvO.
Theorem C07_fifo_lru_victims :
  forall c h, wf_cfg c = true -> check_trace c07_step c (trace c 0 init h) = true.
Proof. exact c07_holds. Qed.
Print Assumptions C07_fifo_lru_victims.

(* the invariant behind it: the order queue is strictly increasing in the ghost stamp
   (index of the last use for LRU/ARC/TLRU, of the last store for FIFO/LFU/Random) *)
Theorem C07_queue_sorted_by_stamp :
  forall c now idx s g o ch,
    wf_cfg c = true -> InvA c s -> InvG c idx s g -> InvO c s g ->
    InvO c (fst (step c now s o ch))
         (ghost_step c g idx (mkObs s now o (snd (step c now s o ch)) (fst (step c now s o ch)))).
Proof. exact invO_step. Qed.
Print Assumptions C07_queue_sorted_by_stamp.

(* under concurrency (concurrent model AsyncConc): the recency update of a hit, whenever it runs
   relative to the other threads' critical sections, is a use of the key: it moves the key to the back,
   keeps the relative order of all other keys, and the key is not the next FIFO/LRU victim as long as
   another key is queued *)
From CL Require Import AsyncConc PfFresh.
Theorem C07_hit_is_a_use_under_concurrency :
  forall c now s k,
    remove_all k (st_queue (astep c now s (A_touch k))) = remove_all k (st_queue s) /\
    (mem k (st_store s) = true ->
     st_queue (astep c now s (A_touch k)) = push_back k (remove_all k (st_queue s)) /\
     forall k', In k' (st_queue s) -> k' <> k ->
                hd_error (st_queue (astep c now s (A_touch k))) <> Some k).
Proof.
  intros c now s k. split; [apply touch_keeps_the_order_of_the_others|].
  intro Hm. split; [apply touch_moves_to_back; exact Hm|].
  intros k' Hin Hne. eapply touched_key_is_not_the_next_victim; eassumption.
Qed.
Print Assumptions C07_hit_is_a_use_under_concurrency.
