(* C07 — FIFO evicts the oldest store, LRU the least recently used entry. *)
From CL Require Import PfC07 PfInvO.
Theorem C07_fifo_lru_victims :
  forall c h, wf_cfg c = true -> check_trace c07_step c (trace c 0 init h) = true.
Proof. exact c07_holds. Qed.
Print Assumptions C07_fifo_lru_victims.

(* the invariant behind it: the order queue is strictly increasing in the ghost stamp
   (index of the last use for LRU/ARC/TLRU, of the last store for FIFO/LFU/Random) *)
Theorem C07_queue_sorted_by_stamp :
  forall c now idx s g o ch,
    wf_cfg c = true -> InvA c s -> InvG c idx s g -> InvO c s g ->
    InvO c (fst (step c now s o ch))
         (ghost_step c g idx (mkObs s now o (snd (step c now s o ch)) (fst (step c now s o ch)))).
Proof. exact invO_step. Qed.
Print Assumptions C07_queue_sorted_by_stamp.
