(* C03 — a result is computed once per distinct arguments and then reused (sequential half). *)
From CL Require Import PfWrapper.
Theorem C03_computed_once :
  forall w (h : list (N * call_in)),
    limit (w_cfg w) = None -> ttl (w_cfg w) = None -> maxmem (w_cfg w) = None ->
    w_cache_if w = false -> w_inval_on w = false -> w_result w = false ->
    forall pre dt i post, h = pre ++ (dt, i) :: post ->
      let seen := map snd pre in
      exists o,
        nth_error (wtrace w 0 init (wcalls h)) (length pre) = Some (WCall i, Some o) /\
        co_exec o = negb (inb (ci_key i) (map ci_key seen)) /\
        first_body (ci_key i) (seen ++ [i]) = Some (co_ret o).
Proof. exact C03w_once. Qed.
Print Assumptions C03_computed_once.

(* concurrent half (sync global cache, abstract model ConcModel restricted to what a cache without limit,
   ttl, memory bound, predicate and invalidation does): once ANY caller's store has put the key into the
   map, every later lookup by anybody finds it, with the function's value, under every interleaving of
   the remaining critical sections — "never again once any call that stored the result has returned" *)
From CL Require Import ConcModel PfShare.
Theorem C03_stored_stays_stored :
  forall f s s' k,
    psteps f s s' -> vlookup k (c_store s) = Some (f k) -> vlookup k (c_store s') = Some (f k).
Proof. exact stored_stays_stored. Qed.
Print Assumptions C03_stored_stays_stored.

Theorem C03_after_a_store_every_lookup_hits :
  forall f s t k s1 s',
    s1 = mkC (vset k (f k) (c_store s)) (c_queue s) ((t, k) :: c_pending s) ->
    psteps f s1 s' -> vmem k (c_store s') = true /\ vlookup k (c_store s') = Some (f k).
Proof. exact after_a_store_every_lookup_hits. Qed.
Print Assumptions C03_after_a_store_every_lookup_hits.

(* the restricted system is part of the full one *)
Theorem C03_plain_steps_are_cache_steps : forall pc f s s', pstep f s s' -> cstep None pc f s s'.
Proof. exact pstep_is_cstep. Qed.
Print Assumptions C03_plain_steps_are_cache_steps.

(* the async engine, seen by a lock-free reader BETWEEN the map operations of a store (AsyncMicro):
   the key being stored keeps its old entry until the one insert replaces it, every other key that
   survives the store is visible unchanged all the time, a key is absent at some moment only if the
   store really evicts it — so a caller never runs the body for a key that is stored and stays
   stored — and the map operations end in the state of the sequential model *)
From CL Require Import AsyncMicro PfInvA PfAsyncMicro.
Theorem C03_async_store_seen_by_lock_free_readers :
  forall c now wm k v sz m q ch m' q' R,
    Struct m q -> insert_async c now wm k v sz m q ch = (m', q') ->
    incl R (victims_of k m m') ->
    lookup k (visible_during m R) = lookup k m /\
    (forall x, x <> k -> mem x m' = true ->
               lookup x (visible_during m R) = lookup x m /\ lookup x m' = lookup x m) /\
    (forall x, mem x m = true -> lookup x (visible_during m R) = None -> x <> k /\ mem x m' = false) /\
    (forall x, lookup x (after_last_op c now k v sz m m') = lookup x m').
Proof.
  intros c now wm k v sz m q ch m' q' R HS H Hincl. split; [|split; [|split]].
  - eapply replaced_key_never_absent; exact Hincl.
  - intros x Hne Hm. eapply surviving_key_never_absent; eassumption.
  - intros x Hm Hn. eapply absent_only_if_evicted; eassumption.
  - intro x. eapply map_operations_reach_the_model_state; eassumption.
Qed.
Print Assumptions C03_async_store_seen_by_lock_free_readers.
