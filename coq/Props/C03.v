(* C03 — a result is computed once per distinct arguments and then reused (sequential half). *)
From CL Require Import PfWrapper.
Theorem C03_computed_once :
  forall w (h : list (N * call_in)),
    limit (w_cfg w) = None -> ttl (w_cfg w) = None -> maxmem (w_cfg w) = None ->
    w_cache_if w = false -> w_inval_on w = false -> w_result w = false ->
    forall pre dt i post, h = pre ++ (dt, i) :: post ->
      let seen := map snd pre in
      exists o,
        nth_error (wtrace w 0 init (wcalls h)) (length pre) = Some (WCall i, Some o) /\
        co_exec o = negb (inb (ci_key i) (map ci_key seen)) /\
        first_body (ci_key i) (seen ++ [i]) = Some (co_ret o).
Proof. exact C03w_once. Qed.
Print Assumptions C03_computed_once.
