(* C03 — a result is computed once per distinct arguments and then reused (sequential half). *)
From CL Require Import PfWrapper.
Theorem C03_computed_once :
  forall w (h : list (N * call_in)),
    limit (w_cfg w) = None -> ttl (w_cfg w) = None -> maxmem (w_cfg w) = None ->
    w_cache_if w = false -> w_inval_on w = false -> w_result w = false ->
    forall pre dt i post, h = pre ++ (dt, i) :: post ->
      let seen := map snd pre in
      exists o,
        nth_error (wtrace w 0 init (wcalls h)) (length pre) = Some (WCall i, Some o) /\
        co_exec o = negb (inb (ci_key i) (map ci_key seen)) /\
        first_body (ci_key i) (seen ++ [i]) = Some (co_ret o).
Proof. exact C03w_once. Qed.
Print Assumptions C03_computed_once.

(* concurrent half (sync global cache, abstract model ConcModel restricted to what a cache without limit,
   ttl, memory bound, predicate and invalidation does): once ANY caller's store has put the key into the
   map, every later lookup by anybody finds it, with the function's value, under every interleaving of
   the remaining critical sections — "never again once any call that stored the result has returned" *)
From CL Require Import ConcModel PfShare.
Theorem C03_stored_stays_stored :
  forall f s s' k,
    psteps f s s' -> vlookup k (c_store s) = Some (f k) -> vlookup k (c_store s') = Some (f k).
Proof. exact stored_stays_stored. Qed.
Print Assumptions C03_stored_stays_stored.

Theorem C03_after_a_store_every_lookup_hits :
  forall f s t k s1 s',
    s1 = mkC (vset k (f k) (c_store s)) (c_queue s) ((t, k) :: c_pending s) ->
    psteps f s1 s' -> vmem k (c_store s') = true /\ vlookup k (c_store s') = Some (f k).
Proof. exact after_a_store_every_lookup_hits. Qed.
Print Assumptions C03_after_a_store_every_lookup_hits.

(* the restricted system is part of the full one *)
Theorem C03_plain_steps_are_cache_steps : forall pc f s s', pstep f s s' -> cstep None pc f s s'.
Proof. exact pstep_is_cstep. Qed.
Print Assumptions C03_plain_steps_are_cache_steps.
