(* C05 — memory limit: cached values never exceed max_memory, no needless eviction
   (engine half; the estimator half is parts/memest).  Histories in which every store goes
   through insert_with_memory, which is what the macros generate when max_memory is set. *)
From CL Require Import PfC05.
Theorem C05_memory_limit :
  forall c h, wf_cfg c = true -> mem_only h ->
    check_trace c05_step c (trace c 0 init h) = true.
Proof. exact c05_holds. Qed.
Print Assumptions C05_memory_limit.

Theorem C05_total_invariant :
  forall c now s o ch, wf_cfg c = true ->
    (match o with Ins _ _ _ => False | _ => True end) ->
    InvA c s -> InvM c s -> InvM c (fst (step c now s o ch)).
Proof. exact invM_step. Qed.
Print Assumptions C05_total_invariant.
