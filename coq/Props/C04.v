(* C04 — entry limit: never more than `limit` entries, exactly one victim per overflow. *)
From CL Require Import PfC04 PfInvA.
Theorem C04_entry_limit :
  forall c h, wf_cfg c = true -> check_trace c04_step c (trace c 0 init h) = true.
Proof. exact c04_holds. Qed.
Print Assumptions C04_entry_limit.

(* every reachable state is structurally sound: queue and store hold the same keys once
   each, and the limit holds (the invariant behind the trace predicate) *)
Theorem C04_invariant_step :
  forall c now s o ch, wf_cfg c = true -> InvA c s -> InvA c (fst (step c now s o ch)).
Proof. exact invA_step. Qed.
Print Assumptions C04_invariant_step.
