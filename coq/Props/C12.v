(* C12 — tag / event / dependency / name invalidation empties every matching cache. *)
From CL Require Import PfRegistry.
Theorem C12_group_invalidation :
  forall t x w w' n,
    invalidate_by t x w = (w', n) ->
    length w' = length w /\
    (forall j e, nth_error w j = Some e ->
       (matches t x e = true -> nth_error w' j = Some (set_st e (cleared (ce_st e)))) /\
       (matches t x e = false -> nth_error w' j = Some e)) /\
    n = count_if (matches t x) w.
Proof. exact invalidate_by_spec. Qed.
Print Assumptions C12_group_invalidation.

Theorem C12_invalidate_cache_by_name :
  forall n w w' b,
    invalidate_cache n w = (w', b) ->
    length w' = length w /\
    (forall j e, nth_error w j = Some e ->
       (name_matches n e = true -> nth_error w' j = Some (set_st e (cleared (ce_st e)))) /\
       (name_matches n e = false -> nth_error w' j = Some e)) /\
    b = existsb (name_matches n) w /\
    (b = true <-> exists e, In e w /\ name_matches n e = true).
Proof. exact invalidate_cache_spec. Qed.
Print Assumptions C12_invalidate_cache_by_name.

Theorem C12_cleared_cache_recomputes :
  forall w now s i, co_exec (snd (call w now (cleared s) i)) = true.
Proof. exact cleared_next_call_executes. Qed.
Print Assumptions C12_cleared_cache_recomputes.
