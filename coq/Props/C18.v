(* C18 — concurrent use keeps values correct and the cache consistent.
   Model: ConcModel.v (one sync global cache at critical-section granularity, any number
   of threads, any interleaving, any victim choices).  [ov k] says whether the value the
   cached function returns for key k alone exceeds max_memory (a deterministic function
   returns the same value, hence the same size, for the same key). *)
From CL Require Import Base SeqModel Spec Inv ConcModel PfConc PfRefine AsyncConc PfAsyncConc.

Theorem C18_quiescent_consistent :
  forall ov limit pc f s, creach_ov ov limit pc f s -> quiescent s ->
    NoDup (vkeys (c_store s)) /\
    NoDup (c_queue s) /\
    incl (vkeys (c_store s)) (c_queue s) /\
    (forall L, limit = Some L -> 1 <= L -> N.of_nat (length (c_store s)) <= L) /\
    (forall k v, vlookup k (c_store s) = Some v -> v = f k).
Proof. exact conc_quiescent_consistent_ov. Qed.
Print Assumptions C18_quiescent_consistent.

Theorem C18_tracked_or_pending :
  forall limit pc f s, creach limit pc f s ->
    forall k, In k (vkeys (c_store s)) -> In k (c_queue s) \/ exists t, In (t, k) (c_pending s).
Proof. exact conc_tracked_or_pending. Qed.
Print Assumptions C18_tracked_or_pending.

(* without the determinism premise (the same key stored once through the normal path and
   once through the oversize path) the limit clause is FALSE for LFU/ARC/TLRU: recorded,
   outside the property, which speaks about "the function's value" *)
Theorem C18_refuted_for_size_changing_values :
  forall f, exists s, creach (Some 1) PScored f s /\ quiescent s /\ length (c_store s) = 2%nat.
Proof. exact conc_counterexample. Qed.
Print Assumptions C18_refuted_for_size_changing_values.

(* The tie between the two models: every history of the sequential model of the sync engines
   (the model that the step-wise correspondence compares with the real engine) is a path of
   the concurrent model, so the concurrent model's steps are not an independent invention:
   what one thread does alone is exactly a sequence of its critical sections. *)
Theorem C18_seq_run_is_conc_reachable :
  forall c h f,
    is_async c = false -> wf_cfg c = true ->
    Forall (fun e => stores_f f (ev_op e)) h ->
    creach (limit c) (class_of (pol c)) f (abs (fst (run c 0 init h))) /\
    quiescent (abs (fst (run c 0 init h))).
Proof. exact seq_run_is_conc_reachable. Qed.
Print Assumptions C18_seq_run_is_conc_reachable.

(* ---- the async engine (M9 AsyncConc): every structural update is one critical section of the
   order queue, so a concurrent execution is a sequence of atomic actions issued by any number of
   tasks in any order.  In EVERY state of every such execution (not only at quiescence): queue and
   store hold the same keys, once each; the entry limit holds; every stored value is the function's
   value; with memory-aware stores the total size is within max_memory.  And the sequential async
   model — the one compared step by step with the real engine — is the one-task special case. *)
Theorem C18_async_consistent_always :
  forall c l, is_async c = true -> wf_cfg c = true ->
    NoDup (st_queue (arun c init l)) /\
    NoDup (keys (st_store (arun c init l))) /\
    (forall k, In k (st_queue (arun c init l)) <-> In k (keys (st_store (arun c init l)))) /\
    (forall L, limit c = Some L -> 1 <= L -> N.of_nat (length (st_store (arun c init l))) <= L).
Proof. exact arun_InvA. Qed.
Print Assumptions C18_async_consistent_always.

Theorem C18_async_values :
  forall c f l, is_async c = true -> wf_cfg c = true ->
    Forall (fun p => astores_f f (snd p)) l ->
    forall k e, lookup k (st_store (arun c init l)) = Some e -> e_val e = f k.
Proof. exact arun_values. Qed.
Print Assumptions C18_async_values.

Theorem C18_async_memory :
  forall c l, is_async c = true -> wf_cfg c = true ->
    Forall (fun p => amem_only (snd p)) l ->
    forall M, maxmem c = Some M -> total_size (st_store (arun c init l)) <= M.
Proof. exact arun_InvM. Qed.
Print Assumptions C18_async_memory.

Theorem C18_seq_async_step_is_arun :
  forall c now s o ch, is_async c = true -> InvA c s ->
    exists l, Forall (fun p => fst p = now) l /\
      st_store (arun c s l) = st_store (fst (step c now s o ch)) /\
      st_queue (arun c s l) = st_queue (fst (step c now s o ch)).
Proof. exact seq_async_step_is_arun. Qed.
Print Assumptions C18_seq_async_step_is_arun.
