(* C14 — thread scope isolates threads; global scope shares across them.  Thread-scope
   instances are separate entries of the world, one per (function, thread); a global or
   async function is one entry whatever thread calls it. *)
From CL Require Import PfRegistry.
Theorem C14_call_touches_one_instance :
  forall w idx now i w' o,
    world_call w idx now i = (w', o) ->
    forall j, j <> idx -> nth_error w' j = nth_error w j.
Proof. exact world_call_frame. Qed.
Print Assumptions C14_call_touches_one_instance.

Theorem C14_call_is_the_instances_own_call :
  forall w idx now i e,
    nth_error w idx = Some e ->
    exists w',
      world_call w idx now i = (w', Some (snd (call (ce_w e) now (ce_st e) i))) /\
      nth_error w' idx = Some (mark_used e (fst (call (ce_w e) now (ce_st e) i))).
Proof. exact world_call_at. Qed.
Print Assumptions C14_call_is_the_instances_own_call.

Theorem C14_thread_scope_registers_nothing :
  forall e, ce_thread e = true ->
    (forall t x, matches t x e = false) /\ (forall n, name_matches n e = false) /\
    (forall n, cond_matches n e = false) /\ cond_registered e = false.
Proof. exact thread_scope_unregistered. Qed.
Print Assumptions C14_thread_scope_registers_nothing.

(* sharing under concurrency with a lifetime (concurrent model of the async engine; the sync
   purge has the same shape since the repair D9): lookups by any threads, hit bumps, recency
   updates and expiry purges leave an entry that is not expired where it is, with its value,
   size and birth time; a purge removes nothing but an entry that is expired when it runs *)
From CL Require Import AsyncConc PfFresh.
Theorem C14_fresh_entry_served_across_lookups :
  forall c l s k e,
    lookup k (st_store s) = Some e -> all_lookups_fresh c e l ->
    exists e', lookup k (st_store (arun c s l)) = Some e' /\ same_entry e e'.
Proof. exact fresh_entry_served_across_lookups. Qed.
Print Assumptions C14_fresh_entry_served_across_lookups.

Theorem C14_purge_removes_only_expired :
  forall c now s k0 k e,
    lookup k (st_store s) = Some e ->
    lookup k (st_store (astep c now s (A_expire k0))) = None ->
    k = k0 /\ expired c now e = true.
Proof. exact purge_removes_only_expired. Qed.
Print Assumptions C14_purge_removes_only_expired.
