(* C20 — a suspended or dropped async call never blocks or corrupts the cache.
   Model half (M9); the lock half (a suspended call holds no lock, others complete) is
   parts/locks: suspended_call_holds_nothing and cachelito_no_deadlock with call_async's
   Yield actions. *)
From CL Require Import AsyncCall PfAsyncCall.

Theorem C20_call_is_lookup_then_store :
  forall w now s i,
    call w now s i =
    match call_lookup w now s i with
    | (s1, Some out, _) => (s1, out)
    | (s1, None, a) => call_finish w now s1 i a
    end.
Proof. exact call_is_lookup_then_finish. Qed.
Print Assumptions C20_call_is_lookup_then_store.

Theorem C20_dropped_call_is_lookup_only :
  forall w now s i s1 a,
    call_lookup w now s i = (s1, None, a) -> s1 = fst (get (w_cfg w) now (ci_key i) s).
Proof. exact dropped_call_is_lookup_only. Qed.
Print Assumptions C20_dropped_call_is_lookup_only.

Theorem C20_resumed_call_stores_normally :
  forall w now' s' i a a',
    fst (call_finish w now' s' i a) = fst (call_finish w now' s' i a') /\
    co_ret (snd (call_finish w now' s' i a)) = ci_body i /\
    co_exec (snd (call_finish w now' s' i a)) = true.
Proof. exact resumed_call_stores_normally. Qed.
Print Assumptions C20_resumed_call_stores_normally.
