(* C01 (wrapper half) — the generated function returns the function's value. *)
From CL Require Import PfWrapper.
Theorem C01w_returns_function_value :
  forall w (f : key -> res) h,
    wf_cfg (w_cfg w) = true ->
    (forall dt i, In (dt, WCall i) h -> ci_body i = f (ci_key i)) ->
    forall i o, In (WCall i, Some o) (wtrace w 0 init h) -> co_ret o = f (ci_key i).
Proof. exact PfWrapper.C01w_returns_function_value. Qed.
Print Assumptions C01w_returns_function_value.
