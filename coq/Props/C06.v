(* C06 — TTL: an entry of age >= ttl is never served and is purged on access. *)
From CL Require Import PfC06.
Theorem C06_ttl :
  forall c h, wf_cfg c = true -> check_trace c06_step c (trace c 0 init h) = true.
Proof. exact c06_holds. Qed.
Print Assumptions C06_ttl.

(* the async cache reads whole unix seconds: for real times in milliseconds with an
   arbitrary sub-second phase, age >= T s is always expired and age < T-1 s never is *)
Theorem C06_async_clock_expiry :
  forall now born T, born <= now -> T * 1000 <= now - born -> T <= now / 1000 - born / 1000.
Proof. exact async_clock_expiry. Qed.
Print Assumptions C06_async_clock_expiry.
Theorem C06_async_clock_fresh :
  forall now born T, born <= now -> 1 <= T -> now - born < (T - 1) * 1000 -> now / 1000 - born / 1000 < T.
Proof. exact async_clock_fresh. Qed.
Print Assumptions C06_async_clock_fresh.
