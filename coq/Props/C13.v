(* C13 — invalidation is precise and leaves capacity bookkeeping exact. *)
From CL Require Import PfC13 PfRegistry.
Theorem C13_invalidate_with_is_a_filter :
  forall c h, wf_cfg c = true -> check_trace c13_step c (trace c 0 init h) = true.
Proof. exact c13_holds. Qed.
Print Assumptions C13_invalidate_with_is_a_filter.

Theorem C13_invalidate_with_touches_one_cache :
  forall n ks w w' b,
    invalidate_with n ks w = (w', b) ->
    length w' = length w /\
    (forall j e, nth_error w j = Some e ->
       (cond_matches n e = true -> nth_error w' j = Some (set_st e (apply_inval ks (ce_st e)))) /\
       (cond_matches n e = false -> nth_error w' j = Some e)) /\
    b = existsb (cond_matches n) w /\
    (b = true <-> exists e, In e w /\ cond_matches n e = true).
Proof. exact invalidate_with_spec. Qed.
Print Assumptions C13_invalidate_with_touches_one_cache.

Theorem C13_removed_exactly_the_matching_entries :
  forall ks s,
    Struct (st_store s) (st_queue s) ->
    let s' := apply_inval ks s in
    Struct (st_store s') (st_queue s') /\
    (forall x, In x (keys (st_store s')) <-> In x (keys (st_store s)) /\ ~ In x ks) /\
    (forall x, lookup x (st_store s') = if inb x ks then None else lookup x (st_store s)) /\
    st_queue s' = filter (fun x => negb (inb x ks)) (st_queue s) /\
    st_hits s' = st_hits s /\ st_misses s' = st_misses s.
Proof. exact apply_inval_spec. Qed.
Print Assumptions C13_removed_exactly_the_matching_entries.

Theorem C13_invalidate_all_with :
  forall ksel w w' n,
    invalidate_all_with ksel w = (w', n) ->
    length w' = length w /\
    (forall j e, nth_error w j = Some e ->
       (cond_registered e = true ->
        nth_error w' j = Some (set_st e (apply_inval (ksel (ce_id e)) (ce_st e)))) /\
       (cond_registered e = false -> nth_error w' j = Some e)) /\
    n = count_if cond_registered w.
Proof. exact invalidate_all_with_spec. Qed.
Print Assumptions C13_invalidate_all_with.

(* group invalidation leaves every non-matching cache untouched: C12_group_invalidation *)
