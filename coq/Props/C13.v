(* C13 — conditional invalidation removes exactly the matching entries (core half). *)
From CL Require Import PfC13.
Theorem C13_invalidate_with_is_a_filter :
  forall c h, wf_cfg c = true -> check_trace c13_step c (trace c 0 init h) = true.
Proof. exact c13_holds. Qed.
Print Assumptions C13_invalidate_with_is_a_filter.
