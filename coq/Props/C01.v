(* C01 — a cached lookup returns the latest value stored for exactly that key
   (core half; the wrapper half is in Props/C01w.v).  Statements only. *)
From CL Require Import PfC01.
Theorem C01_latest_value :
  forall c h, wf_cfg c = true -> check_trace c01_step c (trace c 0 init h) = true.
Proof. exact c01_holds. Qed.
Print Assumptions C01_latest_value.
