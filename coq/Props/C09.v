(* C09 — Err results are never cached; a later Ok is. *)
From CL Require Import PfWrapper.
Theorem C09_err_not_stored :
  forall w now s i e,
    w_result w = true -> w_cache_if w = false -> wf_cfg (w_cfg w) = true ->
    co_exec (snd (call w now s i)) = true -> ci_body i = RErr e ->
    fst (call w now s i) = fst (get (w_cfg w) now (ci_key i) s).
Proof. exact C09w_err_not_stored. Qed.
Print Assumptions C09_err_not_stored.

Theorem C09_served_is_ok :
  forall w h,
    w_result w = true -> w_cache_if w = false -> wf_cfg (w_cfg w) = true ->
    forall i o, In (WCall i, Some o) (wtrace w 0 init h) ->
      (co_exec o = false -> exists v, co_ret o = ROk v) /\
      (co_exec o = true -> co_ret o = ci_body i).
Proof. exact C09w_served_is_ok. Qed.
Print Assumptions C09_served_is_ok.

Theorem C09_ok_then_served :
  forall w pre dt i v mid dt' j post o1,
    w_result w = true -> w_cache_if w = false -> w_inval_on w = false ->
    limit (w_cfg w) = None -> ttl (w_cfg w) = None -> maxmem (w_cfg w) = None ->
    ci_body i = ROk v -> ci_key j = ci_key i ->
    let h := pre ++ (dt, WCall i) :: wcalls mid ++ (dt', WCall j) :: post in
    nth_error (wtrace w 0 init h) (length pre) = Some (WCall i, Some o1) ->
    co_exec o1 = true ->
    exists o2,
      nth_error (wtrace w 0 init h) (length pre + S (length mid))%nat = Some (WCall j, Some o2) /\
      co_exec o2 = false /\ co_ret o2 = ROk v.
Proof. exact C09w_ok_then_served. Qed.
Print Assumptions C09_ok_then_served.
