(* C09 — Err results are never cached; a later Ok is. *)
From CL Require Import PfWrapper.
Theorem C09_err_not_stored :
  forall w now s i e,
    w_result w = true -> w_cache_if w = false -> wf_cfg (w_cfg w) = true ->
    co_exec (snd (call w now s i)) = true -> ci_body i = RErr e ->
    fst (call w now s i) = fst (get (w_cfg w) now (ci_key i) s).
Proof. exact C09w_err_not_stored. Qed.
Print Assumptions C09_err_not_stored.

Theorem C09_served_is_ok :
  forall w h,
    w_result w = true -> w_cache_if w = false -> wf_cfg (w_cfg w) = true ->
    forall i o, In (WCall i, Some o) (wtrace w 0 init h) ->
      (co_exec o = false -> exists v, co_ret o = ROk v) /\
      (co_exec o = true -> co_ret o = ci_body i).
Proof. exact C09w_served_is_ok. Qed.
Print Assumptions C09_served_is_ok.

Theorem C09_ok_then_served :
  forall w pre dt i v mid dt' j post o1,
    w_result w = true -> w_cache_if w = false -> w_inval_on w = false ->
    limit (w_cfg w) = None -> ttl (w_cfg w) = None -> maxmem (w_cfg w) = None ->
    ci_body i = ROk v -> ci_key j = ci_key i ->
    let h := pre ++ (dt, WCall i) :: wcalls mid ++ (dt', WCall j) :: post in
    nth_error (wtrace w 0 init h) (length pre) = Some (WCall i, Some o1) ->
    co_exec o1 = true ->
    exists o2,
      nth_error (wtrace w 0 init h) (length pre + S (length mid))%nat = Some (WCall j, Some o2) /\
      co_exec o2 = false /\ co_ret o2 = ROk v.
Proof. exact C09w_ok_then_served. Qed.
Print Assumptions C09_ok_then_served.

(* with ANY entry limit, ttl and memory limit: an Ok (a result the store decision accepts) that is not
   refused as oversize IS in the cache when the call returns, under every policy that cannot pick the
   entry being stored (FIFO, LRU, and every policy of the async engine, which evicts before it
   inserts), and the next call for the same arguments is served without running the body *)
From CL Require Import Base SeqModel Spec Inv Wrapper PfSurvive.
Theorem C09_ok_stored_under_limits :
  forall w now s i,
    wf_cfg (w_cfg w) = true -> InvA (w_cfg w) s ->
    newest_safe (w_cfg w) = true -> fits (w_cfg w) (w_mem w) (ci_size i) = true ->
    co_exec (snd (call w now s i)) = true -> store_decision w i = true ->
    lookup (ci_key i) (st_store (fst (call w now s i))) =
      Some (mkE (enc (ci_body i)) (ci_size i) (birth (w_cfg w) now) 0).
Proof. exact call_stores_when_settled. Qed.
Print Assumptions C09_ok_stored_under_limits.

Theorem C09_ok_then_served_under_limits :
  forall w now s i j,
    wf_cfg (w_cfg w) = true -> InvA (w_cfg w) s ->
    newest_safe (w_cfg w) = true -> fits (w_cfg w) (w_mem w) (ci_size i) = true ->
    co_exec (snd (call w now s i)) = true -> store_decision w i = true ->
    ci_key j = ci_key i -> (w_inval_on w = true -> ci_inv j = false) ->
    co_exec (snd (call w now (fst (call w now s i)) j)) = false /\
    co_ret (snd (call w now (fst (call w now s i)) j)) = dec (enc (ci_body i)).
Proof. exact call_then_served. Qed.
Print Assumptions C09_ok_then_served_under_limits.

Theorem C09_oversize_not_stored :
  forall c now k v sz s ch,
    InvA c s -> fits c true sz = false ->
    lookup k (st_store (insert c now true k v sz s ch)) = None.
Proof. exact insert_oversize_not_stored. Qed.
Print Assumptions C09_oversize_not_stored.
