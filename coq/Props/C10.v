(* C10 — cache_if decides, per result, whether it is stored. *)
From CL Require Import PfWrapper.
Theorem C10_consulted_once_per_execution :
  forall w now s i, w_cache_if w = true ->
    co_cif_asked (snd (call w now s i)) =
    if co_exec (snd (call w now s i)) then Some (ci_key i, ci_body i) else None.
Proof. exact C10w_consulted_once_per_execution. Qed.
Print Assumptions C10_consulted_once_per_execution.

Theorem C10_rejected_not_stored :
  forall w now s i,
    w_cache_if w = true -> w_inval_on w = false ->
    co_exec (snd (call w now s i)) = true -> ci_cif i = false ->
    lookup (ci_key i) (st_store (fst (call w now s i))) = None.
Proof. exact C10w_rejected_not_stored. Qed.
Print Assumptions C10_rejected_not_stored.

Theorem C10_absent_key_runs_body :
  forall w now s i k, ci_key i = k -> lookup k (st_store s) = None ->
    co_exec (snd (call w now s i)) = true.
Proof. exact call_absent_executes. Qed.
Print Assumptions C10_absent_key_runs_body.

Theorem C10_accepted_stored :
  forall w now s i,
    w_cache_if w = true -> limit (w_cfg w) = None -> maxmem (w_cfg w) = None ->
    co_exec (snd (call w now s i)) = true -> ci_cif i = true ->
    (w_result w = false \/ is_ok (ci_body i) = true \/ is_async (w_cfg w) = true) ->
    lookup (ci_key i) (st_store (fst (call w now s i))) =
    Some (mkE (enc (ci_body i)) (ci_size i) (birth (w_cfg w) now) 0).
Proof. exact C10w_accepted_stored. Qed.
Print Assumptions C10_accepted_stored.

(* the general forms (any limit, ttl, max_memory): what the store decision rejects leaves the cache
   exactly as the lookup left it; what it accepts and fits is stored (see C09_ok_stored_under_limits,
   the same theorem: store_decision covers cache_if, Result and the async flavour) *)
From CL Require Import Base SeqModel Spec Inv Wrapper PfSurvive.
Theorem C10_rejected_changes_nothing :
  forall w now s i,
    co_exec (snd (call w now s i)) = true -> store_decision w i = false ->
    fst (call w now s i) = fst (get (w_cfg w) now (ci_key i) s).
Proof. exact call_rejected_leaves_lookup_state. Qed.
Print Assumptions C10_rejected_changes_nothing.

Theorem C10_accepted_stored_under_limits :
  forall w now s i,
    wf_cfg (w_cfg w) = true -> InvA (w_cfg w) s ->
    newest_safe (w_cfg w) = true -> fits (w_cfg w) (w_mem w) (ci_size i) = true ->
    co_exec (snd (call w now s i)) = true -> store_decision w i = true ->
    lookup (ci_key i) (st_store (fst (call w now s i))) =
      Some (mkE (enc (ci_body i)) (ci_size i) (birth (w_cfg w) now) 0).
Proof. exact call_stores_when_settled. Qed.
Print Assumptions C10_accepted_stored_under_limits.
