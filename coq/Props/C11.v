(* C11 — invalidate_on: stale entries are never served and are refreshed. *)
From CL Require Import PfWrapper.
Theorem C11_stale_not_served_and_replaced :
  forall w now s i v,
    w_inval_on w = true -> InvA (w_cfg w) s -> wf_cfg (w_cfg w) = true ->
    snd (get (w_cfg w) now (ci_key i) s) = Some v -> ci_inv i = true ->
    co_exec (snd (call w now s i)) = true /\
    co_ret (snd (call w now s i)) = ci_body i /\
    co_inv_asked (snd (call w now s i)) = Some (ci_key i, dec v) /\
    (store_decision w i = true -> maxmem (w_cfg w) = None ->
     lookup (ci_key i) (st_store (fst (call w now s i))) =
     Some (mkE (enc (ci_body i)) (ci_size i) (birth (w_cfg w) now) 0)).
Proof. exact C11w_stale_not_served. Qed.
Print Assumptions C11_stale_not_served_and_replaced.

Theorem C11_fresh_served :
  forall w now s i v,
    w_inval_on w = true ->
    snd (get (w_cfg w) now (ci_key i) s) = Some v -> ci_inv i = false ->
    co_exec (snd (call w now s i)) = false /\
    co_ret (snd (call w now s i)) = dec v /\
    co_inv_asked (snd (call w now s i)) = Some (ci_key i, dec v).
Proof. exact C11w_fresh_served. Qed.
Print Assumptions C11_fresh_served.
