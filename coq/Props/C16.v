(* C16 — no cache operation panics, for any configuration and history.
   What the model can carry: (1) the RefCell borrow discipline of every thread-local code
   path (the class of panic the unrepaired code had), (2) the evict-until-it-fits loop
   reaches its own exit condition (no hang), (3) the random victim index is in range.
   Panics from sources the model has no notion of are caught only by the correspondence
   run (catch_unwind around every operation of the full configuration product). *)
From Coq Require Import List.
From CL Require Import Base SeqModel PfInvA Borrow PfC16.
Import ListNotations.

Theorem C16_tl_insert_no_borrow_panic :
  forall p over found pops, brun b0 (tl_insert p over found pops) = Some b0.
Proof. exact tl_insert_no_borrow_panic. Qed.
Print Assumptions C16_tl_insert_no_borrow_panic.

Theorem C16_tl_insert_with_memory_no_borrow_panic :
  forall p oversize rounds over found pops,
    brun b0 (tl_insert_mem p oversize rounds over found pops) = Some b0.
Proof. exact tl_insert_mem_no_borrow_panic. Qed.
Print Assumptions C16_tl_insert_with_memory_no_borrow_panic.

Theorem C16_tl_get_no_borrow_panic :
  forall p present expired, brun b0 (tl_get p present expired) = Some b0.
Proof. exact tl_get_no_borrow_panic. Qed.
Print Assumptions C16_tl_get_no_borrow_panic.

(* non-vacuity: the pre-repair eviction path of LFU/ARC/TLRU is rejected by the same checker *)
Theorem C16_tl_unrepaired_code_refuted :
  exists p, brun b0 (with_map_mut ++ [BMut COrd] ++ evict_held_prefix p true 0 ++ [BRelMut COrd]) = None.
Proof. exact tl_insert_prefix_refuted. Qed.
Print Assumptions C16_tl_unrepaired_code_refuted.

Theorem C16_memory_loop_terminates :
  forall c now u extra M m q ch fuel m' q' ch',
    Struct m q -> (length q < fuel)%nat -> (extra <= M)%N ->
    mem_loop fuel c now u extra M m q ch = (m', q', ch') ->
    mem_loop 1 c now u extra M m' q' ch' = (m', q', ch').
Proof. exact mem_loop_more_fuel. Qed.
Print Assumptions C16_memory_loop_terminates.

Theorem C16_random_index_in_range :
  forall ch q, q <> [] -> (fst (random_pos ch q) < length q)%nat.
Proof. exact random_index_in_range. Qed.
Print Assumptions C16_random_index_in_range.
