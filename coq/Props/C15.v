(* C15 — hit/miss statistics are exact (sequential half). *)
From CL Require Import PfC15.
Theorem C15_each_lookup_counts_once :
  forall c h, check_trace c15_step c (trace c 0 init h) = true.
Proof. exact c15_holds. Qed.
Print Assumptions C15_each_lookup_counts_once.
Theorem C15_total :
  forall c h s now, run c 0 init h = (s, now) ->
    st_hits s + st_misses s =
    N.of_nat (length (filter (fun e => match ev_op e with Get _ => true | _ => false end) h)).
Proof. exact c15_total. Qed.
Print Assumptions C15_total.
