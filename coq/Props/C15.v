(* C15 — hit/miss statistics are exact (sequential half). *)
From CL Require Import PfC15.
Theorem C15_each_lookup_counts_once :
  forall c h, check_trace c15_step c (trace c 0 init h) = true.
Proof. exact c15_holds. Qed.
Print Assumptions C15_each_lookup_counts_once.
Theorem C15_total :
  forall c h s now, run c 0 init h = (s, now) ->
    st_hits s + st_misses s =
    N.of_nat (length (filter (fun e => match ev_op e with Get _ => true | _ => false end) h)).
Proof. exact c15_total. Qed.
Print Assumptions C15_total.

(* registry half: statistics are found under the cache's name; reset touches only that cache *)
From CL Require Import PfRegistry.
Theorem C15_stats_by_name :
  forall n w h m,
    stats_get n w = Some (h, m) ->
    exists e, In e w /\ cond_matches n e = true /\ h = st_hits (ce_st e) /\ m = st_misses (ce_st e).
Proof. exact stats_get_spec. Qed.
Print Assumptions C15_stats_by_name.
Theorem C15_reset_touches_one_cache :
  forall n w w' b,
    stats_reset n w = (w', b) ->
    forall j e, nth_error w j = Some e ->
      (cond_matches n e = false -> nth_error w' j = Some e) /\
      (cond_matches n e = true ->
       exists e', nth_error w' j = Some e' /\
         st_store (ce_st e') = st_store (ce_st e) /\ st_queue (ce_st e') = st_queue (ce_st e) /\
         st_hits (ce_st e') = 0 /\ st_misses (ce_st e') = 0 /\ e' = set_st e (ce_st e')).
Proof. exact stats_reset_frame. Qed.
Print Assumptions C15_reset_touches_one_cache.

(* concurrent half: the counters are atomic; every lookup performs exactly one increment (hit iff an
   unexpired entry was found).  Whatever the interleaving and however the counters are laid out (one pair,
   or several stripes summed by the reader), the numbers read afterwards are exact. *)
From CL Require Import StatsConc.
Theorem C15_exact_under_concurrency :
  forall n ops, (0 < n)%nat ->
    hits (fold_left record ops (fresh n)) = count_hits ops /\
    misses (fold_left record ops (fresh n)) = count_misses ops /\
    hits (fold_left record ops (fresh n)) + misses (fold_left record ops (fresh n)) = N.of_nat (length ops).
Proof. exact stats_exact_under_concurrency. Qed.
Print Assumptions C15_exact_under_concurrency.

(* under concurrency, at the granularity of the lookup's own phases (LookupConc: phase 1 reads,
   phase 2 re-checks and purges, a hit's recency section comes later; the environment changes the
   store arbitrarily in between; expiry is any function of time and birth): every lookup is booked
   exactly once on every path, so at quiescence hits + misses = lookups performed, and in between
   the counters never lag behind the lookups that have returned *)
From CL Require Import LookupConc PfLookupConc.
Theorem C15_every_lookup_booked_once_under_concurrency :
  forall (expired : N -> N -> bool) n s,
    lreach expired n s ->
    (quiescent s -> l_hits s + l_misses s = l_done s)%N /\
    (l_done s <= l_hits s + l_misses s)%N.
Proof.
  intros expired n s H. split.
  - intro Q. eapply stats_exact_at_quiescence; eassumption.
  - eapply stats_never_lag; eassumption.
Qed.
Print Assumptions C15_every_lookup_booked_once_under_concurrency.
