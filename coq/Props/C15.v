From CL Require Import Lift.
Theorem tmp : True. Proof. exact I. Qed.
Print Assumptions tmp.
