(* PfC08.v — C08: under LFU / ARC / TLRU the keys removed by a store can be put in an
   order in which each one minimises the documented score among the keys still
   competing.  The witness is the model's own eviction order. *)
From CL Require Export PfInvO PfVictim Lift.
From Coq Require Import Lia Permutation.
Open Scope N_scope.

Arguments N.add : simpl never.
Arguments N.sub : simpl never.
Arguments N.mul : simpl never.
Arguments N.div : simpl never.
Arguments N.eqb : simpl never.
Arguments N.ltb : simpl never.
Arguments N.leb : simpl never.
Arguments N.pow : simpl never.
Arguments N.min : simpl never.

Definition mem_only (h : list event) : Prop :=
  Forall (fun e => match ev_op e with Ins _ _ _ => False | _ => True end) h.

(* ------------------------------------------------------------------ *)
(** * [perms] enumerates every permutation *)

Lemma insert_all_In : forall x a b, In (a ++ x :: b) (insert_all x (a ++ b)).
Proof.
  intros x a b. induction a as [|y a IH]; cbn [app insert_all].
  - destruct b as [|y b]; cbn [insert_all]; left; reflexivity.
  - right. apply in_map. exact IH.
Qed.

Lemma perms_complete : forall l l', Permutation l l' -> In l' (perms l).
Proof.
  induction l as [|x l IH]; intros l' HP; cbn [perms].
  - apply Permutation_nil in HP. subst l'. left. reflexivity.
  - assert (Hx : In x l') by (apply (Permutation_in x HP); left; reflexivity).
    destruct (in_split x l' Hx) as (a & b & El'). subst l'.
    apply Permutation_cons_app_inv in HP.
    apply in_flat_map. exists (a ++ b). split; [apply IH; exact HP|apply insert_all_In].
Qed.

(* ------------------------------------------------------------------ *)
(** * the model's eviction order under the score policies *)

Inductive EvSeq (c : cfg) (now : N) : store -> list key -> list key -> store -> list key -> Prop :=
| ES_nil : forall m q, EvSeq c now m q [] m q
| ES_cons : forall m q v rest m' q',
    victim_ok c now m q v ->
    EvSeq c now (sremove v m) (remove_first v q) rest m' q' ->
    EvSeq c now m q (v :: rest) m' q'.

Lemma EvSeq_app : forall c now m q o1 m1 q1 o2 m2 q2,
    EvSeq c now m q o1 m1 q1 -> EvSeq c now m1 q1 o2 m2 q2 -> EvSeq c now m q (o1 ++ o2) m2 q2.
Proof.
  intros c now m q o1 m1 q1 o2 m2 q2 H1 H2. induction H1 as [m q|m q v rest m' q' Hv H1 IH]; cbn [app].
  - exact H2.
  - apply ES_cons; [exact Hv|]. apply IH. exact H2.
Qed.

Lemma EvSeq_Struct : forall c now m q o m' q',
    EvSeq c now m q o m' q' -> Struct m q -> Struct m' q'.
Proof.
  intros c now m q o m' q' H. induction H as [m q|m q v rest m' q' Hv H IH]; intro HS; [exact HS|].
  apply IH. apply Struct_remove_first. exact HS.
Qed.

Lemma EvSeq_keys : forall c now m q o m' q',
    EvSeq c now m q o m' q' ->
    NoDup o /\
    (forall x, In x o <-> In x (keys m) /\ ~ In x (keys m')) /\
    (forall x, In x (keys m') -> In x (keys m)).
Proof.
  intros c now m q o m' q' H. induction H as [m q|m q v rest m' q' Hv H IH].
  - split; [constructor|]. split; [|tauto]. intro x. cbn [In]. tauto.
  - destruct IH as (Hnd & Hin & Hincl).
    apply victim_ok_In in Hv. destruct Hv as [_ Hvm].
    assert (Hvn : ~ In v (keys m')).
    { intro Hc. apply Hincl in Hc. apply In_keys_sremove in Hc. tauto. }
    split; [|split].
    + constructor; [|exact Hnd]. intro Hc. apply Hin in Hc. destruct Hc as [Hc _].
      apply In_keys_sremove in Hc. tauto.
    + intro x. cbn [In]. rewrite Hin, In_keys_sremove. split.
      * intros [E|[[H1 H2] H3]]; [subst x; tauto|tauto].
      * intros [H1 H2]. destruct (N.eq_dec v x) as [E|E]; [left; exact E|right].
        split; [split; [exact H1|congruence]|exact H2].
    + intros x Hx. apply Hincl in Hx. apply In_keys_sremove in Hx. apply Hx.
Qed.

(* the key [k], if it is evicted at all, is evicted last *)
Fixpoint klast (k : key) (l : list key) : Prop :=
  match l with
  | [] => True
  | v :: r => (v = k -> r = []) /\ klast k r
  end.

Lemma klast_short : forall k l, (length l <= 1)%nat -> klast k l.
Proof.
  intros k [|v [|w l]] H; cbn [klast length] in *; [exact I| |lia].
  split; [reflexivity|exact I].
Qed.

Lemma klast_app : forall k a b, klast k a -> klast k b -> (In k a -> b = []) -> klast k (a ++ b).
Proof.
  intros k a b. induction a as [|v a IH]; intros Ha Hb Hin; cbn [app]; [exact Hb|].
  cbn [klast] in *. destruct Ha as [Hv Ha]. split.
  - intro E. rewrite (Hv E). rewrite Hin by (left; exact E). reflexivity.
  - apply IH; [exact Ha|exact Hb|]. intro Hk. apply Hin. right. exact Hk.
Qed.

Lemma mem_loop_done : forall fuel c now u extra M m q ch,
    total_size m + extra <= M -> mem_loop fuel c now u extra M m q ch = (m, q, ch).
Proof.
  intros fuel c now u extra M m q ch H. destruct fuel as [|fuel]; cbn [mem_loop]; [reflexivity|].
  apply N.leb_le in H. rewrite H. reflexivity.
Qed.

Lemma mem_loop_EvSeq : forall fuel c now u extra M m q ch m' q' ch' k,
    counts_hits (pol c) = true -> Struct m q ->
    mem_loop fuel c now u extra M m q ch = (m', q', ch') ->
    exists order, EvSeq c now m q order m' q' /\
                  (total_size (sremove k m) + extra <= M -> klast k order).
Proof.
  induction fuel as [|fuel IH]; intros c now u extra M m q ch m' q' ch' k Hp HS H; cbn [mem_loop] in H.
  - inversion H; subst. exists []. split; [constructor|intros _; exact I].
  - destruct (total_size m + extra <=? M).
    + inversion H; subst. exists []. split; [constructor|intros _; exact I].
    + destruct (evict_one c now u m q ch) as [[[m1 q1] ev] ch1] eqn:E.
      destruct (evict_one_score_victim _ _ _ _ _ _ _ _ _ _ Hp (proj1 HS) E)
        as [(v & Ev & Hev & Hm1 & Hq1)|(_ & Hev & Hm1 & Hq1)].
      * subst ev m1 q1.
        pose proof (Struct_remove_first v m q HS) as HS1.
        destruct (N.eq_dec v k) as [Evk|Evk];
          [destruct (N.leb_spec (total_size (sremove k m) + extra) M) as [Hle|Hgt]|].
        -- subst v. rewrite mem_loop_done in H by exact Hle. inversion H; subst.
           exists [k]. split; [apply ES_cons; [exact Ev|constructor]|].
           intros _. cbn [klast]. split; [reflexivity|exact I].
        -- destruct (IH _ _ _ _ _ _ _ _ _ _ _ k Hp HS1 H) as (order & HE & _).
           exists (v :: order). split; [apply ES_cons; assumption|]. intro Hc. lia.
        -- destruct (IH _ _ _ _ _ _ _ _ _ _ _ k Hp HS1 H) as (order & HE & Hk).
           exists (v :: order). split; [apply ES_cons; assumption|]. intro Hle.
           cbn [klast]. split; [intro Ec; contradiction|]. apply Hk.
           rewrite sremove_comm. pose proof (total_size_sremove_le v (sremove k m)). lia.
      * subst ev m1 q1.
        inversion H; subst. exists []. split; [constructor|intros _; exact I].
Qed.

Lemma entry_limit_EvSeq : forall c now m q ch m' q' ch',
    counts_hits (pol c) = true -> Struct m q ->
    entry_limit c now m q ch = (m', q', ch') ->
    exists order, EvSeq c now m q order m' q' /\ (length order <= 1)%nat /\
                  (order <> [] -> exists L, limit c = Some L /\ over_limit c L m q = true).
Proof.
  intros c now m q ch m' q' ch' Hp HS H. unfold entry_limit in H.
  destruct (limit c) as [L|] eqn:EL;
    [|inversion H; subst; exists []; split; [constructor|split; [cbn [length]; lia|congruence]]].
  destruct (over_limit c L m q) eqn:Eo;
    [|inversion H; subst; exists []; split; [constructor|split; [cbn [length]; lia|congruence]]].
  destruct (evict_one c now false m q ch) as [[[m1 q1] ev] ch1] eqn:E.
  inversion H; subst m1 q1 ch1.
  destruct (evict_one_score_victim _ _ _ _ _ _ _ _ _ _ Hp (proj1 HS) E)
    as [(v & Ev & _ & Hm1 & Hq1)|(_ & _ & Hm1 & Hq1)].
  - subst m' q'.
    exists [v]. split; [apply ES_cons; [exact Ev|constructor]|].
    split; [cbn [length]; lia|]. intros _. exists L. split; [reflexivity|exact Eo].
  - subst m' q'.
    exists []. split; [constructor|split; [cbn [length]; lia|congruence]].
Qed.

(* ------------------------------------------------------------------ *)
(** * what the store holds agrees with the ghost *)

Definition Agree (g : ghost) (m : store) : Prop :=
  forall x e, lookup x m = Some e ->
    exists i, glookup x g = Some i /\ e_freq e = g_hits i /\ e_born e = g_born i.

Lemma Agree_sremove : forall g v m, Agree g m -> Agree g (sremove v m).
Proof.
  intros g v m H x e Hl. destruct (N.eq_dec x v) as [E|E].
  - subst x. rewrite lookup_sremove_eq in Hl. discriminate Hl.
  - rewrite lookup_sremove_neq in Hl by exact E. apply H. exact Hl.
Qed.

Lemma Agree_InvG : forall c idx s g,
    counts_hits (pol c) = true -> InvG c idx s g -> Agree g (st_store s).
Proof.
  intros c idx s g Hp HG x e Hl. destruct (HG x e Hl) as (i & Hi & _ & Hb & Hf & _).
  rewrite Hp in Hf. exists i. repeat split; assumption.
Qed.

Lemma Agree_gset_sremove : forall g k i m, Agree g m -> Agree (gset k i g) (sremove k m).
Proof.
  intros g k i m H x e Hl. destruct (N.eq_dec x k) as [E|E].
  - subst x. rewrite lookup_sremove_eq in Hl. discriminate Hl.
  - rewrite lookup_sremove_neq in Hl by exact E. rewrite glookup_gset_neq by exact E.
    apply H. exact Hl.
Qed.

Lemma Agree_gset_upsert : forall g k i e m,
    Agree g m -> e_freq e = g_hits i -> e_born e = g_born i ->
    Agree (gset k i g) (upsert k e m).
Proof.
  intros g k i e m H Hf Hb x e' Hl. destruct (N.eq_dec x k) as [E|E].
  - subst x. rewrite lookup_upsert_eq in Hl. inversion Hl; subst e'.
    exists i. split; [apply glookup_gset_eq|split; assumption].
  - rewrite lookup_upsert_neq in Hl by exact E. rewrite glookup_gset_neq by exact E.
    apply H. exact Hl.
Qed.

Lemma af_num_agree : forall c now g x e i,
    glookup x g = Some i -> e_born e = g_born i -> af_num c now e = g_af_num c now g x.
Proof.
  intros c now g x e i Hi Hb. unfold af_num, g_af_num. rewrite Hi, Hb.
  destruct (ttl c); reflexivity.
Qed.

(* ------------------------------------------------------------------ *)
(** * recency rank = position in the queue *)

Lemma In_nth_key : forall x q, In x q -> exists j, nth_key j q = Some x.
Proof.
  intros x q. induction q as [|a q IH]; intro H; [destruct H|].
  destruct H as [H|H].
  - subst a. exists 0%nat. reflexivity.
  - destruct (IH H) as [j Hj]. exists (S j). exact Hj.
Qed.

Lemma filter_length_same_set : forall (p : key -> bool) a b,
    NoDup a -> NoDup b -> (forall y, In y a <-> In y b) ->
    length (filter p a) = length (filter p b).
Proof.
  intros p a b Ha Hb H. apply NoDup_same_length.
  - apply NoDup_filter. exact Ha.
  - apply NoDup_filter. exact Hb.
  - intro y. rewrite !filter_In, H. tauto.
Qed.

Lemma increasing_count : forall (f : key -> N) q j x,
    increasing f q -> nth_key j q = Some x ->
    length (filter (fun y => f y <? f x) q) = j.
Proof.
  intros f q. induction q as [|a q IH]; intros j x Hinc Hn; [destruct j; discriminate Hn|].
  cbn [increasing] in Hinc. destruct Hinc as [Ha Hq]. destruct j as [|j]; cbn [nth_key] in Hn.
  - inversion Hn; subst a. cbn [filter]. rewrite N.ltb_irrefl.
    rewrite filter_nil_forall; [reflexivity|].
    intros y Hy. apply N.ltb_ge. apply N.lt_le_incl. apply Ha. exact Hy.
  - cbn [filter]. assert (Hlt : f a < f x) by (apply Ha; apply (nth_key_In j); exact Hn).
    apply N.ltb_lt in Hlt. rewrite Hlt. cbn [length]. f_equal. apply IH; assumption.
Qed.

Lemma rank_position : forall g cands q j x,
    NoDup cands -> NoDup q -> (forall y, In y cands <-> In y q) ->
    increasing (gstamp true g) q -> nth_key j q = Some x ->
    rank g cands x = N.of_nat (S j).
Proof.
  intros g cands q j x Hc Hq Hiff Hinc Hn. unfold rank.
  rewrite (filter_length_same_set _ cands q Hc Hq Hiff).
  rewrite (increasing_count _ q j x Hinc Hn). lia.
Qed.

(* ------------------------------------------------------------------ *)
(** * ASYNC: the model's score is the documented score *)

Lemma score_doc_async : forall c now g cands len j x e i,
    is_async c = true ->
    glookup x g = Some i -> e_freq e = g_hits i -> e_born e = g_born i ->
    (tracks_recency (pol c) = true -> rank g cands x = N.of_nat (S j)) ->
    score c now len j e = doc_score c now g cands x.
Proof.
  intros c now g cands len j x e i Ha Hi Hf Hb Hr.
  unfold score, doc_score, pos_weight, ghits. rewrite Ha, Hi, Hf.
  destruct (pol c) eqn:Ep; cbn [tracks_recency] in Hr; try reflexivity.
  - rewrite Hr by reflexivity. reflexivity.
  - rewrite Hr by reflexivity. rewrite (af_num_agree c now g x e i Hi Hb).
    destruct (fw c) as [[n d]|]; [reflexivity|]. rewrite N.mul_assoc. reflexivity.
Qed.

Lemma async_minimiser : forall c now g cands m q v,
    is_async c = true -> Struct m q ->
    NoDup cands -> (forall y, In y cands <-> In y (keys m)) ->
    Agree g m ->
    (tracks_recency (pol c) = true -> increasing (gstamp true g) q) ->
    victim_ok c now m q v ->
    inb v cands = true /\ is_minimiser c now g cands v = true.
Proof.
  intros c now g cands m q v Ha HS Hnd Hiff HAg Hinc Hv.
  destruct Hv as (j & e & Hn & Hl & Hmin).
  assert (Hcq : forall y, In y cands <-> In y q).
  { intro y. rewrite Hiff. symmetry. apply HS. }
  assert (Hsc : forall j' x e', nth_key j' q = Some x -> lookup x m = Some e' ->
                score c now (length q) j' e' = doc_score c now g cands x).
  { intros j' x e' Hn' Hl'. destruct (HAg x e' Hl') as (i & Hi & Hf & Hb).
    apply (score_doc_async c now g cands (length q) j' x e' i Ha Hi Hf Hb).
    intro Ht. apply (rank_position g cands q j' x Hnd (proj1 HS) Hcq (Hinc Ht) Hn'). }
  split.
  - apply inb_In. apply Hiff. apply (lookup_Some_In v m e). exact Hl.
  - unfold is_minimiser. apply forallb_forall. intros x Hx. apply N.leb_le.
    pose proof (proj1 (Hiff x) Hx) as Hxm.
    destruct (In_keys_lookup _ _ Hxm) as [e' He'].
    destruct (In_nth_key x q (proj1 (Hcq x) Hx)) as [j' Hj'].
    rewrite <- (Hsc j v e Hn Hl), <- (Hsc j' x e' Hj' He').
    apply (Hmin j' x e' Hj' He').
Qed.

Lemma cands_filter : forall (cands : list key) v m,
    NoDup cands -> (forall y, In y cands <-> In y (keys m)) ->
    NoDup (filter (fun x => negb (N.eqb x v)) cands) /\
    (forall y, In y (filter (fun x => negb (N.eqb x v)) cands) <-> In y (keys (sremove v m))).
Proof.
  intros cands v m Hnd Hiff. split; [apply NoDup_filter; exact Hnd|].
  intro y. rewrite filter_In, negb_true_iff, N.eqb_neq, In_keys_sremove, Hiff. tauto.
Qed.

Lemma async_order_ok : forall c now g m q order m' q',
    is_async c = true ->
    EvSeq c now m q order m' q' ->
    forall cands, Struct m q ->
    NoDup cands -> (forall y, In y cands <-> In y (keys m)) ->
    Agree g m ->
    (tracks_recency (pol c) = true -> increasing (gstamp true g) q) ->
    evict_order_ok c now g cands order = true.
Proof.
  intros c now g m q order m' q' Ha HE.
  induction HE as [m q|m q v rest m' q' Hv HE IH]; intros cands HS Hnd Hiff HAg Hinc; [reflexivity|].
  cbn [evict_order_ok].
  destruct (async_minimiser c now g cands m q v Ha HS Hnd Hiff HAg Hinc Hv) as [H1 H2].
  rewrite H1, H2. cbn [andb].
  destruct (cands_filter cands v m Hnd Hiff) as [Hnd' Hiff'].
  apply IH.
  - apply Struct_remove_first. exact HS.
  - exact Hnd'.
  - exact Hiff'.
  - apply Agree_sremove. exact HAg.
  - intro Ht. rewrite remove_first_remove_all by apply HS. apply increasing_remove_all. apply Hinc. exact Ht.
Qed.

(* ------------------------------------------------------------------ *)
(** * SYNC: while the newcomer (0 hits) is stored, every victim has score 0 *)

Lemma score_freq0 : forall c now len j e,
    is_async c = false -> e_freq e = 0 -> score c now len j e = 0.
Proof.
  intros c now len j e Ha Hf. unfold score. rewrite Ha, Hf.
  destruct (pol c); try reflexivity.
  destruct (fw c) as [[n d]|]; reflexivity.
Qed.

Lemma score_zero_doc_zero : forall c now g cands len j x e i,
    is_async c = false -> (j < len)%nat ->
    glookup x g = Some i -> e_freq e = g_hits i -> e_born e = g_born i ->
    score c now len j e = 0 -> doc_score c now g cands x = 0.
Proof.
  intros c now g cands len j x e i Ha Hj Hi Hf Hb Hs.
  unfold score, pos_weight in Hs. rewrite Ha in Hs. unfold doc_score, ghits. rewrite Hi, <- Hf.
  assert (Hpw : N.of_nat (len - j) <> 0) by lia.
  destruct (pol c); try reflexivity.
  - exact Hs.
  - apply N.mul_eq_0 in Hs. destruct Hs as [Hs|Hs]; [|contradiction]. rewrite Hs. apply N.mul_0_l.
  - rewrite <- (af_num_agree c now g x e i Hi Hb).
    assert (H0 : e_freq e = 0 \/ af_num c now e = 0).
    { destruct (fw c) as [[n d]|].
      - apply N.mul_eq_0 in Hs. destruct Hs as [Hs|Hs]; [|right; exact Hs].
        apply N.mul_eq_0 in Hs. destruct Hs as [Hs|Hs]; [|contradiction].
        apply N.mul_eq_0 in Hs. destruct Hs as [Hs|Hs]; [left; exact Hs|discriminate Hs].
      - apply N.mul_eq_0 in Hs. destruct Hs as [Hs|Hs]; [|right; exact Hs].
        apply N.mul_eq_0 in Hs. destruct Hs as [Hs|Hs]; [left; exact Hs|contradiction]. }
    destruct H0 as [H0|H0]; rewrite H0.
    + destruct (fw c) as [[n d]|]; [|apply N.mul_0_l].
      rewrite N.pow_0_l by discriminate. apply N.mul_0_l.
    + rewrite N.mul_0_r. destruct (fw c) as [[n d]|]; [|apply N.mul_0_r].
      rewrite (N.pow_0_l (N.pos d)) by discriminate. apply N.mul_0_r.
Qed.

Lemma sync_minimiser : forall c now g cands m q v k ek,
    is_async c = false -> Struct m q ->
    (forall y, In y cands <-> In y (keys m)) ->
    Agree g m ->
    lookup k m = Some ek -> e_freq ek = 0 ->
    victim_ok c now m q v ->
    inb v cands = true /\ is_minimiser c now g cands v = true.
Proof.
  intros c now g cands m q v k ek Ha HS Hiff HAg Hk Hf Hv.
  destruct Hv as (j & e & Hn & Hl & Hmin).
  assert (Hkq : In k q) by (apply HS; apply (lookup_Some_In k m ek); exact Hk).
  destruct (In_nth_key k q Hkq) as [jk Hjk].
  pose proof (Hmin jk k ek Hjk Hk) as Hle.
  rewrite (score_freq0 c now (length q) jk ek Ha Hf) in Hle.
  assert (Hs0 : score c now (length q) j e = 0) by lia.
  destruct (HAg v e Hl) as (i & Hi & Hfi & Hbi).
  pose proof (score_zero_doc_zero c now g cands (length q) j v e i Ha
                (nth_key_Some_lt j q v Hn) Hi Hfi Hbi Hs0) as Hd.
  split.
  - apply inb_In. apply Hiff. apply (lookup_Some_In v m e). exact Hl.
  - unfold is_minimiser. apply forallb_forall. intros x _. apply N.leb_le. rewrite Hd. apply N.le_0_l.
Qed.

Lemma sync_order_ok : forall c now g m q order m' q' k ek,
    is_async c = false ->
    EvSeq c now m q order m' q' ->
    forall cands, Struct m q ->
    NoDup cands -> (forall y, In y cands <-> In y (keys m)) ->
    Agree g m ->
    lookup k m = Some ek -> e_freq ek = 0 -> klast k order ->
    evict_order_ok c now g cands order = true.
Proof.
  intros c now g m q order m' q' k ek Ha HE.
  induction HE as [m q|m q v rest m' q' Hv HE IH]; intros cands HS Hnd Hiff HAg Hk Hf Hkl; [reflexivity|].
  cbn [evict_order_ok].
  destruct (sync_minimiser c now g cands m q v k ek Ha HS Hiff HAg Hk Hf Hv) as [H1 H2].
  rewrite H1, H2. cbn [andb]. cbn [klast] in Hkl. destruct Hkl as [Hvk Hkl].
  destruct (N.eq_dec v k) as [E|E].
  - rewrite (Hvk E). reflexivity.
  - destruct (cands_filter cands v m Hnd Hiff) as [Hnd' Hiff'].
    apply IH; try assumption.
    + apply Struct_remove_first. exact HS.
    + apply Agree_sremove. exact HAg.
    + rewrite lookup_sremove_neq by congruence. exact Hk.
Qed.

(* ------------------------------------------------------------------ *)
(** * a store, engine by engine *)

Lemma cand0_spec : forall k (pre : list key),
    NoDup pre ->
    NoDup (if inb k pre then pre else k :: pre) /\
    (forall x, In x (if inb k pre then pre else k :: pre) <-> x = k \/ In x pre).
Proof.
  intros k pre Hnd. destruct (inb k pre) eqn:Ek.
  - apply inb_In in Ek. split; [exact Hnd|]. intro x. split; [tauto|].
    intros [E|E]; [subst; exact Ek|exact E].
  - apply inb_false in Ek. split; [constructor; assumption|]. intro x. cbn [In].
    split; (intros [E|E]; [left; symmetry; exact E|right; exact E]).
Qed.

Lemma c08_async : forall c now (wm : bool) k v sz m q ch m' q' g i,
    is_async c = true -> counts_hits (pol c) = true -> Struct m q -> Agree g m ->
    (tracks_recency (pol c) = true -> increasing (gstamp true g) q) ->
    (forall M, (if wm then maxmem c else None) = Some M -> (M <? sz) = false) ->
    insert_async c now wm k v sz m q ch = (m', q') ->
    evict_seq c now (gset k i g)
              (filter (fun x => negb (N.eqb x k)) (keys m))
              (filter (fun x => negb (N.eqb x k))
                      (diff (if inb k (keys m) then keys m else k :: keys m) (keys m'))) = true.
Proof.
  intros c now wm k v sz m q ch m' q' g i Ha Hp HS HAg Hinc Hov H.
  pose proof (Struct_remove_all k m q HS) as HS0.
  set (cands := filter (fun x => negb (N.eqb x k)) (keys m)).
  set (rem := filter (fun x => negb (N.eqb x k))
                     (diff (if inb k (keys m) then keys m else k :: keys m) (keys m'))).
  assert (Htail : forall order m3 q3,
             EvSeq c now (sremove k m) (remove_all k q) order m3 q3 ->
             m' = upsert k (new_entry c now v sz) m3 ->
             evict_seq c now (gset k i g) cands rem = true).
  { intros order m3 q3 HE Hm'.
    assert (Hnd : NoDup cands) by (apply NoDup_filter; apply HS).
    assert (Hiff : forall y, In y cands <-> In y (keys (sremove k m))).
    { intro y. unfold cands. rewrite filter_In, negb_true_iff, N.eqb_neq, In_keys_sremove. tauto. }
    assert (Hok : evict_order_ok c now (gset k i g) cands order = true).
    { apply (async_order_ok c now (gset k i g) _ _ order m3 q3 Ha HE cands HS0 Hnd Hiff).
      - apply Agree_gset_sremove. exact HAg.
      - intro Ht. apply increasing_gset_notin; [rewrite In_remove_all; tauto|].
        apply increasing_remove_all. apply Hinc. exact Ht. }
    destruct (EvSeq_keys _ _ _ _ _ _ _ HE) as (Hndo & Hino & _).
    destruct (cand0_spec k (keys m) (proj1 (proj2 HS))) as [Hndc Hinc0].
    unfold evict_seq. apply existsb_exists. exists order. split; [|exact Hok].
    apply perms_complete. apply NoDup_Permutation.
    - unfold rem, diff. apply NoDup_filter. apply NoDup_filter. exact Hndc.
    - exact Hndo.
    - intro x. unfold rem. rewrite filter_In, negb_true_iff, N.eqb_neq, diff_In, Hinc0.
      rewrite Hino, In_keys_sremove. subst m'. rewrite In_keys_upsert. tauto. }
  destruct (insert_async_cases _ _ _ _ _ _ _ _ _ _ _ H)
    as [(M & HM & Hov' & _)|[(M & m2 & q2 & ch2 & m3 & q3 & ch3 & HM & _ & Hml & Hel & Hm & Hq)
                            |(HM & m3 & q3 & ch3 & Hel & Hm & Hq)]].
  - rewrite (Hov M HM) in Hov'. discriminate Hov'.
  - destruct (mem_loop_EvSeq _ _ _ _ _ _ _ _ _ _ _ _ k Hp HS0 Hml) as (o1 & HE1 & _).
    destruct (entry_limit_EvSeq _ _ _ _ _ _ _ _ Hp (EvSeq_Struct _ _ _ _ _ _ _ HE1 HS0) Hel)
      as (o2 & HE2 & _).
    apply (Htail (o1 ++ o2) m3 q3 (EvSeq_app _ _ _ _ _ _ _ _ _ _ HE1 HE2) Hm).
  - destruct (entry_limit_EvSeq _ _ _ _ _ _ _ _ Hp HS0 Hel) as (o2 & HE2 & _).
    apply (Htail o2 m3 q3 HE2 Hm).
Qed.

Lemma c08_sync : forall c now idx (wm : bool) k v sz m q ch m' q' g,
    is_async c = false -> counts_hits (pol c) = true -> Struct m q -> Agree g m ->
    (forall L, limit c = Some L -> N.of_nat (length m) <= L) ->
    (forall M, (if wm then maxmem c else None) = Some M -> total_size m <= M) ->
    insert_sync c now wm k v sz m q ch = (m', q') ->
    (forall M, (if wm then maxmem c else None) = Some M -> (M <? sz) = false) ->
    evict_seq c now (gset k (mkG v (birth c now) idx idx 0) g)
              (if inb k (keys m) then keys m else k :: keys m)
              (diff (if inb k (keys m) then keys m else k :: keys m) (keys m')) = true.
Proof.
  intros c now idx wm k v sz m q ch m' q' g Ha Hp HS HAg Hlim Hmem H Hov.
  pose proof (Struct_upsert_push k (new_entry c now v sz) m q HS) as HS1.
  set (g' := gset k (mkG v (birth c now) idx idx 0) g).
  set (m1 := upsert k (new_entry c now v sz) m) in *.
  set (q1 := push_back k (remove_first k q)) in *.
  set (cands := if inb k (keys m) then keys m else k :: keys m).
  destruct (cand0_spec k (keys m) (proj1 (proj2 HS))) as [Hnd Hin0]. fold cands in Hnd, Hin0.
  assert (Hiff : forall y, In y cands <-> In y (keys m1)).
  { intro y. unfold m1. rewrite Hin0, In_keys_upsert. tauto. }
  assert (HAg1 : Agree g' m1).
  { apply Agree_gset_upsert; [exact HAg|reflexivity|reflexivity]. }
  assert (Htail : forall order, EvSeq c now m1 q1 order m' q' -> klast k order ->
                                evict_seq c now g' cands (diff cands (keys m')) = true).
  { intros order HE Hkl.
    assert (Hok : evict_order_ok c now g' cands order = true).
    { apply (sync_order_ok c now g' m1 q1 order m' q' k (new_entry c now v sz) Ha HE cands HS1 Hnd Hiff HAg1).
      - apply lookup_upsert_eq.
      - reflexivity.
      - exact Hkl. }
    destruct (EvSeq_keys _ _ _ _ _ _ _ HE) as (Hndo & Hino & _).
    unfold evict_seq. apply existsb_exists. exists order. split; [|exact Hok].
    apply perms_complete. apply NoDup_Permutation.
    - unfold diff. apply NoDup_filter. exact Hnd.
    - exact Hndo.
    - intro x. rewrite diff_In, Hino, Hiff. tauto. }
  destruct (insert_sync_cases _ _ _ _ _ _ _ _ _ _ _ H)
    as [(M & HM & Hov' & _)|[(M & m2 & q2 & ch2 & ch3 & HM & _ & Hml & Hel)|(HM & ch3 & Hel)]];
    fold m1 in Hml || fold m1 in Hel || idtac; fold q1 in Hml || fold q1 in Hel || idtac.
  - rewrite (Hov M HM) in Hov'. discriminate Hov'.
  - destruct (mem_loop_EvSeq _ _ _ _ _ _ _ _ _ _ _ _ k Hp HS1 Hml) as (o1 & HE1 & Hk1).
    pose proof (EvSeq_Struct _ _ _ _ _ _ _ HE1 HS1) as HS2.
    destruct (entry_limit_EvSeq _ _ _ _ _ _ _ _ Hp HS2 Hel) as (o2 & HE2 & Hlen2 & Hov2).
    apply (Htail (o1 ++ o2) (EvSeq_app _ _ _ _ _ _ _ _ _ _ HE1 HE2)).
    apply klast_app.
    + apply Hk1. unfold m1. rewrite sremove_upsert.
      pose proof (total_size_sremove_le k m). pose proof (Hmem M HM). lia.
    + apply klast_short. exact Hlen2.
    + intro Hko1. destruct o2 as [|w o2]; [reflexivity|exfalso].
      destruct Hov2 as (L & HL & Ho); [discriminate|].
      unfold over_limit in Ho. rewrite Ha in Ho. apply N.ltb_lt in Ho.
      rewrite (Struct_length _ _ HS2) in Ho.
      destruct (EvSeq_keys _ _ _ _ _ _ _ HE1) as (_ & Hin1 & Hincl1).
      apply Hin1 in Hko1. destruct Hko1 as [_ Hkn].
      assert (Hle : (length (keys m2) <= length (keys m))%nat).
      { apply NoDup_incl_length; [apply HS2|]. intros x Hx.
        pose proof (Hincl1 x Hx) as Hx1. unfold m1 in Hx1. apply In_keys_upsert in Hx1.
        destruct Hx1 as [E|Hx1]; [subst x; contradiction|exact Hx1]. }
      rewrite !keys_length in Hle. pose proof (Hlim L HL). lia.
  - destruct (entry_limit_EvSeq _ _ _ _ _ _ _ _ Hp HS1 Hel) as (o2 & HE2 & Hlen2 & _).
    apply (Htail o2 HE2). apply klast_short. exact Hlen2.
Qed.

(* ------------------------------------------------------------------ *)
(** * the memory invariant *)

Definition InvM (c : cfg) (s : state) : Prop :=
  forall M, maxmem c = Some M -> total_size (st_store s) <= M.

Definition op_ok (c : cfg) (o : op) : Prop :=
  maxmem c <> None -> match o with Ins _ _ _ => False | _ => True end.

Lemma total_size_supdate_bump : forall k m, total_size (supdate k bump m) = total_size m.
Proof.
  intros k m. induction m as [|[k' e] m IH]; cbn [supdate]; [reflexivity|].
  destruct (N.eqb k k'); cbn [total_size fold_right snd bump e_size]; [reflexivity|].
  fold (total_size (supdate k bump m)). fold (total_size m). rewrite IH. reflexivity.
Qed.

Lemma total_size_upsert_le : forall k e m, total_size (upsert k e m) <= e_size e + total_size m.
Proof.
  intros k e m. unfold upsert. cbn [total_size fold_right snd]. fold (total_size (sremove k m)).
  pose proof (total_size_sremove_le k m). lia.
Qed.

Lemma inval_keys_total_le : forall ks m q m' q',
    inval_keys ks m q = (m', q') -> total_size m' <= total_size m.
Proof.
  induction ks as [|k ks IH]; intros m q m' q' H; cbn [inval_keys] in H.
  - inversion H; subst. lia.
  - destruct (mem k m).
    + apply IH in H. pose proof (total_size_sremove_le k m). lia.
    + apply IH in H. exact H.
Qed.

Lemma entry_limit_total_le : forall c now m q ch m' q' ch',
    Struct m q -> entry_limit c now m q ch = (m', q', ch') -> total_size m' <= total_size m.
Proof.
  intros c now m q ch m' q' ch' HS H.
  destruct (entry_limit_spec _ _ _ _ _ _ _ _ HS H)
    as [(Hm & _)|[(L & _ & _ & _ & Hm & _)|(L & w & _ & _ & _ & Hm & _)]]; subst m'.
  - lia.
  - lia.
  - apply total_size_sremove_le.
Qed.

Lemma invM_insert_mem : forall c now k v sz s ch,
    InvA c s -> InvM c s -> InvM c (insert c now true k v sz s ch).
Proof.
  intros c now k v sz s ch HA HM M HMm. pose proof (HM M HMm) as Hpre.
  pose proof (InvA_Struct c s HA) as HS. rewrite insert_eq. cbn [st_store].
  destruct (is_async c).
  - destruct (insert_async c now true k v sz (st_store s) (st_queue s) ch) as [m' q'] eqn:E.
    cbn [fst]. pose proof (Struct_remove_all k _ _ HS) as HS0.
    destruct (insert_async_cases _ _ _ _ _ _ _ _ _ _ _ E)
      as [(M' & HM' & _ & Hm & _)|[(M' & m2 & q2 & ch2 & m3 & q3 & ch3 & HM' & Hov & Hml & Hel & Hm & _)
                                  |(HM' & _)]].
    + subst m'. pose proof (total_size_sremove_le k (st_store s)). lia.
    + rewrite HMm in HM'. inversion HM'; subst M'. apply N.ltb_ge in Hov.
      pose proof (mem_loop_Shrunk _ _ _ _ _ _ _ _ _ _ _ _ HS0 Hml) as Hsh.
      assert (Hfit : total_size m2 + sz <= M).
      { apply (mem_loop_fits _ _ _ _ _ _ _ _ _ _ _ _ HS0) in Hml; [exact Hml| |exact Hov].
        unfold mem_fuel. lia. }
      pose proof (entry_limit_total_le _ _ _ _ _ _ _ _ (Shrunk_Struct _ _ _ _ Hsh) Hel).
      subst m'. pose proof (total_size_upsert_le k (new_entry c now v sz) m3).
      cbn [new_entry e_size] in *. lia.
    + rewrite HMm in HM'. discriminate HM'.
  - destruct (insert_sync c now true k v sz (st_store s) (st_queue s) ch) as [m' q'] eqn:E.
    cbn [fst]. pose proof (Struct_upsert_push k (new_entry c now v sz) _ _ HS) as HS1.
    destruct (insert_sync_cases _ _ _ _ _ _ _ _ _ _ _ E)
      as [(M' & HM' & _ & Hm & _)|[(M' & m2 & q2 & ch2 & ch3 & HM' & Hov & Hml & Hel)|(HM' & _)]].
    + subst m'. rewrite sremove_upsert. pose proof (total_size_sremove_le k (st_store s)). lia.
    + rewrite HMm in HM'. inversion HM'; subst M'.
      pose proof (mem_loop_Shrunk _ _ _ _ _ _ _ _ _ _ _ _ HS1 Hml) as Hsh.
      assert (Hfit : total_size m2 + 0 <= M).
      { apply (mem_loop_fits _ _ _ _ _ _ _ _ _ _ _ _ HS1) in Hml; [exact Hml| |lia].
        unfold mem_fuel. lia. }
      pose proof (entry_limit_total_le _ _ _ _ _ _ _ _ (Shrunk_Struct _ _ _ _ Hsh) Hel). lia.
    + rewrite HMm in HM'. discriminate HM'.
Qed.

Lemma invM_init : forall c, InvM c init.
Proof. intros c M _. cbn [init st_store total_size fold_right]. lia. Qed.

Lemma invM_step : forall c now s o ch,
    op_ok c o -> InvA c s -> InvM c s -> InvM c (fst (step c now s o ch)).
Proof.
  intros c now s o ch Hok HA HM.
  destruct o as [k|k v sz|k v sz|k| |ks]; cbn [step].
  - destruct (get c now k s) as [s' r] eqn:E. cbn [fst]. unfold get in E.
    intros M HMm. pose proof (HM M HMm) as Hpre.
    destruct (lookup k (st_store s)) as [e|].
    + destruct (expired c now e); inversion E; subst s' r; cbn [st_store].
      * pose proof (total_size_sremove_le k (st_store s)). lia.
      * destruct (counts_hits (pol c)); [rewrite total_size_supdate_bump|]; exact Hpre.
    + inversion E; subst s' r. exact Hpre.
  - cbn [fst]. intros M HMm. exfalso. apply Hok. congruence.
  - cbn [fst]. apply invM_insert_mem; assumption.
  - cbn [fst]. exact HM.
  - cbn [fst]. intros M _. cbn [st_store total_size fold_right]. lia.
  - destruct (inval_keys ks (st_store s) (st_queue s)) as [m' q'] eqn:E. cbn [fst].
    intros M HMm. cbn [st_store]. pose proof (inval_keys_total_le _ _ _ _ _ E). pose proof (HM M HMm). lia.
Qed.

(* ------------------------------------------------------------------ *)
(** * the step obligation *)

Lemma c08_insert : forall c now idx (wm : bool) k v sz s ch g o r,
    counts_hits (pol c) = true -> wf_cfg c = true ->
    InvA c s -> InvG c idx s g -> InvO c s g -> InvM c s ->
    store_key o = Some k ->
    (forall M, (if wm then maxmem c else None) = Some M -> (M <? sz) = false) ->
    let ob := mkObs s now o r (insert c now wm k v sz s ch) in
    evict_seq c now (gset k (mkG v (birth c now) idx idx 0) g)
              (if is_async c then filter (fun x => negb (N.eqb x k)) (skeys s)
               else if inb k (skeys s) then skeys s else k :: skeys s)
              (if is_async c then removed_others ob else removed ob) = true.
Proof.
  intros c now idx wm k v sz s ch g o r Hp Hwf HA HG HO HM Hsk Hov ob.
  pose proof (InvA_Struct c s HA) as HS.
  pose proof (Agree_InvG c idx s g Hp HG) as HAg.
  unfold removed_others, removed. subst ob. cbn [ob_op ob_pre ob_post]. rewrite Hsk. unfold skeys.
  rewrite insert_eq. cbn [st_store].
  destruct (is_async c) eqn:Ha.
  - destruct (insert_async c now wm k v sz (st_store s) (st_queue s) ch) as [m' q'] eqn:E.
    cbn [fst].
    apply (c08_async c now wm k v sz _ _ ch m' q' g _ Ha Hp HS HAg); [|exact Hov|exact E].
    intro Ht. unfold InvO in HO. rewrite Ht in HO. exact HO.
  - destruct (insert_sync c now wm k v sz (st_store s) (st_queue s) ch) as [m' q'] eqn:E.
    cbn [fst].
    apply (c08_sync c now idx wm k v sz _ _ ch m' q' g Ha Hp HS HAg); [| |exact E|exact Hov].
    + intros L HL. apply (InvA_limit c s L HA HL).
      unfold wf_cfg in Hwf. rewrite HL in Hwf. apply andb_true_iff in Hwf.
      apply N.leb_le. apply Hwf.
    + intros M HMm. destruct wm; [apply HM; exact HMm|discriminate HMm].
Qed.

Lemma c08_one : forall c now s o ch g idx,
    wf_cfg c = true -> InvA c s -> InvG c idx s g -> InvO c s g -> InvM c s ->
    c08_step c g idx (mkObs s now o (snd (step c now s o ch)) (fst (step c now s o ch))) = true.
Proof.
  intros c now s o ch g idx Hwf HA HG HO HM. unfold c08_step. cbn [ob_op ob_pre ob_now].
  destruct o as [k|k v sz|k v sz|k| |ks]; cbn [store_key]; try reflexivity.
  - destruct (counts_hits (pol c)) eqn:Hp; [|reflexivity].
    cbn [step fst snd ghost_step ob_op ob_now].
    apply (c08_insert c now idx false k v sz s ch g (Ins k v sz) OUnit Hp Hwf HA HG HO HM eq_refl).
    intros M HMm. discriminate HMm.
  - destruct (counts_hits (pol c)) eqn:Hp; [|reflexivity].
    destruct (maxmem c) as [M|] eqn:EM.
    + destruct (M <? sz) eqn:Eov; [reflexivity|].
      cbn [step fst snd ghost_step ob_op ob_now].
      apply (c08_insert c now idx true k v sz s ch g (InsMem k v sz) OUnit Hp Hwf HA HG HO HM eq_refl).
      intros M' HMm. rewrite EM in HMm. inversion HMm; subst M'. exact Eov.
    + cbn [step fst snd ghost_step ob_op ob_now].
      apply (c08_insert c now idx true k v sz s ch g (InsMem k v sz) OUnit Hp Hwf HA HG HO HM eq_refl).
      intros M' HMm. rewrite EM in HMm. discriminate HMm.
Qed.

(* ------------------------------------------------------------------ *)
(** * lifting over histories whose operations keep the memory invariant *)

Definition Inv8 (c : cfg) (idx : N) (s : state) (g : ghost) : Prop :=
  InvA c s /\ InvG c idx s g /\ InvO c s g /\ InvM c s.

Lemma c08_from : forall c h now idx s g,
    wf_cfg c = true -> Forall (fun e => op_ok c (ev_op e)) h ->
    Inv8 c idx s g -> check_from c08_step c g idx (trace c now s h) = true.
Proof.
  intros c h. induction h as [|e h IH]; intros now idx s g Hwf Hok (HA & HG & HO & HM); [reflexivity|].
  inversion Hok as [|e' h' Hoke Hokh]; subst. cbn [trace].
  pose proof (c08_one c (now + ev_dt e) s (ev_op e) (ev_ch e) g idx Hwf HA HG HO HM) as HP.
  pose proof (invA_step c (now + ev_dt e) s (ev_op e) (ev_ch e) Hwf HA) as HA'.
  pose proof (invG_step c (now + ev_dt e) idx s g (ev_op e) (ev_ch e) Hwf HA HG) as HG'.
  pose proof (invO_step c (now + ev_dt e) idx s g (ev_op e) (ev_ch e) Hwf HA HG HO) as HO'.
  pose proof (invM_step c (now + ev_dt e) s (ev_op e) (ev_ch e) Hoke HA HM) as HM'.
  destruct (step c (now + ev_dt e) s (ev_op e) (ev_ch e)) as [s' r] eqn:E.
  cbn [fst snd] in *. cbn [check_from]. rewrite HP. cbn [andb].
  apply IH; [exact Hwf|exact Hokh|]. exact (conj HA' (conj HG' (conj HO' HM'))).
Qed.

Theorem c08_holds : forall c h,
    wf_cfg c = true -> (maxmem c <> None -> mem_only h) ->
    check_trace c08_step c (trace c 0 init h) = true.
Proof.
  intros c h Hwf Hmo. unfold check_trace. apply c08_from; [exact Hwf| |].
  - destruct (maxmem c) as [M|] eqn:EM.
    + assert (Hm : mem_only h) by (apply Hmo; discriminate).
      unfold mem_only in Hm. apply (Forall_impl _ (P := fun e => match ev_op e with Ins _ _ _ => False | _ => True end)); [|exact Hm].
      intros e He _. exact He.
    + apply Forall_forall. intros e _ Hc. exfalso. apply Hc. exact EM.
  - split; [apply invA_init|]. split; [apply invG_init|]. split; [apply invO_init|apply invM_init].
Qed.

Print Assumptions c08_holds.
