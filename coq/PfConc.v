(* PfConc.v — structural properties of the concurrent model ConcModel.v (M8), for any number
   of threads, any interleaving and any choice of victims.

   RESULTS
   * conc_tracked_or_pending            (pinned statement)  PROVED.
   * conc_quiescent_consistent          (pinned statement)  is FALSE: its entry-limit clause
     fails for the class PScored (LFU/ARC/TLRU) when C_oversize may be taken for a key that
     some other store of the same key treated as a normal store (C_store2).
       - conc_counterexample / conc_quiescent_consistent_false : a 13-step run with two
         threads, three keys, limit = Some 1, ending quiescent with two stored entries.
   * conc_quiescent_consistent_partial  : all clauses for every class; the limit clause for
     PFifo and PRand (FIFO/LRU/Random) — and without the premise 1 <= L.
   * conc_quiescent_consistent_ov       : ALL clauses of the pinned statement for EVERY class,
     for the transition system cstep_ov = cstep where "oversize" is a property of the key
     (ov k = true: every store of k ends with C_oversize; ov k = false: with C_store2).
     This is what a deterministic cached function gives: the value, hence its estimated
     size, is a function of the key.  What is missing w.r.t. the pinned statement is
     exactly the runs that mix C_store2 and C_oversize on the same key under PScored.
   Stdlib only, no axioms. *)
From CL Require Import Lemmas ConcModel.
From Coq Require Import Lia.
Open Scope N_scope.

(* ------------------------------------------------------------------ *)
(** * The value store *)

Lemma vkeys_length : forall m, length (vkeys m) = length m.
Proof. intro m. unfold vkeys. apply map_length. Qed.

Lemma vlookup_None : forall k m, vlookup k m = None <-> ~ In k (vkeys m).
Proof.
  intros k m. induction m as [|[k' v] m IH]; cbn [vlookup vkeys map fst In]; [tauto|].
  fold (vkeys m). destruct (N.eqb_spec k k') as [E|E].
  - split; [discriminate|]. intro H. exfalso. apply H. left. symmetry. exact E.
  - rewrite IH. split.
    + intros H [H'|H']; [congruence|contradiction].
    + intros H H'. apply H. right. exact H'.
Qed.

Lemma In_vkeys_vlookup : forall k m, In k (vkeys m) <-> exists v, vlookup k m = Some v.
Proof.
  intros k m. destruct (vlookup k m) as [v|] eqn:E.
  - split; [intros _; exists v; reflexivity|]. intros _.
    destruct (in_dec N.eq_dec k (vkeys m)) as [Hin|Hin]; [exact Hin|].
    apply vlookup_None in Hin. congruence.
  - apply vlookup_None in E. split; [contradiction|]. intros [v Hv]. discriminate Hv.
Qed.

Lemma vmem_In : forall k m, vmem k m = true <-> In k (vkeys m).
Proof.
  intros k m. rewrite In_vkeys_vlookup. unfold vmem. destruct (vlookup k m) as [v|].
  - split; [intros _; exists v; reflexivity|reflexivity].
  - split; [discriminate|]. intros [v Hv]. discriminate Hv.
Qed.

Lemma vmem_false : forall k m, vmem k m = false <-> ~ In k (vkeys m).
Proof. intros k m. rewrite <- vmem_In. destruct (vmem k m); split; congruence. Qed.

Lemma vkeys_vremove : forall k m, vkeys (vremove k m) = remove_all k (vkeys m).
Proof.
  intros k m. induction m as [|[k' v] m IH]; cbn [vremove vkeys map fst remove_all]; [reflexivity|].
  fold (vkeys m). destruct (N.eqb k k'); cbn [vkeys map fst]; fold (vkeys (vremove k m)); rewrite IH; reflexivity.
Qed.

Lemma In_vkeys_vremove : forall x k m, In x (vkeys (vremove k m)) <-> In x (vkeys m) /\ x <> k.
Proof. intros. rewrite vkeys_vremove. apply In_remove_all. Qed.

Lemma NoDup_vkeys_vremove : forall k m, NoDup (vkeys m) -> NoDup (vkeys (vremove k m)).
Proof. intros k m H. rewrite vkeys_vremove. apply NoDup_remove_all. exact H. Qed.

Lemma vremove_notin : forall k m, ~ In k (vkeys m) -> vremove k m = m.
Proof.
  intros k m. induction m as [|[k' v] m IH]; intro H; cbn [vremove]; [reflexivity|].
  cbn [vkeys map fst In] in H. fold (vkeys m) in H.
  destruct (N.eqb_spec k k') as [E|E].
  - exfalso. apply H. left. symmetry. exact E.
  - f_equal. apply IH. intro Hin. apply H. right. exact Hin.
Qed.

Lemma vlookup_vremove_eq : forall k m, vlookup k (vremove k m) = None.
Proof. intros k m. apply vlookup_None. rewrite In_vkeys_vremove. tauto. Qed.

Lemma vlookup_vremove_neq : forall x k m, x <> k -> vlookup x (vremove k m) = vlookup x m.
Proof.
  intros x k m Hne. induction m as [|[k' v] m IH]; cbn [vremove vlookup]; [reflexivity|].
  destruct (N.eqb_spec k k') as [E|E].
  - subst k'. destruct (N.eqb_spec x k) as [E'|E']; [contradiction|exact IH].
  - cbn [vlookup]. rewrite IH. reflexivity.
Qed.

Lemma vlookup_vremove_Some : forall x k m v, vlookup x (vremove k m) = Some v -> vlookup x m = Some v.
Proof.
  intros x k m v H. destruct (N.eq_dec x k) as [E|E].
  - subst x. rewrite vlookup_vremove_eq in H. discriminate H.
  - rewrite vlookup_vremove_neq in H by exact E. exact H.
Qed.

Lemma length_vremove_le : forall k m, (length (vremove k m) <= length m)%nat.
Proof. intros k m. rewrite <- !vkeys_length, vkeys_vremove. apply length_remove_all_le. Qed.

Lemma length_vremove_in : forall k m, In k (vkeys m) -> (S (length (vremove k m)) <= length m)%nat.
Proof.
  intros k m. induction m as [|[k' v] m IH]; intro H; [destruct H|].
  cbn [vkeys map fst In] in H. fold (vkeys m) in H. cbn [vremove].
  destruct (N.eqb_spec k k') as [E|E]; cbn [length].
  - pose proof (length_vremove_le k m). lia.
  - destruct H as [H|H]; [congruence|]. apply IH in H. lia.
Qed.

Lemma vkeys_vset : forall k v m, vkeys (vset k v m) = k :: remove_all k (vkeys m).
Proof.
  intros k v m. unfold vset. cbn [vkeys map fst]. fold (vkeys (vremove k m)).
  rewrite vkeys_vremove. reflexivity.
Qed.

Lemma vlookup_vset_eq : forall k v m, vlookup k (vset k v m) = Some v.
Proof. intros. unfold vset. cbn [vlookup]. rewrite N.eqb_refl. reflexivity. Qed.

Lemma vlookup_vset_neq : forall x k v m, x <> k -> vlookup x (vset k v m) = vlookup x m.
Proof.
  intros x k v m H. unfold vset. cbn [vlookup].
  destruct (N.eqb_spec x k) as [E|E]; [contradiction|]. apply vlookup_vremove_neq. exact H.
Qed.

(* ------------------------------------------------------------------ *)
(** * remove_nth, move_to_end, remove_all *)

Lemma In_remove_nth_incl : forall x i q, In x (remove_nth i q) -> In x q.
Proof.
  intros x i q. revert i. induction q as [|y q IH]; intros i H; [destruct i; exact H|].
  destruct i as [|i]; cbn [remove_nth] in H.
  - right. exact H.
  - destruct H as [H|H]; [left; exact H|right; apply (IH i); exact H].
Qed.

Lemma In_remove_nth_neq : forall x i q v,
    nth_key i q = Some v -> In x q -> x <> v -> In x (remove_nth i q).
Proof.
  intros x i q. revert i. induction q as [|y q IH]; intros i v Hn Hin Hne; [destruct Hin|].
  destruct i as [|i]; cbn [nth_key remove_nth] in *.
  - inversion Hn; subst. destruct Hin as [H|H]; [congruence|exact H].
  - destruct Hin as [H|H]; [left; exact H|right; apply (IH i v); assumption].
Qed.

Lemma NoDup_remove_nth : forall i q, NoDup q -> NoDup (remove_nth i q).
Proof.
  intros i q. revert i. induction q as [|y q IH]; intros i Hnd; [destruct i; constructor|].
  inversion Hnd as [|y' q' Hy Hnd']; subst.
  destruct i as [|i]; cbn [remove_nth]; [exact Hnd'|].
  constructor; [|apply IH; exact Hnd'].
  intro H. apply In_remove_nth_incl in H. contradiction.
Qed.

Lemma length_remove_nth : forall i q v,
    nth_key i q = Some v -> S (length (remove_nth i q)) = length q.
Proof.
  intros i q. revert i. induction q as [|y q IH]; intros i v H; [destruct i; discriminate|].
  destruct i as [|i]; cbn [nth_key remove_nth length] in *; [reflexivity|].
  f_equal. apply (IH i v). exact H.
Qed.

Lemma length_remove_nth_le : forall i q, (length (remove_nth i q) <= length q)%nat.
Proof.
  intros i q. revert i. induction q as [|y q IH]; intros i; [destruct i; cbn; lia|].
  destruct i as [|i]; cbn [remove_nth length]; [lia|]. specialize (IH i). lia.
Qed.

Lemma length_move_to_end : forall k q, length (move_to_end k q) = length q.
Proof.
  intros k q. unfold move_to_end. destruct (qmem k q) eqn:E; [|reflexivity].
  apply qmem_In in E. rewrite length_push_back. apply length_remove_first_in. exact E.
Qed.

Lemma filter_remove_all_comm : forall (g : key -> bool) k l,
    filter g (remove_all k l) = remove_all k (filter g l).
Proof.
  intros g k l. induction l as [|x l IH]; cbn [remove_all filter]; [reflexivity|].
  destruct (N.eqb k x) eqn:E; destruct (g x) eqn:G; cbn [remove_all filter]; rewrite ?E, ?G, IH; reflexivity.
Qed.

(* ------------------------------------------------------------------ *)
(** * "shrinks": what every eviction / removal does to (store, queue) *)

Definition shrinks (m : vstore) (q : list key) (m' : vstore) (q' : list key) : Prop :=
  (forall x v, vlookup x m' = Some v -> vlookup x m = Some v) /\   (* sub-store, same values *)
  (NoDup (vkeys m) -> NoDup (vkeys m')) /\
  (NoDup q -> NoDup q') /\
  (forall x, In x q' -> In x q) /\                                   (* sub-queue *)
  (forall x, In x q -> In x (vkeys m') -> In x q') /\                (* a key that stays stored stays queued *)
  (length q' <= length q)%nat /\
  (length m' <= length m)%nat.

Lemma shrinks_sub : forall m q m' q', shrinks m q m' q' -> forall x, In x (vkeys m') -> In x (vkeys m).
Proof.
  intros m q m' q' (H1 & _) x Hx. apply In_vkeys_vlookup in Hx. destruct Hx as [v Hv].
  apply In_vkeys_vlookup. exists v. apply H1. exact Hv.
Qed.

Lemma shrinks_refl : forall m q, shrinks m q m q.
Proof. intros m q. unfold shrinks. repeat split; auto. Qed.

Lemma shrinks_trans : forall m q m1 q1 m2 q2,
    shrinks m q m1 q1 -> shrinks m1 q1 m2 q2 -> shrinks m q m2 q2.
Proof.
  intros m q m1 q1 m2 q2 Ha Hb.
  pose proof (shrinks_sub _ _ _ _ Hb) as Hsub.
  destruct Ha as (A1 & A2 & A3 & A4 & A5 & A6 & A7).
  destruct Hb as (B1 & B2 & B3 & B4 & B5 & B6 & B7).
  unfold shrinks. split; [|split; [|split; [|split; [|split; [|split]]]]].
  - intros x v H. apply A1. apply B1. exact H.
  - intro H. apply B2. apply A2. exact H.
  - intro H. apply B3. apply A3. exact H.
  - intros x H. apply A4. apply B4. exact H.
  - intros x Hq Hm. apply B5; [|exact Hm]. apply A5; [exact Hq|]. apply Hsub. exact Hm.
  - lia.
  - lia.
Qed.

Lemma shrinks_vremove : forall k m q, shrinks m q (vremove k m) (remove_first k q).
Proof.
  intros k m q. unfold shrinks. split; [|split; [|split; [|split; [|split; [|split]]]]].
  - intros x v H. apply (vlookup_vremove_Some x k). exact H.
  - apply NoDup_vkeys_vremove.
  - apply NoDup_remove_first.
  - intros x H. apply (In_remove_first_incl x k). exact H.
  - intros x Hq Hm. apply In_vkeys_vremove in Hm. destruct Hm as [_ Hne].
    apply In_remove_first_neq; assumption.
  - apply length_remove_first_le.
  - apply length_vremove_le.
Qed.

Lemma shrinks_head : forall k m q, shrinks m (k :: q) (vremove k m) q.
Proof.
  intros k m q. pose proof (shrinks_vremove k m (k :: q)) as H.
  cbn [remove_first] in H. rewrite N.eqb_refl in H. exact H.
Qed.

Lemma shrinks_remove_nth : forall i q v m,
    nth_key i q = Some v -> shrinks m q (vremove v m) (remove_nth i q).
Proof.
  intros i q v m Hn. unfold shrinks. split; [|split; [|split; [|split; [|split; [|split]]]]].
  - intros x w H. apply (vlookup_vremove_Some x v). exact H.
  - apply NoDup_vkeys_vremove.
  - apply NoDup_remove_nth.
  - intros x H. apply (In_remove_nth_incl x i). exact H.
  - intros x Hq Hm. apply In_vkeys_vremove in Hm. destruct Hm as [_ Hne].
    apply (In_remove_nth_neq x i q v); assumption.
  - apply length_remove_nth_le.
  - apply length_vremove_le.
Qed.

Lemma shrinks_clear : forall m q, shrinks m q [] [].
Proof.
  intros m q. unfold shrinks. split; [|split; [|split; [|split; [|split; [|split]]]]].
  - intros x v H. discriminate H.
  - intros _. constructor.
  - intros _. constructor.
  - intros x [].
  - intros x _ [].
  - cbn [length]. lia.
  - cbn [length]. lia.
Qed.

Lemma shrinks_inval : forall ks m q, shrinks m q (vremove_all ks m) (qremove_all_first ks q).
Proof.
  induction ks as [|k ks IH]; intros m q; cbn [vremove_all qremove_all_first].
  - apply shrinks_refl.
  - apply (shrinks_trans m q (vremove k m) (remove_first k q)); [apply shrinks_vremove|apply IH].
Qed.

(* ------------------------------------------------------------------ *)
(** * pop_until, evict, evicts *)

Lemma shrinks_pop_until : forall m q m' q', pop_until m q = (m', q') -> shrinks m q m' q'.
Proof.
  intros m q. induction q as [|k q IH]; intros m' q' H; cbn [pop_until] in H.
  - inversion H; subst. apply shrinks_refl.
  - destruct (vmem k m) eqn:E.
    + inversion H; subst. apply shrinks_head.
    + apply (shrinks_trans m (k :: q) m q); [|apply IH; exact H].
      pose proof (shrinks_head k m q) as Hh. apply vmem_false in E.
      rewrite (vremove_notin k m E) in Hh. exact Hh.
Qed.

Lemma pop_until_length : forall m q m' q',
    pop_until m q = (m', q') -> (length q' <= length q - 1)%nat.
Proof.
  intros m q. induction q as [|k q IH]; intros m' q' H; cbn [pop_until] in H.
  - inversion H; subst. cbn [length]. lia.
  - destruct (vmem k m).
    + inversion H; subst. cbn [length]. lia.
    + apply IH in H. cbn [length]. lia.
Qed.

Lemma pop_until_cases : forall m q m' q', pop_until m q = (m', q') ->
    (exists v, In v q /\ In v (vkeys m) /\ m' = vremove v m) \/
    (m' = m /\ forall x, In x q -> ~ In x (vkeys m)).
Proof.
  intros m q. induction q as [|k q IH]; intros m' q' H; cbn [pop_until] in H.
  - inversion H; subst. right. split; [reflexivity|]. intros x [].
  - destruct (vmem k m) eqn:E.
    + inversion H; subst. left. exists k. split; [left; reflexivity|]. split; [|reflexivity].
      apply vmem_In. exact E.
    + destruct (IH m' q' H) as [(v & Hv1 & Hv2 & Hv3)|[He Hall]].
      * left. exists v. split; [right; exact Hv1|]. split; assumption.
      * right. split; [exact He|]. intros x [Hx|Hx]; [subst x; apply vmem_false; exact E|apply Hall; exact Hx].
Qed.

Lemma shrinks_evict : forall pc m q m' q', evict pc m q m' q' -> shrinks m q m' q'.
Proof.
  intros pc m q m' q' H.
  destruct H as [m q m' q' Hpc Hpop | m q v Hpc Hin Hst | m q Hpc Hnone | m q i v Hpc Hnth | m Hpc].
  - apply shrinks_pop_until. exact Hpop.
  - apply shrinks_vremove.
  - apply shrinks_refl.
  - apply shrinks_remove_nth. exact Hnth.
  - apply shrinks_refl.
Qed.

Lemma shrinks_evicts : forall pc m q m' q', evicts pc m q m' q' -> shrinks m q m' q'.
Proof.
  intros pc m q m' q' H. induction H as [m q | m q m1 q1 m2 q2 He Hes IH].
  - apply shrinks_refl.
  - apply (shrinks_trans m q m1 q1); [apply (shrinks_evict pc); exact He|exact IH].
Qed.

(* FIFO/LRU and Random: an eviction on a non-empty queue makes the queue shorter *)
Lemma evict_queue_dec : forall pc m q m' q',
    pc <> PScored -> evict pc m q m' q' -> (length q' <= length q - 1)%nat.
Proof.
  intros pc m q m' q' Hne H.
  destruct H as [m q m' q' Hpc Hpop | m q v Hpc Hin Hst | m q Hpc Hnone | m q i v Hpc Hnth | m Hpc].
  - apply (pop_until_length m q m' q'). exact Hpop.
  - contradiction.
  - contradiction.
  - pose proof (length_remove_nth i q v Hnth). lia.
  - cbn [length]. lia.
Qed.

(* FIFO/LRU and the scored policies: an eviction removes a stored queue key if there is one *)
Lemma evict_store_cases : forall pc m q m' q',
    pc <> PRand -> evict pc m q m' q' ->
    (exists v, In v q /\ In v (vkeys m) /\ m' = vremove v m) \/
    (m' = m /\ forall x, In x q -> ~ In x (vkeys m)).
Proof.
  intros pc m q m' q' Hne H.
  destruct H as [m q m' q' Hpc Hpop | m q v Hpc Hin Hst | m q Hpc Hnone | m q i v Hpc Hnth | m Hpc].
  - apply (pop_until_cases m q m' q'). exact Hpop.
  - left. exists v. split; [exact Hin|]. split; [apply vmem_In; exact Hst|reflexivity].
  - right. split; [reflexivity|]. intros x Hx. apply vmem_false. apply Hnone. exact Hx.
  - contradiction.
  - contradiction.
Qed.

Lemma shrinks_over : forall limit pc m1 q1 m2 q2,
    (if over limit q1 then evict pc m1 q1 m2 q2 else (m2 = m1 /\ q2 = q1)) -> shrinks m1 q1 m2 q2.
Proof.
  intros limit pc m1 q1 m2 q2 H. destruct (over limit q1).
  - apply (shrinks_evict pc). exact H.
  - destruct H as [H1 H2]. subst. apply shrinks_refl.
Qed.

(* ------------------------------------------------------------------ *)
(** * push_back k (remove_first k q) and the pending list *)

Lemma In_requeue : forall x k q, In x q -> In x (push_back k (remove_first k q)).
Proof.
  intros x k q H. apply In_push_back. destruct (N.eq_dec x k) as [E|E]; [right; exact E|].
  left. apply In_remove_first_neq; assumption.
Qed.

Lemma In_requeue_inv : forall x k q, In x (push_back k (remove_first k q)) -> In x q \/ x = k.
Proof.
  intros x k q H. apply In_push_back in H. destruct H as [H|H]; [left|right; exact H].
  apply (In_remove_first_incl x k). exact H.
Qed.

Lemma NoDup_requeue : forall k q, NoDup q -> NoDup (push_back k (remove_first k q)).
Proof.
  intros k q H. apply NoDup_push_back.
  - apply NoDup_remove_first. exact H.
  - rewrite In_remove_first by exact H. tauto.
Qed.

Lemma length_requeue_le : forall k q, (length (push_back k (remove_first k q)) <= S (length q))%nat.
Proof. intros k q. rewrite length_push_back. pose proof (length_remove_first_le k q). lia. Qed.

Lemma remove_pending_incl : forall a t k p, In a (remove_pending t k p) -> In a p.
Proof.
  intros a t k p. induction p as [|[t' k'] p IH]; cbn [remove_pending]; [tauto|].
  destruct (Nat.eqb t t' && N.eqb k k'); cbn [In]; tauto.
Qed.

Lemma remove_pending_other : forall t' x t k p, In (t', x) p -> x <> k -> In (t', x) (remove_pending t k p).
Proof.
  intros t' x t k p. induction p as [|[t'' k''] p IH]; intros Hin Hne; [destruct Hin|].
  cbn [remove_pending]. destruct (Nat.eqb t t'' && N.eqb k k'') eqn:E.
  - apply andb_true_iff in E. destruct E as [_ E]. apply N.eqb_eq in E. subst k''.
    destruct Hin as [H|H]; [inversion H; congruence|exact H].
  - destruct Hin as [H|H]; [left; exact H|right; apply IH; assumption].
Qed.

Lemma remove_pending_length : forall t k p, In (t, k) p -> S (length (remove_pending t k p)) = length p.
Proof.
  intros t k p. induction p as [|[t' k'] p IH]; intro Hin; [destruct Hin|].
  cbn [remove_pending]. destruct (Nat.eqb t t' && N.eqb k k') eqn:E; cbn [length]; [reflexivity|].
  f_equal. apply IH. destruct Hin as [H|H]; [|exact H].
  inversion H; subst. rewrite Nat.eqb_refl, N.eqb_refl in E. discriminate E.
Qed.

(* ------------------------------------------------------------------ *)
(** * The basic invariant (every class, every reachable state) *)

Definition inv0 (f : key -> N) (s : cstate) : Prop :=
  NoDup (vkeys (c_store s)) /\
  NoDup (c_queue s) /\
  (forall k, In k (vkeys (c_store s)) -> In k (c_queue s) \/ exists t, In (t, k) (c_pending s)) /\
  (forall k v, vlookup k (c_store s) = Some v -> v = f k).

Lemma inv0_shrinks : forall f s m' q' p',
    inv0 f s -> shrinks (c_store s) (c_queue s) m' q' ->
    (forall t x, In (t, x) (c_pending s) -> In x (vkeys m') -> In x (c_queue s) \/ exists t', In (t', x) p') ->
    inv0 f (mkC m' q' p').
Proof.
  intros f s m' q' p' (Hm & Hq & Htr & Hv) Hsh Hp.
  pose proof (shrinks_sub _ _ _ _ Hsh) as Hsub.
  destruct Hsh as (S1 & S2 & S3 & S4 & S5 & S6 & S7).
  unfold inv0. cbn [c_store c_queue c_pending]. split; [|split; [|split]].
  - apply S2. exact Hm.
  - apply S3. exact Hq.
  - intros x Hx. assert (Hq' : In x (c_queue s) \/ exists t', In (t', x) p').
    { destruct (Htr x (Hsub x Hx)) as [H|[t H]]; [left; exact H|]. apply (Hp t x); assumption. }
    destruct Hq' as [H|H]; [left|right; exact H]. apply S5; assumption.
  - intros x v Hx. apply Hv. apply S1. exact Hx.
Qed.

Lemma inv0_requeue : forall f s k,
    inv0 f s -> inv0 f (mkC (c_store s) (push_back k (remove_first k (c_queue s))) (c_pending s)).
Proof.
  intros f s k (Hm & Hq & Htr & Hv). unfold inv0. cbn [c_store c_queue c_pending].
  split; [|split; [|split]].
  - exact Hm.
  - apply NoDup_requeue. exact Hq.
  - intros x Hx. destruct (Htr x Hx) as [H|H]; [left; apply In_requeue; exact H|right; exact H].
  - exact Hv.
Qed.

Lemma inv0_store1 : forall f s t k,
    inv0 f s -> inv0 f (mkC (vset k (f k) (c_store s)) (c_queue s) ((t, k) :: c_pending s)).
Proof.
  intros f s t k (Hm & Hq & Htr & Hv). unfold inv0. cbn [c_store c_queue c_pending].
  split; [|split; [|split]].
  - rewrite vkeys_vset. constructor; [rewrite In_remove_all; tauto|apply NoDup_remove_all; exact Hm].
  - exact Hq.
  - intros x Hx. rewrite vkeys_vset in Hx. destruct Hx as [Hx|Hx].
    + subst x. right. exists t. left. reflexivity.
    + apply In_remove_all in Hx. destruct Hx as [Hx _].
      destruct (Htr x Hx) as [H|[t' H]]; [left; exact H|right; exists t'; right; exact H].
  - intros x v Hx. destruct (N.eq_dec x k) as [E|E].
    + subst x. rewrite vlookup_vset_eq in Hx. congruence.
    + rewrite vlookup_vset_neq in Hx by exact E. apply Hv. exact Hx.
Qed.

Lemma inv0_store2 : forall limit pc f s t k m1 q1 m2 q2,
    inv0 f s ->
    evicts pc (c_store s) (push_back k (remove_first k (c_queue s))) m1 q1 ->
    (if over limit q1 then evict pc m1 q1 m2 q2 else (m2 = m1 /\ q2 = q1)) ->
    inv0 f (mkC m2 q2 (remove_pending t k (c_pending s))).
Proof.
  intros limit pc f s t k m1 q1 m2 q2 Hinv Hevs Hover.
  apply (inv0_shrinks f (mkC (c_store s) (push_back k (remove_first k (c_queue s))) (c_pending s))).
  - apply inv0_requeue. exact Hinv.
  - cbn [c_store c_queue].
    apply (shrinks_trans (c_store s) (push_back k (remove_first k (c_queue s))) m1 q1 m2 q2).
    + apply (shrinks_evicts pc). exact Hevs.
    + apply (shrinks_over limit pc). exact Hover.
  - cbn [c_store c_queue c_pending]. intros t' x Hin _.
    destruct (N.eq_dec x k) as [E|E].
    + subst x. left. apply In_push_back. right. reflexivity.
    + right. exists t'. apply remove_pending_other; assumption.
Qed.

Lemma inv0_oversize : forall f s t k,
    inv0 f s ->
    inv0 f (mkC (vremove k (c_store s)) (pop_back (push_back k (remove_first k (c_queue s))))
                (remove_pending t k (c_pending s))).
Proof.
  intros f s t k Hinv. rewrite pop_back_push_back. apply (inv0_shrinks f s).
  - exact Hinv.
  - apply shrinks_vremove.
  - intros t' x Hin Hx. apply In_vkeys_vremove in Hx. destruct Hx as [_ Hne].
    right. exists t'. apply remove_pending_other; assumption.
Qed.

Lemma inv0_same_pending : forall f s m' q',
    inv0 f s -> shrinks (c_store s) (c_queue s) m' q' -> inv0 f (mkC m' q' (c_pending s)).
Proof.
  intros f s m' q' Hinv Hsh. apply (inv0_shrinks f s); [exact Hinv|exact Hsh|].
  intros t x Hin _. right. exists t. exact Hin.
Qed.

Lemma inv0_touch : forall f s k,
    inv0 f s -> inv0 f (mkC (c_store s) (move_to_end k (c_queue s)) (c_pending s)).
Proof.
  intros f s k (Hm & Hq & Htr & Hv). unfold inv0. cbn [c_store c_queue c_pending].
  split; [|split; [|split]].
  - exact Hm.
  - apply NoDup_move_to_end. exact Hq.
  - intros x Hx. destruct (Htr x Hx) as [H|H]; [left; apply In_move_to_end; exact H|right; exact H].
  - exact Hv.
Qed.

Lemma inv0_step : forall limit pc f s s', cstep limit pc f s s' -> inv0 f s -> inv0 f s'.
Proof.
  intros limit pc f s s' Hstep Hinv.
  destruct Hstep as [s t k Hfresh | s t k m1 q1 m2 q2 Hin Hevs Hover | s t k Hin | s k | s k | s | s ks Hst Hnd].
  - apply inv0_store1. exact Hinv.
  - apply (inv0_store2 limit pc f s t k m1 q1 m2 q2); assumption.
  - apply inv0_oversize. exact Hinv.
  - apply inv0_same_pending; [exact Hinv|apply shrinks_vremove].
  - apply inv0_touch. exact Hinv.
  - apply inv0_same_pending; [exact Hinv|apply shrinks_clear].
  - apply inv0_same_pending; [exact Hinv|apply shrinks_inval].
Qed.

Lemma inv0_init : forall f, inv0 f cinit.
Proof.
  intro f. unfold inv0, cinit. cbn [c_store c_queue c_pending vkeys map].
  split; [constructor|]. split; [constructor|]. split; [intros k []|]. intros k v H. discriminate H.
Qed.

Lemma inv0_reach : forall limit pc f s, creach limit pc f s -> inv0 f s.
Proof.
  intros limit pc f s H. induction H as [|s s' Hr IH Hstep].
  - apply inv0_init.
  - apply (inv0_step limit pc f s s'); assumption.
Qed.

(** ** The second pinned theorem *)
Theorem conc_tracked_or_pending :
  forall limit pc f s, creach limit pc f s ->
    forall k, In k (vkeys (c_store s)) -> In k (c_queue s) \/ exists t, In (t, k) (c_pending s).
Proof.
  intros limit pc f s H. destruct (inv0_reach limit pc f s H) as (_ & _ & Htr & _). exact Htr.
Qed.

(* ------------------------------------------------------------------ *)
(** * FIFO/LRU and Random: the queue never exceeds the limit *)

Definition invQ (limit : option N) (s : cstate) : Prop :=
  forall L, limit = Some L -> N.of_nat (length (c_queue s)) <= L.

Lemma invQ_step : forall limit pc f s s',
    pc <> PScored -> cstep limit pc f s s' -> invQ limit s -> invQ limit s'.
Proof.
  intros limit pc f s s' Hpc Hstep HQ L HL. specialize (HQ L HL).
  destruct Hstep as [s t k Hfresh | s t k m1 q1 m2 q2 Hin Hevs Hover | s t k Hin | s k | s k | s | s ks Hst Hnd];
    cbn [c_queue].
  - exact HQ.
  - pose proof (length_requeue_le k (c_queue s)) as H0.
    apply shrinks_evicts in Hevs. destruct Hevs as (_ & _ & _ & _ & _ & H1 & _).
    subst limit. unfold over in Hover. destruct (N.ltb_spec L (N.of_nat (length q1))) as [Hlt|Hge].
    + apply (evict_queue_dec pc) in Hover; [|exact Hpc]. lia.
    + destruct Hover as [_ Hq2]. subst q2. exact Hge.
  - rewrite pop_back_push_back. pose proof (length_remove_first_le k (c_queue s)). lia.
  - pose proof (length_remove_first_le k (c_queue s)). lia.
  - rewrite length_move_to_end. exact HQ.
  - cbn [length]. lia.
  - destruct (shrinks_inval ks (c_store s) (c_queue s)) as (_ & _ & _ & _ & _ & H1 & _). lia.
Qed.

Lemma invQ_reach : forall limit pc f s, pc <> PScored -> creach limit pc f s -> invQ limit s.
Proof.
  intros limit pc f s Hpc H. induction H as [|s s' Hr IH Hstep].
  - intros L _. cbn [cinit c_queue length]. lia.
  - apply (invQ_step limit pc f s s'); assumption.
Qed.

(* at quiescence the stored keys are all in the queue *)
Lemma quiescent_incl : forall f s, inv0 f s -> quiescent s -> incl (vkeys (c_store s)) (c_queue s).
Proof.
  intros f s (_ & _ & Htr & _) Hqs k Hk. unfold quiescent in Hqs.
  destruct (Htr k Hk) as [H|[t H]]; [exact H|]. rewrite Hqs in H. destruct H.
Qed.

(** ** The first pinned theorem, with the limit clause for FIFO/LRU/Random only
    (no premise 1 <= L needed).  Missing: the limit clause for PScored — which is false,
    see conc_counterexample below. *)
Theorem conc_quiescent_consistent_partial :
  forall limit pc f s, creach limit pc f s -> quiescent s ->
    NoDup (vkeys (c_store s)) /\
    NoDup (c_queue s) /\
    incl (vkeys (c_store s)) (c_queue s) /\
    (forall L, limit = Some L -> pc <> PScored -> N.of_nat (length (c_store s)) <= L) /\
    (forall k v, vlookup k (c_store s) = Some v -> v = f k).
Proof.
  intros limit pc f s Hr Hqs. pose proof (inv0_reach limit pc f s Hr) as Hinv.
  pose proof (quiescent_incl f s Hinv Hqs) as Hincl.
  destruct Hinv as (Hm & Hq & Htr & Hv).
  split; [exact Hm|]. split; [exact Hq|]. split; [exact Hincl|]. split; [|exact Hv].
  intros L HL Hpc. pose proof (invQ_reach limit pc f s Hpc Hr L HL) as HQ.
  pose proof (NoDup_incl_length Hm Hincl) as Hlen. rewrite vkeys_length in Hlen. lia.
Qed.

(* ------------------------------------------------------------------ *)
(** * The pinned limit clause is false for PScored: a concrete run *)

Lemma cstep_to : forall limit pc f s s1 s2, cstep limit pc f s s1 -> s1 = s2 -> cstep limit pc f s s2.
Proof. intros limit pc f s s1 s2 H E. subst. exact H. Qed.

Lemma evict_scored_to : forall m q v m' q',
    In v q -> vmem v m = true -> m' = vremove v m -> q' = remove_first v q -> evict PScored m q m' q'.
Proof. intros m q v m' q' H1 H2 E1 E2. subst. apply ev_scored; [reflexivity|exact H1|exact H2]. Qed.

Section Counterexample.
  Variable f : key -> N.
  Let L1 : option N := Some 1.
  Let T0 : nat := 0%nat.
  Let T1 : nat := 1%nat.

  (* a store whose second section finds the queue not over the limit / over with no stored key *)
  Local Ltac s1 s t k :=
    eapply cstep_to; [apply (C_store1 L1 PScored f s t k); vm_compute; intuition discriminate|reflexivity].

  (* thread 0 and thread 1 start storing keys 0 and 1; the cache is cleared; thread 0 finishes:
     key 0 is in the queue but not stored (an orphan) *)
  Definition x1 := mkC [(0, f 0)] [] [(T0, 0)].
  Definition x2 := mkC [(1, f 1); (0, f 0)] [] [(T1, 1); (T0, 0)].
  Definition x3 := mkC [] [] [(T1, 1); (T0, 0)].
  Definition x4 := mkC [] [0] [(T1, 1)].
  (* thread 0 starts storing key 2; thread 1 finishes: queue [0;1] is over the limit but holds no
     stored key, nothing is evicted *)
  Definition x5 := mkC [(2, f 2)] [0] [(T0, 2); (T1, 1)].
  Definition x6 := mkC [(2, f 2)] [0; 1] [(T0, 2)].
  (* thread 1 starts storing key 0 (stored again, and queued); thread 0 finishes key 2 and its
     eviction picks key 0, which thread 1 is still storing *)
  Definition x7 := mkC [(0, f 0); (2, f 2)] [0; 1] [(T1, 0); (T0, 2)].
  Definition x8 := mkC [(2, f 2)] [1; 2] [(T1, 0)].
  (* thread 0 starts storing key 1 (orphan in the queue -> stored and queued);
     thread 1 finishes key 0 through the oversize path: nothing is evicted *)
  Definition x9 := mkC [(1, f 1); (2, f 2)] [1; 2] [(T0, 1); (T1, 0)].
  Definition x10 := mkC [(1, f 1); (2, f 2)] [1; 2] [(T0, 1)].
  (* thread 1 stores key 0 normally: the eviction picks key 1, which thread 0 is still storing *)
  Definition x11 := mkC [(0, f 0); (1, f 1); (2, f 2)] [1; 2] [(T1, 0); (T0, 1)].
  Definition x12 := mkC [(0, f 0); (2, f 2)] [2; 0] [(T0, 1)].
  (* thread 0 finishes key 1 through the oversize path: nothing is evicted; quiescent, 2 entries *)
  Definition x13 := mkC [(0, f 0); (2, f 2)] [2; 0] [].

  Lemma cx_step1 : cstep L1 PScored f cinit x1.
  Proof. s1 cinit T0 0. Qed.
  Lemma cx_step2 : cstep L1 PScored f x1 x2.
  Proof. s1 x1 T1 1. Qed.
  Lemma cx_step3 : cstep L1 PScored f x2 x3.
  Proof. eapply cstep_to; [apply (C_clear L1 PScored f x2)|reflexivity]. Qed.
  Lemma cx_step4 : cstep L1 PScored f x3 x4.
  Proof.
    eapply cstep_to; [apply (C_store2 L1 PScored f x3 T0 0 [] [0] [] [0])|reflexivity].
    - right. left. reflexivity.
    - apply evs_nil.
    - vm_compute. split; reflexivity.
  Qed.
  Lemma cx_step5 : cstep L1 PScored f x4 x5.
  Proof. s1 x4 T0 2. Qed.
  Lemma cx_step6 : cstep L1 PScored f x5 x6.
  Proof.
    eapply cstep_to; [apply (C_store2 L1 PScored f x5 T1 1 [(2, f 2)] [0; 1] [(2, f 2)] [0; 1])|reflexivity].
    - right. left. reflexivity.
    - apply evs_nil.
    - change (evict PScored [(2, f 2)] [0; 1] [(2, f 2)] [0; 1]).
      apply ev_scored_none; [reflexivity|]. intros v [H|[H|[]]]; subst v; reflexivity.
  Qed.
  Lemma cx_step7 : cstep L1 PScored f x6 x7.
  Proof. s1 x6 T1 0. Qed.
  Lemma cx_step8 : cstep L1 PScored f x7 x8.
  Proof.
    eapply cstep_to; [apply (C_store2 L1 PScored f x7 T0 2 [(0, f 0); (2, f 2)] [0; 1; 2] [(2, f 2)] [1; 2])|reflexivity].
    - right. left. reflexivity.
    - apply evs_nil.
    - change (evict PScored [(0, f 0); (2, f 2)] [0; 1; 2] [(2, f 2)] [1; 2]).
      apply (evict_scored_to _ _ 0); [left; reflexivity|reflexivity|reflexivity|reflexivity].
  Qed.
  Lemma cx_step9 : cstep L1 PScored f x8 x9.
  Proof. s1 x8 T0 1. Qed.
  Lemma cx_step10 : cstep L1 PScored f x9 x10.
  Proof.
    eapply cstep_to; [apply (C_oversize L1 PScored f x9 T1 0)|reflexivity].
    right. left. reflexivity.
  Qed.
  Lemma cx_step11 : cstep L1 PScored f x10 x11.
  Proof. s1 x10 T1 0. Qed.
  Lemma cx_step12 : cstep L1 PScored f x11 x12.
  Proof.
    eapply cstep_to; [apply (C_store2 L1 PScored f x11 T1 0 [(0, f 0); (1, f 1); (2, f 2)] [1; 2; 0] [(0, f 0); (2, f 2)] [2; 0])|reflexivity].
    - left. reflexivity.
    - apply evs_nil.
    - change (evict PScored [(0, f 0); (1, f 1); (2, f 2)] [1; 2; 0] [(0, f 0); (2, f 2)] [2; 0]).
      apply (evict_scored_to _ _ 1); [left; reflexivity|reflexivity|reflexivity|reflexivity].
  Qed.
  Lemma cx_step13 : cstep L1 PScored f x12 x13.
  Proof.
    eapply cstep_to; [apply (C_oversize L1 PScored f x12 T0 1)|reflexivity].
    left. reflexivity.
  Qed.

  Lemma cx_reach : creach L1 PScored f x13.
  Proof.
    pose proof (cr_init L1 PScored f) as R.
    apply (fun R => cr_step _ _ _ _ _ R cx_step1) in R.
    apply (fun R => cr_step _ _ _ _ _ R cx_step2) in R.
    apply (fun R => cr_step _ _ _ _ _ R cx_step3) in R.
    apply (fun R => cr_step _ _ _ _ _ R cx_step4) in R.
    apply (fun R => cr_step _ _ _ _ _ R cx_step5) in R.
    apply (fun R => cr_step _ _ _ _ _ R cx_step6) in R.
    apply (fun R => cr_step _ _ _ _ _ R cx_step7) in R.
    apply (fun R => cr_step _ _ _ _ _ R cx_step8) in R.
    apply (fun R => cr_step _ _ _ _ _ R cx_step9) in R.
    apply (fun R => cr_step _ _ _ _ _ R cx_step10) in R.
    apply (fun R => cr_step _ _ _ _ _ R cx_step11) in R.
    apply (fun R => cr_step _ _ _ _ _ R cx_step12) in R.
    apply (fun R => cr_step _ _ _ _ _ R cx_step13) in R.
    exact R.
  Qed.
End Counterexample.

(** COUNTEREXAMPLE to the pinned conc_quiescent_consistent: limit = Some 1, class PScored,
    two threads, keys 0 1 2, 13 transitions from cinit, final state quiescent with 2 entries. *)
Example conc_counterexample : forall f,
    exists s, creach (Some 1) PScored f s /\ quiescent s /\ length (c_store s) = 2%nat.
Proof.
  intro f. exists (x13 f). split; [apply cx_reach|]. split; reflexivity.
Qed.

Theorem conc_quiescent_consistent_false :
  ~ (forall limit pc f s, creach limit pc f s -> quiescent s ->
      NoDup (vkeys (c_store s)) /\
      NoDup (c_queue s) /\
      incl (vkeys (c_store s)) (c_queue s) /\
      (forall L, limit = Some L -> 1 <= L -> N.of_nat (length (c_store s)) <= L) /\
      (forall k v, vlookup k (c_store s) = Some v -> v = f k)).
Proof.
  intro H. destruct (conc_counterexample (fun _ => 0)) as (s & Hr & Hqs & Hlen).
  destruct (H (Some 1) PScored (fun _ => 0) s Hr Hqs) as (_ & _ & _ & Hb & _).
  specialize (Hb 1 eq_refl). rewrite Hlen in Hb. lia.
Qed.

(* ------------------------------------------------------------------ *)
(** * Oversize as a property of the key: the full statement holds for every class *)

(* cstep with the two endings of a store tied to the key: a key with ov k = true always takes
   the oversize path, a key with ov k = false never does.  (ov = fun _ => false is the model
   without max_memory.)  Everything else is cstep verbatim. *)
Inductive cstep_ov (ov : key -> bool) (limit : option N) (pc : pclass) (f : key -> N) : cstate -> cstate -> Prop :=
| O_store1 : forall s t k,
    (forall k', ~ In (t, k') (c_pending s)) ->
    cstep_ov ov limit pc f s (mkC (vset k (f k) (c_store s)) (c_queue s) ((t, k) :: c_pending s))
| O_store2 : forall s t k m1 q1 m2 q2,
    ov k = false ->
    In (t, k) (c_pending s) ->
    evicts pc (c_store s) (push_back k (remove_first k (c_queue s))) m1 q1 ->
    (if over limit q1 then evict pc m1 q1 m2 q2 else (m2 = m1 /\ q2 = q1)) ->
    cstep_ov ov limit pc f s (mkC m2 q2 (remove_pending t k (c_pending s)))
| O_oversize : forall s t k,
    ov k = true ->
    In (t, k) (c_pending s) ->
    cstep_ov ov limit pc f s (mkC (vremove k (c_store s)) (pop_back (push_back k (remove_first k (c_queue s))))
                                  (remove_pending t k (c_pending s)))
| O_expire : forall s k,
    cstep_ov ov limit pc f s (mkC (vremove k (c_store s)) (remove_first k (c_queue s)) (c_pending s))
| O_touch : forall s k,
    cstep_ov ov limit pc f s (mkC (c_store s) (move_to_end k (c_queue s)) (c_pending s))
| O_clear : forall s,
    cstep_ov ov limit pc f s (mkC [] [] (c_pending s))
| O_inval : forall s ks,
    (forall k, In k ks -> vmem k (c_store s) = true) -> NoDup ks ->
    cstep_ov ov limit pc f s (mkC (vremove_all ks (c_store s)) (qremove_all_first ks (c_queue s)) (c_pending s)).

Inductive creach_ov (ov : key -> bool) (limit : option N) (pc : pclass) (f : key -> N) : cstate -> Prop :=
| cro_init : creach_ov ov limit pc f cinit
| cro_step : forall s s', creach_ov ov limit pc f s -> cstep_ov ov limit pc f s s' -> creach_ov ov limit pc f s'.

Lemma cstep_ov_cstep : forall ov limit pc f s s', cstep_ov ov limit pc f s s' -> cstep limit pc f s s'.
Proof.
  intros ov limit pc f s s' H.
  destruct H as [s t k Hfresh | s t k m1 q1 m2 q2 Hov Hin Hevs Hover | s t k Hov Hin | s k | s k | s | s ks Hst Hnd].
  - apply C_store1. exact Hfresh.
  - apply (C_store2 limit pc f s t k m1 q1 m2 q2); assumption.
  - apply C_oversize. exact Hin.
  - apply C_expire.
  - apply C_touch.
  - apply C_clear.
  - apply C_inval; assumption.
Qed.

Lemma creach_ov_creach : forall ov limit pc f s, creach_ov ov limit pc f s -> creach limit pc f s.
Proof.
  intros ov limit pc f s H. induction H as [|s s' Hr IH Hstep].
  - apply cr_init.
  - apply (cr_step limit pc f s s'); [exact IH|]. apply (cstep_ov_cstep ov). exact Hstep.
Qed.

(** ** no oversize key is ever in the queue *)
Definition invO (ov : key -> bool) (s : cstate) : Prop := forall k, In k (c_queue s) -> ov k = false.

Lemma invO_step : forall ov limit pc f s s', cstep_ov ov limit pc f s s' -> invO ov s -> invO ov s'.
Proof.
  intros ov limit pc f s s' Hstep HO x.
  destruct Hstep as [s t k Hfresh | s t k m1 q1 m2 q2 Hov Hin Hevs Hover | s t k Hov Hin | s k | s k | s | s ks Hst Hnd];
    cbn [c_queue]; intro Hx.
  - apply HO. exact Hx.
  - apply shrinks_evicts in Hevs. apply shrinks_over in Hover.
    destruct Hevs as (_ & _ & _ & E4 & _). destruct Hover as (_ & _ & _ & O4 & _).
    apply O4, E4, In_requeue_inv in Hx. destruct Hx as [Hx|Hx]; [apply HO; exact Hx|subst x; exact Hov].
  - rewrite pop_back_push_back in Hx. apply In_remove_first_incl in Hx. apply HO. exact Hx.
  - apply In_remove_first_incl in Hx. apply HO. exact Hx.
  - apply In_move_to_end in Hx. apply HO. exact Hx.
  - destruct Hx.
  - destruct (shrinks_inval ks (c_store s) (c_queue s)) as (_ & _ & _ & I4 & _).
    apply HO. apply I4. exact Hx.
Qed.

(** ** the counting invariant: stored non-oversize keys <= limit + pending non-oversize stores *)
Definition kf (ov : key -> bool) (m : vstore) : list key := filter (fun k => negb (ov k)) (vkeys m).
Definition pf (ov : key -> bool) (p : list (nat * key)) : list (nat * key) :=
  filter (fun tk => negb (ov (snd tk))) p.

Definition invJ (ov : key -> bool) (limit : option N) (s : cstate) : Prop :=
  forall L, limit = Some L ->
    N.of_nat (length (kf ov (c_store s))) <= L + N.of_nat (length (pf ov (c_pending s))).

Lemma In_kf : forall ov m x, In x (kf ov m) <-> In x (vkeys m) /\ ov x = false.
Proof. intros ov m x. unfold kf. rewrite filter_In, negb_true_iff. tauto. Qed.

Lemma NoDup_kf : forall ov m, NoDup (vkeys m) -> NoDup (kf ov m).
Proof. intros ov m H. unfold kf. apply NoDup_filter. exact H. Qed.

Lemma kf_vremove : forall ov v m, kf ov (vremove v m) = remove_all v (kf ov m).
Proof. intros ov v m. unfold kf. rewrite vkeys_vremove. apply filter_remove_all_comm. Qed.

Lemma kf_shrinks : forall ov m q m' q',
    shrinks m q m' q' -> NoDup (vkeys m) -> (length (kf ov m') <= length (kf ov m))%nat.
Proof.
  intros ov m q m' q' Hsh Hnd. pose proof (shrinks_sub _ _ _ _ Hsh) as Hsub.
  destruct Hsh as (_ & S2 & _). apply NoDup_incl_length.
  - apply NoDup_kf. apply S2. exact Hnd.
  - intros x Hx. apply In_kf in Hx. apply In_kf. destruct Hx as [Hx Hov]. split; [apply Hsub; exact Hx|exact Hov].
Qed.

Lemma kf_vset_le : forall ov k v m, (length (kf ov (vset k v m)) <= (if ov k then 0 else 1) + length (kf ov m))%nat.
Proof.
  intros ov k v m. unfold kf. rewrite vkeys_vset. cbn [filter].
  rewrite filter_remove_all_comm.
  pose proof (length_remove_all_le k (filter (fun k0 => negb (ov k0)) (vkeys m))) as H.
  destruct (ov k); cbn [negb length]; lia.
Qed.

Lemma pf_remove_pending_nov : forall ov t k p,
    ov k = false -> In (t, k) p -> S (length (pf ov (remove_pending t k p))) = length (pf ov p).
Proof.
  intros ov t k p Hov. unfold pf. induction p as [|[t' k'] p IH]; intro Hin; [destruct Hin|].
  cbn [remove_pending]. destruct (Nat.eqb t t' && N.eqb k k') eqn:E.
  - apply andb_true_iff in E. destruct E as [_ E]. apply N.eqb_eq in E. subst k'.
    cbn [filter snd]. rewrite Hov. cbn [negb length]. reflexivity.
  - assert (Hin' : In (t, k) p).
    { destruct Hin as [H|H]; [|exact H]. inversion H; subst.
      rewrite Nat.eqb_refl, N.eqb_refl in E. discriminate E. }
    cbn [filter snd]. destruct (negb (ov k')); cbn [length]; rewrite (IH Hin'); reflexivity.
Qed.

Lemma pf_remove_pending_ov : forall ov t k p,
    ov k = true -> pf ov (remove_pending t k p) = pf ov p.
Proof.
  intros ov t k p Hov. unfold pf. induction p as [|[t' k'] p IH]; [reflexivity|].
  cbn [remove_pending]. destruct (Nat.eqb t t' && N.eqb k k') eqn:E.
  - apply andb_true_iff in E. destruct E as [_ E]. apply N.eqb_eq in E. subst k'.
    cbn [filter snd]. rewrite Hov. cbn [negb]. reflexivity.
  - cbn [filter snd]. destruct (negb (ov k')); rewrite IH; reflexivity.
Qed.

(* every stored non-oversize key is in the queue or is the key of a pending non-oversize store *)
Lemma kf_count : forall ov f s, inv0 f s ->
    (length (kf ov (c_store s)) <= length (c_queue s) + length (pf ov (c_pending s)))%nat.
Proof.
  intros ov f s (Hm & _ & Htr & _).
  rewrite <- (map_length snd (pf ov (c_pending s))), <- app_length.
  apply NoDup_incl_length; [apply NoDup_kf; exact Hm|].
  intros x Hx. apply In_kf in Hx. destruct Hx as [Hx Hov]. apply in_or_app.
  destruct (Htr x Hx) as [H|[t H]]; [left; exact H|right].
  apply in_map_iff. exists (t, x). split; [reflexivity|].
  unfold pf. apply filter_In. split; [exact H|]. cbn [snd]. rewrite Hov. reflexivity.
Qed.

Lemma kf_count_orphans : forall ov f s, inv0 f s ->
    (forall x, In x (c_queue s) -> ~ In x (vkeys (c_store s))) ->
    (length (kf ov (c_store s)) <= length (pf ov (c_pending s)))%nat.
Proof.
  intros ov f s (Hm & _ & Htr & _) Horph.
  rewrite <- (map_length snd (pf ov (c_pending s))).
  apply NoDup_incl_length; [apply NoDup_kf; exact Hm|].
  intros x Hx. apply In_kf in Hx. destruct Hx as [Hx Hov].
  destruct (Htr x Hx) as [H|[t H]]; [exfalso; apply (Horph x H); exact Hx|].
  apply in_map_iff. exists (t, x). split; [reflexivity|].
  unfold pf. apply filter_In. split; [exact H|]. cbn [snd]. rewrite Hov. reflexivity.
Qed.

Lemma invJ_step : forall ov limit pc f s s',
    pc <> PRand -> cstep_ov ov limit pc f s s' ->
    inv0 f s -> invO ov s -> invJ ov limit s -> invJ ov limit s'.
Proof.
  intros ov limit pc f s s' Hpc Hstep Hinv HO HJ L HL.
  pose proof (inv0_step limit pc f s s' (cstep_ov_cstep ov limit pc f s s' Hstep) Hinv) as Hinv'.
  specialize (HJ L HL). pose proof Hinv as (Hm & Hq & Htr & Hv).
  destruct Hstep as [s t k Hfresh | s t k m1 q1 m2 q2 Hov Hin Hevs Hover | s t k Hov Hin | s k | s k | s | s ks Hst Hnd];
    cbn [c_store c_pending].
  - (* store, section 1 *)
    pose proof (kf_vset_le ov k (f k) (c_store s)) as H1.
    unfold pf. cbn [filter snd]. fold (pf ov (c_pending s)).
    destruct (ov k); cbn [negb length]; lia.
  - (* store, section 2 *)
    pose proof (pf_remove_pending_nov ov t k (c_pending s) Hov Hin) as Hp.
    pose proof (shrinks_evicts pc _ _ _ _ Hevs) as Sh1.
    pose proof (shrinks_over limit pc _ _ _ _ Hover) as Sh2.
    assert (Hm1 : NoDup (vkeys m1)). { destruct Sh1 as (_ & S2 & _). apply S2. exact Hm. }
    pose proof (kf_shrinks ov _ _ _ _ Sh1 Hm) as Hk1.
    subst limit. unfold over in Hover.
    destruct (N.ltb_spec L (N.of_nat (length q1))) as [Hlt|Hge].
    + destruct (evict_store_cases pc m1 q1 m2 q2 Hpc Hover) as [(v & Hv1 & Hv2 & Hv3)|[He Hall]].
      * (* a stored queue key is evicted; it is not an oversize key *)
        assert (Hvov : ov v = false).
        { destruct Sh1 as (_ & _ & _ & S4 & _). apply S4, In_requeue_inv in Hv1.
          destruct Hv1 as [H|H]; [apply HO; exact H|subst v; exact Hov]. }
        subst m2. rewrite kf_vremove.
        assert (Hvk : In v (kf ov m1)) by (apply In_kf; split; assumption).
        pose proof (length_remove_all_in v (kf ov m1) (NoDup_kf ov m1 Hm1) Hvk) as Hl. lia.
      * (* no queue key is stored: every stored key is the key of a pending store *)
        pose proof (kf_count_orphans ov f _ Hinv') as Hc. cbn [c_store c_queue c_pending] in Hc.
        assert (Horph : forall x, In x q2 -> ~ In x (vkeys m2)).
        { intros x Hx. subst m2. apply Hall. destruct Sh2 as (_ & _ & _ & S4 & _). apply S4. exact Hx. }
        specialize (Hc Horph). lia.
    + (* the queue is within the limit *)
      destruct Hover as [E1 E2]. subst m2 q2.
      pose proof (kf_count ov f _ Hinv') as Hc. cbn [c_store c_queue c_pending] in Hc. lia.
  - (* oversize *)
    rewrite (pf_remove_pending_ov ov t k (c_pending s) Hov).
    pose proof (kf_shrinks ov _ _ _ _ (shrinks_vremove k (c_store s) (c_queue s)) Hm). lia.
  - pose proof (kf_shrinks ov _ _ _ _ (shrinks_vremove k (c_store s) (c_queue s)) Hm). lia.
  - exact HJ.
  - unfold kf. cbn [vkeys map filter length]. lia.
  - pose proof (kf_shrinks ov _ _ _ _ (shrinks_inval ks (c_store s) (c_queue s)) Hm). lia.
Qed.

Lemma invOJ_reach : forall ov limit pc f s,
    pc <> PRand -> creach_ov ov limit pc f s -> invO ov s /\ invJ ov limit s.
Proof.
  intros ov limit pc f s Hpc H. induction H as [|s s' Hr [IHO IHJ] Hstep].
  - split.
    + intros k [].
    + intros L _. cbn. lia.
  - pose proof (inv0_reach limit pc f s (creach_ov_creach ov limit pc f s Hr)) as Hinv.
    split.
    + apply (invO_step ov limit pc f s s'); assumption.
    + apply (invJ_step ov limit pc f s s'); assumption.
Qed.

(** ** The first pinned statement, in full, for every class, when oversize is a property of the key
    (in particular, with ov = fun _ => false, for the model without C_oversize). *)
Theorem conc_quiescent_consistent_ov :
  forall ov limit pc f s, creach_ov ov limit pc f s -> quiescent s ->
    NoDup (vkeys (c_store s)) /\
    NoDup (c_queue s) /\
    incl (vkeys (c_store s)) (c_queue s) /\
    (forall L, limit = Some L -> 1 <= L -> N.of_nat (length (c_store s)) <= L) /\
    (forall k v, vlookup k (c_store s) = Some v -> v = f k).
Proof.
  intros ov limit pc f s Hro Hqs. pose proof (creach_ov_creach ov limit pc f s Hro) as Hr.
  destruct (conc_quiescent_consistent_partial limit pc f s Hr Hqs) as (Hm & Hq & Hincl & Hb & Hv).
  split; [exact Hm|]. split; [exact Hq|]. split; [exact Hincl|]. split; [|exact Hv].
  intros L HL _. destruct pc.
  - apply (Hb L HL). discriminate.
  - destruct (invOJ_reach ov limit PScored f s) as [HO HJ]; [discriminate|exact Hro|].
    specialize (HJ L HL). unfold quiescent in Hqs. rewrite Hqs in HJ. cbn [pf filter length] in HJ.
    assert (Hk : kf ov (c_store s) = vkeys (c_store s)).
    { unfold kf. apply filter_all_forall. intros x Hx. rewrite (HO x (Hincl x Hx)). reflexivity. }
    rewrite Hk, vkeys_length in HJ. lia.
  - apply (Hb L HL). discriminate.
Qed.

(* ------------------------------------------------------------------ *)
(** * Examples *)

(* the bound only holds at quiescence: two threads between their sections, limit 1, two entries *)
Example conc_limit_exceeded_in_flight : forall pc f,
    exists s, creach (Some 1) pc f s /\ ~ quiescent s /\ N.of_nat (length (c_store s)) = 1 + 1.
Proof.
  intros pc f. exists (mkC [(1, f 1); (0, f 0)] [] [(1%nat, 1); (0%nat, 0)]).
  split; [|split; [intro H; discriminate H|reflexivity]].
  apply (cr_step _ _ _ (mkC [(0, f 0)] [] [(0%nat, 0)])).
  - apply (cr_step _ _ _ cinit); [apply cr_init|].
    eapply cstep_to; [apply (C_store1 (Some 1) pc f cinit 0%nat 0)|reflexivity].
    intros k' [].
  - eapply cstep_to; [apply (C_store1 (Some 1) pc f (mkC [(0, f 0)] [] [(0%nat, 0)]) 1%nat 1)|reflexivity].
    intros k' [H|[]]. inversion H.
Qed.

(* non-vacuity: a quiescent reachable state with a stored entry *)
Example conc_quiescent_nonempty : forall pc f,
    exists s, creach (Some 1) pc f s /\ quiescent s /\ c_store s = [(0, f 0)] /\ c_queue s = [0].
Proof.
  intros pc f. exists (mkC [(0, f 0)] [0] []).
  split; [|split; [reflexivity|split; reflexivity]].
  apply (cr_step _ _ _ (mkC [(0, f 0)] [] [(0%nat, 0)])).
  - apply (cr_step _ _ _ cinit); [apply cr_init|].
    eapply cstep_to; [apply (C_store1 (Some 1) pc f cinit 0%nat 0)|reflexivity].
    intros k' [].
  - eapply cstep_to;
      [apply (C_store2 (Some 1) pc f (mkC [(0, f 0)] [] [(0%nat, 0)]) 0%nat 0 [(0, f 0)] [0] [(0, f 0)] [0])|reflexivity].
    + left. reflexivity.
    + apply evs_nil.
    + vm_compute. split; reflexivity.
Qed.

(* the same two examples also live in the restricted system *)
Example conc_quiescent_nonempty_ov : forall ov pc f, ov 0 = false ->
    exists s, creach_ov ov (Some 1) pc f s /\ quiescent s /\ c_store s = [(0, f 0)] /\ c_queue s = [0].
Proof.
  intros ov pc f Hov. exists (mkC [(0, f 0)] [0] []).
  split; [|split; [reflexivity|split; reflexivity]].
  apply (cro_step _ _ _ _ (mkC [(0, f 0)] [] [(0%nat, 0)])).
  - apply (cro_step _ _ _ _ cinit); [apply cro_init|].
    pose proof (O_store1 ov (Some 1) pc f cinit 0%nat 0) as H. apply H. intros k' [].
  - pose proof (O_store2 ov (Some 1) pc f (mkC [(0, f 0)] [] [(0%nat, 0)]) 0%nat 0 [(0, f 0)] [0] [(0, f 0)] [0] Hov) as H.
    apply H.
    + left. reflexivity.
    + apply evs_nil.
    + vm_compute. split; reflexivity.
Qed.

Print Assumptions conc_quiescent_consistent_partial.
Print Assumptions conc_quiescent_consistent_ov.
Print Assumptions conc_tracked_or_pending.
Print Assumptions conc_counterexample.
Print Assumptions conc_quiescent_consistent_false.
Print Assumptions conc_limit_exceeded_in_flight.
Print Assumptions conc_quiescent_nonempty.
