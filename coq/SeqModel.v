(* SeqModel.v — M1: the three cache engines (GlobalCache, ThreadLocalCache,
   AsyncGlobalCache) as one executable step function, written branch by branch
   after the Rust text (see DESIGN.md Appendix A).  No proofs in this file. *)
From CL Require Export Base.
Open Scope N_scope.

Inductive op :=
| Get (k : key)
| Ins (k : key) (v : N) (sz : N)        (* insert            (sz = estimate of the value; recorded, not used) *)
| InsMem (k : key) (v : N) (sz : N)     (* insert_with_memory *)
| InsErr (k : key)                      (* insert_result[_with_memory] of an Err: stores nothing *)
| Clear
| InvalWith (ks : list key).            (* conditional invalidation: ks = keys the predicate accepts *)

Inductive out := OVal (o : option N) | OUnit.

(* ---------- time ---------- *)
(* [now] is virtual time in milliseconds.  Sync engines: Instant, expiry on whole
   elapsed seconds.  Async: unix seconds at store time and at lookup time. *)
Definition is_async (c : cfg) : bool := flavour_eqb (fl c) Async.

Definition age_s (c : cfg) (now : N) (e : entry) : N :=
  if is_async c then now / 1000 - e_born e / 1000 else (now - e_born e) / 1000.

Definition expired (c : cfg) (now : N) (e : entry) : bool :=
  match ttl c with
  | None => false
  | Some T => T <=? age_s c now e
  end.

Definition birth (c : cfg) (now : N) : N :=
  if is_async c then (now / 1000) * 1000 else now.

(* ---------- scores (LFU / ARC / TLRU) ---------- *)
(* numerator of the age factor max 0 (1 - min 1 (elapsed/ttl)); the denominator
   (1000*T resp. T) is the same for every entry and is dropped. *)
Definition af_num (c : cfg) (now : N) (e : entry) : N :=
  match ttl c with
  | None => 1
  | Some T =>
      if is_async c
      then let a := now / 1000 - e_born e / 1000 in T - N.min a T
      else let a := now - e_born e in 1000 * T - N.min a (1000 * T)
  end.

(* sync: utils.rs (total_len - idx); async: idx + 1 (front of the queue = least recent = rank 1) *)
Definition pos_weight (c : cfg) (len idx : nat) : N :=
  if is_async c then N.of_nat (S idx) else N.of_nat (len - idx).

(* Scores are compared only with each other inside one scan, so any strictly
   monotone transformation common to all entries is allowed: the sync weight
   freq*(n/d) is scaled by d; the async weight freq^(n/d)*r is raised to d. *)
Definition score (c : cfg) (now : N) (len idx : nat) (e : entry) : N :=
  let f := e_freq e in
  let pw := pos_weight c len idx in
  match pol c with
  | LFU => f
  | ARC => f * pw
  | TLRU =>
      let a := af_num c now e in
      match is_async c, fw c with
      | true, Some (n, d) => N.pow f (Npos n) * N.pow (pw * a) (Npos d)
      | true, None => f * pw * a
      | false, Some (n, _) => f * Npos n * pw * a
      | false, None => f * pw * a
      end
  | _ => 0
  end.

(* scan the queue front to back; keep the first strictly smaller score; skip
   queue keys that are not stored *)
Fixpoint first_min (sc : nat -> entry -> N) (m : store) (q : list key) (i : nat)
         (best : option (key * N)) : option (key * N) :=
  match q with
  | [] => best
  | k :: q' =>
      let best' :=
        match lookup k m with
        | None => best
        | Some e =>
            let s := sc i e in
            match best with
            | None => Some (k, s)
            | Some (_, b) => if s <? b then Some (k, s) else best
            end
        end in
      first_min sc m q' (S i) best'
  end.

Definition find_victim (c : cfg) (now : N) (m : store) (q : list key) : option key :=
  option_map fst (first_min (score c now (length q)) m q 0%nat None).

(* score of the (first) queue position of key k, if k is stored *)
Fixpoint score_at (sc : nat -> entry -> N) (m : store) (q : list key) (i : nat) (k : key) : option N :=
  match q with
  | [] => None
  | k' :: q' => if N.eqb k k' then option_map (sc i) (lookup k m) else score_at sc m q' (S i) k
  end.

(* Ties may be broken arbitrarily: the code keeps the first minimum of its scan, the model
   accepts ANY stored queue key whose score equals the minimum — the one named by the next
   choice if it qualifies, the first minimum otherwise — so every theorem holds for every
   tie-breaking rule. *)
Definition find_victim_ch (c : cfg) (now : N) (m : store) (q : list key) (ch : list key)
  : option key * list key :=
  match first_min (score c now (length q)) m q 0%nat None with
  | None => (None, ch)
  | Some (v, s) =>
      match ch with
      | [] => (Some v, ch)
      | k :: ch' =>
          match score_at (score c now (length q)) m q 0%nat k with
          | Some sk => if N.eqb sk s then (Some k, ch') else (Some v, ch')
          | None => (Some v, ch')
          end
      end
  end.

(* ---------- eviction of one entry ---------- *)
Definition evres := (store * list key * bool * list key)%type.  (* store, queue, evicted?, unused choices *)

Fixpoint pop_until_stored (m : store) (q : list key) : store * list key * bool :=
  match q with
  | [] => (m, [], false)
  | k :: q' => if mem k m then (sremove k m, q', true) else pop_until_stored m q'
  end.

Definition pop_one_unchecked (m : store) (q : list key) : store * list key * bool :=
  match q with
  | [] => (m, [], false)
  | k :: q' => (sremove k m, q', true)
  end.

(* Random: fastrand::usize(..len) picks a position; the model takes the position of
   the key named by the next choice (front of the queue when there is no usable choice),
   so every outcome of the generator is covered by some choice list. *)
Definition random_pos (ch : list key) (q : list key) : nat * list key :=
  match ch with
  | [] => (O, [])
  | k :: ch' => (match index_of k q with Some i => i | None => O end, ch')
  end.

Definition evict_one (c : cfg) (now : N) (unchecked : bool) (m : store) (q : list key)
           (ch : list key) : evres :=
  match pol c with
  | LFU | ARC | TLRU =>
      let '(ov, ch') := find_victim_ch c now m q ch in
      match ov with
      | Some v => (sremove v m, (if is_async c then remove_all v q else remove_first v q), true, ch')
      | None => (m, q, false, ch')
      end
  | Random =>
      match q with
      | [] => (m, q, false, ch)
      | _ :: _ =>
          let '(i, ch') := random_pos ch q in
          match nth_key i q with
          | Some v => (sremove v m, remove_nth i q, true, ch')
          | None => (m, q, false, ch')
          end
      end
  | FIFO | LRU =>
      let '(m', q', ev) := if unchecked then pop_one_unchecked m q else pop_until_stored m q in
      (m', q', ev, ch)
  end.

(* evict-until-it-fits.  [extra] is 0 for the sync engines (the new entry is already
   in the store) and the new value's size for async (it is not). *)
Fixpoint mem_loop (fuel : nat) (c : cfg) (now : N) (unchecked : bool) (extra M : N)
         (m : store) (q : list key) (ch : list key) : store * list key * list key :=
  match fuel with
  | O => (m, q, ch)
  | S fuel' =>
      if total_size m + extra <=? M then (m, q, ch)
      else
        let '(m', q', ev, ch') := evict_one c now unchecked m q ch in
        if ev then mem_loop fuel' c now unchecked extra M m' q' ch' else (m', q', ch')
  end.

Definition over_limit (c : cfg) (L : N) (m : store) (q : list key) : bool :=
  if is_async c then L <=? N.of_nat (length m) else L <? N.of_nat (length q).

Definition entry_limit (c : cfg) (now : N) (m : store) (q : list key) (ch : list key)
  : store * list key * list key :=
  match limit c with
  | None => (m, q, ch)
  | Some L =>
      if over_limit c L m q
      then let '(m', q', _, ch') := evict_one c now false m q ch in (m', q', ch')
      else (m, q, ch)
  end.

(* the memory loop of GlobalCache checks that the popped key is stored; those of
   ThreadLocalCache and AsyncGlobalCache pop one key and remove it blindly *)
Definition mem_unchecked (c : cfg) : bool := negb (flavour_eqb (fl c) Global).

Definition mem_fuel (q : list key) : nat := S (S (length q)).

(* ---------- store ---------- *)
Definition insert_sync (c : cfg) (now : N) (withmem : bool) (k : key) (v sz : N)
           (m : store) (q : list key) (ch : list key) : store * list key :=
  let m1 := upsert k (mkE v sz (birth c now) 0) m in
  let q1 := push_back k (remove_first k q) in
  match (if withmem then maxmem c else None) with
  | Some M =>
      if M <? sz then (sremove k m1, pop_back q1)
      else
        let '(m2, q2, ch2) := mem_loop (mem_fuel q1) c now (mem_unchecked c) 0 M m1 q1 ch in
        let '(m3, q3, _) := entry_limit c now m2 q2 ch2 in (m3, q3)
  | None =>
      let '(m3, q3, _) := entry_limit c now m1 q1 ch in (m3, q3)
  end.

Definition insert_async (c : cfg) (now : N) (withmem : bool) (k : key) (v sz : N)
           (m : store) (q : list key) (ch : list key) : store * list key :=
  (* an existing entry is dropped first, then the store proceeds as for a new key *)
  let '(m0, q0) := (sremove k m, remove_all k q) in
  let fin (m2 : store) (q2 : list key) (ch2 : list key) :=
      let '(m3, q3, _) := entry_limit c now m2 q2 ch2 in
      (upsert k (mkE v sz (birth c now) 0) m3, push_back k q3) in
  match (if withmem then maxmem c else None) with
  | Some M =>
      if M <? sz then (m0, q0)
      else
        let '(m2, q2, ch2) := mem_loop (mem_fuel q0) c now (mem_unchecked c) sz M m0 q0 ch in
        fin m2 q2 ch2
  | None => fin m0 q0 ch
  end.

Definition insert (c : cfg) (now : N) (withmem : bool) (k : key) (v sz : N)
           (s : state) (ch : list key) : state :=
  let '(m', q') :=
    if is_async c then insert_async c now withmem k v sz (st_store s) (st_queue s) ch
    else insert_sync c now withmem k v sz (st_store s) (st_queue s) ch in
  mkSt m' q' (st_hits s) (st_misses s).

(* ---------- lookup ---------- *)
Definition bump (e : entry) : entry := mkE (e_val e) (e_size e) (e_born e) (e_freq e + 1).

Definition counts_hits (p : policy) : bool :=
  match p with LFU | ARC | TLRU => true | _ => false end.
Definition tracks_recency (p : policy) : bool :=
  match p with LRU | ARC | TLRU => true | _ => false end.

Definition get (c : cfg) (now : N) (k : key) (s : state) : state * option N :=
  let m := st_store s in
  let q := st_queue s in
  match lookup k m with
  | None => (mkSt m q (st_hits s) (st_misses s + 1), None)
  | Some e =>
      if expired c now e then
        (mkSt (sremove k m) (if is_async c then remove_all k q else remove_first k q)
              (st_hits s) (st_misses s + 1), None)
      else
        let m' := if counts_hits (pol c) then supdate k bump m else m in
        let q' := if tracks_recency (pol c)
                  then (if is_async c then push_back k (remove_all k q) else move_to_end k q)
                  else q in
        (mkSt m' q' (st_hits s + 1) (st_misses s), Some (e_val e))
  end.

(* ---------- invalidation ---------- *)
Fixpoint inval_keys (ks : list key) (m : store) (q : list key) : store * list key :=
  match ks with
  | [] => (m, q)
  | k :: ks' =>
      if mem k m then inval_keys ks' (sremove k m) (remove_first k q)
      else inval_keys ks' m q
  end.

(* ---------- one operation ---------- *)
Definition step (c : cfg) (now : N) (s : state) (o : op) (ch : list key) : state * out :=
  match o with
  | Get k => let '(s', r) := get c now k s in (s', OVal r)
  | Ins k v sz => (insert c now false k v sz s ch, OUnit)
  | InsMem k v sz => (insert c now true k v sz s ch, OUnit)
  | InsErr _ => (s, OUnit)
  | Clear => (mkSt [] [] (st_hits s) (st_misses s), OUnit)
  | InvalWith ks =>
      let '(m', q') := inval_keys ks (st_store s) (st_queue s) in
      (mkSt m' q' (st_hits s) (st_misses s), OUnit)
  end.

(* A history is a list of timed operations with the choices of the random
   generator for that operation; [dt] is the time that passes before it. *)
Record event := mkEv { ev_dt : N; ev_op : op; ev_ch : list key }.

Fixpoint run (c : cfg) (now : N) (s : state) (h : list event) : state * N :=
  match h with
  | [] => (s, now)
  | e :: h' => run c (now + ev_dt e) (fst (step c (now + ev_dt e) s (ev_op e) (ev_ch e))) h'
  end.

(* the trace: state before, time, op, output, state after *)
Record obs := mkObs { ob_pre : state; ob_now : N; ob_op : op; ob_out : out; ob_post : state }.

Fixpoint trace (c : cfg) (now : N) (s : state) (h : list event) : list obs :=
  match h with
  | [] => []
  | e :: h' =>
      let now' := now + ev_dt e in
      let '(s', r) := step c now' s (ev_op e) (ev_ch e) in
      mkObs s now' (ev_op e) r s' :: trace c now' s' h'
  end.
