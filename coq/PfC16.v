(* PfC16.v — what can make a cache operation panic or hang, and why it does not. *)
From Coq Require Import List Bool Arith Lia.
From CL Require Import Base SeqModel Spec Inv Lemmas PfInvA PfC05 Borrow.
Import ListNotations.

(* ---- the RefCell discipline of the thread-local cache ---- *)
Lemma brun_app : forall p q s, brun s (p ++ q) = match brun s p with Some s' => brun s' q | None => None end.
Proof. induction p as [|e p IH]; intros q s; cbn; [reflexivity|]. destruct (bstep s e); [apply IH|reflexivity]. Qed.

(* with the queue mutably borrowed and the map free, an eviction leaves exactly that state *)
Definition held := mkB false true 0 0.

Lemma pops_ok : forall n, brun held (concat (repeat with_map_mut n)) = Some held.
Proof. induction n as [|n IH]; cbn; [reflexivity|exact IH]. Qed.

Lemma evict_held_ok : forall p found pops, brun held (evict_held p found pops) = Some held.
Proof. intros p found pops; destruct p, found; cbn; try reflexivity; apply pops_ok. Qed.

Lemma mem_rounds_ok : forall p rounds, brun held (mem_rounds p rounds) = Some held.
Proof.
  intros p rounds; induction rounds as [|[found pops] r IH]; [reflexivity|].
  cbn [mem_rounds]. rewrite brun_app. cbn [with_map_shr brun bstep m_map s_map].
  cbn. rewrite brun_app, evict_held_ok. exact IH.
Qed.

Theorem tl_insert_no_borrow_panic :
  forall p over found pops, brun b0 (tl_insert p over found pops) = Some b0.
Proof.
  intros p over found pops. unfold tl_insert. cbn [with_map_mut app brun bstep b0 m_map m_ord s_map s_ord orb negb Nat.eqb].
  change (mkB false true 0 0) with held.
  destruct over; [rewrite brun_app, evict_held_ok|]; reflexivity.
Qed.

Theorem tl_insert_mem_no_borrow_panic :
  forall p oversize rounds over found pops,
    brun b0 (tl_insert_mem p oversize rounds over found pops) = Some b0.
Proof.
  intros p oversize rounds over found pops. unfold tl_insert_mem.
  cbn [with_map_mut with_map_shr app brun bstep b0 m_map m_ord s_map s_ord orb negb Nat.eqb pred].
  change (mkB false true 0 0) with held.
  destruct oversize; [reflexivity|].
  rewrite brun_app, brun_app, mem_rounds_ok.
  destruct over; [rewrite evict_held_ok|]; reflexivity.
Qed.

Theorem tl_get_no_borrow_panic :
  forall p present expired, brun b0 (tl_get p present expired) = Some b0.
Proof. intros p present expired; destruct p, present, expired; reflexivity. Qed.

(* the code before the repair: LFU/ARC/TLRU overflow re-borrowed the queue and panicked *)
Theorem tl_insert_prefix_refuted :
  exists p, brun b0 (with_map_mut ++ [BMut COrd] ++ evict_held_prefix p true 0 ++ [BRelMut COrd]) = None.
Proof. exists LFU. reflexivity. Qed.

(* ---- the evict-until-it-fits loop stops on its own (no fuel exhaustion = no hang) ---- *)
Lemma mem_loop_more_fuel :
  forall c now u extra M m q ch fuel m' q' ch',
    Struct m q -> (length q < fuel)%nat -> (extra <= M)%N ->
    mem_loop fuel c now u extra M m q ch = (m', q', ch') ->
    mem_loop 1 c now u extra M m' q' ch' = (m', q', ch').
Proof.
  intros c now u extra M m q ch fuel m' q' ch' HS Hf He Hl.
  pose proof (mem_loop_fits fuel c now u extra M m q ch m' q' ch' HS Hf He Hl) as Hfit.
  cbn [mem_loop]. apply N.leb_le in Hfit. rewrite Hfit. reflexivity.
Qed.

(* ---- the random victim index is always inside the queue ---- *)
Lemma random_index_in_range :
  forall ch q, q <> [] -> (fst (random_pos ch q) < length q)%nat.
Proof. intros ch q Hq. apply random_pos_lt. exact Hq. Qed.
