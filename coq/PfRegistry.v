(* PfRegistry.v — M3: the process-wide registries of Wrapper.v.
   C12/C13: invalidation by tag / event / dependency / name / predicate clears or filters
   exactly the matching caches and leaves every other cache untouched;
   C14: a call on one cache instance changes no other instance;
   C15: statistics are read from, and reset on, the cache registered under the name. *)
From CL Require Export PfWrapper.
From Coq Require Import Lia.
Open Scope N_scope.

Arguments N.add : simpl never.
Arguments N.sub : simpl never.
Arguments N.mul : simpl never.
Arguments N.div : simpl never.
Arguments N.eqb : simpl never.
Arguments N.ltb : simpl never.
Arguments N.leb : simpl never.
Arguments N.even : simpl never.
Arguments N.pow : simpl never.

(* ------------------------------------------------------------------ *)
(** * Pointwise updates of a world *)

Lemma nth_error_map_if : forall (p : centry -> bool) (f : centry -> centry) (w : world) j e,
    nth_error w j = Some e ->
    nth_error (map (fun e => if p e then f e else e) w) j = Some (if p e then f e else e).
Proof.
  intros p f w. induction w as [|e0 w IH]; intros [|j] e H; cbn [nth_error map] in *;
    try discriminate.
  - inversion H. reflexivity.
  - apply IH. exact H.
Qed.

(* the shape shared by all registry-wide updates *)
Definition pointwise (p : centry -> bool) (f : centry -> centry) (w w' : world) : Prop :=
  length w' = length w /\
  forall j e, nth_error w j = Some e ->
    (p e = true -> nth_error w' j = Some (f e)) /\
    (p e = false -> nth_error w' j = Some e).

Lemma map_if_pointwise : forall p f w,
    pointwise p f w (map (fun e => if p e then f e else e) w).
Proof.
  intros p f w. split; [apply map_length|].
  intros j e H. rewrite (nth_error_map_if p f w j e H).
  destruct (p e); split; intro E; first [reflexivity|discriminate].
Qed.

(* ------------------------------------------------------------------ *)
(** * What the updates do to one cache *)

(* cleared: empty store and empty queue, statistics kept *)
Lemma cleared_spec : forall s,
    st_store (cleared s) = [] /\ st_queue (cleared s) = [] /\
    st_hits (cleared s) = st_hits s /\ st_misses (cleared s) = st_misses s.
Proof. intro s. repeat split. Qed.

(* set_st changes the state of the instance and nothing else *)
Lemma set_st_spec : forall e s,
    ce_st (set_st e s) = s /\ ce_id (set_st e s) = ce_id e /\ ce_w (set_st e s) = ce_w e /\
    ce_thread (set_st e s) = ce_thread e /\ ce_tags (set_st e s) = ce_tags e /\
    ce_events (set_st e s) = ce_events e /\ ce_deps (set_st e s) = ce_deps e /\
    ce_used (set_st e s) = ce_used e.
Proof. intros e s. repeat split. Qed.

(* apply_inval is the engine's conditional invalidation *)
Lemma apply_inval_step : forall c now ks s ch,
    apply_inval ks s = fst (step c now s (InvalWith ks) ch).
Proof.
  intros c now ks s ch. unfold apply_inval. cbn [step].
  destruct (inval_keys ks (st_store s) (st_queue s)) as [m' q']. reflexivity.
Qed.

(* store and queue after apply_inval are exactly the filter by the predicate *)
Lemma apply_inval_spec : forall ks s,
    Struct (st_store s) (st_queue s) ->
    let s' := apply_inval ks s in
    Struct (st_store s') (st_queue s') /\
    (forall x, In x (keys (st_store s')) <-> In x (keys (st_store s)) /\ ~ In x ks) /\
    (forall x, lookup x (st_store s') = if inb x ks then None else lookup x (st_store s)) /\
    st_queue s' = filter (fun x => negb (inb x ks)) (st_queue s) /\
    st_hits s' = st_hits s /\ st_misses s' = st_misses s.
Proof.
  intros ks s HS. cbv zeta. unfold apply_inval.
  destruct (inval_keys ks (st_store s) (st_queue s)) as [m' q'] eqn:E.
  cbn [st_store st_queue st_hits st_misses].
  destruct (inval_keys_spec ks _ _ _ _ HS E) as (Hsh & Hkeys & Hq).
  split; [apply (Shrunk_Struct _ _ _ _ Hsh)|]. split; [exact Hkeys|].
  split; [|repeat split; exact Hq].
  intro x. destruct (inb_spec x ks) as [Hin|Hin].
  - apply lookup_None. rewrite Hkeys. tauto.
  - destruct (in_dec N.eq_dec x (keys (st_store s))) as [Hk|Hk].
    + apply (Shrunk_lookup _ _ _ _ x Hsh). apply Hkeys. split; assumption.
    + rewrite (proj2 (lookup_None x (st_store s)) Hk). apply lookup_None. rewrite Hkeys. tauto.
Qed.

(* ------------------------------------------------------------------ *)
(** * C12 / C13: the invalidation entry points *)

Theorem invalidate_by_spec : forall t x w w' n,
    invalidate_by t x w = (w', n) ->
    length w' = length w /\
    (forall j e, nth_error w j = Some e ->
       (matches t x e = true -> nth_error w' j = Some (set_st e (cleared (ce_st e)))) /\
       (matches t x e = false -> nth_error w' j = Some e)) /\
    n = count_if (matches t x) w.
Proof.
  intros t x w w' n H. unfold invalidate_by in H. inversion H; subst. clear H.
  destruct (map_if_pointwise (matches t x) (fun e => set_st e (cleared (ce_st e))) w) as [Hl Hp].
  split; [exact Hl|]. split; [exact Hp|reflexivity].
Qed.

Theorem invalidate_cache_spec : forall n w w' b,
    invalidate_cache n w = (w', b) ->
    length w' = length w /\
    (forall j e, nth_error w j = Some e ->
       (name_matches n e = true -> nth_error w' j = Some (set_st e (cleared (ce_st e)))) /\
       (name_matches n e = false -> nth_error w' j = Some e)) /\
    b = existsb (name_matches n) w /\
    (b = true <-> exists e, In e w /\ name_matches n e = true).
Proof.
  intros n w w' b H. unfold invalidate_cache in H. inversion H; subst. clear H.
  destruct (map_if_pointwise (name_matches n) (fun e => set_st e (cleared (ce_st e))) w) as [Hl Hp].
  split; [exact Hl|]. split; [exact Hp|]. split; [reflexivity|apply existsb_exists].
Qed.

Theorem invalidate_with_spec : forall n ks w w' b,
    invalidate_with n ks w = (w', b) ->
    length w' = length w /\
    (forall j e, nth_error w j = Some e ->
       (cond_matches n e = true -> nth_error w' j = Some (set_st e (apply_inval ks (ce_st e)))) /\
       (cond_matches n e = false -> nth_error w' j = Some e)) /\
    b = existsb (cond_matches n) w /\
    (b = true <-> exists e, In e w /\ cond_matches n e = true).
Proof.
  intros n ks w w' b H. unfold invalidate_with in H. inversion H; subst. clear H.
  destruct (map_if_pointwise (cond_matches n) (fun e => set_st e (apply_inval ks (ce_st e))) w)
    as [Hl Hp].
  split; [exact Hl|]. split; [exact Hp|]. split; [reflexivity|apply existsb_exists].
Qed.

Theorem invalidate_all_with_spec : forall ksel w w' n,
    invalidate_all_with ksel w = (w', n) ->
    length w' = length w /\
    (forall j e, nth_error w j = Some e ->
       (cond_registered e = true ->
        nth_error w' j = Some (set_st e (apply_inval (ksel (ce_id e)) (ce_st e)))) /\
       (cond_registered e = false -> nth_error w' j = Some e)) /\
    n = count_if cond_registered w.
Proof.
  intros ksel w w' n H. unfold invalidate_all_with in H. inversion H; subst. clear H.
  destruct (map_if_pointwise cond_registered
              (fun e => set_st e (apply_inval (ksel (ce_id e)) (ce_st e))) w) as [Hl Hp].
  split; [exact Hl|]. split; [exact Hp|reflexivity].
Qed.

Theorem stats_reset_spec : forall n w w' b,
    stats_reset n w = (w', b) ->
    length w' = length w /\
    (forall j e, nth_error w j = Some e ->
       (cond_matches n e = true ->
        nth_error w' j = Some (set_st e (mkSt (st_store (ce_st e)) (st_queue (ce_st e)) 0 0))) /\
       (cond_matches n e = false -> nth_error w' j = Some e)) /\
    b = existsb (cond_matches n) w /\
    (b = true <-> exists e, In e w /\ cond_matches n e = true).
Proof.
  intros n w w' b H. unfold stats_reset in H. inversion H; subst. clear H.
  destruct (map_if_pointwise (cond_matches n)
              (fun e => set_st e (mkSt (st_store (ce_st e)) (st_queue (ce_st e)) 0 0)) w) as [Hl Hp].
  split; [exact Hl|]. split; [exact Hp|]. split; [reflexivity|apply existsb_exists].
Qed.

(* the three tables are distinct: 7 is a tag of cache 100, an event of cache 200 and a
   dependency of cache 300; each entry point clears only the cache of its own table *)
Definition ex_w : wcfg := mkW (mkCfg Global FIFO None None None None) false false false.
Definition ex_st : state := mkSt [(1, mkE 10 1 0 0)] [1] 3 4.
Definition ex_cl : state := mkSt [] [] 3 4.
Definition ex_world : world :=
  [ mkCE 100 ex_w false [7] [] [] true ex_st;
    mkCE 200 ex_w false [] [7] [] true ex_st;
    mkCE 300 ex_w false [] [] [7] true ex_st ].

Example tables_distinct :
  invalidate_by ByTag 7 ex_world =
    ([ mkCE 100 ex_w false [7] [] [] true ex_cl;
       mkCE 200 ex_w false [] [7] [] true ex_st;
       mkCE 300 ex_w false [] [] [7] true ex_st ], 1) /\
  invalidate_by ByEvent 7 ex_world =
    ([ mkCE 100 ex_w false [7] [] [] true ex_st;
       mkCE 200 ex_w false [] [7] [] true ex_cl;
       mkCE 300 ex_w false [] [] [7] true ex_st ], 1) /\
  invalidate_by ByDep 7 ex_world =
    ([ mkCE 100 ex_w false [7] [] [] true ex_st;
       mkCE 200 ex_w false [] [7] [] true ex_st;
       mkCE 300 ex_w false [] [] [7] true ex_cl ], 1).
Proof. vm_compute. repeat split; reflexivity. Qed.

(* after a clear the next call runs the body, whatever the key *)
Theorem cleared_next_call_executes : forall w now s i,
    co_exec (snd (call w now (cleared s) i)) = true.
Proof. intros w now s i. apply (call_absent_executes w now (cleared s) i (ci_key i)); reflexivity. Qed.

(* thread-scope instances register nothing: no entry point of the registries reaches them *)
Lemma thread_scope_unregistered : forall e,
    ce_thread e = true ->
    (forall t x, matches t x e = false) /\ (forall n, name_matches n e = false) /\
    (forall n, cond_matches n e = false) /\ cond_registered e = false.
Proof.
  intros e H. unfold matches, name_matches, cond_matches, clear_registered, cond_registered.
  rewrite H. cbn [negb]. rewrite !andb_false_r. repeat split.
Qed.

(* ------------------------------------------------------------------ *)
(** * C14: a call touches one world entry only *)

Lemma world_call_frame_len : forall w idx now i w' o,
    world_call w idx now i = (w', o) ->
    length w' = length w /\ forall j, j <> idx -> nth_error w' j = nth_error w j.
Proof.
  intro w. induction w as [|e w IH]; intros idx now i w' o H.
  - destruct idx; cbn [world_call] in H; inversion H; subst; split; reflexivity.
  - destruct idx as [|n]; cbn [world_call] in H.
    + destruct (call (ce_w e) now (ce_st e) i) as [s' r]. inversion H; subst. clear H.
      split; [reflexivity|]. intros [|j] Hj; [contradiction Hj; reflexivity|reflexivity].
    + destruct (world_call w n now i) as [w'' o'] eqn:E. inversion H; subst. clear H.
      destruct (IH n now i w'' o E) as [Hl Hf]. cbn [length]. split; [rewrite Hl; reflexivity|].
      intros [|j] Hj; [reflexivity|]. cbn [nth_error]. apply Hf. intro E'. apply Hj. rewrite E'. reflexivity.
Qed.

Theorem world_call_frame : forall w idx now i w' o,
    world_call w idx now i = (w', o) ->
    forall j, j <> idx -> nth_error w' j = nth_error w j.
Proof. intros w idx now i w' o H. apply (world_call_frame_len w idx now i w' o H). Qed.

Lemma world_call_length : forall w idx now i w' o,
    world_call w idx now i = (w', o) -> length w' = length w.
Proof. intros w idx now i w' o H. apply (world_call_frame_len w idx now i w' o H). Qed.

Theorem world_call_at : forall w idx now i e,
    nth_error w idx = Some e ->
    exists w',
      world_call w idx now i = (w', Some (snd (call (ce_w e) now (ce_st e) i))) /\
      nth_error w' idx = Some (mark_used e (fst (call (ce_w e) now (ce_st e) i))).
Proof.
  intro w. induction w as [|e0 w IH]; intros [|n] now i e H; cbn [nth_error] in H;
    try discriminate.
  - inversion H; subst e0. clear H. cbn [world_call].
    destruct (call (ce_w e) now (ce_st e) i) as [s' r]. cbn [fst snd].
    exists (mark_used e s' :: w). split; reflexivity.
  - destruct (IH n now i e H) as (w'' & Hc & Hn). cbn [world_call]. rewrite Hc.
    exists (e0 :: w''). split; [reflexivity|exact Hn].
Qed.

(* outside the world: no call happens *)
Lemma world_call_none : forall w idx now i,
    nth_error w idx = None -> world_call w idx now i = (w, None).
Proof.
  intro w. induction w as [|e0 w IH]; intros [|n] now i H; cbn [nth_error] in H;
    try discriminate; try reflexivity.
  cbn [world_call]. rewrite (IH n now i H). reflexivity.
Qed.

(* mark_used changes the state and the used flag and nothing else *)
Lemma mark_used_spec : forall e s,
    ce_st (mark_used e s) = s /\ ce_used (mark_used e s) = true /\
    ce_id (mark_used e s) = ce_id e /\ ce_w (mark_used e s) = ce_w e /\
    ce_thread (mark_used e s) = ce_thread e /\ ce_tags (mark_used e s) = ce_tags e /\
    ce_events (mark_used e s) = ce_events e /\ ce_deps (mark_used e s) = ce_deps e.
Proof. intros e s. repeat split. Qed.

(* ------------------------------------------------------------------ *)
(** * C15: statistics *)

Theorem stats_get_spec : forall n w h m,
    stats_get n w = Some (h, m) ->
    exists e, In e w /\ cond_matches n e = true /\
              h = st_hits (ce_st e) /\ m = st_misses (ce_st e).
Proof.
  intros n w h m H. unfold stats_get in H.
  destruct (find (cond_matches n) w) as [e|] eqn:E; [|discriminate].
  inversion H; subst. destruct (find_some _ _ E) as [Hin Hm].
  exists e. repeat split; assumption.
Qed.

Lemma stats_get_none : forall n w,
    stats_get n w = None <-> forall e, In e w -> cond_matches n e = false.
Proof.
  intros n w. unfold stats_get. destruct (find (cond_matches n) w) as [e|] eqn:E.
  - split; [discriminate|]. intro H. destruct (find_some _ _ E) as [Hin Hm].
    rewrite (H e Hin) in Hm. discriminate.
  - split; [|reflexivity]. intros _ e Hin. apply (find_none _ _ E e Hin).
Qed.

Theorem stats_reset_frame : forall n w w' b,
    stats_reset n w = (w', b) ->
    forall j e, nth_error w j = Some e ->
      (cond_matches n e = false -> nth_error w' j = Some e) /\
      (cond_matches n e = true ->
       exists e', nth_error w' j = Some e' /\
         st_store (ce_st e') = st_store (ce_st e) /\ st_queue (ce_st e') = st_queue (ce_st e) /\
         st_hits (ce_st e') = 0 /\ st_misses (ce_st e') = 0 /\
         e' = set_st e (ce_st e')).
Proof.
  intros n w w' b H j e Hn.
  destruct (stats_reset_spec n w w' b H) as (_ & Hp & _).
  destruct (Hp j e Hn) as [Ht Hf]. split; [exact Hf|].
  intro Hm. eexists. split; [apply Ht; exact Hm|]. repeat split.
Qed.

Print Assumptions invalidate_by_spec.
Print Assumptions invalidate_cache_spec.
Print Assumptions invalidate_with_spec.
Print Assumptions apply_inval_spec.
Print Assumptions invalidate_all_with_spec.
Print Assumptions stats_reset_spec.
Print Assumptions tables_distinct.
Print Assumptions cleared_next_call_executes.
Print Assumptions world_call_frame.
Print Assumptions world_call_length.
Print Assumptions thread_scope_unregistered.
Print Assumptions world_call_at.
Print Assumptions stats_get_spec.
Print Assumptions stats_reset_frame.
