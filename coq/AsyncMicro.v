(* AsyncMicro.v — M12: what a LOCK-FREE reader can see while an async store runs.

   AsyncConc treats the whole store as one atomic action.  That is right for every party that takes
   the order-queue lock, but lookups do not take it: they read the DashMap between the individual
   map operations of a store.  Since the repair D8 a store performs, on the map,
       one  remove(v)   for every victim v — victims are taken from the queue AFTER the stored key
                         has been detached from it, so the stored key is never one of them —
       then one  insert(k, new entry)   (an in-place replacement when k was stored), or, when the
                         value is refused as larger than max_memory, one  remove(k)  if k was stored.
   So at any moment during the store a reader sees the old map with SOME of the victims removed.
   [victims_of] reads the victims off the result of the validated sequential model
   (SeqModel.insert_async), so this file adds no second description of the eviction policies.
   No proofs in this file. *)
From CL Require Export Base SeqModel.
Open Scope N_scope.

Fixpoint sremove_all (R : list key) (m : store) : store :=
  match R with [] => m | r :: R' => sremove_all R' (sremove r m) end.

(* the keys other than k that the store removes: stored before, not stored afterwards *)
Definition victims_of (k : key) (m m' : store) : list key :=
  filter (fun x => negb (mem x m')) (keys (sremove k m)).

(* the map a lock-free reader sees when the victims in R have been removed so far *)
Definition visible_during (m : store) (R : list key) : store := sremove_all R m.

(* the map after the store's last map operation *)
Definition after_last_op (c : cfg) (now : N) (k : key) (v sz : N) (m m' : store) : store :=
  let m1 := sremove_all (victims_of k m m') m in
  if mem k m' then upsert k (mkE v sz (birth c now) 0) m1 else sremove k m1.
