(* PfC06.v — C06: a lookup of a stored key whose age has reached the ttl returns nothing,
   removes the key from store and queue and counts one miss; a lookup of a stored,
   unexpired key returns the latest stored value and keeps the key; a lookup of an
   absent key returns nothing.  Plus the whole-second clock lemmas for the async cache. *)
From CL Require Export PfInvG.
From Coq Require Import Lia.
Open Scope N_scope.

Arguments N.add : simpl never.
Arguments N.sub : simpl never.
Arguments N.mul : simpl never.
Arguments N.div : simpl never.
Arguments N.eqb : simpl never.
Arguments N.ltb : simpl never.
Arguments N.leb : simpl never.
Arguments N.pow : simpl never.

(* ------------------------------------------------------------------ *)
(** * The async clock: expiry is decided on whole unix seconds *)

(* [now], [born] are real times in ms with arbitrary sub-second phase, [T] the ttl in s.
   An entry that is at least T seconds old is expired ... *)
Lemma async_clock_expiry : forall now born T,
    born <= now -> T * 1000 <= now - born -> T <= now / 1000 - born / 1000.
Proof.
  intros now born T Hle Hage.
  assert (H0 : 1000 <> 0) by discriminate.
  pose proof (N.div_mod now 1000 H0) as Hn. pose proof (N.mod_lt now 1000 H0) as Hnl.
  pose proof (N.div_mod born 1000 H0) as Hb. pose proof (N.mod_lt born 1000 H0) as Hbl.
  generalize dependent (now / 1000). generalize dependent (now mod 1000).
  generalize dependent (born / 1000). generalize dependent (born mod 1000).
  intros rb Hrb qb Hb rn Hrn qn Hn. lia.
Qed.

(* ... and one that is less than T - 1 seconds old is served. *)
Lemma async_clock_fresh : forall now born T,
    born <= now -> 1 <= T -> now - born < (T - 1) * 1000 -> now / 1000 - born / 1000 < T.
Proof.
  intros now born T Hle HT Hage.
  assert (H0 : 1000 <> 0) by discriminate.
  pose proof (N.div_mod now 1000 H0) as Hn. pose proof (N.mod_lt now 1000 H0) as Hnl.
  pose proof (N.div_mod born 1000 H0) as Hb. pose proof (N.mod_lt born 1000 H0) as Hbl.
  generalize dependent (now / 1000). generalize dependent (now mod 1000).
  generalize dependent (born / 1000). generalize dependent (born mod 1000).
  intros rb Hrb qb Hb rn Hrn qn Hn. lia.
Qed.

(* the same, as statements about the async engine's own expiry test: the entry was
   stored at real time [t0] (so its recorded birth is [birth c t0]) and looked up at [now] *)
Lemma async_expired_of_age : forall c now t0 e T,
    is_async c = true -> ttl c = Some T -> e_born e = birth c t0 ->
    t0 <= now -> T * 1000 <= now - t0 -> expired c now e = true.
Proof.
  intros c now t0 e T Ha HT Hb Hle Hage. unfold expired, age_s. rewrite HT, Ha, Hb.
  unfold birth. rewrite Ha. rewrite N.div_mul by discriminate.
  apply N.leb_le. apply async_clock_expiry; assumption.
Qed.

Lemma async_fresh_of_age : forall c now t0 e T,
    is_async c = true -> ttl c = Some T -> e_born e = birth c t0 ->
    t0 <= now -> 1 <= T -> now - t0 < (T - 1) * 1000 -> expired c now e = false.
Proof.
  intros c now t0 e T Ha HT Hb Hle H1 Hage. unfold expired, age_s. rewrite HT, Ha, Hb.
  unfold birth. rewrite Ha. rewrite N.div_mul by discriminate.
  apply N.leb_gt. apply async_clock_fresh; assumption.
Qed.

(* ------------------------------------------------------------------ *)
(** * The spec's expiry test is the engine's, given the birth times agree *)

Lemma gexpired_expired : forall c now e i,
    e_born e = g_born i -> gexpired c now i = expired c now e.
Proof.
  intros c now e i H. unfold gexpired, expired, age_s. rewrite H. reflexivity.
Qed.

(* ------------------------------------------------------------------ *)
(** * One lookup *)

Lemma c06_get : forall c now idx k s g,
    Struct (st_store s) (st_queue s) -> InvG c idx s g ->
    c06_step c g idx (mkObs s now (Get k) (OVal (snd (get c now k s))) (fst (get c now k s))) = true.
Proof.
  intros c now idx k s g HS HG. unfold c06_step, skeys. cbn [ob_op ob_pre ob_post ob_out ob_now].
  destruct (get_cases c now k s)
    as [(Hl & Hg)|[(e & Hl & Hex & Hg)|(e & Hl & Hex & Hout & Hst & _ & _)]].
  - (* absent *)
    apply lookup_None in Hl. apply inb_false in Hl. rewrite Hl, Hg. reflexivity.
  - (* stored and expired *)
    assert (Hin : inb k (keys (st_store s)) = true)
      by (apply inb_In; apply (lookup_Some_In k _ e); exact Hl).
    destruct (HG k e Hl) as (i & Hi & _ & Hborn & _).
    rewrite Hin, Hi, (gexpired_expired c now e i Hborn), Hex, Hg.
    cbn [fst snd st_store st_queue st_hits st_misses].
    rewrite !N.eqb_refl, !andb_true_r. cbn [andb].
    apply andb_true_iff. split; apply negb_true_iff; apply inb_false.
    + rewrite In_keys_sremove. tauto.
    + destruct (is_async c).
      * rewrite In_remove_all. tauto.
      * rewrite In_remove_first by apply HS. tauto.
  - (* stored and fresh *)
    assert (Hk : In k (keys (st_store s))) by (apply (lookup_Some_In k _ e); exact Hl).
    assert (Hin : inb k (keys (st_store s)) = true) by (apply inb_In; exact Hk).
    destruct (HG k e Hl) as (i & Hi & Hval & Hborn & _).
    rewrite Hin, Hi, (gexpired_expired c now e i Hborn), Hex, Hout, Hst.
    apply andb_true_iff. split; [apply N.eqb_eq; exact Hval|].
    destruct (counts_hits (pol c)); [rewrite keys_supdate|]; exact Hin.
Qed.

Lemma c06_one : forall c now s o ch g idx,
    Struct (st_store s) (st_queue s) -> InvG c idx s g ->
    c06_step c g idx (mkObs s now o (snd (step c now s o ch)) (fst (step c now s o ch))) = true.
Proof.
  intros c now s o ch g idx HS HG.
  destruct o as [k|k v sz|k v sz|k| |ks]; try reflexivity.
  cbn [step]. pose proof (c06_get c now idx k s g HS HG) as H.
  destruct (get c now k s) as [s' r]. cbn [fst snd] in *. exact H.
Qed.

Theorem c06_holds : forall c h,
    wf_cfg c = true -> check_trace c06_step c (trace c 0 init h) = true.
Proof.
  intros c h Hwf.
  apply (lift c c06_step (fun idx s g => InvA c s /\ InvG c idx s g));
    [|split; [apply invA_init|apply invG_init]].
  intros now idx s g o ch [HA HG]. cbv zeta. split.
  - apply c06_one; [apply (InvA_Struct c s HA)|exact HG].
  - split; [apply invA_step; assumption|apply invG_step; assumption].
Qed.

Print Assumptions async_clock_expiry.
Print Assumptions async_clock_fresh.
Print Assumptions async_expired_of_age.
Print Assumptions async_fresh_of_age.
Print Assumptions c06_holds.
