(* PfInvA.v — the structural invariant InvA is established by [init] and preserved by
   every step of the model.  Exports one-step characterisations of evict_one,
   pop_until_stored, find_victim, find_victim_ch, mem_loop, entry_limit, insert_sync, insert_async,
   get and inval_keys for the later proofs. *)
From CL Require Export Lemmas.
From Coq Require Import Lia.
Open Scope N_scope.

Arguments N.add : simpl never.
Arguments N.sub : simpl never.
Arguments N.mul : simpl never.
Arguments N.div : simpl never.
Arguments N.eqb : simpl never.
Arguments N.ltb : simpl never.
Arguments N.leb : simpl never.
Arguments N.pow : simpl never.

(* ------------------------------------------------------------------ *)
(** * The structural part of InvA *)

Definition Struct (m : store) (q : list key) : Prop :=
  NoDup q /\ NoDup (keys m) /\ (forall k, In k q <-> In k (keys m)).

Lemma InvA_Struct : forall c s, InvA c s -> Struct (st_store s) (st_queue s).
Proof. intros c s (H1 & H2 & H3 & _). repeat split; try assumption; apply H3. Qed.

Lemma InvA_limit : forall c s L,
    InvA c s -> limit c = Some L -> 1 <= L -> N.of_nat (length (st_store s)) <= L.
Proof. intros c s L (_ & _ & _ & H) HL H1. apply H; assumption. Qed.

Lemma InvA_intro : forall c s,
    Struct (st_store s) (st_queue s) ->
    (forall L, limit c = Some L -> 1 <= L -> N.of_nat (length (st_store s)) <= L) ->
    InvA c s.
Proof. intros c s (H1 & H2 & H3) H4. unfold InvA. repeat split; try assumption; apply H3. Qed.

Lemma Struct_nil : Struct [] [].
Proof. repeat split; try constructor; intros []. Qed.

Lemma Struct_length : forall m q, Struct m q -> length q = length m.
Proof.
  intros m q (H1 & H2 & H3). rewrite <- keys_length. apply NoDup_same_length; assumption.
Qed.

Lemma Struct_q_nil : forall m, Struct m [] -> m = [].
Proof.
  intros m H. apply Struct_length in H. cbn [length] in H.
  destruct m; [reflexivity|discriminate].
Qed.

Lemma Struct_q_not_nil : forall m q, Struct m q -> (0 < length m)%nat -> q <> [].
Proof. intros m q H Hl E. subst q. apply Struct_q_nil in H. subst m. cbn [length] in Hl. lia. Qed.

Lemma Struct_remove_first : forall v m q, Struct m q -> Struct (sremove v m) (remove_first v q).
Proof.
  intros v m q (H1 & H2 & H3). repeat split.
  - apply NoDup_remove_first. exact H1.
  - apply NoDup_keys_sremove. exact H2.
  - rewrite In_remove_first by exact H1. rewrite In_keys_sremove. intros [Ha Hb]. split; [apply H3; exact Ha|exact Hb].
  - rewrite In_remove_first by exact H1. rewrite In_keys_sremove. intros [Ha Hb]. split; [apply H3; exact Ha|exact Hb].
Qed.

Lemma Struct_remove_all : forall v m q, Struct m q -> Struct (sremove v m) (remove_all v q).
Proof.
  intros v m q H. rewrite <- remove_first_remove_all by apply H.
  apply Struct_remove_first. exact H.
Qed.

Lemma Struct_upsert_fresh : forall k e m q,
    Struct m q -> ~ In k (keys m) -> Struct (upsert k e m) (push_back k q).
Proof.
  intros k e m q (H1 & H2 & H3) Hk. repeat split.
  - apply NoDup_push_back; [exact H1|]. intro H. apply Hk. apply H3. exact H.
  - apply NoDup_keys_upsert. exact H2.
  - rewrite In_push_back, In_keys_upsert. intros [H|H]; [right; apply H3; exact H|left; exact H].
  - rewrite In_push_back, In_keys_upsert. intros [H|H]; [right; exact H|left; apply H3; exact H].
Qed.

Lemma Struct_upsert_push : forall k e m q,
    Struct m q -> Struct (upsert k e m) (push_back k (remove_first k q)).
Proof.
  intros k e m q H. unfold upsert.
  pose proof (Struct_remove_first k m q H) as H'.
  assert (Hk : ~ In k (keys (sremove k m))) by (rewrite In_keys_sremove; tauto).
  pose proof (Struct_upsert_fresh k e _ _ H' Hk) as H''.
  unfold upsert in H''. rewrite sremove_idem in H''. exact H''.
Qed.

Lemma Struct_same_keys : forall m m' q, Struct m q -> keys m' = keys m -> Struct m' q.
Proof. intros m m' q (H1 & H2 & H3) E. unfold Struct. rewrite E. repeat split; try assumption; apply H3. Qed.

Lemma Struct_same_queue : forall m q q',
    Struct m q -> NoDup q' -> (forall x, In x q' <-> In x q) -> Struct m q'.
Proof.
  intros m q q' (H1 & H2 & H3) Hnd E. repeat split; try assumption.
  - intro H. apply H3. apply E. exact H.
  - intro H. apply E. apply H3. exact H.
Qed.

(* ------------------------------------------------------------------ *)
(** * first_min / find_victim *)

Lemma first_min_sound : forall sc m q i best r,
    first_min sc m q i best = r ->
    r = best \/ exists v s, r = Some (v, s) /\ In v q /\ In v (keys m).
Proof.
  intros sc m q. induction q as [|a q IH]; intros i best r H; cbn [first_min] in H.
  - left. symmetry. exact H.
  - apply IH in H. destruct H as [H|(v & s & Hr & Hin & Hm)].
    + destruct (lookup a m) as [e|] eqn:El; [|left; exact H].
      assert (Ha : In a (keys m)) by (apply (lookup_Some_In a m e); exact El).
      destruct best as [[bk bs]|].
      * destruct (sc i e <? bs).
        -- right. exists a, (sc i e). split; [exact H|]. split; [left; reflexivity|exact Ha].
        -- left. exact H.
      * right. exists a, (sc i e). split; [exact H|]. split; [left; reflexivity|exact Ha].
    + right. exists v, s. split; [exact Hr|]. split; [right; exact Hin|exact Hm].
Qed.

Lemma first_min_complete : forall sc m q i best,
    (best <> None \/ exists k, In k q /\ In k (keys m)) -> first_min sc m q i best <> None.
Proof.
  intros sc m q. induction q as [|a q IH]; intros i best H; cbn [first_min].
  - destruct H as [H|(k & [] & _)]. exact H.
  - apply IH. destruct H as [H|(k & [Hk|Hk] & Hm)].
    + left. destruct (lookup a m) as [e|]; [|exact H].
      destruct best as [[bk bs]|]; [|discriminate]. destruct (sc i e <? bs); discriminate.
    + subst a. left. destruct (In_keys_lookup _ _ Hm) as [e He]. rewrite He.
      destruct best as [[bk bs]|]; [|discriminate]. destruct (sc i e <? bs); discriminate.
    + right. exists k. split; assumption.
Qed.

Lemma find_victim_In : forall c now m q v,
    find_victim c now m q = Some v -> In v q /\ In v (keys m).
Proof.
  intros c now m q v H. unfold find_victim in H.
  destruct (first_min (score c now (length q)) m q 0%nat None) as [[v' s']|] eqn:E;
    cbn [option_map fst] in H; [|discriminate].
  inversion H; subst v'. apply first_min_sound in E.
  destruct E as [E|(v0 & s0 & Hr & Hin & Hm)]; [discriminate|].
  inversion Hr; subst. split; assumption.
Qed.

Lemma find_victim_Some : forall c now m q,
    (exists k, In k q /\ In k (keys m)) -> exists v, find_victim c now m q = Some v.
Proof.
  intros c now m q H. unfold find_victim.
  pose proof (first_min_complete (score c now (length q)) m q 0%nat None (or_intror H)) as Hc.
  destruct (first_min (score c now (length q)) m q 0%nat None) as [[v s]|]; [|contradiction].
  exists v. reflexivity.
Qed.

Lemma find_victim_None : forall c now m q,
    find_victim c now m q = None -> forall k, In k q -> ~ In k (keys m).
Proof.
  intros c now m q H k Hq Hm.
  destruct (find_victim_Some c now m q) as [v Hv]; [exists k; split; assumption|].
  congruence.
Qed.

(* score_at: the score of the first queue position of a stored key *)
Lemma score_at_sound : forall sc m q i k s,
    score_at sc m q i k = Some s ->
    exists j e, nth_key j q = Some k /\ lookup k m = Some e /\ s = sc (i + j)%nat e.
Proof.
  intros sc m q. induction q as [|a q IH]; intros i k s H; cbn [score_at] in H; [discriminate H|].
  destruct (N.eqb_spec k a) as [E|E].
  - subst a. destruct (lookup k m) as [e|] eqn:El; cbn [option_map] in H; [|discriminate H].
    inversion H; subst s. exists 0%nat, e. cbn [nth_key].
    split; [reflexivity|]. split; [reflexivity|]. replace (i + 0)%nat with i by lia. reflexivity.
  - destruct (IH _ _ _ H) as (j & e & Hn & Hl & Hs). exists (S j), e. cbn [nth_key].
    split; [exact Hn|]. split; [exact Hl|]. replace (i + S j)%nat with (S i + j)%nat by lia. exact Hs.
Qed.

Lemma score_at_In : forall sc m q i k s,
    score_at sc m q i k = Some s -> In k q /\ In k (keys m).
Proof.
  intros sc m q i k s H. destruct (score_at_sound _ _ _ _ _ _ H) as (j & e & Hn & Hl & _).
  split; [apply (nth_key_In j); exact Hn|apply (lookup_Some_In k m e); exact Hl].
Qed.

(* find_victim_ch: the victim evict_one picks under the scored policies *)
Lemma find_victim_ch_None : forall c now m q ch ch',
    find_victim_ch c now m q ch = (None, ch') -> find_victim c now m q = None.
Proof.
  intros c now m q ch ch' H. unfold find_victim_ch in H. unfold find_victim.
  destruct (first_min (score c now (length q)) m q 0%nat None) as [[v s]|]; [|reflexivity].
  exfalso. destruct ch as [|k ch0]; [discriminate H|].
  destruct (score_at (score c now (length q)) m q 0%nat k) as [sk|]; [|discriminate H].
  destruct (N.eqb sk s); discriminate H.
Qed.

Lemma find_victim_None_ch : forall c now m q ch,
    find_victim c now m q = None -> find_victim_ch c now m q ch = (None, ch).
Proof.
  intros c now m q ch H. unfold find_victim in H. unfold find_victim_ch.
  destruct (first_min (score c now (length q)) m q 0%nat None) as [[v s]|];
    [discriminate H|reflexivity].
Qed.

Lemma find_victim_ch_None_iff : forall c now m q ch,
    fst (find_victim_ch c now m q ch) = None <-> find_victim c now m q = None.
Proof.
  intros c now m q ch. split; intro H.
  - destruct (find_victim_ch c now m q ch) as [ov ch'] eqn:E. cbn [fst] in H. subst ov.
    apply (find_victim_ch_None _ _ _ _ _ _ E).
  - rewrite (find_victim_None_ch _ _ _ _ ch H). reflexivity.
Qed.

Lemma find_victim_ch_In : forall c now m q ch v ch',
    find_victim_ch c now m q ch = (Some v, ch') -> In v q /\ In v (keys m).
Proof.
  intros c now m q ch v ch' H. unfold find_victim_ch in H.
  destruct (first_min (score c now (length q)) m q 0%nat None) as [[v0 s0]|] eqn:E; [|discriminate H].
  assert (H0 : In v0 q /\ In v0 (keys m)).
  { apply (find_victim_In c now). unfold find_victim. rewrite E. reflexivity. }
  destruct ch as [|k ch0]; [inversion H; subst; exact H0|].
  destruct (score_at (score c now (length q)) m q 0%nat k) as [sk|] eqn:Ek;
    [|inversion H; subst; exact H0].
  destruct (N.eqb sk s0); inversion H; subst; [|exact H0].
  apply (score_at_In _ _ _ _ _ _ Ek).
Qed.

Lemma find_victim_ch_Some : forall c now m q ch,
    (exists k, In k q /\ In k (keys m)) ->
    exists v ch', find_victim_ch c now m q ch = (Some v, ch').
Proof.
  intros c now m q ch H.
  destruct (find_victim_ch c now m q ch) as [[v|] ch'] eqn:E; [exists v, ch'; reflexivity|].
  apply find_victim_ch_None in E. destruct (find_victim_Some c now m q H) as [v Hv]. congruence.
Qed.

(* one choice is consumed when there is one and a victim exists *)
Lemma find_victim_ch_choices : forall c now m q ch ov ch',
    find_victim_ch c now m q ch = (ov, ch') -> ch' = ch \/ ch' = tl ch.
Proof.
  intros c now m q ch ov ch' H. unfold find_victim_ch in H.
  destruct (first_min (score c now (length q)) m q 0%nat None) as [[v s]|];
    [|inversion H; left; reflexivity].
  destruct ch as [|k ch0]; [inversion H; left; reflexivity|]. right. cbn [tl].
  destruct (score_at (score c now (length q)) m q 0%nat k) as [sk|]; [|inversion H; reflexivity].
  destruct (N.eqb sk s); inversion H; reflexivity.
Qed.

(* ------------------------------------------------------------------ *)
(** * pop_until_stored / pop_one_unchecked / random_pos *)

Lemma pop_until_stored_spec : forall m q m' q' b,
    pop_until_stored m q = (m', q', b) ->
    (b = false /\ m' = m /\ q' = [] /\ forall x, In x q -> ~ In x (keys m)) \/
    (b = true /\ exists pre v, q = pre ++ v :: q' /\ (forall x, In x pre -> ~ In x (keys m)) /\
                               In v (keys m) /\ m' = sremove v m).
Proof.
  intros m q. induction q as [|a q IH]; intros m' q' b H; cbn [pop_until_stored] in H.
  - inversion H; subst. left. repeat split; try reflexivity. intros x [].
  - destruct (mem a m) eqn:Ea.
    + inversion H; subst. right. split; [reflexivity|]. exists [], a. cbn [app].
      split; [reflexivity|]. split; [intros x []|]. split; [apply mem_In; exact Ea|reflexivity].
    + apply mem_false in Ea. apply IH in H.
      destruct H as [(Hb & Hm & Hq & Hall)|(Hb & pre & v & Hq & Hpre & Hv & Hm)].
      * left. repeat split; try assumption. intros x [Hx|Hx]; [subst; exact Ea|apply Hall; exact Hx].
      * right. split; [exact Hb|]. exists (a :: pre), v. cbn [app]. split; [rewrite Hq; reflexivity|].
        split; [|split; assumption]. intros x [Hx|Hx]; [subst; exact Ea|apply Hpre; exact Hx].
Qed.

Lemma pop_until_stored_head : forall m q,
    (forall k, In k q -> In k (keys m)) -> pop_until_stored m q = pop_one_unchecked m q.
Proof.
  intros m [|a q] H; cbn [pop_until_stored pop_one_unchecked]; [reflexivity|].
  assert (Ha : mem a m = true) by (apply mem_In; apply H; left; reflexivity).
  rewrite Ha. reflexivity.
Qed.

Lemma pop_one_unchecked_spec : forall m q m' q' b,
    pop_one_unchecked m q = (m', q', b) ->
    (b = false /\ q = [] /\ m' = m /\ q' = []) \/
    (b = true /\ exists v, In v q /\ q = v :: q' /\ m' = sremove v m /\ q' = remove_first v q).
Proof.
  intros m [|a q] m' q' b H; cbn [pop_one_unchecked] in H; inversion H; subst.
  - left. repeat split; reflexivity.
  - right. split; [reflexivity|]. exists a. split; [left; reflexivity|].
    split; [reflexivity|]. split; [reflexivity|]. cbn [remove_first]. rewrite N.eqb_refl. reflexivity.
Qed.

Lemma pop_spec : forall (u : bool) m q m' q' b,
    (forall k, In k q -> In k (keys m)) ->
    (if u then pop_one_unchecked m q else pop_until_stored m q) = (m', q', b) ->
    (b = false /\ q = [] /\ m' = m /\ q' = []) \/
    (b = true /\ exists v, In v q /\ q = v :: q' /\ m' = sremove v m /\ q' = remove_first v q).
Proof.
  intros u m q m' q' b Hin H. apply pop_one_unchecked_spec.
  destruct u; [exact H|]. rewrite <- pop_until_stored_head by exact Hin. exact H.
Qed.

Lemma random_pos_lt : forall ch q, q <> [] -> (fst (random_pos ch q) < length q)%nat.
Proof.
  intros ch q Hq. assert (H0 : (0 < length q)%nat) by (destruct q; [contradiction|cbn [length]; lia]).
  unfold random_pos. destruct ch as [|k ch']; cbn [fst]; [exact H0|].
  destruct (index_of k q) as [i|] eqn:E; [|exact H0].
  apply (nth_key_Some_lt i q k). apply index_of_nth_key. exact E.
Qed.

(* ------------------------------------------------------------------ *)
(** * evict_one *)

Definition evict_post (m : store) (q : list key) (m' : store) (q' : list key) (ev : bool) : Prop :=
  (ev = false /\ q = [] /\ m' = m /\ q' = []) \/
  (ev = true /\ exists v, In v q /\ m' = sremove v m /\ q' = remove_first v q).

Lemma evict_one_spec : forall c now u m q ch m' q' ev ch',
    NoDup q -> (forall k, In k q <-> In k (keys m)) ->
    evict_one c now u m q ch = (m', q', ev, ch') ->
    evict_post m q m' q' ev.
Proof.
  intros c now u m q ch m' q' ev ch' Hnd Hiff H.
  assert (Hscore :
    (let '(ov, ch0) := find_victim_ch c now m q ch in
     match ov with
     | Some v => (sremove v m, (if is_async c then remove_all v q else remove_first v q), true, ch0)
     | None => (m, q, false, ch0)
     end) = (m', q', ev, ch') -> evict_post m q m' q' ev).
  { intro Hs. destruct (find_victim_ch c now m q ch) as [[v|] ch0] eqn:Ev.
    - apply find_victim_ch_In in Ev. destruct Ev as [Hvq _].
      inversion Hs; subst. right. split; [reflexivity|]. exists v.
      split; [exact Hvq|]. split; [reflexivity|].
      destruct (is_async c); [|reflexivity]. symmetry. apply remove_first_remove_all. exact Hnd.
    - apply find_victim_ch_None in Ev.
      inversion Hs; subst. left.
      assert (Hq : q' = []).
      { destruct q' as [|a q'']; [reflexivity|]. exfalso.
        apply (find_victim_None c now m' (a :: q'') Ev a); [left; reflexivity|].
        apply Hiff. left. reflexivity. }
      subst q'. repeat split; reflexivity. }
  assert (Hpop :
    (let '(m0, q0, ev0) := if u then pop_one_unchecked m q else pop_until_stored m q in
     (m0, q0, ev0, ch)) = (m', q', ev, ch') -> evict_post m q m' q' ev).
  { intro Hs.
    destruct (if u then pop_one_unchecked m q else pop_until_stored m q) as [[m0 q0] ev0] eqn:Ep.
    inversion Hs; subst.
    apply pop_spec in Ep; [|intros k Hk; apply Hiff; exact Hk].
    destruct Ep as [(Hb & Hq & Hm & Hq')|(Hb & v & Hv & _ & Hm & Hq')].
    - left. repeat split; assumption.
    - right. split; [exact Hb|]. exists v. repeat split; assumption. }
  unfold evict_one in H. destruct (pol c); try (apply Hscore; exact H); try (apply Hpop; exact H).
  (* Random *)
  destruct q as [|a q0].
  - inversion H; subst. left. repeat split; reflexivity.
  - pose proof (random_pos_lt ch (a :: q0)) as Hlt.
    destruct (random_pos ch (a :: q0)) as [i ch0] eqn:Er. cbn [fst] in Hlt.
    destruct (nth_key_lt i (a :: q0)) as [v Hv]; [apply Hlt; discriminate|].
    rewrite Hv in H. inversion H; subst. right. split; [reflexivity|]. exists v.
    split; [apply (nth_key_In i); exact Hv|]. split; [reflexivity|].
    apply remove_nth_remove_first; assumption.
Qed.

(* the pinned form *)
Lemma evict_one_true : forall c now u m q ch m' q' ch',
    NoDup q -> (forall k, In k q <-> In k (keys m)) ->
    evict_one c now u m q ch = (m', q', true, ch') ->
    exists v, In v q /\ m' = sremove v m /\ q' = remove_first v q.
Proof.
  intros c now u m q ch m' q' ch' Hnd Hiff H.
  destruct (evict_one_spec _ _ _ _ _ _ _ _ _ _ Hnd Hiff H) as [(Hb & _)|(_ & Hex)];
    [discriminate|exact Hex].
Qed.

Lemma evict_one_true_all : forall c now u m q ch m' q' ch',
    NoDup q -> (forall k, In k q <-> In k (keys m)) ->
    evict_one c now u m q ch = (m', q', true, ch') ->
    exists v, In v q /\ In v (keys m) /\ m' = sremove v m /\ q' = remove_all v q.
Proof.
  intros c now u m q ch m' q' ch' Hnd Hiff H.
  destruct (evict_one_true _ _ _ _ _ _ _ _ _ Hnd Hiff H) as (v & Hv & Hm & Hq).
  exists v. split; [exact Hv|]. split; [apply Hiff; exact Hv|]. split; [exact Hm|].
  rewrite <- remove_first_remove_all by exact Hnd. exact Hq.
Qed.

Lemma evict_one_false : forall c now u m q ch m' q' ch',
    NoDup q -> (forall k, In k q <-> In k (keys m)) ->
    evict_one c now u m q ch = (m', q', false, ch') ->
    q = [] /\ m' = m /\ q' = [].
Proof.
  intros c now u m q ch m' q' ch' Hnd Hiff H.
  destruct (evict_one_spec _ _ _ _ _ _ _ _ _ _ Hnd Hiff H) as [(_ & Hq & Hm & Hq')|(Hb & _)];
    [repeat split; assumption|discriminate].
Qed.

Lemma evict_one_nonempty : forall c now u m q ch,
    Struct m q -> q <> [] ->
    exists v ch', In v q /\ evict_one c now u m q ch = (sremove v m, remove_first v q, true, ch').
Proof.
  intros c now u m q ch (Hnd & _ & Hiff) Hq.
  destruct (evict_one c now u m q ch) as [[[m' q'] ev] ch'] eqn:E.
  destruct (evict_one_spec _ _ _ _ _ _ _ _ _ _ Hnd Hiff E) as [(_ & Hq0 & _)|(Hb & v & Hv & Hm & Hq')].
  - contradiction.
  - subst. exists v, ch'. split; [exact Hv|reflexivity].
Qed.

(* ------------------------------------------------------------------ *)
(** * Shrunk: (m', q') is (m, q) with some keys removed *)

Definition Shrunk (m : store) (q : list key) (m' : store) (q' : list key) : Prop :=
  Struct m' q' /\
  (forall x, In x (keys m') -> In x (keys m)) /\
  (forall x, In x (keys m') -> lookup x m' = lookup x m) /\
  q' = filter (fun x => inb x (keys m')) q.

Lemma Shrunk_Struct : forall m q m' q', Shrunk m q m' q' -> Struct m' q'.
Proof. intros m q m' q' H. apply H. Qed.

Lemma Shrunk_incl : forall m q m' q' x, Shrunk m q m' q' -> In x (keys m') -> In x (keys m).
Proof. intros m q m' q' x H. apply H. Qed.

Lemma Shrunk_lookup : forall m q m' q' x,
    Shrunk m q m' q' -> In x (keys m') -> lookup x m' = lookup x m.
Proof. intros m q m' q' x H. apply H. Qed.

Lemma Shrunk_queue : forall m q m' q',
    Shrunk m q m' q' -> q' = filter (fun x => inb x (keys m')) q.
Proof. intros m q m' q' H. apply H. Qed.

Lemma Shrunk_length : forall m q m' q', Shrunk m q m' q' -> (length m' <= length m)%nat.
Proof.
  intros m q m' q' ((_ & Hnd & _) & Hincl & _). rewrite <- !keys_length.
  apply NoDup_incl_length; [exact Hnd|]. intros x Hx. apply Hincl. exact Hx.
Qed.

Lemma Shrunk_queue_incl : forall m q m' q' x, Shrunk m q m' q' -> In x q' -> In x q.
Proof.
  intros m q m' q' x H Hx. rewrite (Shrunk_queue _ _ _ _ H) in Hx.
  apply filter_In in Hx. apply Hx.
Qed.

Lemma Shrunk_refl : forall m q, Struct m q -> Shrunk m q m q.
Proof.
  intros m q H. split; [exact H|]. split; [tauto|]. split; [reflexivity|].
  symmetry. apply filter_all_forall. intros x Hx. apply inb_In. apply H. exact Hx.
Qed.

Lemma Shrunk_remove : forall v m q, Struct m q -> Shrunk m q (sremove v m) (remove_first v q).
Proof.
  intros v m q H. split; [apply Struct_remove_first; exact H|].
  split; [intros x Hx; apply In_keys_sremove in Hx; apply Hx|].
  split; [intros x Hx; apply lookup_sremove_In; exact Hx|].
  destruct H as (Hnd & _ & Hiff).
  rewrite remove_first_remove_all by exact Hnd. rewrite remove_all_filter.
  apply filter_ext_in. intros x Hx. apply eq_true_iff_eq.
  rewrite negb_true_iff, N.eqb_neq, inb_In, In_keys_sremove.
  apply Hiff in Hx. tauto.
Qed.

Lemma Shrunk_trans : forall m q m1 q1 m2 q2,
    Shrunk m q m1 q1 -> Shrunk m1 q1 m2 q2 -> Shrunk m q m2 q2.
Proof.
  intros m q m1 q1 m2 q2 (S1 & I1 & L1 & Q1) (S2 & I2 & L2 & Q2).
  split; [exact S2|]. split; [intros x Hx; apply I1, I2; exact Hx|].
  split; [intros x Hx; rewrite L2 by exact Hx; apply L1, I2; exact Hx|].
  rewrite Q2, Q1, filter_filter. apply filter_ext. intro x.
  destruct (inb x (keys m2)) eqn:E2; [|apply andb_false_r].
  apply inb_In in E2. apply I2 in E2. apply inb_In in E2. rewrite E2. reflexivity.
Qed.

(* ------------------------------------------------------------------ *)
(** * mem_loop *)

Lemma mem_loop_Shrunk : forall fuel c now u extra M m q ch m' q' ch',
    Struct m q ->
    mem_loop fuel c now u extra M m q ch = (m', q', ch') ->
    Shrunk m q m' q'.
Proof.
  induction fuel as [|fuel IH]; intros c now u extra M m q ch m' q' ch' HS H; cbn [mem_loop] in H.
  - inversion H; subst. apply Shrunk_refl. exact HS.
  - destruct (total_size m + extra <=? M).
    + inversion H; subst. apply Shrunk_refl. exact HS.
    + destruct (evict_one c now u m q ch) as [[[m1 q1] ev] ch1] eqn:E.
      pose proof HS as (Hnd & _ & Hiff).
      destruct (evict_one_spec _ _ _ _ _ _ _ _ _ _ Hnd Hiff E)
        as [(Hb & Hq & Hm & Hq')|(Hb & v & Hv & Hm & Hq')]; subst.
      * inversion H; subst. apply Shrunk_refl. exact HS.
      * apply (Shrunk_trans _ _ (sremove v m) (remove_first v q)).
        -- apply Shrunk_remove. exact HS.
        -- apply (IH _ _ _ _ _ _ _ _ _ _ _ (Struct_remove_first v m q HS) H).
Qed.

(* with enough fuel the loop ends with the memory bound satisfied *)
Lemma mem_loop_fits : forall fuel c now u extra M m q ch m' q' ch',
    Struct m q -> (length q < fuel)%nat -> extra <= M ->
    mem_loop fuel c now u extra M m q ch = (m', q', ch') ->
    total_size m' + extra <= M.
Proof.
  induction fuel as [|fuel IH]; intros c now u extra M m q ch m' q' ch' HS Hf Hex H; [lia|].
  cbn [mem_loop] in H. destruct (N.leb_spec (total_size m + extra) M) as [Hle|Hgt].
  - inversion H; subst. exact Hle.
  - destruct (evict_one c now u m q ch) as [[[m1 q1] ev] ch1] eqn:E.
    pose proof HS as (Hnd & _ & Hiff).
    destruct (evict_one_spec _ _ _ _ _ _ _ _ _ _ Hnd Hiff E)
      as [(Hb & Hq & Hm & Hq')|(Hb & v & Hv & Hm & Hq')]; subst.
    + inversion H; subst. apply Struct_q_nil in HS. subst m'. cbn [total_size fold_right]. lia.
    + apply (IH _ _ _ _ _ _ _ _ _ _ _ (Struct_remove_first v m q HS)) in H; [exact H| |exact Hex].
      pose proof (length_remove_first_in v q Hv). lia.
Qed.

(* ------------------------------------------------------------------ *)
(** * entry_limit *)

Lemma entry_limit_spec : forall c now m q ch m' q' ch',
    Struct m q ->
    entry_limit c now m q ch = (m', q', ch') ->
    (m' = m /\ q' = q /\ ch' = ch /\
     (limit c = None \/ exists L, limit c = Some L /\ over_limit c L m q = false)) \/
    (exists L, limit c = Some L /\ over_limit c L m q = true /\ q = [] /\ m' = m /\ q' = q) \/
    (exists L v, limit c = Some L /\ over_limit c L m q = true /\ In v q /\
                 m' = sremove v m /\ q' = remove_first v q).
Proof.
  intros c now m q ch m' q' ch' HS H. unfold entry_limit in H.
  destruct (limit c) as [L|] eqn:EL.
  - destruct (over_limit c L m q) eqn:Eo.
    + destruct (evict_one c now false m q ch) as [[[m1 q1] ev] ch1] eqn:E.
      inversion H; subst. pose proof HS as (Hnd & _ & Hiff).
      destruct (evict_one_spec _ _ _ _ _ _ _ _ _ _ Hnd Hiff E)
        as [(Hb & Hq & Hm & Hq')|(Hb & v & Hv & Hm & Hq')].
      * right. left. exists L. subst. repeat split; first [reflexivity|assumption].
      * right. right. exists L, v. repeat split; assumption.
    + inversion H; subst. left. repeat split; try reflexivity. right. exists L. split; [reflexivity|exact Eo].
  - inversion H; subst. left. repeat split; try reflexivity. left. reflexivity.
Qed.

Lemma entry_limit_Shrunk : forall c now m q ch m' q' ch',
    Struct m q -> entry_limit c now m q ch = (m', q', ch') -> Shrunk m q m' q'.
Proof.
  intros c now m q ch m' q' ch' HS H.
  destruct (entry_limit_spec _ _ _ _ _ _ _ _ HS H)
    as [(Hm & Hq & _)|[(L & _ & _ & _ & Hm & Hq)|(L & v & _ & _ & _ & Hm & Hq)]]; subst.
  - apply Shrunk_refl. exact HS.
  - apply Shrunk_refl. exact HS.
  - apply Shrunk_remove. exact HS.
Qed.

Lemma entry_limit_bound_sync : forall c now m q ch m' q' ch' L,
    is_async c = false -> Struct m q -> limit c = Some L ->
    entry_limit c now m q ch = (m', q', ch') ->
    N.of_nat (length m) <= L + 1 -> N.of_nat (length m') <= L.
Proof.
  intros c now m q ch m' q' ch' L Ha HS HL H Hb.
  pose proof (Struct_length m q HS) as Hlen.
  destruct (entry_limit_spec _ _ _ _ _ _ _ _ HS H)
    as [(Hm & Hq & _ & [Hn|(L' & HL' & Ho)])|[(L' & HL' & Ho & Hq0 & Hm & Hq)|(L' & v & HL' & Ho & Hv & Hm & Hq)]];
    try congruence; rewrite HL in HL'; inversion HL'; subst L'; clear HL';
    unfold over_limit in Ho; rewrite Ha in Ho.
  - subst. apply N.ltb_ge in Ho. lia.
  - subst. apply N.ltb_lt in Ho. cbn [length] in Ho. lia.
  - subst. destruct HS as (_ & Hnd & Hiff). apply Hiff in Hv.
    pose proof (length_sremove_in v m Hnd Hv). lia.
Qed.

Lemma entry_limit_bound_async : forall c now m q ch m' q' ch' L,
    is_async c = true -> Struct m q -> limit c = Some L -> 1 <= L ->
    entry_limit c now m q ch = (m', q', ch') ->
    N.of_nat (length m) <= L -> N.of_nat (length m') + 1 <= L.
Proof.
  intros c now m q ch m' q' ch' L Ha HS HL H1 H Hb.
  pose proof (Struct_length m q HS) as Hlen.
  destruct (entry_limit_spec _ _ _ _ _ _ _ _ HS H)
    as [(Hm & Hq & _ & [Hn|(L' & HL' & Ho)])|[(L' & HL' & Ho & Hq0 & Hm & Hq)|(L' & v & HL' & Ho & Hv & Hm & Hq)]];
    try congruence; rewrite HL in HL'; inversion HL'; subst L'; clear HL';
    unfold over_limit in Ho; rewrite Ha in Ho.
  - subst. apply N.leb_gt in Ho. lia.
  - subst. apply N.leb_le in Ho. cbn [length] in Hlen. lia.
  - subst. destruct HS as (_ & Hnd & Hiff). apply Hiff in Hv.
    pose proof (length_sremove_in v m Hnd Hv). lia.
Qed.

(* ------------------------------------------------------------------ *)
(** * insert_sync *)

Definition new_entry (c : cfg) (now v sz : N) : entry := mkE v sz (birth c now) 0.

Lemma insert_sync_cases : forall c now wm k v sz m q ch m' q',
    insert_sync c now wm k v sz m q ch = (m', q') ->
    let m1 := upsert k (new_entry c now v sz) m in
    let q1 := push_back k (remove_first k q) in
    (exists M, (if wm then maxmem c else None) = Some M /\ (M <? sz) = true /\
               m' = sremove k m1 /\ q' = pop_back q1) \/
    (exists M m2 q2 ch2 ch3, (if wm then maxmem c else None) = Some M /\ (M <? sz) = false /\
               mem_loop (mem_fuel q1) c now (mem_unchecked c) 0 M m1 q1 ch = (m2, q2, ch2) /\
               entry_limit c now m2 q2 ch2 = (m', q', ch3)) \/
    ((if wm then maxmem c else None) = None /\
     exists ch3, entry_limit c now m1 q1 ch = (m', q', ch3)).
Proof.
  intros c now wm k v sz m q ch m' q' H m1 q1. unfold insert_sync in H.
  fold (new_entry c now v sz) in H. fold m1 in H. fold q1 in H.
  destruct (if wm then maxmem c else None) as [M|].
  - destruct (M <? sz) eqn:Esz.
    + left. exists M. inversion H; subst. repeat split; first [reflexivity|assumption].
    + right. left.
      destruct (mem_loop (mem_fuel q1) c now (mem_unchecked c) 0 M m1 q1 ch) as [[m2 q2] ch2] eqn:Eml.
      destruct (entry_limit c now m2 q2 ch2) as [[m3 q3] ch3] eqn:Eel.
      inversion H; subst. exists M, m2, q2, ch2, ch3. repeat split; first [reflexivity|assumption].
  - right. right. split; [reflexivity|].
    destruct (entry_limit c now m1 q1 ch) as [[m3 q3] ch3] eqn:Eel.
    inversion H; subst. exists ch3. reflexivity.
Qed.

Lemma insert_sync_Shrunk : forall c now wm k v sz m q ch m' q',
    Struct m q ->
    insert_sync c now wm k v sz m q ch = (m', q') ->
    Shrunk (upsert k (new_entry c now v sz) m) (push_back k (remove_first k q)) m' q'.
Proof.
  intros c now wm k v sz m q ch m' q' HS H.
  pose proof (Struct_upsert_push k (new_entry c now v sz) m q HS) as HS1.
  destruct (insert_sync_cases _ _ _ _ _ _ _ _ _ _ _ H)
    as [(M & _ & _ & Hm & Hq)|[(M & m2 & q2 & ch2 & ch3 & _ & _ & Hml & Hel)|(_ & ch3 & Hel)]].
  - subst. rewrite pop_back_push_back.
    assert (Hk : ~ In k (remove_first k q)) by (rewrite In_remove_first by apply HS; tauto).
    rewrite <- (remove_first_push_back k (remove_first k q) Hk) at 2.
    apply Shrunk_remove. exact HS1.
  - apply (Shrunk_trans _ _ m2 q2).
    + apply (mem_loop_Shrunk _ _ _ _ _ _ _ _ _ _ _ _ HS1 Hml).
    + apply (entry_limit_Shrunk _ _ _ _ _ _ _ _ (Shrunk_Struct _ _ _ _ (mem_loop_Shrunk _ _ _ _ _ _ _ _ _ _ _ _ HS1 Hml)) Hel).
  - apply (entry_limit_Shrunk _ _ _ _ _ _ _ _ HS1 Hel).
Qed.

Lemma insert_sync_Struct : forall c now wm k v sz m q ch m' q',
    Struct m q -> insert_sync c now wm k v sz m q ch = (m', q') -> Struct m' q'.
Proof. intros. eapply Shrunk_Struct. eapply insert_sync_Shrunk; eassumption. Qed.

Lemma insert_sync_keys : forall c now wm k v sz m q ch m' q' x,
    Struct m q -> insert_sync c now wm k v sz m q ch = (m', q') ->
    In x (keys m') -> x = k \/ In x (keys m).
Proof.
  intros c now wm k v sz m q ch m' q' x HS H Hx.
  apply (Shrunk_incl _ _ _ _ x (insert_sync_Shrunk _ _ _ _ _ _ _ _ _ _ _ HS H)) in Hx.
  apply In_keys_upsert in Hx. exact Hx.
Qed.

Lemma insert_sync_bound : forall c now wm k v sz m q ch m' q' L,
    is_async c = false -> Struct m q -> limit c = Some L ->
    insert_sync c now wm k v sz m q ch = (m', q') ->
    N.of_nat (length m) <= L -> N.of_nat (length m') <= L.
Proof.
  intros c now wm k v sz m q ch m' q' L Ha HS HL H Hb.
  pose proof (Struct_upsert_push k (new_entry c now v sz) m q HS) as HS1.
  pose proof (length_upsert_le k (new_entry c now v sz) m) as Hup.
  destruct (insert_sync_cases _ _ _ _ _ _ _ _ _ _ _ H)
    as [(M & _ & _ & Hm & Hq)|[(M & m2 & q2 & ch2 & ch3 & _ & _ & Hml & Hel)|(_ & ch3 & Hel)]].
  - subst. rewrite sremove_upsert. pose proof (length_sremove_le k m). lia.
  - pose proof (mem_loop_Shrunk _ _ _ _ _ _ _ _ _ _ _ _ HS1 Hml) as Hsh.
    pose proof (Shrunk_length _ _ _ _ Hsh) as Hlen.
    apply (entry_limit_bound_sync _ _ _ _ _ _ _ _ L Ha (Shrunk_Struct _ _ _ _ Hsh) HL Hel). lia.
  - apply (entry_limit_bound_sync _ _ _ _ _ _ _ _ L Ha HS1 HL Hel). lia.
Qed.

(* ------------------------------------------------------------------ *)
(** * insert_async *)

Lemma insert_async_cases : forall c now wm k v sz m q ch m' q',
    insert_async c now wm k v sz m q ch = (m', q') ->
    let m0 := sremove k m in
    let q0 := remove_all k q in
    (exists M, (if wm then maxmem c else None) = Some M /\ (M <? sz) = true /\ m' = m0 /\ q' = q0) \/
    (exists M m2 q2 ch2 m3 q3 ch3, (if wm then maxmem c else None) = Some M /\ (M <? sz) = false /\
               mem_loop (mem_fuel q0) c now (mem_unchecked c) sz M m0 q0 ch = (m2, q2, ch2) /\
               entry_limit c now m2 q2 ch2 = (m3, q3, ch3) /\
               m' = upsert k (new_entry c now v sz) m3 /\ q' = push_back k q3) \/
    ((if wm then maxmem c else None) = None /\
     exists m3 q3 ch3, entry_limit c now m0 q0 ch = (m3, q3, ch3) /\
               m' = upsert k (new_entry c now v sz) m3 /\ q' = push_back k q3).
Proof.
  intros c now wm k v sz m q ch m' q' H m0 q0. unfold insert_async in H.
  fold (new_entry c now v sz) in H. fold m0 in H. fold q0 in H.
  destruct (if wm then maxmem c else None) as [M|].
  - destruct (M <? sz) eqn:Esz.
    + left. exists M. inversion H; subst. repeat split; first [reflexivity|assumption].
    + right. left.
      destruct (mem_loop (mem_fuel q0) c now (mem_unchecked c) sz M m0 q0 ch) as [[m2 q2] ch2] eqn:Eml.
      destruct (entry_limit c now m2 q2 ch2) as [[m3 q3] ch3] eqn:Eel.
      inversion H; subst. exists M, m2, q2, ch2, m3, q3, ch3. repeat split; first [reflexivity|assumption].
  - right. right. split; [reflexivity|].
    destruct (entry_limit c now m0 q0 ch) as [[m3 q3] ch3] eqn:Eel.
    inversion H; subst. exists m3, q3, ch3. repeat split; reflexivity.
Qed.

(* either the value was too large and only the old entry went away, or the new entry
   was added to a shrunk version of the store without the key *)
Lemma insert_async_Shrunk : forall c now wm k v sz m q ch m' q',
    Struct m q ->
    insert_async c now wm k v sz m q ch = (m', q') ->
    (m' = sremove k m /\ q' = remove_all k q) \/
    (exists m3 q3, Shrunk (sremove k m) (remove_all k q) m3 q3 /\
                   m' = upsert k (new_entry c now v sz) m3 /\ q' = push_back k q3).
Proof.
  intros c now wm k v sz m q ch m' q' HS H.
  pose proof (Struct_remove_all k m q HS) as HS0.
  destruct (insert_async_cases _ _ _ _ _ _ _ _ _ _ _ H)
    as [(M & _ & _ & Hm & Hq)|[(M & m2 & q2 & ch2 & m3 & q3 & ch3 & _ & _ & Hml & Hel & Hm & Hq)
                              |(_ & m3 & q3 & ch3 & Hel & Hm & Hq)]].
  - left. split; assumption.
  - right. exists m3, q3. split; [|split; assumption].
    pose proof (mem_loop_Shrunk _ _ _ _ _ _ _ _ _ _ _ _ HS0 Hml) as Hsh.
    apply (Shrunk_trans _ _ m2 q2); [exact Hsh|].
    apply (entry_limit_Shrunk _ _ _ _ _ _ _ _ (Shrunk_Struct _ _ _ _ Hsh) Hel).
  - right. exists m3, q3. split; [|split; assumption].
    apply (entry_limit_Shrunk _ _ _ _ _ _ _ _ HS0 Hel).
Qed.

Lemma Shrunk_fresh : forall k m q m3 q3,
    Shrunk (sremove k m) (remove_all k q) m3 q3 -> ~ In k (keys m3).
Proof.
  intros k m q m3 q3 Hsh Hk. apply (Shrunk_incl _ _ _ _ k Hsh) in Hk.
  apply In_keys_sremove in Hk. tauto.
Qed.

Lemma insert_async_Struct : forall c now wm k v sz m q ch m' q',
    Struct m q -> insert_async c now wm k v sz m q ch = (m', q') -> Struct m' q'.
Proof.
  intros c now wm k v sz m q ch m' q' HS H.
  destruct (insert_async_Shrunk _ _ _ _ _ _ _ _ _ _ _ HS H) as [(Hm & Hq)|(m3 & q3 & Hsh & Hm & Hq)]; subst.
  - apply Struct_remove_all. exact HS.
  - apply Struct_upsert_fresh; [apply (Shrunk_Struct _ _ _ _ Hsh)|apply (Shrunk_fresh _ _ _ _ _ Hsh)].
Qed.

Lemma insert_async_keys : forall c now wm k v sz m q ch m' q' x,
    Struct m q -> insert_async c now wm k v sz m q ch = (m', q') ->
    In x (keys m') -> x = k \/ In x (keys m).
Proof.
  intros c now wm k v sz m q ch m' q' x HS H Hx.
  destruct (insert_async_Shrunk _ _ _ _ _ _ _ _ _ _ _ HS H) as [(Hm & Hq)|(m3 & q3 & Hsh & Hm & Hq)]; subst.
  - apply In_keys_sremove in Hx. right. apply Hx.
  - apply In_keys_upsert in Hx. destruct Hx as [Hx|Hx]; [left; exact Hx|right].
    apply (Shrunk_incl _ _ _ _ x Hsh) in Hx. apply In_keys_sremove in Hx. apply Hx.
Qed.

Lemma insert_async_bound : forall c now wm k v sz m q ch m' q' L,
    is_async c = true -> Struct m q -> limit c = Some L -> 1 <= L ->
    insert_async c now wm k v sz m q ch = (m', q') ->
    N.of_nat (length m) <= L -> N.of_nat (length m') <= L.
Proof.
  intros c now wm k v sz m q ch m' q' L Ha HS HL H1 H Hb.
  pose proof (Struct_remove_all k m q HS) as HS0.
  pose proof (length_sremove_le k m) as Hrm.
  destruct (insert_async_cases _ _ _ _ _ _ _ _ _ _ _ H)
    as [(M & _ & _ & Hm & Hq)|[(M & m2 & q2 & ch2 & m3 & q3 & ch3 & _ & _ & Hml & Hel & Hm & Hq)
                              |(_ & m3 & q3 & ch3 & Hel & Hm & Hq)]].
  - subst. lia.
  - pose proof (mem_loop_Shrunk _ _ _ _ _ _ _ _ _ _ _ _ HS0 Hml) as Hsh.
    pose proof (Shrunk_length _ _ _ _ Hsh) as Hlen.
    assert (Hb3 : N.of_nat (length m3) + 1 <= L).
    { apply (entry_limit_bound_async _ _ _ _ _ _ _ _ L Ha (Shrunk_Struct _ _ _ _ Hsh) HL H1 Hel). lia. }
    subst. pose proof (length_upsert_le k (new_entry c now v sz) m3). lia.
  - assert (Hb3 : N.of_nat (length m3) + 1 <= L).
    { apply (entry_limit_bound_async _ _ _ _ _ _ _ _ L Ha HS0 HL H1 Hel). lia. }
    subst. pose proof (length_upsert_le k (new_entry c now v sz) m3). lia.
Qed.

(* ------------------------------------------------------------------ *)
(** * insert (either flavour) *)

Lemma insert_eq : forall c now wm k v sz s ch,
    insert c now wm k v sz s ch =
    mkSt (fst (if is_async c then insert_async c now wm k v sz (st_store s) (st_queue s) ch
               else insert_sync c now wm k v sz (st_store s) (st_queue s) ch))
         (snd (if is_async c then insert_async c now wm k v sz (st_store s) (st_queue s) ch
               else insert_sync c now wm k v sz (st_store s) (st_queue s) ch))
         (st_hits s) (st_misses s).
Proof.
  intros. unfold insert.
  destruct (if is_async c then insert_async c now wm k v sz (st_store s) (st_queue s) ch
            else insert_sync c now wm k v sz (st_store s) (st_queue s) ch) as [m' q'].
  reflexivity.
Qed.

Lemma insert_stats : forall c now wm k v sz s ch,
    st_hits (insert c now wm k v sz s ch) = st_hits s /\
    st_misses (insert c now wm k v sz s ch) = st_misses s.
Proof. intros. rewrite insert_eq. split; reflexivity. Qed.

Lemma insert_Struct : forall c now wm k v sz s ch,
    Struct (st_store s) (st_queue s) ->
    Struct (st_store (insert c now wm k v sz s ch)) (st_queue (insert c now wm k v sz s ch)).
Proof.
  intros c now wm k v sz s ch HS. rewrite insert_eq. cbn [st_store st_queue].
  destruct (is_async c).
  - destruct (insert_async c now wm k v sz (st_store s) (st_queue s) ch) as [m' q'] eqn:E.
    cbn [fst snd]. apply (insert_async_Struct _ _ _ _ _ _ _ _ _ _ _ HS E).
  - destruct (insert_sync c now wm k v sz (st_store s) (st_queue s) ch) as [m' q'] eqn:E.
    cbn [fst snd]. apply (insert_sync_Struct _ _ _ _ _ _ _ _ _ _ _ HS E).
Qed.

Lemma insert_keys : forall c now wm k v sz s ch x,
    Struct (st_store s) (st_queue s) ->
    In x (keys (st_store (insert c now wm k v sz s ch))) -> x = k \/ In x (keys (st_store s)).
Proof.
  intros c now wm k v sz s ch x HS. rewrite insert_eq. cbn [st_store].
  destruct (is_async c).
  - destruct (insert_async c now wm k v sz (st_store s) (st_queue s) ch) as [m' q'] eqn:E.
    cbn [fst]. apply (insert_async_keys _ _ _ _ _ _ _ _ _ _ _ x HS E).
  - destruct (insert_sync c now wm k v sz (st_store s) (st_queue s) ch) as [m' q'] eqn:E.
    cbn [fst]. apply (insert_sync_keys _ _ _ _ _ _ _ _ _ _ _ x HS E).
Qed.

Lemma insert_bound : forall c now wm k v sz s ch L,
    Struct (st_store s) (st_queue s) -> limit c = Some L -> 1 <= L ->
    N.of_nat (length (st_store s)) <= L ->
    N.of_nat (length (st_store (insert c now wm k v sz s ch))) <= L.
Proof.
  intros c now wm k v sz s ch L HS HL H1 Hb. rewrite insert_eq. cbn [st_store].
  destruct (is_async c) eqn:Ha.
  - destruct (insert_async c now wm k v sz (st_store s) (st_queue s) ch) as [m' q'] eqn:E.
    cbn [fst]. apply (insert_async_bound _ _ _ _ _ _ _ _ _ _ _ L Ha HS HL H1 E Hb).
  - destruct (insert_sync c now wm k v sz (st_store s) (st_queue s) ch) as [m' q'] eqn:E.
    cbn [fst]. apply (insert_sync_bound _ _ _ _ _ _ _ _ _ _ _ L Ha HS HL E Hb).
Qed.

(* ------------------------------------------------------------------ *)
(** * get *)

Lemma get_Struct : forall c now k s,
    Struct (st_store s) (st_queue s) ->
    Struct (st_store (fst (get c now k s))) (st_queue (fst (get c now k s))).
Proof.
  intros c now k s HS. unfold get.
  destruct (lookup k (st_store s)) as [e|] eqn:El; cbn [fst st_store st_queue]; [|exact HS].
  assert (Hkq : In k (st_queue s)) by (apply HS; apply (lookup_Some_In k _ e); exact El).
  destruct (expired c now e); cbn [fst st_store st_queue].
  - destruct (is_async c); [apply Struct_remove_all|apply Struct_remove_first]; exact HS.
  - assert (HS1 : Struct (if counts_hits (pol c) then supdate k bump (st_store s) else st_store s) (st_queue s)).
    { destruct (counts_hits (pol c)); [|exact HS]. apply (Struct_same_keys (st_store s)); [exact HS|apply keys_supdate]. }
    destruct (tracks_recency (pol c)); [|exact HS1].
    apply (Struct_same_queue _ (st_queue s)); [exact HS1| |].
    + destruct (is_async c).
      * apply NoDup_push_back; [apply NoDup_remove_all; apply HS|]. rewrite In_remove_all. tauto.
      * apply NoDup_move_to_end. apply HS.
    + intro x. destruct (is_async c).
      * rewrite In_push_back, In_remove_all. destruct (N.eq_dec x k) as [E|E]; [subst; tauto|tauto].
      * apply In_move_to_end.
Qed.

Lemma get_length_le : forall c now k s,
    (length (st_store (fst (get c now k s))) <= length (st_store s))%nat.
Proof.
  intros c now k s. unfold get.
  destruct (lookup k (st_store s)) as [e|]; cbn [fst st_store]; [|lia].
  destruct (expired c now e); cbn [fst st_store].
  - apply length_sremove_le.
  - destruct (counts_hits (pol c)); [rewrite length_supdate|]; lia.
Qed.

Lemma get_keys_incl : forall c now k s x,
    In x (keys (st_store (fst (get c now k s)))) -> In x (keys (st_store s)).
Proof.
  intros c now k s x. unfold get.
  destruct (lookup k (st_store s)) as [e|]; cbn [fst st_store]; [|tauto].
  destruct (expired c now e); cbn [fst st_store].
  - rewrite In_keys_sremove. tauto.
  - destruct (counts_hits (pol c)); [rewrite keys_supdate|]; tauto.
Qed.

(* ------------------------------------------------------------------ *)
(** * inval_keys *)

Lemma inval_keys_spec : forall ks m q m' q',
    Struct m q ->
    inval_keys ks m q = (m', q') ->
    Shrunk m q m' q' /\
    (forall x, In x (keys m') <-> In x (keys m) /\ ~ In x ks) /\
    q' = filter (fun x => negb (inb x ks)) q.
Proof.
  induction ks as [|k ks IH]; intros m q m' q' HS H; cbn [inval_keys] in H.
  - inversion H; subst. split; [apply Shrunk_refl; exact HS|]. split.
    + intro x. cbn [In]. tauto.
    + symmetry. apply filter_all_forall. intros x _. reflexivity.
  - destruct (mem k m) eqn:Ek.
    + destruct (IH _ _ _ _ (Struct_remove_first k m q HS) H) as (Hsh & Hkeys & Hq).
      split; [apply (Shrunk_trans _ _ _ _ _ _ (Shrunk_remove k m q HS) Hsh)|]. split.
      * intro x. rewrite Hkeys, In_keys_sremove. cbn [In]. split.
        -- intros [[H1 H2] H3]. split; [exact H1|]. intros [H4|H4]; [apply H2; symmetry; exact H4|apply H3; exact H4].
        -- intros [H1 H2]. split; [split; [exact H1|]|].
           ++ intro E. apply H2. left. symmetry. exact E.
           ++ intro H3. apply H2. right. exact H3.
      * rewrite Hq. rewrite remove_first_remove_all by apply HS. rewrite filter_remove_all.
        apply filter_ext. intro x. cbn [inb]. destruct (N.eqb x k); reflexivity.
    + apply mem_false in Ek.
      destruct (IH _ _ _ _ HS H) as (Hsh & Hkeys & Hq).
      split; [exact Hsh|]. split.
      * intro x. rewrite Hkeys. cbn [In]. split.
        -- intros [H1 H2]. split; [exact H1|]. intros [H4|H4]; [subst; contradiction|contradiction].
        -- intros [H1 H2]. split; [exact H1|]. intro H3. apply H2. right. exact H3.
      * rewrite Hq. apply filter_ext_in. intros x Hx. cbn [inb].
        destruct (N.eqb_spec x k) as [E|E]; [|reflexivity].
        subst x. exfalso. apply Ek. apply HS. exact Hx.
Qed.

(* ------------------------------------------------------------------ *)
(** * InvA: initial state and preservation *)

Lemma invA_init : forall c, InvA c init.
Proof.
  intro c. apply InvA_intro; cbn [init st_store st_queue].
  - apply Struct_nil.
  - intros L _ H1. cbn [length]. lia.
Qed.

Lemma step_Struct : forall c now s o ch,
    Struct (st_store s) (st_queue s) ->
    Struct (st_store (fst (step c now s o ch))) (st_queue (fst (step c now s o ch))).
Proof.
  intros c now s o ch HS. destruct o as [k|k v sz|k v sz|k| |ks]; cbn [step].
  - destruct (get c now k s) as [s' r] eqn:E. cbn [fst].
    replace s' with (fst (get c now k s)) by (rewrite E; reflexivity).
    apply get_Struct. exact HS.
  - cbn [fst]. apply insert_Struct. exact HS.
  - cbn [fst]. apply insert_Struct. exact HS.
  - cbn [fst]. exact HS.
  - cbn [fst st_store st_queue]. apply Struct_nil.
  - destruct (inval_keys ks (st_store s) (st_queue s)) as [m' q'] eqn:E.
    cbn [fst st_store st_queue].
    apply (Shrunk_Struct (st_store s) (st_queue s)). apply (inval_keys_spec ks _ _ _ _ HS E).
Qed.

Lemma invA_step : forall c now s o ch,
    wf_cfg c = true -> InvA c s -> InvA c (fst (step c now s o ch)).
Proof.
  intros c now s o ch Hwf HI.
  pose proof (InvA_Struct c s HI) as HS.
  apply InvA_intro; [apply step_Struct; exact HS|].
  intros L HL H1. pose proof (InvA_limit c s L HI HL H1) as Hb.
  destruct o as [k|k v sz|k v sz|k| |ks]; cbn [step].
  - destruct (get c now k s) as [s' r] eqn:E. cbn [fst].
    replace s' with (fst (get c now k s)) by (rewrite E; reflexivity).
    pose proof (get_length_le c now k s). lia.
  - cbn [fst]. apply insert_bound; assumption.
  - cbn [fst]. apply insert_bound; assumption.
  - cbn [fst]. exact Hb.
  - cbn [fst st_store length]. lia.
  - destruct (inval_keys ks (st_store s) (st_queue s)) as [m' q'] eqn:E.
    cbn [fst st_store].
    pose proof (Shrunk_length _ _ _ _ (proj1 (inval_keys_spec ks _ _ _ _ HS E))). lia.
Qed.

Print Assumptions invA_init.
Print Assumptions invA_step.
