(* Extract.v — extraction of the executable models and trace predicates to OCaml.
   Only ExtrOcamlBasic's directives are used (bool, option, list, prod, unit, sumbool);
   N, positive, nat stay the extracted inductives. *)
From Coq Require Import Extraction ExtrOcamlBasic.
From CL Require Import Base SeqModel Spec Wrapper AsyncCall.
Extraction Blacklist List String.

Extraction "../build/extract/model.ml"
  init step wf_state wf_cfg
  c01_step c04_step c05_step c06_step c07_step c08_step c13_step c15_step
  ghost_step check_trace first_fail removed entry_eqb
  call enc dec world_call invalidate_by invalidate_cache invalidate_with invalidate_all_with
  stats_get stats_reset clear_registered cond_registered world_lookup world_finish.
