(* PfC07.v — C07: under FIFO every key evicted by a store was stored before every
   surviving key (other than the one being stored); under LRU it was last used before
   them; the key being stored leaves the cache again only when it alone is too large. *)
From CL Require Export PfInvO PfVictim Lift.
From Coq Require Import Lia.
Open Scope N_scope.

Arguments N.add : simpl never.
Arguments N.sub : simpl never.
Arguments N.mul : simpl never.
Arguments N.div : simpl never.
Arguments N.eqb : simpl never.
Arguments N.ltb : simpl never.
Arguments N.leb : simpl never.
Arguments N.pow : simpl never.
Arguments N.min : simpl never.

Definition qpol (c : cfg) : Prop := pol c = FIFO \/ pol c = LRU.

(* ------------------------------------------------------------------ *)
(** * FIFO / LRU evictions pop a prefix of the queue *)

Lemma evict_one_head_Struct : forall c now u m q ch m' q' ch',
    qpol c -> Struct m q ->
    evict_one c now u m q ch = (m', q', true, ch') ->
    exists v, q = v :: q' /\ m' = sremove v m /\ Struct m' q'.
Proof.
  intros c now u m q ch m' q' ch' Hp HS H.
  destruct (evict_one_queue_head _ _ _ _ _ _ _ _ _ Hp (fun k Hk => proj1 (proj2 (proj2 HS) k) Hk) H)
    as (v & Hq & Hm & _).
  exists v. split; [exact Hq|]. split; [exact Hm|].
  pose proof (Struct_remove_first v m q HS) as HS'.
  rewrite Hq in HS'. cbn [remove_first] in HS'. rewrite N.eqb_refl in HS'.
  rewrite Hm. exact HS'.
Qed.

Lemma mem_loop_prefix : forall fuel c now u extra M m q ch m' q' ch',
    qpol c -> Struct m q ->
    mem_loop fuel c now u extra M m q ch = (m', q', ch') ->
    exists pre, q = pre ++ q'.
Proof.
  induction fuel as [|fuel IH]; intros c now u extra M m q ch m' q' ch' Hp HS H; cbn [mem_loop] in H.
  - inversion H; subst. exists []. reflexivity.
  - destruct (total_size m + extra <=? M).
    + inversion H; subst. exists []. reflexivity.
    + destruct (evict_one c now u m q ch) as [[[m1 q1] ev] ch1] eqn:E. destruct ev.
      * destruct (evict_one_head_Struct _ _ _ _ _ _ _ _ _ Hp HS E) as (v & Hq & Hm & HS1).
        destruct (IH _ _ _ _ _ _ _ _ _ _ _ Hp HS1 H) as [pre Hpre].
        exists (v :: pre). rewrite Hq, Hpre. reflexivity.
      * destruct (evict_one_false _ _ _ _ _ _ _ _ _ (proj1 HS) (proj2 (proj2 HS)) E) as (Hq & Hm & Hq1).
        inversion H; subst. exists []. reflexivity.
Qed.

Lemma entry_limit_prefix : forall c now m q ch m' q' ch',
    qpol c -> Struct m q ->
    entry_limit c now m q ch = (m', q', ch') ->
    exists pre, q = pre ++ q'.
Proof.
  intros c now m q ch m' q' ch' Hp HS H. unfold entry_limit in H.
  destruct (limit c) as [L|]; [|inversion H; subst; exists []; reflexivity].
  destruct (over_limit c L m q); [|inversion H; subst; exists []; reflexivity].
  destruct (evict_one c now false m q ch) as [[[m1 q1] ev] ch1] eqn:E.
  inversion H; subst. destruct ev.
  - destruct (evict_one_head_Struct _ _ _ _ _ _ _ _ _ Hp HS E) as (v & Hq & _).
    exists [v]. exact Hq.
  - destruct (evict_one_false _ _ _ _ _ _ _ _ _ (proj1 HS) (proj2 (proj2 HS)) E) as (Hq & _ & Hq1).
    subst. exists []. reflexivity.
Qed.

(* ------------------------------------------------------------------ *)
(** * the key being stored is last in the sync queue and is never popped *)

Lemma total_size_single : forall m k e,
    Struct m [k] -> lookup k m = Some e -> total_size m = e_size e.
Proof.
  intros m k e HS Hl. pose proof (Struct_length _ _ HS) as Hlen.
  destruct m as [|[k' e'] [|p m]]; cbn [length] in Hlen; try discriminate Hlen.
  assert (Hk : In k' [k]) by (apply HS; left; reflexivity).
  destruct Hk as [Hk|[]]. subst k'. cbn [lookup] in Hl. rewrite N.eqb_refl in Hl.
  inversion Hl; subst. cbn [total_size fold_right snd]. lia.
Qed.

Lemma mem_loop_keeps_last : forall fuel c now u M m q ch m' q' ch' k e a,
    qpol c -> Struct m q -> q = a ++ [k] -> lookup k m = Some e -> e_size e <= M ->
    mem_loop fuel c now u 0 M m q ch = (m', q', ch') ->
    exists a', q' = a' ++ [k].
Proof.
  induction fuel as [|fuel IH]; intros c now u M m q ch m' q' ch' k e a Hp HS Hq Hl Hsz H;
    cbn [mem_loop] in H.
  - inversion H; subst. exists a. reflexivity.
  - destruct (N.leb_spec (total_size m + 0) M) as [Hle|Hgt].
    + inversion H; subst. exists a. reflexivity.
    + destruct (evict_one c now u m q ch) as [[[m1 q1] ev] ch1] eqn:E. destruct ev.
      * destruct (evict_one_head_Struct _ _ _ _ _ _ _ _ _ Hp HS E) as (v & Hq1 & Hm & HS1).
        destruct a as [|v' a'].
        -- exfalso. cbn [app] in Hq. subst q.
           rewrite (total_size_single m k e HS Hl) in Hgt. lia.
        -- cbn [app] in Hq. rewrite Hq in Hq1. inversion Hq1; subst v' q1.
           assert (Hne : k <> v).
           { intro Ek. subst v. destruct HS as (Hnd & _). rewrite Hq in Hnd.
             inversion Hnd as [|x l Hx _]; subst. apply Hx. apply in_app_iff. right. left. reflexivity. }
           apply (IH c now u M m1 (a' ++ [k]) ch1 m' q' ch' k e a' Hp HS1 eq_refl); [|exact Hsz|exact H].
           rewrite Hm. rewrite lookup_sremove_neq by exact Hne. exact Hl.
      * destruct (evict_one_false _ _ _ _ _ _ _ _ _ (proj1 HS) (proj2 (proj2 HS)) E) as (Hq0 & _).
        exfalso. rewrite Hq0 in Hq. destruct a; discriminate Hq.
Qed.

Lemma entry_limit_keeps_last : forall c now m q ch m' q' ch' k a,
    qpol c -> is_async c = false -> wf_cfg c = true -> Struct m q -> q = a ++ [k] ->
    entry_limit c now m q ch = (m', q', ch') ->
    exists a', q' = a' ++ [k].
Proof.
  intros c now m q ch m' q' ch' k a Hp Ha Hwf HS Hq H. unfold entry_limit in H.
  destruct (limit c) as [L|] eqn:EL; [|inversion H; subst; exists a; reflexivity].
  destruct (over_limit c L m q) eqn:Eo; [|inversion H; subst; exists a; reflexivity].
  assert (H1 : 1 <= L).
  { unfold wf_cfg in Hwf. rewrite EL in Hwf. apply andb_true_iff in Hwf.
    apply N.leb_le. apply Hwf. }
  unfold over_limit in Eo. rewrite Ha in Eo. apply N.ltb_lt in Eo.
  destruct (evict_one c now false m q ch) as [[[m1 q1] ev] ch1] eqn:E.
  inversion H; subst m1 q1 ch1. destruct ev.
  - destruct (evict_one_head_Struct _ _ _ _ _ _ _ _ _ Hp HS E) as (v & Hq1 & _).
    destruct a as [|v' a'].
    + exfalso. subst q. cbn [app length] in Eo. lia.
    + cbn [app] in Hq. rewrite Hq in Hq1. inversion Hq1; subst. exists a'. reflexivity.
  - destruct (evict_one_false _ _ _ _ _ _ _ _ _ (proj1 HS) (proj2 (proj2 HS)) E) as (Hq0 & _).
    exfalso. rewrite Hq0 in Hq. destruct a; discriminate Hq.
Qed.

(* ------------------------------------------------------------------ *)
(** * what a store does to the queue under FIFO / LRU *)

Definition oversize (c : cfg) (wm : bool) (sz : N) : bool :=
  match (if wm then maxmem c else None) with Some M => M <? sz | None => false end.

(* the survivors other than k are a suffix of the old queue without k *)
Definition fifo_outcome (c : cfg) (wm : bool) (k : key) (sz : N) (q : list key) (m' : store) : Prop :=
  (exists pre suf, remove_all k q = pre ++ suf /\
                   forall x, x <> k -> (In x (keys m') <-> In x suf)) /\
  (oversize c wm sz = false -> In k (keys m')).

Lemma insert_sync_fifo : forall c now wm k v sz m q ch m' q',
    qpol c -> is_async c = false -> wf_cfg c = true -> Struct m q ->
    insert_sync c now wm k v sz m q ch = (m', q') ->
    fifo_outcome c wm k sz q m'.
Proof.
  intros c now wm k v sz m q ch m' q' Hp Ha Hwf HS H.
  pose proof (Struct_upsert_push k (new_entry c now v sz) m q HS) as HS1.
  pose proof (Struct_remove_all k m q HS) as HS0.
  rewrite (remove_first_remove_all k q (proj1 HS)) in *.
  set (m1 := upsert k (new_entry c now v sz) m) in *.
  set (q0 := remove_all k q) in *.
  (* common tail: after a (possibly empty) memory phase, the entry limit *)
  assert (Htail : forall m2 q2 ch2 ch3 pre1 a2,
             Struct m2 q2 -> push_back k q0 = pre1 ++ q2 -> q2 = a2 ++ [k] ->
             entry_limit c now m2 q2 ch2 = (m', q', ch3) ->
             (exists pre suf, q0 = pre ++ suf /\ forall x, x <> k -> (In x (keys m') <-> In x suf)) /\
             In k (keys m')).
  { intros m2 q2 ch2 ch3 pre1 a2 HS2 Hpre1 Hq2 Hel.
    destruct (entry_limit_prefix _ _ _ _ _ _ _ _ Hp HS2 Hel) as [pre2 Hpre2].
    destruct (entry_limit_keeps_last _ _ _ _ _ _ _ _ k a2 Hp Ha Hwf HS2 Hq2 Hel) as [a' Ha'].
    pose proof (entry_limit_Shrunk _ _ _ _ _ _ _ _ HS2 Hel) as Hsh.
    pose proof (Shrunk_Struct _ _ _ _ Hsh) as HS'.
    assert (Hq0 : q0 = (pre1 ++ pre2) ++ a').
    { unfold push_back in Hpre1. rewrite Hpre2, Ha' in Hpre1.
      rewrite !app_assoc in Hpre1. apply app_inj_tail in Hpre1. apply Hpre1. }
    split.
    - exists (pre1 ++ pre2), a'. split; [exact Hq0|].
      intros x Hx. rewrite <- (proj2 (proj2 HS') x). rewrite Ha', in_app_iff. cbn [In].
      split; [intros [Hi|[Hi|[]]]; [exact Hi|congruence]|intro Hi; left; exact Hi].
    - apply HS'. rewrite Ha'. apply in_app_iff. right. left. reflexivity. }
  unfold fifo_outcome, oversize.
  destruct (insert_sync_cases _ _ _ _ _ _ _ _ _ _ _ H)
    as [(M & HM & Hov & Hm & Hq)|[(M & m2 & q2 & ch2 & ch3 & HM & Hov & Hml & Hel)|(HM & ch3 & Hel)]];
    rewrite (remove_first_remove_all k q (proj1 HS)) in *; fold m1 in Hm || fold m1 in Hml || fold m1 in Hel;
    fold q0 in Hq || fold q0 in Hml || fold q0 in Hel; rewrite HM.
  - (* too large: only the old entry of k goes *)
    split; [|rewrite Hov; discriminate].
    exists [], q0. split; [reflexivity|]. intros x Hx.
    subst m'. unfold m1. rewrite sremove_upsert. symmetry. apply HS0.
  - pose proof (mem_loop_Shrunk _ _ _ _ _ _ _ _ _ _ _ _ HS1 Hml) as Hsh.
    destruct (mem_loop_prefix _ _ _ _ _ _ _ _ _ _ _ _ Hp HS1 Hml) as [pre1 Hpre1].
    destruct (mem_loop_keeps_last _ _ _ _ _ _ _ _ _ _ _ k (new_entry c now v sz) q0 Hp HS1 eq_refl
                (lookup_upsert_eq _ _ _) (proj1 (N.ltb_ge _ _) Hov) Hml) as [a2 Ha2].
    destruct (Htail m2 q2 ch2 ch3 pre1 a2 (Shrunk_Struct _ _ _ _ Hsh) Hpre1 Ha2 Hel) as [HA HB].
    split; [exact HA|intros _; exact HB].
  - destruct (Htail m1 (push_back k q0) ch ch3 [] q0 HS1 eq_refl eq_refl Hel) as [HA HB].
    split; [exact HA|intros _; exact HB].
Qed.

Lemma insert_async_fifo : forall c now wm k v sz m q ch m' q',
    qpol c -> Struct m q ->
    insert_async c now wm k v sz m q ch = (m', q') ->
    fifo_outcome c wm k sz q m'.
Proof.
  intros c now wm k v sz m q ch m' q' Hp HS H.
  pose proof (Struct_remove_all k m q HS) as HS0.
  assert (Htail : forall m2 q2 ch2 m3 q3 ch3 pre1,
             Struct m2 q2 -> remove_all k q = pre1 ++ q2 ->
             entry_limit c now m2 q2 ch2 = (m3, q3, ch3) ->
             m' = upsert k (new_entry c now v sz) m3 ->
             (exists pre suf, remove_all k q = pre ++ suf /\
                              forall x, x <> k -> (In x (keys m') <-> In x suf)) /\
             In k (keys m')).
  { intros m2 q2 ch2 m3 q3 ch3 pre1 HS2 Hpre1 Hel Hm'.
    destruct (entry_limit_prefix _ _ _ _ _ _ _ _ Hp HS2 Hel) as [pre2 Hpre2].
    pose proof (Shrunk_Struct _ _ _ _ (entry_limit_Shrunk _ _ _ _ _ _ _ _ HS2 Hel)) as HS3.
    split.
    - exists (pre1 ++ pre2), q3. split; [rewrite Hpre1, Hpre2, app_assoc; reflexivity|].
      intros x Hx. subst m'. rewrite In_keys_upsert. rewrite (proj2 (proj2 HS3) x). tauto.
    - subst m'. apply In_keys_upsert. left. reflexivity. }
  unfold fifo_outcome, oversize.
  destruct (insert_async_cases _ _ _ _ _ _ _ _ _ _ _ H)
    as [(M & HM & Hov & Hm & Hq)|[(M & m2 & q2 & ch2 & m3 & q3 & ch3 & HM & Hov & Hml & Hel & Hm & Hq)
                              |(HM & m3 & q3 & ch3 & Hel & Hm & Hq)]]; rewrite HM.
  - split; [|rewrite Hov; discriminate].
    exists [], (remove_all k q). split; [reflexivity|]. intros x Hx. subst m'. symmetry. apply HS0.
  - pose proof (mem_loop_Shrunk _ _ _ _ _ _ _ _ _ _ _ _ HS0 Hml) as Hsh.
    destruct (mem_loop_prefix _ _ _ _ _ _ _ _ _ _ _ _ Hp HS0 Hml) as [pre1 Hpre1].
    destruct (Htail m2 q2 ch2 m3 q3 ch3 pre1 (Shrunk_Struct _ _ _ _ Hsh) Hpre1 Hel Hm) as [HA HB].
    split; [exact HA|intros _; exact HB].
  - destruct (Htail _ _ ch m3 q3 ch3 [] HS0 eq_refl Hel Hm) as [HA HB].
    split; [exact HA|intros _; exact HB].
Qed.

Lemma insert_fifo : forall c now wm k v sz s ch,
    qpol c -> wf_cfg c = true -> Struct (st_store s) (st_queue s) ->
    fifo_outcome c wm k sz (st_queue s) (st_store (insert c now wm k v sz s ch)).
Proof.
  intros c now wm k v sz s ch Hp Hwf HS. rewrite insert_eq. cbn [st_store].
  destruct (is_async c) eqn:Ha.
  - destruct (insert_async c now wm k v sz (st_store s) (st_queue s) ch) as [m' q'] eqn:E.
    cbn [fst]. apply (insert_async_fifo _ _ _ _ _ _ _ _ _ _ _ Hp HS E).
  - destruct (insert_sync c now wm k v sz (st_store s) (st_queue s) ch) as [m' q'] eqn:E.
    cbn [fst]. apply (insert_sync_fifo _ _ _ _ _ _ _ _ _ _ _ Hp Ha Hwf HS E).
Qed.

(* ------------------------------------------------------------------ *)
(** * the step obligation *)

Lemma c07_insert : forall c now idx (wm : bool) k v sz s ch g o r,
    qpol c -> wf_cfg c = true -> InvA c s -> InvG c idx s g -> InvO c s g ->
    store_key o = Some k ->
    let ob := mkObs s now o r (insert c now wm k v sz s ch) in
    older_than_survivors (tracks_recency (pol c)) g ob = true /\
    (oversize c wm sz = false -> inb k (removed ob) = false).
Proof.
  intros c now idx wm k v sz s ch g o r Hp Hwf HA HG HO Hsk ob.
  pose proof (InvA_Struct c s HA) as HS.
  destruct (insert_fifo c now wm k v sz s ch Hp Hwf HS) as [(pre & suf & Hq & Hsuf) Hk].
  set (u := tracks_recency (pol c)).
  assert (Hinc : increasing (gstamp u g) (pre ++ suf)).
  { rewrite <- Hq. apply increasing_remove_all. exact HO. }
  split.
  - unfold older_than_survivors, removed_others, removed. subst ob. cbn [ob_op ob_pre ob_post].
    rewrite Hsk. unfold skeys.
    apply forallb_forall. intros x Hx. apply forallb_forall. intros y Hy. apply N.ltb_lt.
    apply filter_In in Hx. destruct Hx as [Hx Hxk]. apply negb_true_iff, N.eqb_neq in Hxk.
    apply diff_In in Hx. destruct Hx as [Hxc Hxn].
    apply filter_In in Hy. destruct Hy as [Hy Hyk]. apply negb_true_iff, N.eqb_neq in Hyk.
    assert (Hxm : In x (keys (st_store s))).
    { destruct (inb k (keys (st_store s))); [exact Hxc|].
      destruct Hxc as [E|Hxc]; [congruence|exact Hxc]. }
    assert (Hxq : In x (pre ++ suf)).
    { rewrite <- Hq. apply In_remove_all. split; [apply HS; exact Hxm|exact Hxk]. }
    apply in_app_iff in Hxq. destruct Hxq as [Hxp|Hxs].
    + apply (increasing_app_lt _ pre suf x y Hinc Hxp). apply Hsuf; assumption.
    + exfalso. apply Hxn. apply Hsuf; assumption.
  - intro Hov. apply inb_false. unfold removed. subst ob. cbn [ob_op ob_pre ob_post].
    rewrite diff_In. intros [_ Hn]. apply Hn. apply Hk. exact Hov.
Qed.

Lemma c07_one : forall c now s o ch g idx,
    wf_cfg c = true -> InvA c s -> InvG c idx s g -> InvO c s g ->
    c07_step c g idx (mkObs s now o (snd (step c now s o ch)) (fst (step c now s o ch))) = true.
Proof.
  intros c now s o ch g idx Hwf HA HG HO. unfold c07_step. cbn [ob_op].
  assert (Hmain : forall (wm : bool) k v sz o' r,
             store_key o' = Some k ->
             (match o', maxmem c with InsMem _ _ sz', Some M => M <? sz' | _, _ => false end)
             = oversize c wm sz ->
             let ob := mkObs s now o' r (insert c now wm k v sz s ch) in
             match pol c with
             | FIFO => older_than_survivors false g ob
             | LRU => older_than_survivors true g ob
             | _ => true end
             && match pol c with
                | FIFO | LRU =>
                    if inb k (removed ob)
                    then match o', maxmem c with InsMem _ _ sz', Some M => M <? sz' | _, _ => false end
                    else true
                | _ => true end = true).
  { intros wm k v sz o' r Hsk Hov ob.
    destruct (pol c) eqn:Ep; try reflexivity.
    - destruct (c07_insert c now idx wm k v sz s ch g o' r (or_introl Ep) Hwf HA HG HO Hsk) as [H1 H2].
      rewrite Ep in H1. cbn [tracks_recency] in H1. fold ob in H1, H2. rewrite H1. cbn [andb].
      rewrite Hov. destruct (oversize c wm sz); [destruct (inb k (removed ob)); reflexivity|].
      rewrite H2 by reflexivity. reflexivity.
    - destruct (c07_insert c now idx wm k v sz s ch g o' r (or_intror Ep) Hwf HA HG HO Hsk) as [H1 H2].
      rewrite Ep in H1. cbn [tracks_recency] in H1. fold ob in H1, H2. rewrite H1. cbn [andb].
      rewrite Hov. destruct (oversize c wm sz); [destruct (inb k (removed ob)); reflexivity|].
      rewrite H2 by reflexivity. reflexivity. }
  destruct o as [k|k v sz|k v sz|k| |ks]; cbn [store_key]; try reflexivity.
  - cbn [step fst snd]. apply (Hmain false k v sz (Ins k v sz) OUnit eq_refl). reflexivity.
  - cbn [step fst snd]. apply (Hmain true k v sz (InsMem k v sz) OUnit eq_refl).
    unfold oversize. destruct (maxmem c); reflexivity.
Qed.

Theorem c07_holds : forall c h,
    wf_cfg c = true -> check_trace c07_step c (trace c 0 init h) = true.
Proof.
  intros c h Hwf.
  apply (lift c c07_step (fun idx s g => InvA c s /\ InvG c idx s g /\ InvO c s g)).
  - intros now idx s g o ch (HA & HG & HO). cbv zeta. split.
    + apply c07_one; assumption.
    + split; [apply invA_step; assumption|].
      split; [apply invG_step; assumption|apply invO_step; assumption].
  - split; [apply invA_init|]. split; [apply invG_init|apply invO_init].
Qed.

Print Assumptions c07_holds.
