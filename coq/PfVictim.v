(* PfVictim.v — which key the score-based policies (LFU / ARC / TLRU) pick:
   find_victim returns the first queue position whose stored entry has the least score;
   find_victim_ch (what evict_one uses) returns some stored queue key with the least score. *)
From CL Require Export PfInvA.
From Coq Require Import Lia.
Open Scope N_scope.

Arguments N.add : simpl never.
Arguments N.sub : simpl never.
Arguments N.mul : simpl never.
Arguments N.div : simpl never.
Arguments N.eqb : simpl never.
Arguments N.ltb : simpl never.
Arguments N.leb : simpl never.
Arguments N.pow : simpl never.

(* what [first_min sc m q i best] returns, in terms of queue positions *)
Definition fm_post (sc : nat -> entry -> N) (m : store) (q : list key) (i : nat)
           (best r : option (key * N)) : Prop :=
  match r with
  | None => best = None /\ forall k, In k q -> lookup k m = None
  | Some (v, s) =>
      (forall bk bs, best = Some (bk, bs) -> s <= bs) /\
      (forall j k' e', nth_key j q = Some k' -> lookup k' m = Some e' -> s <= sc (i + j)%nat e') /\
      (best = Some (v, s) \/
       exists j e, nth_key j q = Some v /\ lookup v m = Some e /\ s = sc (i + j)%nat e /\
                   (forall bk bs, best = Some (bk, bs) -> s < bs) /\
                   (forall j' k' e', (j' < j)%nat -> nth_key j' q = Some k' ->
                                     lookup k' m = Some e' -> s < sc (i + j')%nat e'))
  end.

Lemma fm_post_skip : forall sc m a q i best r,
    lookup a m = None ->
    fm_post sc m q (S i) best r -> fm_post sc m (a :: q) i best r.
Proof.
  intros sc m a q i best r Ha H. destruct r as [[v s]|]; cbn [fm_post] in *.
  - destruct H as (HA & HB & HC). split; [exact HA|]. split.
    + intros j k' e' Hn Hl. destruct j as [|j]; cbn [nth_key] in Hn.
      * inversion Hn; subst. congruence.
      * replace (i + S j)%nat with (S i + j)%nat by lia. apply (HB j k' e' Hn Hl).
    + destruct HC as [HC|(j & e & Hn & Hl & Hs & Hb & Hlt)]; [left; exact HC|right].
      exists (S j), e. cbn [nth_key]. split; [exact Hn|]. split; [exact Hl|].
      split; [replace (i + S j)%nat with (S i + j)%nat by lia; exact Hs|]. split; [exact Hb|].
      intros j' k' e' Hj Hn' Hl'. destruct j' as [|j']; cbn [nth_key] in Hn'.
      * inversion Hn'; subst. congruence.
      * replace (i + S j')%nat with (S i + j')%nat by lia. apply (Hlt j' k' e'); [lia|exact Hn'|exact Hl'].
  - destruct H as (HA & HB). split; [exact HA|].
    intros k [Hk|Hk]; [subst; exact Ha|apply HB; exact Hk].
Qed.

Lemma fm_post_take : forall sc m a e q i best r,
    lookup a m = Some e ->
    (forall bk bs, best = Some (bk, bs) -> sc i e < bs) ->
    fm_post sc m q (S i) (Some (a, sc i e)) r -> fm_post sc m (a :: q) i best r.
Proof.
  intros sc m a e q i best r Ha Hbest H. destruct r as [[v s]|]; cbn [fm_post] in *.
  - destruct H as (HA & HB & HC).
    pose proof (HA a (sc i e) eq_refl) as Hs0.
    split; [intros bk bs E; pose proof (Hbest bk bs E); lia|]. split.
    + intros j k' e' Hn Hl. destruct j as [|j]; cbn [nth_key] in Hn.
      * inversion Hn; subst. rewrite Ha in Hl. inversion Hl; subst.
        replace (i + 0)%nat with i by lia. exact Hs0.
      * replace (i + S j)%nat with (S i + j)%nat by lia. apply (HB j k' e' Hn Hl).
    + right. destruct HC as [HC|(j & e0 & Hn & Hl & Hs & Hb & Hlt)].
      * inversion HC; subst. exists 0%nat, e. cbn [nth_key].
        split; [reflexivity|]. split; [exact Ha|].
        split; [replace (i + 0)%nat with i by lia; reflexivity|]. split; [exact Hbest|].
        intros j' k' e' Hj. lia.
      * pose proof (Hb a (sc i e) eq_refl) as Hlt0.
        exists (S j), e0. cbn [nth_key]. split; [exact Hn|]. split; [exact Hl|].
        split; [replace (i + S j)%nat with (S i + j)%nat by lia; exact Hs|].
        split; [intros bk bs E; pose proof (Hbest bk bs E); lia|].
        intros j' k' e' Hj Hn' Hl'. destruct j' as [|j']; cbn [nth_key] in Hn'.
        -- inversion Hn'; subst. rewrite Ha in Hl'. inversion Hl'; subst.
           replace (i + 0)%nat with i by lia. exact Hlt0.
        -- replace (i + S j')%nat with (S i + j')%nat by lia.
           apply (Hlt j' k' e'); [lia|exact Hn'|exact Hl'].
  - destruct H as (HA & _). discriminate HA.
Qed.

Lemma fm_post_keep : forall sc m a e q i bk bs r,
    lookup a m = Some e ->
    bs <= sc i e ->
    fm_post sc m q (S i) (Some (bk, bs)) r -> fm_post sc m (a :: q) i (Some (bk, bs)) r.
Proof.
  intros sc m a e q i bk bs r Ha Hge H. destruct r as [[v s]|]; cbn [fm_post] in *.
  - destruct H as (HA & HB & HC).
    pose proof (HA bk bs eq_refl) as Hs0.
    split; [exact HA|]. split.
    + intros j k' e' Hn Hl. destruct j as [|j]; cbn [nth_key] in Hn.
      * inversion Hn; subst. rewrite Ha in Hl. inversion Hl; subst.
        replace (i + 0)%nat with i by lia. lia.
      * replace (i + S j)%nat with (S i + j)%nat by lia. apply (HB j k' e' Hn Hl).
    + destruct HC as [HC|(j & e0 & Hn & Hl & Hs & Hb & Hlt)]; [left; exact HC|right].
      pose proof (Hb bk bs eq_refl) as Hlt0.
      exists (S j), e0. cbn [nth_key]. split; [exact Hn|]. split; [exact Hl|].
      split; [replace (i + S j)%nat with (S i + j)%nat by lia; exact Hs|]. split; [exact Hb|].
      intros j' k' e' Hj Hn' Hl'. destruct j' as [|j']; cbn [nth_key] in Hn'.
      * inversion Hn'; subst. rewrite Ha in Hl'. inversion Hl'; subst.
        replace (i + 0)%nat with i by lia. lia.
      * replace (i + S j')%nat with (S i + j')%nat by lia.
        apply (Hlt j' k' e'); [lia|exact Hn'|exact Hl'].
  - destruct H as (HA & _). discriminate HA.
Qed.

Lemma first_min_spec : forall sc m q i best,
    fm_post sc m q i best (first_min sc m q i best).
Proof.
  intros sc m q. induction q as [|a q IH]; intros i best; cbn [first_min].
  - destruct best as [[bk bs]|]; cbn [fm_post].
    + split; [intros bk' bs' E; inversion E; subst; lia|]. split; [|left; reflexivity].
      intros j k' e' Hn. destruct j; discriminate Hn.
    + split; [reflexivity|]. intros k [].
  - destruct (lookup a m) as [e|] eqn:Ha.
    + destruct best as [[bk bs]|].
      * destruct (N.ltb_spec (sc i e) bs) as [Hlt|Hge].
        -- apply (fm_post_take sc m a e q i _ _ Ha); [|apply IH].
           intros bk' bs' E. inversion E; subst. exact Hlt.
        -- apply (fm_post_keep sc m a e q i bk bs _ Ha Hge). apply IH.
      * apply (fm_post_take sc m a e q i _ _ Ha); [|apply IH]. intros bk bs E. discriminate E.
    + apply fm_post_skip; [exact Ha|apply IH].
Qed.

(* The victim is a stored key of the queue; its score is minimal among the stored queue
   keys and strictly smaller than the score of every stored key in front of it. *)
Theorem find_victim_min : forall c now m q v,
    find_victim c now m q = Some v ->
    exists j e,
      nth_key j q = Some v /\ lookup v m = Some e /\
      (forall j' k' e', nth_key j' q = Some k' -> lookup k' m = Some e' ->
                        score c now (length q) j e <= score c now (length q) j' e') /\
      (forall j' k' e', (j' < j)%nat -> nth_key j' q = Some k' -> lookup k' m = Some e' ->
                        score c now (length q) j e < score c now (length q) j' e').
Proof.
  intros c now m q v H. unfold find_victim in H.
  pose proof (first_min_spec (score c now (length q)) m q 0%nat None) as Hs.
  destruct (first_min (score c now (length q)) m q 0%nat None) as [[v' s]|];
    cbn [option_map fst] in H; [|discriminate].
  inversion H; subst v'. cbn [fm_post] in Hs.
  destruct Hs as (_ & HB & [HC|(j & e & Hn & Hl & Hsc & _ & Hlt)]); [discriminate|].
  cbn [Nat.add] in Hsc. exists j, e. split; [exact Hn|]. split; [exact Hl|]. split.
  - intros j' k' e' Hn' Hl'. rewrite <- Hsc. apply (HB j' k' e' Hn' Hl').
  - intros j' k' e' Hj Hn' Hl'. rewrite <- Hsc. apply (Hlt j' k' e' Hj Hn' Hl').
Qed.

(* ------------------------------------------------------------------ *)
(** * the victims evict_one may pick under the scored policies *)

(* [v] is an admissible victim: a stored queue key whose score (at some position it
   occupies) is least among the scores of the stored queue keys at their positions *)
Definition victim_ok (c : cfg) (now : N) (m : store) (q : list key) (v : key) : Prop :=
  exists j e,
    nth_key j q = Some v /\ lookup v m = Some e /\
    (forall j' k' e', nth_key j' q = Some k' -> lookup k' m = Some e' ->
                      score c now (length q) j e <= score c now (length q) j' e').

Lemma victim_ok_In : forall c now m q v, victim_ok c now m q v -> In v q /\ In v (keys m).
Proof.
  intros c now m q v (j & e & Hn & Hl & _).
  split; [apply (nth_key_In j); exact Hn|apply (lookup_Some_In v m e); exact Hl].
Qed.

Lemma find_victim_ok : forall c now m q v, find_victim c now m q = Some v -> victim_ok c now m q v.
Proof.
  intros c now m q v H. destruct (find_victim_min c now m q v H) as (j & e & Hn & Hl & Hmin & _).
  exists j, e. split; [exact Hn|]. split; [exact Hl|exact Hmin].
Qed.

(* under NoDup the (first) position is the position *)
Lemma score_at_complete : forall sc m q i j k e,
    NoDup q -> nth_key j q = Some k -> lookup k m = Some e ->
    score_at sc m q i k = Some (sc (i + j)%nat e).
Proof.
  intros sc m q. induction q as [|a q IH]; intros i j k e Hnd Hn Hl; [destruct j; discriminate Hn|].
  inversion Hnd as [|a' q' Ha Hq]; subst. cbn [score_at]. destruct j as [|j]; cbn [nth_key] in Hn.
  - inversion Hn; subst a. rewrite N.eqb_refl, Hl. cbn [option_map].
    replace (i + 0)%nat with i by lia. reflexivity.
  - destruct (N.eqb_spec k a) as [E|E].
    + subst a. exfalso. apply Ha. apply (nth_key_In j). exact Hn.
    + rewrite (IH (S i) j k e Hq Hn Hl). replace (S i + j)%nat with (i + S j)%nat by lia. reflexivity.
Qed.

Lemma score_at_iff : forall sc m q k s,
    NoDup q ->
    (score_at sc m q 0%nat k = Some s <->
     exists j e, nth_key j q = Some k /\ lookup k m = Some e /\ s = sc j e).
Proof.
  intros sc m q k s Hnd. split.
  - intro H. destruct (score_at_sound _ _ _ _ _ _ H) as (j & e & Hn & Hl & Hs).
    exists j, e. cbn [Nat.add] in Hs. repeat split; assumption.
  - intros (j & e & Hn & Hl & Hs). subst s.
    apply (score_at_complete sc m q 0%nat j k e Hnd Hn Hl).
Qed.

(* The victim named by find_victim_ch is a stored queue key whose score is minimal among
   the stored queue keys.  (It need not be the first such key.) *)
Theorem find_victim_ch_min : forall c now m q ch v ch',
    find_victim_ch c now m q ch = (Some v, ch') -> victim_ok c now m q v.
Proof.
  intros c now m q ch v ch' H. unfold find_victim_ch in H.
  pose proof (first_min_spec (score c now (length q)) m q 0%nat None) as Hs.
  destruct (first_min (score c now (length q)) m q 0%nat None) as [[v0 s0]|] eqn:E; [|discriminate H].
  assert (H0 : victim_ok c now m q v0).
  { apply find_victim_ok. unfold find_victim. rewrite E. reflexivity. }
  destruct ch as [|k ch0]; [inversion H; subst; exact H0|].
  destruct (score_at (score c now (length q)) m q 0%nat k) as [sk|] eqn:Ek;
    [|inversion H; subst; exact H0].
  destruct (N.eqb_spec sk s0) as [Es|Es]; inversion H; subst; [|exact H0].
  cbn [fm_post] in Hs. destruct Hs as (_ & HB & _).
  destruct (score_at_sound _ _ _ _ _ _ Ek) as (j & e & Hn & Hl & Hsc). cbn [Nat.add] in Hsc.
  exists j, e. split; [exact Hn|]. split; [exact Hl|].
  intros j' k' e' Hn' Hl'. rewrite <- Hsc. apply (HB j' k' e' Hn' Hl').
Qed.

(* every admissible victim can be picked: name it as the next choice *)
Lemma victim_ok_pickable : forall c now m q v ch,
    NoDup q -> victim_ok c now m q v -> find_victim_ch c now m q (v :: ch) = (Some v, ch).
Proof.
  intros c now m q v ch Hnd (j & e & Hn & Hl & Hmin). unfold find_victim_ch.
  pose proof (first_min_spec (score c now (length q)) m q 0%nat None) as Hs.
  destruct (first_min (score c now (length q)) m q 0%nat None) as [[v0 s0]|] eqn:E.
  - rewrite (score_at_complete _ m q 0%nat j v e Hnd Hn Hl). cbn [Nat.add].
    cbn [fm_post] in Hs. destruct Hs as (_ & HB & [HC|(j0 & e0 & Hn0 & Hl0 & Hs0 & _)]); [discriminate HC|].
    cbn [Nat.add] in Hs0.
    assert (Eq : score c now (length q) j e = s0).
    { pose proof (HB j v e Hn Hl) as H1. cbn [Nat.add] in H1.
      pose proof (Hmin j0 v0 e0 Hn0 Hl0) as H2. rewrite <- Hs0 in H2. lia. }
    apply N.eqb_eq in Eq. rewrite Eq. reflexivity.
  - exfalso. cbn [fm_post] in Hs. destruct Hs as (_ & HN).
    rewrite (HN v (nth_key_In j q v Hn)) in Hl. discriminate Hl.
Qed.

(* ------------------------------------------------------------------ *)
(** * evict_one, policy by policy *)

(* FIFO / LRU: the victim is the front of the queue *)
Lemma evict_one_queue_head : forall c now u m q ch m' q' ch',
    pol c = FIFO \/ pol c = LRU ->
    (forall k, In k q -> In k (keys m)) ->
    evict_one c now u m q ch = (m', q', true, ch') ->
    exists v, q = v :: q' /\ m' = sremove v m /\ ch' = ch.
Proof.
  intros c now u m q ch m' q' ch' Hp Hin H. unfold evict_one in H.
  assert (Hpop :
    (let '(m0, q0, ev0) := if u then pop_one_unchecked m q else pop_until_stored m q in
     (m0, q0, ev0, ch)) = (m', q', true, ch')).
  { destruct Hp as [Hp|Hp]; rewrite Hp in H; exact H. }
  clear H.
  destruct (if u then pop_one_unchecked m q else pop_until_stored m q) as [[m0 q0] ev0] eqn:Ep.
  inversion Hpop; subst.
  apply pop_spec in Ep; [|exact Hin].
  destruct Ep as [(Hb & _)|(_ & v & _ & Hq & Hm & _)]; [discriminate|].
  exists v. repeat split; assumption.
Qed.

(* LFU / ARC / TLRU: the victim is an admissible one (a minimiser of the score among the
   stored queue keys); nothing is evicted exactly when no queue key is stored *)
Lemma evict_one_score_victim : forall c now u m q ch m' q' ev ch',
    counts_hits (pol c) = true -> NoDup q ->
    evict_one c now u m q ch = (m', q', ev, ch') ->
    (exists v, victim_ok c now m q v /\ ev = true /\ m' = sremove v m /\ q' = remove_first v q) \/
    (find_victim c now m q = None /\ ev = false /\ m' = m /\ q' = q).
Proof.
  intros c now u m q ch m' q' ev ch' Hp Hnd H. unfold evict_one in H.
  assert (Hs :
    (let '(ov, ch0) := find_victim_ch c now m q ch in
     match ov with
     | Some v => (sremove v m, (if is_async c then remove_all v q else remove_first v q), true, ch0)
     | None => (m, q, false, ch0)
     end) = (m', q', ev, ch')).
  { destruct (pol c); cbn [counts_hits] in Hp; try discriminate Hp; exact H. }
  clear H. destruct (find_victim_ch c now m q ch) as [[v|] ch0] eqn:Ev; inversion Hs; subst.
  - left. exists v. split; [apply (find_victim_ch_min _ _ _ _ _ _ _ Ev)|].
    repeat split; try reflexivity.
    destruct (is_async c); [|reflexivity]. symmetry. apply remove_first_remove_all. exact Hnd.
  - right. split; [apply (find_victim_ch_None _ _ _ _ _ _ Ev)|]. repeat split; reflexivity.
Qed.

(* Random: the victim is the key at the position random_pos names *)
Lemma evict_one_random : forall c now u m q ch m' q' ch',
    pol c = Random -> NoDup q ->
    evict_one c now u m q ch = (m', q', true, ch') ->
    exists v, nth_key (fst (random_pos ch q)) q = Some v /\
              m' = sremove v m /\ q' = remove_first v q /\ ch' = snd (random_pos ch q).
Proof.
  intros c now u m q ch m' q' ch' Hp Hnd H. unfold evict_one in H. rewrite Hp in H.
  destruct q as [|a q0]; [discriminate H|].
  destruct (random_pos ch (a :: q0)) as [i ch0] eqn:Er. cbn [fst snd].
  destruct (nth_key i (a :: q0)) as [v|] eqn:Ev; [|discriminate H].
  inversion H; subst. exists v. split; [reflexivity|]. split; [reflexivity|].
  split; [|reflexivity]. apply remove_nth_remove_first; assumption.
Qed.

Print Assumptions find_victim_min.
Print Assumptions find_victim_ch_min.
