(* PfC13.v — C13: conditional invalidation removes exactly the stored keys the
   predicate accepts, from store and queue, and nothing else changes. *)
From CL Require Export PfInvA Lift.
From Coq Require Import Lia.
Open Scope N_scope.

Arguments N.add : simpl never.
Arguments N.sub : simpl never.
Arguments N.mul : simpl never.
Arguments N.div : simpl never.
Arguments N.eqb : simpl never.
Arguments N.ltb : simpl never.
Arguments N.leb : simpl never.
Arguments N.pow : simpl never.

Lemma c13_one : forall c now s o ch g idx,
    Struct (st_store s) (st_queue s) ->
    c13_step c g idx (mkObs s now o (snd (step c now s o ch)) (fst (step c now s o ch))) = true.
Proof.
  intros c now s o ch g idx HS. unfold c13_step. cbn [ob_pre ob_post ob_op].
  destruct o as [k|k v sz|k v sz|k| |ks]; try reflexivity.
  cbn [step]. destruct (inval_keys ks (st_store s) (st_queue s)) as [m' q'] eqn:E.
  cbn [fst st_store st_queue st_hits st_misses]. unfold skeys. cbn [st_store].
  destruct (inval_keys_spec ks _ _ _ _ HS E) as (Hsh & Hkeys & Hq).
  rewrite !N.eqb_refl, !andb_true_r. rewrite !andb_true_iff. split; [split|].
  - apply same_set_iff. intro x. rewrite diff_In. apply Hkeys.
  - apply forallb_forall. intros x Hx. apply opt_entry_eqb_eq.
    apply (Shrunk_lookup _ _ _ _ x Hsh Hx).
  - apply list_eqb_eq. exact Hq.
Qed.

Theorem c13_holds : forall c h,
    wf_cfg c = true -> check_trace c13_step c (trace c 0 init h) = true.
Proof.
  intros c h Hwf. apply (lift c c13_step (fun _ s _ => InvA c s)); [|apply invA_init].
  intros now idx s g o ch HI. cbv zeta. split.
  - apply c13_one. apply (InvA_Struct c s HI).
  - apply invA_step; assumption.
Qed.

Print Assumptions c13_holds.
