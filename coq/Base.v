(* Base.v — shared vocabulary of the cachelito models: keys, values, configuration,
   association-list stores and queue primitives.  Stdlib only.  No proofs here. *)
From Coq Require Export List NArith Bool Arith Lia.
Export ListNotations.
Open Scope N_scope.

Definition key := N.

Inductive policy := FIFO | LRU | LFU | ARC | Random | TLRU.
Inductive flavour := Global | ThreadLocal | Async.

Definition policy_eqb (a b : policy) : bool :=
  match a, b with
  | FIFO, FIFO | LRU, LRU | LFU, LFU | ARC, ARC | Random, Random | TLRU, TLRU => true
  | _, _ => false
  end.

Definition flavour_eqb (a b : flavour) : bool :=
  match a, b with
  | Global, Global | ThreadLocal, ThreadLocal | Async, Async => true
  | _, _ => false
  end.

(* frequency_weight is a positive rational n/d (0.3 = 3/10).  *)
Record cfg := mkCfg {
  fl     : flavour;
  pol    : policy;
  limit  : option N;
  ttl    : option N;          (* seconds *)
  maxmem : option N;          (* bytes *)
  fw     : option (positive * positive)
}.

(* What the engines store per key: value, estimated size of the value (what
   MemoryEstimator reports for it), birth time in virtual milliseconds, hit counter. *)
Record entry := mkE { e_val : N; e_size : N; e_born : N; e_freq : N }.

Definition store := list (key * entry).

Record state := mkSt {
  st_store  : store;
  st_queue  : list key;      (* front = head = oldest / least recent *)
  st_hits   : N;
  st_misses : N
}.

Definition init : state := mkSt [] [] 0 0.

(* ---------- association list ---------- *)
Fixpoint lookup (k : key) (m : store) : option entry :=
  match m with
  | [] => None
  | (k', e) :: m' => if N.eqb k k' then Some e else lookup k m'
  end.

Definition mem (k : key) (m : store) : bool :=
  match lookup k m with Some _ => true | None => false end.

Fixpoint sremove (k : key) (m : store) : store :=
  match m with
  | [] => []
  | (k', e) :: m' => if N.eqb k k' then sremove k m' else (k', e) :: sremove k m'
  end.

Definition upsert (k : key) (e : entry) (m : store) : store := (k, e) :: sremove k m.

Definition keys (m : store) : list key := map fst m.

Fixpoint supdate (k : key) (f : entry -> entry) (m : store) : store :=
  match m with
  | [] => []
  | (k', e) :: m' => if N.eqb k k' then (k', f e) :: m' else (k', e) :: supdate k f m'
  end.

Definition total_size (m : store) : N := fold_right (fun p acc => e_size (snd p) + acc) 0 m.

(* ---------- queue ---------- *)
Fixpoint qmem (k : key) (q : list key) : bool :=
  match q with [] => false | k' :: q' => if N.eqb k k' then true else qmem k q' end.

(* VecDeque: position + remove = first occurrence *)
Fixpoint remove_first (k : key) (q : list key) : list key :=
  match q with
  | [] => []
  | k' :: q' => if N.eqb k k' then q' else k' :: remove_first k q'
  end.

(* retain(|x| x != k) = every occurrence *)
Fixpoint remove_all (k : key) (q : list key) : list key :=
  match q with
  | [] => []
  | k' :: q' => if N.eqb k k' then remove_all k q' else k' :: remove_all k q'
  end.

Definition push_back (k : key) (q : list key) : list key := q ++ [k].

Definition pop_back (q : list key) : list key := removelast q.

(* utils::move_key_to_end: only if the key is in the queue *)
Definition move_to_end (k : key) (q : list key) : list key :=
  if qmem k q then push_back k (remove_first k q) else q.

Fixpoint nth_key (n : nat) (q : list key) : option key :=
  match q, n with
  | [], _ => None
  | k :: _, O => Some k
  | _ :: q', S n' => nth_key n' q'
  end.

Fixpoint remove_nth (n : nat) (q : list key) : list key :=
  match q, n with
  | [], _ => []
  | _ :: q', O => q'
  | k :: q', S n' => k :: remove_nth n' q'
  end.

Fixpoint index_of (k : key) (q : list key) : option nat :=
  match q with
  | [] => None
  | k' :: q' => if N.eqb k k' then Some O
                else match index_of k q' with Some i => Some (S i) | None => None end
  end.

Definition is_some {A} (o : option A) : bool := match o with Some _ => true | None => false end.
