(* PfC15.v — C15: every lookup counts as exactly one hit or one miss, nothing else
   touches the statistics. *)
From CL Require Export PfInvA Lift.
From Coq Require Import Lia.
Open Scope N_scope.

Arguments N.add : simpl never.
Arguments N.sub : simpl never.
Arguments N.mul : simpl never.
Arguments N.div : simpl never.
Arguments N.eqb : simpl never.
Arguments N.ltb : simpl never.
Arguments N.leb : simpl never.
Arguments N.pow : simpl never.

(* what one lookup does to the statistics *)
Lemma get_stats : forall c now k s s' r,
    get c now k s = (s', r) ->
    match r with
    | Some _ => st_hits s' = st_hits s + 1 /\ st_misses s' = st_misses s
    | None => st_hits s' = st_hits s /\ st_misses s' = st_misses s + 1
    end.
Proof.
  intros c now k s s' r H. unfold get in H.
  destruct (lookup k (st_store s)) as [e|].
  - destruct (expired c now e); inversion H; subst; cbn [st_hits st_misses]; split; reflexivity.
  - inversion H; subst; cbn [st_hits st_misses]; split; reflexivity.
Qed.

Lemma step_stats_other : forall c now s o ch,
    (forall k, o <> Get k) ->
    st_hits (fst (step c now s o ch)) = st_hits s /\
    st_misses (fst (step c now s o ch)) = st_misses s.
Proof.
  intros c now s o ch Hng. destruct o as [k|k v sz|k v sz|k| |ks]; cbn [step].
  - exfalso. apply (Hng k). reflexivity.
  - cbn [fst]. apply insert_stats.
  - cbn [fst]. apply insert_stats.
  - cbn [fst]. split; reflexivity.
  - cbn [fst st_hits st_misses]. split; reflexivity.
  - destruct (inval_keys ks (st_store s) (st_queue s)) as [m' q'].
    cbn [fst st_hits st_misses]. split; reflexivity.
Qed.

Lemma c15_one : forall c now s o ch g idx,
    c15_step c g idx (mkObs s now o (snd (step c now s o ch)) (fst (step c now s o ch))) = true.
Proof.
  intros c now s o ch g idx. unfold c15_step. cbn [ob_pre ob_post ob_op ob_out].
  destruct o as [k|k v sz|k v sz|k| |ks].
  - cbn [step]. destruct (get c now k s) as [s' r] eqn:E. cbn [fst snd].
    apply get_stats in E. destruct r as [x|]; destruct E as [E1 E2]; rewrite E1, E2, !N.eqb_refl; reflexivity.
  - destruct (step_stats_other c now s (Ins k v sz) ch) as [E1 E2]; [discriminate|].
    rewrite E1, E2, !N.eqb_refl. destruct (snd (step c now s (Ins k v sz) ch)); reflexivity.
  - destruct (step_stats_other c now s (InsMem k v sz) ch) as [E1 E2]; [discriminate|].
    rewrite E1, E2, !N.eqb_refl. destruct (snd (step c now s (InsMem k v sz) ch)); reflexivity.
  - destruct (step_stats_other c now s (InsErr k) ch) as [E1 E2]; [discriminate|].
    rewrite E1, E2, !N.eqb_refl. destruct (snd (step c now s (InsErr k) ch)); reflexivity.
  - destruct (step_stats_other c now s Clear ch) as [E1 E2]; [discriminate|].
    rewrite E1, E2, !N.eqb_refl. destruct (snd (step c now s Clear ch)); reflexivity.
  - destruct (step_stats_other c now s (InvalWith ks) ch) as [E1 E2]; [discriminate|].
    rewrite E1, E2, !N.eqb_refl. destruct (snd (step c now s (InvalWith ks) ch)); reflexivity.
Qed.

Theorem c15_holds : forall c h, check_trace c15_step c (trace c 0 init h) = true.
Proof.
  intros c h. apply (lift c c15_step (fun _ _ _ => True)); [|exact I].
  intros now idx s g o ch _. cbv zeta. split; [apply c15_one|exact I].
Qed.

(* the counters add up to the number of lookups *)
Lemma step_count : forall c now s o ch,
    st_hits (fst (step c now s o ch)) + st_misses (fst (step c now s o ch)) =
    st_hits s + st_misses s + (match o with Get _ => 1 | _ => 0 end).
Proof.
  intros c now s o ch. destruct o as [k|k v sz|k v sz|k| |ks].
  - cbn [step]. destruct (get c now k s) as [s' r] eqn:E. cbn [fst].
    apply get_stats in E. destruct r as [x|]; destruct E as [E1 E2]; rewrite E1, E2; lia.
  - destruct (step_stats_other c now s (Ins k v sz) ch) as [E1 E2]; [discriminate|]. rewrite E1, E2. lia.
  - destruct (step_stats_other c now s (InsMem k v sz) ch) as [E1 E2]; [discriminate|]. rewrite E1, E2. lia.
  - destruct (step_stats_other c now s (InsErr k) ch) as [E1 E2]; [discriminate|]. rewrite E1, E2. lia.
  - destruct (step_stats_other c now s Clear ch) as [E1 E2]; [discriminate|]. rewrite E1, E2. lia.
  - destruct (step_stats_other c now s (InvalWith ks) ch) as [E1 E2]; [discriminate|]. rewrite E1, E2. lia.
Qed.

Lemma run_total : forall c h now0 s0 s now,
    run c now0 s0 h = (s, now) ->
    st_hits s + st_misses s =
    st_hits s0 + st_misses s0 +
    N.of_nat (length (filter (fun e => match ev_op e with Get _ => true | _ => false end) h)).
Proof.
  intros c h. induction h as [|e h IH]; intros now0 s0 s now H; cbn [run] in H.
  - inversion H; subst. cbn [filter length]. lia.
  - apply IH in H. rewrite H, step_count. cbn [filter].
    destruct (ev_op e); cbn [length]; lia.
Qed.

Theorem c15_total : forall c h s now,
    run c 0 init h = (s, now) ->
    st_hits s + st_misses s =
    N.of_nat (length (filter (fun e => match ev_op e with Get _ => true | _ => false end) h)).
Proof.
  intros c h s now H. apply run_total in H. rewrite H. cbn [init st_hits st_misses]. lia.
Qed.

Print Assumptions c15_holds.
Print Assumptions c15_total.
