(* PfC05.v — C05: with max_memory = M, after every insert_with_memory the estimated
   total size of the store is at most M; a value that alone exceeds M is not stored and
   displaces nothing else; otherwise entries are evicted only until the new value fits
   (the last victim was needed), apart from the one entry the entry limit may claim. *)
From CL Require Export PfInvA.
From Coq Require Import Lia.
Open Scope N_scope.

Arguments N.add : simpl never.
Arguments N.sub : simpl never.
Arguments N.mul : simpl never.
Arguments N.div : simpl never.
Arguments N.eqb : simpl never.
Arguments N.ltb : simpl never.
Arguments N.leb : simpl never.
Arguments N.max : simpl never.
Arguments N.pow : simpl never.

(* every store of the history goes through insert_with_memory, as the macros generate
   when max_memory is set *)
Definition mem_only (h : list event) : Prop :=
  Forall (fun e => match ev_op e with Ins _ _ _ => False | _ => True end) h.

Definition InvM (c : cfg) (s : state) : Prop :=
  forall M, maxmem c = Some M -> total_size (st_store s) <= M.

(* ------------------------------------------------------------------ *)
(** * total_size / size_of_key *)

Lemma total_size_cons : forall k e m, total_size ((k, e) :: m) = e_size e + total_size m.
Proof. reflexivity. Qed.

Lemma total_size_upsert : forall k e m,
    total_size (upsert k e m) = total_size (sremove k m) + e_size e.
Proof. intros k e m. unfold upsert. rewrite total_size_cons. lia. Qed.

Lemma size_of_key_notin : forall m k, ~ In k (keys m) -> size_of_key m k = 0.
Proof. intros m k H. unfold size_of_key. apply lookup_None in H. rewrite H. reflexivity. Qed.

Lemma size_of_key_sremove_neq : forall m x k, x <> k -> size_of_key (sremove k m) x = size_of_key m x.
Proof. intros m x k H. unfold size_of_key. rewrite lookup_sremove_neq by exact H. reflexivity. Qed.

(* removing a key takes exactly its recorded size off the total *)
Lemma total_size_split : forall v m,
    NoDup (keys m) -> total_size m = total_size (sremove v m) + size_of_key m v.
Proof.
  intros v m. induction m as [|[k' e] m IH]; intro Hnd.
  - unfold size_of_key. cbn [sremove lookup total_size fold_right]. lia.
  - cbn [keys map fst] in Hnd. fold (keys m) in Hnd.
    inversion Hnd as [|x l Hx Hnd']; subst.
    unfold size_of_key. cbn [sremove lookup].
    destruct (N.eqb_spec v k') as [E|E].
    + subst v. rewrite (sremove_notin k' m Hx). rewrite total_size_cons. lia.
    + rewrite !total_size_cons. specialize (IH Hnd'). unfold size_of_key in IH. lia.
Qed.

Lemma total_size_supdate_bump : forall k m, total_size (supdate k bump m) = total_size m.
Proof.
  intros k m. induction m as [|[k' e] m IH]; [reflexivity|].
  cbn [supdate]. destruct (N.eqb k k'); rewrite !total_size_cons.
  - reflexivity.
  - rewrite IH. reflexivity.
Qed.

Lemma inval_keys_total_le : forall ks m q m' q',
    inval_keys ks m q = (m', q') -> total_size m' <= total_size m.
Proof.
  induction ks as [|k ks IH]; intros m q m' q' H; cbn [inval_keys] in H.
  - inversion H; subst. lia.
  - destruct (mem k m).
    + apply IH in H. pose proof (total_size_sremove_le k m). lia.
    + apply IH in H. exact H.
Qed.

Lemma max_fold_ge : forall (f : key -> N) l x,
    In x l -> f x <= fold_right (fun y acc => N.max (f y) acc) 0 l.
Proof.
  intros f l x. induction l as [|a l IH]; intro H; [destruct H|].
  cbn [fold_right]. destruct H as [H|H].
  - subst a. apply N.le_max_l.
  - apply N.le_trans with (1 := IH H). apply N.le_max_r.
Qed.

(* ------------------------------------------------------------------ *)
(** * mem_loop: the last victim was needed *)

Lemma mem_loop_fit_id : forall fuel c now u extra M m q ch,
    total_size m + extra <= M -> mem_loop fuel c now u extra M m q ch = (m, q, ch).
Proof.
  intros fuel c now u extra M m q ch H. destruct fuel as [|fuel]; cbn [mem_loop]; [reflexivity|].
  apply N.leb_le in H. rewrite H. reflexivity.
Qed.

(* either the loop changed nothing, or there is a (last) victim, stored before and not
   afterwards, with which the result would still be over the bound *)
Lemma mem_loop_last : forall fuel c now u extra M m q ch m' q' ch',
    Struct m q ->
    mem_loop fuel c now u extra M m q ch = (m', q', ch') ->
    (m' = m /\ q' = q) \/
    (exists v, In v (keys m) /\ ~ In v (keys m') /\
               M < total_size m' + extra + size_of_key m v).
Proof.
  induction fuel as [|fuel IH]; intros c now u extra M m q ch m' q' ch' HS H; cbn [mem_loop] in H.
  - inversion H; subst. left. split; reflexivity.
  - destruct (N.leb_spec (total_size m + extra) M) as [Hle|Hgt].
    + inversion H; subst. left. split; reflexivity.
    + destruct (evict_one c now u m q ch) as [[[m1 q1] ev] ch1] eqn:E.
      pose proof HS as (Hnd & Hndm & Hiff).
      destruct (evict_one_spec _ _ _ _ _ _ _ _ _ _ Hnd Hiff E)
        as [(Hb & Hq & Hm & Hq')|(Hb & v & Hv & Hm & Hq')]; subst.
      * inversion H; subst. left. split; reflexivity.
      * right.
        pose proof (total_size_split v m Hndm) as Hsplit.
        pose proof (Struct_remove_first v m q HS) as HS1.
        destruct (IH _ _ _ _ _ _ _ _ _ _ _ HS1 H) as [(Hm & Hq)|(w & Hw & Hnw & Hlt)].
        -- subst. exists v. split; [apply Hiff; exact Hv|]. split.
           ++ rewrite In_keys_sremove. tauto.
           ++ lia.
        -- apply In_keys_sremove in Hw. destruct Hw as [Hw Hne].
           exists w. split; [exact Hw|]. split; [exact Hnw|].
           rewrite size_of_key_sremove_neq in Hlt by exact Hne. exact Hlt.
Qed.

(* ------------------------------------------------------------------ *)
(** * entry_limit: at most one more key *)

Lemma entry_limit_two : forall c now m q ch m' q' ch',
    Struct m q ->
    entry_limit c now m q ch = (m', q', ch') ->
    m' = m \/
    (exists L w, limit c = Some L /\ over_limit c L m q = true /\ In w (keys m) /\ m' = sremove w m).
Proof.
  intros c now m q ch m' q' ch' HS H.
  destruct (entry_limit_spec _ _ _ _ _ _ _ _ HS H)
    as [(Hm & _)|[(L & _ & _ & _ & Hm & _)|(L & w & HL & Ho & Hw & Hm & _)]].
  - left. exact Hm.
  - left. exact Hm.
  - right. exists L, w. split; [exact HL|]. split; [exact Ho|]. split; [apply HS; exact Hw|exact Hm].
Qed.

(* ------------------------------------------------------------------ *)
(** * Outcome of insert_with_memory, as a relation between the stores *)

Definition cand_in (k : key) (m : store) (x : key) : Prop := x = k \/ In x (keys m).

Definition sizeof_pre (k : key) (sz : N) (m : store) (x : key) : N :=
  if N.eqb x k then sz else size_of_key m x.

(* the value fits on its own (sz <= M) *)
Definition mem_outcome (c : cfg) (k : key) (sz M : N) (m m' : store) : Prop :=
  total_size m' <= M /\
  (total_size (sremove k m) + sz <= M ->
     (forall x, cand_in k m x -> In x (keys m')) \/
     ((~ In k (keys m) /\ exists L, limit c = Some L /\ L <= N.of_nat (length m)) /\
      exists w, forall x, cand_in k m x -> x <> w -> In x (keys m'))) /\
  (M < total_size (sremove k m) + sz ->
     (forall x, cand_in k m x -> In x (keys m')) \/
     (exists v, cand_in k m v /\ ~ In v (keys m') /\
                M < total_size m' + sizeof_pre k sz m v) \/
     (exists L, limit c = Some L /\ L <= N.of_nat (length m'))).

(* the value alone is too large (M < sz) *)
Definition oversize_outcome (k : key) (M : N) (m m' : store) : Prop :=
  total_size m' <= M /\ m' = sremove k m.

Lemma insert_sync_mem_outcome : forall c now k v sz m q ch m' q' M,
    is_async c = false -> Struct m q ->
    (forall L, limit c = Some L -> N.of_nat (length m) <= L) ->
    maxmem c = Some M -> (M <? sz) = false ->
    insert_sync c now true k v sz m q ch = (m', q') ->
    mem_outcome c k sz M m m'.
Proof.
  intros c now k v sz m q ch m' q' M Ha HS Hlim HM Hsz H.
  pose proof (Struct_upsert_push k (new_entry c now v sz) m q HS) as HS1.
  pose proof (Struct_length _ _ HS1) as Hlen1.
  assert (Htot1 : total_size (upsert k (new_entry c now v sz) m) = total_size (sremove k m) + sz).
  { rewrite total_size_upsert. reflexivity. }
  destruct (insert_sync_cases _ _ _ _ _ _ _ _ _ _ _ H)
    as [(M' & HM' & Hsz' & _)|[(M' & m2 & q2 & ch2 & ch3 & HM' & _ & Hml & Hel)|(HM' & _)]];
    change (if true then maxmem c else None) with (maxmem c) in HM';
    rewrite HM in HM'; try discriminate HM'.
  { inversion HM'; subst M'. congruence. }
  inversion HM'; subst M'. clear HM'.
  pose proof (mem_loop_Shrunk _ _ _ _ _ _ _ _ _ _ _ _ HS1 Hml) as Hsh.
  pose proof (Shrunk_Struct _ _ _ _ Hsh) as HS2.
  pose proof (Struct_length _ _ HS2) as Hlen2.
  assert (Hfit : total_size m2 + 0 <= M).
  { apply (mem_loop_fits _ _ _ _ _ _ _ _ _ _ _ _ HS1) in Hml; [exact Hml| |lia].
    unfold mem_fuel. lia. }
  (* what entry_limit does *)
  assert (Hel2 : m' = m2 \/
                 exists L w, limit c = Some L /\ L < N.of_nat (length m2) /\ In w (keys m2) /\
                             m' = sremove w m2 /\ S (length m') = length m2).
  { destruct (entry_limit_two _ _ _ _ _ _ _ _ HS2 Hel) as [Hm|(L & w & HL & Ho & Hw & Hm)];
      [left; exact Hm|right].
    exists L, w. unfold over_limit in Ho. rewrite Ha in Ho. apply N.ltb_lt in Ho.
    split; [exact HL|]. split; [lia|]. split; [exact Hw|]. split; [exact Hm|].
    subst m'. apply length_sremove_in; [apply HS2|exact Hw]. }
  clear Hel. split; [|split].
  - destruct Hel2 as [Hm|(L & w & _ & _ & _ & Hm & _)]; subst m'; [lia|].
    pose proof (total_size_sremove_le w m2). lia.
  - intro Hle.
    rewrite mem_loop_fit_id in Hml by lia. inversion Hml; subst m2 q2 ch2. clear Hml.
    destruct Hel2 as [Hm|(L & w & HL & Ho & Hw & Hm & _)]; subst m'.
    + left. intros x Hx. apply In_keys_upsert. exact Hx.
    + right. split.
      * destruct (in_dec N.eq_dec k (keys m)) as [Hk|Hk].
        -- exfalso. pose proof (length_upsert_in k (new_entry c now v sz) m (proj1 (proj2 HS)) Hk).
           pose proof (Hlim L HL). lia.
        -- split; [exact Hk|]. exists L. split; [exact HL|].
           pose proof (length_upsert_notin k (new_entry c now v sz) m Hk). lia.
      * exists w. intros x Hx Hne. rewrite In_keys_sremove, In_keys_upsert. split; [exact Hx|exact Hne].
  - intro Hgt.
    destruct Hel2 as [Hm|(L & w & HL & Ho & Hw & Hm & Hlen')].
    + subst m'.
      destruct (mem_loop_last _ _ _ _ _ _ _ _ _ _ _ _ HS1 Hml) as [(Hm & Hq)|(v0 & Hv0 & Hn0 & Hlt)].
      * subst m2. left. intros x Hx. apply In_keys_upsert. exact Hx.
      * right. left. exists v0. apply In_keys_upsert in Hv0.
        split; [exact Hv0|]. split; [exact Hn0|].
        unfold sizeof_pre. unfold size_of_key in Hlt. destruct (N.eqb_spec v0 k) as [E|E].
        -- subst v0. rewrite lookup_upsert_eq in Hlt. cbn [new_entry e_size] in Hlt. lia.
        -- rewrite lookup_upsert_neq in Hlt by exact E. unfold size_of_key. lia.
    + right. right. exists L. split; [exact HL|]. lia.
Qed.

Lemma insert_async_mem_outcome : forall c now k v sz m q ch m' q' M,
    is_async c = true -> Struct m q ->
    (forall L, limit c = Some L -> N.of_nat (length m) <= L) ->
    maxmem c = Some M -> (M <? sz) = false ->
    insert_async c now true k v sz m q ch = (m', q') ->
    mem_outcome c k sz M m m'.
Proof.
  intros c now k v sz m q ch m' q' M Ha HS Hlim HM Hsz H.
  pose proof (Struct_remove_all k m q HS) as HS0.
  apply N.ltb_ge in Hsz.
  destruct (insert_async_cases _ _ _ _ _ _ _ _ _ _ _ H)
    as [(M' & HM' & Hsz' & _)|[(M' & m2 & q2 & ch2 & m3 & q3 & ch3 & HM' & _ & Hml & Hel & Hm' & _)
                              |(HM' & _)]];
    change (if true then maxmem c else None) with (maxmem c) in HM';
    rewrite HM in HM'; try discriminate HM'.
  { inversion HM'; subst M'. apply N.ltb_lt in Hsz'. lia. }
  inversion HM'; subst M'. clear HM'.
  pose proof (mem_loop_Shrunk _ _ _ _ _ _ _ _ _ _ _ _ HS0 Hml) as Hsh.
  pose proof (Shrunk_Struct _ _ _ _ Hsh) as HS2.
  pose proof (Shrunk_fresh _ _ _ _ _ Hsh) as Hk2.
  assert (Hfit : total_size m2 + sz <= M).
  { apply (mem_loop_fits _ _ _ _ _ _ _ _ _ _ _ _ HS0) in Hml; [exact Hml| |exact Hsz].
    unfold mem_fuel. lia. }
  assert (Hel2 : m3 = m2 \/
                 exists L w, limit c = Some L /\ L <= N.of_nat (length m2) /\ In w (keys m2) /\
                             m3 = sremove w m2 /\ S (length m3) = length m2).
  { destruct (entry_limit_two _ _ _ _ _ _ _ _ HS2 Hel) as [Hm|(L & w & HL & Ho & Hw & Hm)];
      [left; exact Hm|right].
    exists L, w. unfold over_limit in Ho. rewrite Ha in Ho. apply N.leb_le in Ho.
    split; [exact HL|]. split; [exact Ho|]. split; [exact Hw|]. split; [exact Hm|].
    subst m3. apply length_sremove_in; [apply HS2|exact Hw]. }
  clear Hel.
  assert (Hk3 : ~ In k (keys m3)).
  { destruct Hel2 as [Hm|(L & w & _ & _ & _ & Hm & _)]; subst m3; [exact Hk2|].
    rewrite In_keys_sremove. tauto. }
  assert (Htot' : total_size m' = total_size m3 + sz).
  { subst m'. rewrite total_size_upsert. rewrite (sremove_notin k m3 Hk3). reflexivity. }
  assert (Hlen' : length m' = S (length m3)).
  { subst m'. apply length_upsert_notin. exact Hk3. }
  split; [|split].
  - rewrite Htot'. destruct Hel2 as [Hm|(L & w & _ & _ & _ & Hm & _)]; subst m3; [lia|].
    pose proof (total_size_sremove_le w m2). lia.
  - intro Hle.
    rewrite mem_loop_fit_id in Hml by lia. inversion Hml; subst m2 q2 ch2. clear Hml.
    destruct Hel2 as [Hm|(L & w & HL & Ho & Hw & Hm & _)]; subst m3 m'.
    + left. intros x Hx. rewrite In_keys_upsert, In_keys_sremove.
      destruct (N.eq_dec x k) as [E|E]; [left; exact E|right].
      destruct Hx as [Hx|Hx]; [contradiction|]. split; assumption.
    + right. split.
      * destruct (in_dec N.eq_dec k (keys m)) as [Hk|Hk].
        -- exfalso. pose proof (length_sremove_in k m (proj1 (proj2 HS)) Hk).
           pose proof (Hlim L HL). lia.
        -- split; [exact Hk|]. exists L. split; [exact HL|].
           rewrite (sremove_notin k m Hk) in Ho. exact Ho.
      * exists w. intros x Hx Hne. rewrite In_keys_upsert, !In_keys_sremove.
        destruct (N.eq_dec x k) as [E|E]; [left; exact E|right].
        destruct Hx as [Hx|Hx]; [contradiction|]. repeat split; assumption.
  - intro Hgt.
    destruct Hel2 as [Hm|(L & w & HL & Ho & Hw & Hm & Hlen3)].
    + subst m3.
      destruct (mem_loop_last _ _ _ _ _ _ _ _ _ _ _ _ HS0 Hml) as [(Hm & Hq)|(v0 & Hv0 & Hn0 & Hlt)].
      * subst m2 m'. left. intros x Hx. rewrite In_keys_upsert, In_keys_sremove.
        destruct (N.eq_dec x k) as [E|E]; [left; exact E|right].
        destruct Hx as [Hx|Hx]; [contradiction|]. split; assumption.
      * right. left. exists v0. apply In_keys_sremove in Hv0. destruct Hv0 as [Hv0 Hne].
        split; [right; exact Hv0|]. split.
        -- subst m'. rewrite In_keys_upsert. intros [E|E]; [contradiction|]. apply Hn0. exact E.
        -- rewrite size_of_key_sremove_neq in Hlt by exact Hne.
           unfold sizeof_pre. destruct (N.eqb_spec v0 k) as [E|E]; [contradiction|]. lia.
    + right. right. exists L. split; [exact HL|]. lia.
Qed.

Lemma insert_sync_oversize : forall c now k v sz m q ch m' q' M,
    maxmem c = Some M -> (M <? sz) = true ->
    insert_sync c now true k v sz m q ch = (m', q') -> m' = sremove k m.
Proof.
  intros c now k v sz m q ch m' q' M HM Hsz H.
  destruct (insert_sync_cases _ _ _ _ _ _ _ _ _ _ _ H)
    as [(M' & HM' & _ & Hm & _)|[(M' & m2 & q2 & ch2 & ch3 & HM' & Hsz' & _)|(HM' & _)]];
    change (if true then maxmem c else None) with (maxmem c) in HM';
    rewrite HM in HM'; try discriminate HM'.
  - rewrite Hm. apply sremove_upsert.
  - inversion HM'; subst M'. congruence.
Qed.

Lemma insert_async_oversize : forall c now k v sz m q ch m' q' M,
    maxmem c = Some M -> (M <? sz) = true ->
    insert_async c now true k v sz m q ch = (m', q') -> m' = sremove k m.
Proof.
  intros c now k v sz m q ch m' q' M HM Hsz H.
  destruct (insert_async_cases _ _ _ _ _ _ _ _ _ _ _ H)
    as [(M' & HM' & _ & Hm & _)|[(M' & m2 & q2 & ch2 & m3 & q3 & ch3 & HM' & Hsz' & _)|(HM' & _)]];
    change (if true then maxmem c else None) with (maxmem c) in HM';
    rewrite HM in HM'; try discriminate HM'.
  - exact Hm.
  - inversion HM'; subst M'. congruence.
Qed.

Lemma wf_limit : forall c L, wf_cfg c = true -> limit c = Some L -> 1 <= L.
Proof.
  intros c L Hwf HL. unfold wf_cfg in Hwf. rewrite HL in Hwf.
  apply andb_true_iff in Hwf. destruct Hwf as [Hwf _]. apply N.leb_le. exact Hwf.
Qed.

(* both engines, on states *)
Lemma insert_mem_outcome : forall c now k v sz s ch M,
    wf_cfg c = true -> InvA c s -> InvM c s -> maxmem c = Some M ->
    if M <? sz
    then oversize_outcome k M (st_store s) (st_store (insert c now true k v sz s ch))
    else mem_outcome c k sz M (st_store s) (st_store (insert c now true k v sz s ch)).
Proof.
  intros c now k v sz s ch M Hwf HA HMm HM.
  pose proof (InvA_Struct c s HA) as HS.
  assert (Hlim : forall L, limit c = Some L -> N.of_nat (length (st_store s)) <= L).
  { intros L HL. apply (InvA_limit c s L HA HL). apply (wf_limit c L Hwf HL). }
  rewrite insert_eq. cbn [st_store].
  destruct (M <? sz) eqn:Hsz.
  - assert (Hm : fst (if is_async c
                      then insert_async c now true k v sz (st_store s) (st_queue s) ch
                      else insert_sync c now true k v sz (st_store s) (st_queue s) ch)
                 = sremove k (st_store s)).
    { destruct (is_async c).
      - destruct (insert_async c now true k v sz (st_store s) (st_queue s) ch) as [m' q'] eqn:E.
        cbn [fst]. apply (insert_async_oversize _ _ _ _ _ _ _ _ _ _ M HM Hsz E).
      - destruct (insert_sync c now true k v sz (st_store s) (st_queue s) ch) as [m' q'] eqn:E.
        cbn [fst]. apply (insert_sync_oversize _ _ _ _ _ _ _ _ _ _ M HM Hsz E). }
    rewrite Hm. split; [|reflexivity].
    pose proof (total_size_sremove_le k (st_store s)). pose proof (HMm M HM). lia.
  - destruct (is_async c) eqn:Ha.
    + destruct (insert_async c now true k v sz (st_store s) (st_queue s) ch) as [m' q'] eqn:E.
      cbn [fst]. apply (insert_async_mem_outcome _ _ _ _ _ _ _ _ _ _ M Ha HS Hlim HM Hsz E).
    + destruct (insert_sync c now true k v sz (st_store s) (st_queue s) ch) as [m' q'] eqn:E.
      cbn [fst]. apply (insert_sync_mem_outcome _ _ _ _ _ _ _ _ _ _ M Ha HS Hlim HM Hsz E).
Qed.

(* ------------------------------------------------------------------ *)
(** * InvM is preserved by every operation other than the plain insert *)

Lemma get_total_le : forall c now k s,
    total_size (st_store (fst (get c now k s))) <= total_size (st_store s).
Proof.
  intros c now k s. unfold get.
  destruct (lookup k (st_store s)) as [e|]; cbn [fst st_store]; [|lia].
  destruct (expired c now e); cbn [fst st_store].
  - apply total_size_sremove_le.
  - destruct (counts_hits (pol c)); [rewrite total_size_supdate_bump|]; lia.
Qed.

Lemma invM_init : forall c, InvM c init.
Proof. intros c M _. cbn [init st_store total_size fold_right]. lia. Qed.

Lemma invM_step : forall c now s o ch, wf_cfg c = true ->
    (match o with Ins _ _ _ => False | _ => True end) ->
    InvA c s -> InvM c s -> InvM c (fst (step c now s o ch)).
Proof.
  intros c now s o ch Hwf Ho HA HMm M HM. pose proof (HMm M HM) as Hb.
  destruct o as [k|k v sz|k v sz|k| |ks]; cbn [step].
  - destruct (get c now k s) as [s' r] eqn:E. cbn [fst].
    replace s' with (fst (get c now k s)) by (rewrite E; reflexivity).
    pose proof (get_total_le c now k s). lia.
  - destruct Ho.
  - cbn [fst]. pose proof (insert_mem_outcome c now k v sz s ch M Hwf HA HMm HM) as Hout.
    destruct (M <? sz); apply Hout.
  - cbn [fst]. exact Hb.
  - cbn [fst st_store total_size fold_right]. lia.
  - destruct (inval_keys ks (st_store s) (st_queue s)) as [m' q'] eqn:E.
    cbn [fst st_store]. pose proof (inval_keys_total_le _ _ _ _ _ E). lia.
Qed.

(* ------------------------------------------------------------------ *)
(** * From the outcome to the trace predicate *)

Lemma cand_props : forall k m, NoDup (keys m) ->
    NoDup (if inb k (keys m) then keys m else k :: keys m) /\
    (forall x, In x (if inb k (keys m) then keys m else k :: keys m) <-> cand_in k m x).
Proof.
  intros k m Hnd. unfold cand_in. destruct (inb k (keys m)) eqn:Ek.
  - split; [exact Hnd|]. apply inb_In in Ek. intro x. split; [right; assumption|].
    intros [E|E]; [subst; exact Ek|exact E].
  - split; [constructor; [apply inb_false; exact Ek|exact Hnd]|].
    intro x. cbn [In]. split; (intros [E|E]; [left; symmetry; exact E|right; exact E]).
Qed.

Lemma c05_oversize : forall c g idx s now k v sz r s' M,
    maxmem c = Some M -> (M <? sz) = true ->
    oversize_outcome k M (st_store s) (st_store s') ->
    c05_step c g idx (mkObs s now (InsMem k v sz) r s') = true.
Proof.
  intros c g idx s now k v sz r s' M HM Hsz (Htot & Hm).
  unfold c05_step. rewrite HM. cbn [ob_op ob_pre ob_post]. rewrite Hsz.
  apply andb_true_iff. split; [apply N.leb_le; exact Htot|].
  unfold skeys. rewrite Hm. apply andb_true_iff. split.
  - apply negb_true_iff, inb_false. rewrite In_keys_sremove. tauto.
  - apply same_set_iff. intro x.
    rewrite In_keys_sremove, filter_In, negb_true_iff, N.eqb_neq. tauto.
Qed.

Lemma c05_fits : forall c g idx s now k v sz r s' M,
    maxmem c = Some M -> (M <? sz) = false -> NoDup (skeys s) ->
    mem_outcome c k sz M (st_store s) (st_store s') ->
    c05_step c g idx (mkObs s now (InsMem k v sz) r s') = true.
Proof.
  intros c g idx s now k v sz r s' M HM Hsz Hnd (Htot & Hfit & Hnofit).
  unfold c05_step. rewrite HM. cbn [ob_op ob_pre ob_post]. rewrite Hsz.
  apply andb_true_iff. split; [apply N.leb_le; exact Htot|].
  unfold removed. cbn [ob_op ob_pre ob_post store_key]. cbv zeta. unfold skeys, slen in *.
  destruct (cand_props k (st_store s) Hnd) as [Hcnd Hcin].
  remember (diff (if inb k (keys (st_store s)) then keys (st_store s) else k :: keys (st_store s))
                 (keys (st_store s'))) as rem eqn:Erem.
  assert (Hrnd : NoDup rem) by (subst rem; apply NoDup_filter; exact Hcnd).
  assert (Hrin : forall x, In x rem <-> cand_in k (st_store s) x /\ ~ In x (keys (st_store s'))).
  { intro x. subst rem. rewrite diff_In, Hcin. tauto. }
  assert (Hnil : (forall x, cand_in k (st_store s) x -> In x (keys (st_store s'))) -> rem = []).
  { intro Hall. destruct rem as [|a rem0]; [reflexivity|]. exfalso.
    assert (Ha : In a (a :: rem0)) by (left; reflexivity).
    apply Hrin in Ha. destruct Ha as [Ha1 Ha2]. apply Ha2. apply Hall. exact Ha1. }
  clear Erem.
  destruct (N.leb_spec (total_size (sremove k (st_store s)) + sz) M) as [Hle|Hgt].
  - destruct (Hfit Hle) as [Hall|((Hk & L & HL & HLm) & w & Hw)].
    + rewrite (Hnil Hall). cbn [length].
      destruct (match limit c with
                | Some L => negb (inb k (keys (st_store s))) && (L <=? N.of_nat (length (st_store s)))
                | None => false end); reflexivity.
    + rewrite HL. apply inb_false in Hk. rewrite Hk. apply N.leb_le in HLm. rewrite HLm.
      cbn [negb andb]. apply Nat.leb_le. change 1%nat with (length [w]).
      apply NoDup_incl_length; [exact Hrnd|]. intros x Hx. apply Hrin in Hx.
      destruct (N.eq_dec x w) as [E|E]; [left; symmetry; exact E|].
      exfalso. destruct Hx as [Hx1 Hx2]. apply Hx2. apply Hw; assumption.
  - destruct (Hnofit Hgt) as [Hall|[(v0 & Hc & Hn & Hlt)|(L & HL & HLm)]].
    + rewrite (Hnil Hall). reflexivity.
    + assert (Hin : In v0 rem) by (apply Hrin; split; assumption).
      pose proof (max_fold_ge (sizeof_pre k sz (st_store s)) rem v0 Hin) as Hmax.
      destruct rem as [|a rem0]; [reflexivity|].
      apply orb_true_iff. left. apply N.ltb_lt.
      eapply N.lt_le_trans; [exact Hlt|]. apply N.add_le_mono_l. exact Hmax.
    + destruct rem as [|a rem0]; [reflexivity|].
      apply orb_true_iff. right. rewrite HL. apply N.leb_le. exact HLm.
Qed.

Lemma c05_one : forall c now s o ch g idx,
    wf_cfg c = true -> InvA c s -> InvM c s ->
    c05_step c g idx (mkObs s now o (snd (step c now s o ch)) (fst (step c now s o ch))) = true.
Proof.
  intros c now s o ch g idx Hwf HA HMm.
  destruct (maxmem c) as [M|] eqn:HM.
  - destruct o as [k|k v sz|k v sz|k| |ks];
      try (unfold c05_step; rewrite HM; reflexivity).
    cbn [step fst snd].
    pose proof (insert_mem_outcome c now k v sz s ch M Hwf HA HMm HM) as Hout.
    destruct (M <? sz) eqn:Hsz.
    + apply (c05_oversize _ _ _ _ _ _ _ _ _ _ M HM Hsz Hout).
    + apply (c05_fits _ _ _ _ _ _ _ _ _ _ M HM Hsz); [|exact Hout].
      unfold skeys. apply (InvA_Struct c s HA).
  - unfold c05_step. rewrite HM. reflexivity.
Qed.

(* ------------------------------------------------------------------ *)
(** * Lifting over histories whose operations all satisfy [Q] *)

Section LiftForall.
  Variable c : cfg.
  Variable P : step_pred.
  Variable I : state -> Prop.
  Variable Q : op -> Prop.

  Hypothesis I_step : forall now idx s g o ch,
      Q o -> I s ->
      P c g idx (mkObs s now o (snd (step c now s o ch)) (fst (step c now s o ch))) = true /\
      I (fst (step c now s o ch)).

  Lemma lift_from_forall : forall h now idx s g,
      Forall (fun e => Q (ev_op e)) h -> I s ->
      check_from P c g idx (trace c now s h) = true.
  Proof.
    induction h as [|e h IH]; intros now idx s g HF HI; [reflexivity|].
    inversion HF as [|e' h' HQ HF']; subst.
    cbn [trace].
    pose proof (I_step (now + ev_dt e) idx s g (ev_op e) (ev_ch e) HQ HI) as Hs.
    destruct (step c (now + ev_dt e) s (ev_op e) (ev_ch e)) as [s' r] eqn:E.
    cbn [fst snd] in Hs. destruct Hs as [HP HI'].
    cbn [check_from]. rewrite HP. cbn [andb].
    apply IH; assumption.
  Qed.

  Lemma lift_forall : I init -> forall h,
      Forall (fun e => Q (ev_op e)) h -> check_trace P c (trace c 0 init h) = true.
  Proof. intros H0 h HF. unfold check_trace. apply lift_from_forall; assumption. Qed.
End LiftForall.

Theorem c05_holds : forall c h, wf_cfg c = true -> mem_only h ->
    check_trace c05_step c (trace c 0 init h) = true.
Proof.
  intros c h Hwf Hh.
  apply (lift_forall c c05_step (fun s => InvA c s /\ InvM c s)
                     (fun o => match o with Ins _ _ _ => False | _ => True end)).
  - intros now idx s g o ch HQ [HA HMm]. split; [|split].
    + apply c05_one; assumption.
    + apply invA_step; assumption.
    + apply invM_step; assumption.
  - split; [apply invA_init|apply invM_init].
  - exact Hh.
Qed.

Print Assumptions c05_holds.
Print Assumptions invM_step.
