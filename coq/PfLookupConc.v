(* PfLookupConc.v — every lookup is booked exactly once, whatever the interleaving (C15). *)
From CL Require Import LookupConc.
From Coq Require Import List NArith Lia Bool.
Import ListNotations.
Open Scope N_scope.

Section Proofs.
Variable expired : N -> N -> bool.

Lemma count_set_nth : forall l t old p,
    nth_error l t = Some old ->
    count_nt (set_nth t p l) + is_nt old = count_nt l + is_nt p.
Proof.
  induction l as [|x l IH]; intros t old p H.
  - destruct t; discriminate.
  - destruct t as [|t]; cbn [nth_error] in H; cbn [set_nth count_nt].
    + injection H as H. subst x. lia.
    + specialize (IH t old p H). lia.
Qed.

Lemma count_repeat_idle : forall n, count_nt (repeat Idle n) = 0.
Proof. induction n as [|n IH]; cbn [repeat count_nt is_nt]; [reflexivity|]. rewrite IH. reflexivity. Qed.

Lemma count_all_idle : forall l, forallb is_idle l = true -> count_nt l = 0.
Proof.
  induction l as [|p l IH]; cbn [forallb count_nt]; intro H; [reflexivity|].
  apply andb_true_iff in H. destruct H as [Hp Hl]. rewrite (IH Hl).
  destruct p; cbn in Hp; try discriminate. reflexivity.
Qed.

Theorem lstep_inv : forall s s', lstep expired s s' -> LInv s -> LInv s'.
Proof.
  intros s s' H I. unfold LInv in *.
  destruct H as [s m' | s t k Hpc Hf | s t k b now Hpc Hf He | s t k b now Hpc Hf He
                 | s t k b now Hpc Hf He | s t k now Hpc | s t k Hpc];
    cbn [l_hits l_misses l_done l_pc].
  - exact I.
  - lia.
  - lia.
  - pose proof (count_set_nth (l_pc s) t Idle (NeedTouch k) Hpc) as C. cbn [is_nt] in C. lia.
  - pose proof (count_set_nth (l_pc s) t Idle (SawExpired k) Hpc) as C. cbn [is_nt] in C. lia.
  - pose proof (count_set_nth (l_pc s) t (SawExpired k) Idle Hpc) as C. cbn [is_nt] in C. lia.
  - pose proof (count_set_nth (l_pc s) t (NeedTouch k) Idle Hpc) as C. cbn [is_nt] in C. lia.
Qed.

Theorem lreach_inv : forall n s, lreach expired n s -> LInv s.
Proof.
  intros n s H. induction H as [m | s s' _ IH Hs].
  - unfold LInv. cbn [l_hits l_misses l_done l_pc]. rewrite count_repeat_idle. reflexivity.
  - eapply lstep_inv; eassumption.
Qed.

(* at quiescence (every caller has returned) the counters add up to the lookups performed *)
Theorem stats_exact_at_quiescence : forall n s,
    lreach expired n s -> quiescent s -> l_hits s + l_misses s = l_done s.
Proof.
  intros n s H Q. pose proof (lreach_inv n s H) as I. unfold LInv in I.
  unfold quiescent in Q. rewrite (count_all_idle _ Q) in I. lia.
Qed.

(* in between, the counters run ahead of the returned lookups by exactly the hits whose recency
   section is still to come, and never lag behind *)
Theorem stats_never_lag : forall n s, lreach expired n s -> l_done s <= l_hits s + l_misses s.
Proof. intros n s H. pose proof (lreach_inv n s H) as I. unfold LInv in I. lia. Qed.

(* phase 2 removes nothing but the looked-up key, and that only if it is expired when phase 2 runs *)
Lemma lfind_ldel_neq : forall k x m, x <> k -> lfind x (ldel k m) = lfind x m.
Proof.
  intros k x m Hne. induction m as [|[k' b] m IH]; cbn [ldel lfind]; [reflexivity|].
  destruct (N.eqb_spec k k') as [E|E].
  - subst k'. destruct (N.eqb_spec x k) as [E2|E2]; [contradiction|exact IH].
  - cbn [lfind]. destruct (N.eqb x k'); [reflexivity|exact IH].
Qed.

Theorem purge_keeps_unexpired : forall s t k now x b,
    nth_error (l_pc s) t = Some (SawExpired k) ->
    lfind x (l_store s) = Some b -> expired now b = false ->
    forall s', s' = mkL (match lfind k (l_store s) with
                         | Some b0 => if expired now b0 then ldel k (l_store s) else l_store s
                         | None => l_store s
                         end)
                        (l_hits s) (l_misses s + 1) (l_done s + 1) (set_nth t Idle (l_pc s)) ->
    lfind x (l_store s') = Some b.
Proof.
  intros s t k now x b Hpc Hx Hf s' E. subst s'. cbn [l_store].
  destruct (lfind k (l_store s)) as [b0|] eqn:Hk; [|exact Hx].
  destruct (expired now b0) eqn:He; [|exact Hx].
  destruct (N.eq_dec x k) as [E|E].
  - subst x. rewrite Hx in Hk. injection Hk as Hk. subst b0. congruence.
  - rewrite lfind_ldel_neq by exact E. exact Hx.
Qed.

End Proofs.

(* the premises are satisfiable: three threads, one of them between the phases, one before its
   recency section *)
Example lookup_run :
  let ex := fun now born => 2000 <=? now - born in
  exists s, lreach ex 3 s /\ l_hits s = 1 /\ l_misses s = 1 /\ l_done s = 1 /\
            l_pc s = [SawExpired 7; NeedTouch 8; Idle].
Proof.
  intro ex.
  eexists. split.
  - eapply lr_step. eapply lr_step. eapply lr_step.
    + apply (lr_init ex 3 [(7, 0); (8, 5000)]).
    + eapply (L_saw_expired ex _ 0%nat 7 0 5000); reflexivity.
    + eapply (L_fresh_touch_later ex _ 1%nat 8 5000 5000); reflexivity.
    + eapply (L_absent ex _ 2%nat 9); reflexivity.
  - cbn. repeat split.
Qed.

Print Assumptions stats_exact_at_quiescence.
Print Assumptions stats_never_lag.
Print Assumptions purge_keeps_unexpired.
