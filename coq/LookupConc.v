(* LookupConc.v — statistics of lookups under concurrency, at the granularity of the lookup's own
   phases (C15: "hits + misses equals the number of lookups performed, exact under any number of
   concurrent callers").

   A lookup of the sync global cache (after the repair D9) and of the async cache is not atomic:
     phase 1 (read lock / DashMap guard): the entry is absent         -> book a miss, return
                                          present and not expired     -> book a hit, then (LRU, ARC,
                                                                         TLRU) update the recency
                                                                         in a later queue section
                                          present and expired         -> go on to the purge
     phase 2 (queue lock + write lock):   look at the entry AGAIN; remove it if it is still
                                          expired; book a miss, return
   Between the phases any other thread may store, refresh, evict or invalidate anything.  The
   model keeps, per thread, where it is in this protocol; the environment may change the store
   arbitrarily between any two steps.  Expiry is an arbitrary function of the current time and the
   entry's birth time.

   StatsConc.v shows that the counters themselves are exact (striped atomics); this file shows that
   the PROTOCOL books every lookup exactly once on every path, whatever the interleaving.
   (The seeded change C15-G let phase 2 return the refreshed value without booking anything; C15-H
   booked a hit in phase 1 and a miss in the recency section.)  *)
From Coq Require Import List NArith Lia Bool.
Import ListNotations.
Open Scope N_scope.

Section Lookup.
Variable expired : N -> N -> bool.          (* now, born *)

Definition key := N.
Inductive lpc := Idle | SawExpired (k : key) | NeedTouch (k : key).

Record lstate := mkL {
  l_store  : list (key * N);                (* key, birth time *)
  l_hits   : N;
  l_misses : N;
  l_done   : N;                             (* lookups that have returned *)
  l_pc     : list lpc                       (* one protocol position per thread *)
}.

Fixpoint lfind (k : key) (m : list (key * N)) : option N :=
  match m with [] => None | (k', b) :: m' => if N.eqb k k' then Some b else lfind k m' end.
Fixpoint ldel (k : key) (m : list (key * N)) : list (key * N) :=
  match m with [] => [] | (k', b) :: m' => if N.eqb k k' then ldel k m' else (k', b) :: ldel k m' end.

Fixpoint set_nth (t : nat) (p : lpc) (l : list lpc) : list lpc :=
  match l, t with
  | [], _ => []
  | _ :: l', O => p :: l'
  | x :: l', S t' => x :: set_nth t' p l'
  end.

Definition is_nt (p : lpc) : N := match p with NeedTouch _ => 1 | _ => 0 end.
Definition is_idle (p : lpc) : bool := match p with Idle => true | _ => false end.
Fixpoint count_nt (l : list lpc) : N := match l with [] => 0 | p :: l' => is_nt p + count_nt l' end.

Inductive lstep : lstate -> lstate -> Prop :=
(* the environment: stores, refreshes, evictions, invalidations of other callers *)
| L_env : forall s m', lstep s (mkL m' (l_hits s) (l_misses s) (l_done s) (l_pc s))
(* phase 1 *)
| L_absent : forall s t k,
    nth_error (l_pc s) t = Some Idle -> lfind k (l_store s) = None ->
    lstep s (mkL (l_store s) (l_hits s) (l_misses s + 1) (l_done s + 1) (l_pc s))
| L_fresh_return : forall s t k b now,
    nth_error (l_pc s) t = Some Idle -> lfind k (l_store s) = Some b -> expired now b = false ->
    lstep s (mkL (l_store s) (l_hits s + 1) (l_misses s) (l_done s + 1) (l_pc s))
| L_fresh_touch_later : forall s t k b now,
    nth_error (l_pc s) t = Some Idle -> lfind k (l_store s) = Some b -> expired now b = false ->
    lstep s (mkL (l_store s) (l_hits s + 1) (l_misses s) (l_done s) (set_nth t (NeedTouch k) (l_pc s)))
| L_saw_expired : forall s t k b now,
    nth_error (l_pc s) t = Some Idle -> lfind k (l_store s) = Some b -> expired now b = true ->
    lstep s (mkL (l_store s) (l_hits s) (l_misses s) (l_done s) (set_nth t (SawExpired k) (l_pc s)))
(* phase 2: the entry is looked at again under the write lock *)
| L_purge : forall s t k now,
    nth_error (l_pc s) t = Some (SawExpired k) ->
    lstep s (mkL (match lfind k (l_store s) with
                  | Some b => if expired now b then ldel k (l_store s) else l_store s
                  | None => l_store s
                  end)
                 (l_hits s) (l_misses s + 1) (l_done s + 1) (set_nth t Idle (l_pc s)))
(* the recency section of a hit *)
| L_touch : forall s t k,
    nth_error (l_pc s) t = Some (NeedTouch k) ->
    lstep s (mkL (l_store s) (l_hits s) (l_misses s) (l_done s + 1) (set_nth t Idle (l_pc s))).

Inductive lreach (n : nat) : lstate -> Prop :=
| lr_init : forall m, lreach n (mkL m 0 0 0 (repeat Idle n))
| lr_step : forall s s', lreach n s -> lstep s s' -> lreach n s'.

Definition LInv (s : lstate) : Prop := l_hits s + l_misses s = l_done s + count_nt (l_pc s).
Definition quiescent (s : lstate) : Prop := forallb is_idle (l_pc s) = true.

End Lookup.
