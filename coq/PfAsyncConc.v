(* PfAsyncConc.v — M9: AsyncGlobalCache under concurrency (proofs for AsyncConc.v).

   Every interleaving of the atomic actions of the async engine keeps the structural
   invariant InvA, stores only values of the cached function, keeps the memory bound InvM
   when every store goes through insert_with_memory; and the sequential async model is the
   special case in which every operation is a short run of atomic actions.

   Almost everything is a re-packaging of the sequential results: A_insert is [insert],
   A_expire / A_bump / A_touch are the pieces of [get], A_inval is [inval_keys] (under
   InvA removing a key that is not stored changes neither the store nor the queue). *)
From CL Require Import Lemmas PfInvA PfC05 AsyncConc.
From Coq Require Import Lia.
Open Scope N_scope.

Arguments N.add : simpl never.
Arguments N.sub : simpl never.
Arguments N.mul : simpl never.
Arguments N.div : simpl never.
Arguments N.eqb : simpl never.
Arguments N.ltb : simpl never.
Arguments N.leb : simpl never.
Arguments N.max : simpl never.
Arguments N.pow : simpl never.

(* ------------------------------------------------------------------ *)
(** * The atomic actions as pieces of the sequential model *)

(* without the membership test: the same function as long as queue and store agree *)
Lemma ainval_keys_eq : forall ks m q,
    Struct m q -> ainval_keys ks m q = inval_keys ks m q.
Proof.
  induction ks as [|k ks IH]; intros m q HS; cbn [ainval_keys inval_keys]; [reflexivity|].
  destruct (mem k m) eqn:Ek.
  - apply IH. apply Struct_remove_first. exact HS.
  - apply mem_false in Ek.
    assert (Hq : ~ In k q) by (intro Hq; apply Ek; apply HS; exact Hq).
    rewrite (sremove_notin k m Ek), (remove_first_notin k q Hq).
    apply IH. exact HS.
Qed.

Lemma astep_insert_step : forall c now s wm k v sz ch,
    astep c now s (A_insert wm k v sz ch) =
    fst (step c now s (if wm then InsMem k v sz else Ins k v sz) ch).
Proof. intros c now s wm k v sz ch. destruct wm; reflexivity. Qed.

Lemma astep_inval_step : forall c now s ks ch,
    Struct (st_store s) (st_queue s) ->
    astep c now s (A_inval ks) = fst (step c now s (InvalWith ks) ch).
Proof.
  intros c now s ks ch HS. unfold astep, step; cbv zeta.
  rewrite (ainval_keys_eq ks _ _ HS).
  destruct (inval_keys ks (st_store s) (st_queue s)) as [m' q']. reflexivity.
Qed.

Lemma mem_supdate : forall k x f m, mem x (supdate k f m) = mem x m.
Proof. intros k x f m. rewrite !mem_inb, keys_supdate. reflexivity. Qed.

Lemma lookup_mem_true : forall k m e, lookup k m = Some e -> mem k m = true.
Proof. intros k m e H. unfold mem. rewrite H. reflexivity. Qed.

(* ------------------------------------------------------------------ *)
(** * InvA *)

Theorem astep_InvA : forall c now s a,
    is_async c = true -> wf_cfg c = true -> InvA c s -> InvA c (astep c now s a).
Proof.
  intros c now s a Ha Hwf HI.
  pose proof (InvA_Struct c s HI) as HS.
  destruct a as [wm k v sz ch|k|k|k| |ks].
  - rewrite astep_insert_step. apply invA_step; assumption.
  - unfold astep; cbv zeta. apply InvA_intro; cbn [st_store st_queue].
    + apply (Struct_same_keys (st_store s)); [exact HS|apply keys_supdate].
    + intros L HL H1. rewrite length_supdate. apply (InvA_limit c s L HI HL H1).
  - unfold astep; cbv zeta. destruct (mem k (st_store s)) eqn:Ek; [|exact HI].
    apply mem_In in Ek.
    apply InvA_intro; cbn [st_store st_queue].
    + apply (Struct_same_queue _ (st_queue s)); [exact HS| |].
      * apply NoDup_push_back; [apply NoDup_remove_all; apply HS|].
        rewrite In_remove_all. tauto.
      * intro x. rewrite In_push_back, In_remove_all.
        destruct (N.eq_dec x k) as [E|E]; [subst x|tauto].
        split; [intros _; apply HS; exact Ek|intros _; right; reflexivity].
    + intros L HL H1. apply (InvA_limit c s L HI HL H1).
  - unfold astep; cbv zeta. destruct (lookup k (st_store s)) as [e|] eqn:El; [|exact HI].
    destruct (expired c now e); [|exact HI].
    apply InvA_intro; cbn [st_store st_queue].
    + apply Struct_remove_all. exact HS.
    + intros L HL H1. pose proof (InvA_limit c s L HI HL H1) as Hb.
      pose proof (length_sremove_le k (st_store s)) as Hle. lia.
  - unfold astep; cbv zeta. apply InvA_intro; cbn [st_store st_queue]; [apply Struct_nil|].
    intros L _ H1. cbn [length]. lia.
  - rewrite (astep_inval_step c now s ks [] HS). apply invA_step; assumption.
Qed.

Lemma arun_InvA_from : forall c l s,
    is_async c = true -> wf_cfg c = true -> InvA c s -> InvA c (arun c s l).
Proof.
  intros c l. induction l as [|[now a] l IH]; intros s Ha Hwf HI; cbn [arun]; [exact HI|].
  apply IH; try assumption. apply astep_InvA; assumption.
Qed.

Theorem arun_InvA : forall c l,
    is_async c = true -> wf_cfg c = true -> InvA c (arun c init l).
Proof. intros c l Ha Hwf. apply arun_InvA_from; try assumption. apply invA_init. Qed.

(* ------------------------------------------------------------------ *)
(** * Values: whatever is stored under k is f k *)

Definition ValsF (f : key -> N) (s : state) : Prop :=
  forall k e, lookup k (st_store s) = Some e -> e_val e = f k.

Lemma lookup_sremove_Some : forall x k m e,
    lookup x (sremove k m) = Some e -> lookup x m = Some e.
Proof.
  intros x k m e H. destruct (N.eq_dec x k) as [E|E].
  - subst x. rewrite lookup_sremove_eq in H. discriminate.
  - rewrite lookup_sremove_neq in H by exact E. exact H.
Qed.

Lemma ainval_keys_lookup : forall ks m q x e,
    lookup x (fst (ainval_keys ks m q)) = Some e -> lookup x m = Some e.
Proof.
  induction ks as [|k ks IH]; intros m q x e H; cbn [ainval_keys] in H; [exact H|].
  apply IH in H. apply lookup_sremove_Some in H. exact H.
Qed.

Lemma lookup_supdate_bump_val : forall x k m e,
    lookup x (supdate k bump m) = Some e ->
    exists e0, lookup x m = Some e0 /\ e_val e = e_val e0.
Proof.
  intros x k m e H. destruct (N.eq_dec x k) as [E|E].
  - subst x. rewrite lookup_supdate_eq in H.
    destruct (lookup k m) as [e0|]; cbn [option_map] in H; [|discriminate].
    exists e0. split; [reflexivity|]. inversion H; subst e. reflexivity.
  - rewrite lookup_supdate_neq in H by exact E. exists e. split; [exact H|reflexivity].
Qed.

(* the async store: an entry of the result is the new one or was there before *)
Lemma insert_async_lookup : forall c now wm k v sz m q ch m' q' x e,
    Struct m q -> insert_async c now wm k v sz m q ch = (m', q') ->
    lookup x m' = Some e -> (x = k /\ e_val e = v) \/ lookup x m = Some e.
Proof.
  intros c now wm k v sz m q ch m' q' x e HS H Hl.
  destruct (insert_async_Shrunk _ _ _ _ _ _ _ _ _ _ _ HS H)
    as [(Hm & Hq)|(m3 & q3 & Hsh & Hm & Hq)]; subst m' q'.
  - right. apply (lookup_sremove_Some x k). exact Hl.
  - destruct (N.eq_dec x k) as [E|E].
    + subst x. rewrite lookup_upsert_eq in Hl. inversion Hl; subst e.
      left. split; reflexivity.
    + rewrite lookup_upsert_neq in Hl by exact E. right.
      pose proof (lookup_Some_In x m3 e Hl) as Hin.
      rewrite (Shrunk_lookup _ _ _ _ x Hsh Hin) in Hl.
      apply (lookup_sremove_Some x k). exact Hl.
Qed.

Lemma astep_ValsF : forall c f now s a,
    is_async c = true -> Struct (st_store s) (st_queue s) ->
    astores_f f a -> ValsF f s -> ValsF f (astep c now s a).
Proof.
  intros c f now s a Ha HS Hf HV x e Hl.
  destruct a as [wm k v sz ch|k|k|k| |ks].
  - cbn [astores_f] in Hf. unfold astep in Hl. rewrite insert_eq in Hl.
    rewrite Ha in Hl. cbn [st_store] in Hl.
    destruct (insert_async c now wm k v sz (st_store s) (st_queue s) ch) as [m' q'] eqn:E.
    cbn [fst] in Hl.
    destruct (insert_async_lookup _ _ _ _ _ _ _ _ _ _ _ x e HS E Hl) as [(Hx & Hv)|Hold].
    + subst x. rewrite Hv. exact Hf.
    + apply HV. exact Hold.
  - unfold astep in Hl; cbv zeta in Hl. cbn [st_store] in Hl.
    destruct (lookup_supdate_bump_val _ _ _ _ Hl) as (e0 & H0 & Hv).
    rewrite Hv. apply HV. exact H0.
  - unfold astep in Hl; cbv zeta in Hl.
    destruct (mem k (st_store s)); [cbn [st_store] in Hl|]; apply HV; exact Hl.
  - unfold astep in Hl; cbv zeta in Hl.
    destruct (lookup k (st_store s)) as [e1|]; [|apply HV; exact Hl].
    destruct (expired c now e1); [|apply HV; exact Hl].
    cbn [st_store] in Hl. apply HV. apply (lookup_sremove_Some x k). exact Hl.
  - unfold astep in Hl; cbv zeta in Hl. cbn [st_store lookup] in Hl. discriminate.
  - unfold astep in Hl; cbv zeta in Hl.
    destruct (ainval_keys ks (st_store s) (st_queue s)) as [m' q'] eqn:E.
    cbn [st_store] in Hl. apply HV. apply (ainval_keys_lookup ks _ (st_queue s)).
    rewrite E. cbn [fst]. exact Hl.
Qed.

Lemma arun_ValsF_from : forall c f l s,
    is_async c = true -> wf_cfg c = true ->
    Forall (fun p => astores_f f (snd p)) l ->
    InvA c s -> ValsF f s -> ValsF f (arun c s l).
Proof.
  intros c f l. induction l as [|[now a] l IH]; intros s Ha Hwf Hl HI HV; cbn [arun]; [exact HV|].
  inversion Hl as [|p l' Hp Hl']; subst. cbn [snd] in Hp.
  apply IH; try assumption.
  - apply astep_InvA; assumption.
  - apply astep_ValsF; try assumption. apply (InvA_Struct c s HI).
Qed.

Theorem arun_values : forall c f l,
    is_async c = true -> wf_cfg c = true ->
    Forall (fun p => astores_f f (snd p)) l ->
    forall k e, lookup k (st_store (arun c init l)) = Some e -> e_val e = f k.
Proof.
  intros c f l Ha Hwf Hl.
  apply (arun_ValsF_from c f l init Ha Hwf Hl (invA_init c)).
  intros k e H. cbn [init st_store lookup] in H. discriminate.
Qed.

(* ------------------------------------------------------------------ *)
(** * InvM: the memory bound *)

Theorem astep_InvM : forall c now s a,
    is_async c = true -> wf_cfg c = true -> amem_only a ->
    InvA c s -> InvM c s -> InvM c (astep c now s a).
Proof.
  intros c now s a Ha Hwf Hm HI HMm.
  pose proof (InvA_Struct c s HI) as HS.
  destruct a as [wm k v sz ch|k|k|k| |ks].
  - cbn [amem_only] in Hm. subst wm. rewrite astep_insert_step.
    apply invM_step; [exact Hwf|exact I|exact HI|exact HMm].
  - intros M HM. unfold astep; cbv zeta. cbn [st_store].
    rewrite total_size_supdate_bump. apply HMm. exact HM.
  - unfold astep; cbv zeta. destruct (mem k (st_store s)); [|exact HMm].
    intros M HM. cbn [st_store]. apply HMm. exact HM.
  - unfold astep; cbv zeta. destruct (lookup k (st_store s)) as [e|]; [|exact HMm].
    destruct (expired c now e); [|exact HMm].
    intros M HM. cbn [st_store]. pose proof (HMm M HM) as Hb.
    pose proof (total_size_sremove_le k (st_store s)) as Hle. lia.
  - intros M HM. unfold astep; cbv zeta. cbn [st_store total_size fold_right]. lia.
  - rewrite (astep_inval_step c now s ks [] HS).
    apply invM_step; [exact Hwf|exact I|exact HI|exact HMm].
Qed.

Lemma arun_InvM_from : forall c l s,
    is_async c = true -> wf_cfg c = true ->
    Forall (fun p => amem_only (snd p)) l ->
    InvA c s -> InvM c s -> InvM c (arun c s l).
Proof.
  intros c l. induction l as [|[now a] l IH]; intros s Ha Hwf Hl HI HMm; cbn [arun]; [exact HMm|].
  inversion Hl as [|p l' Hp Hl']; subst. cbn [snd] in Hp.
  apply IH; try assumption.
  - apply astep_InvA; assumption.
  - apply astep_InvM; assumption.
Qed.

Theorem arun_InvM : forall c l,
    is_async c = true -> wf_cfg c = true ->
    Forall (fun p => amem_only (snd p)) l -> InvM c (arun c init l).
Proof.
  intros c l Ha Hwf Hl.
  apply arun_InvM_from; try assumption; [apply invA_init|apply invM_init].
Qed.

(* ------------------------------------------------------------------ *)
(** * The sequential async model is the one-task-at-a-time case *)

(* the sequential async model (the one validated step by step against the real engine) is
   the special case "one task at a time": each of its steps is a short run of atomic actions *)
Theorem seq_async_step_is_arun : forall c now s o ch,
    is_async c = true -> InvA c s ->
    exists l, Forall (fun p => fst p = now) l /\
      st_store (arun c s l) = st_store (fst (step c now s o ch)) /\
      st_queue (arun c s l) = st_queue (fst (step c now s o ch)).
Proof.
  intros c now s o ch Ha HI.
  pose proof (InvA_Struct c s HI) as HS.
  destruct o as [k|k v sz|k v sz|k| |ks].
  - (* Get: nothing / A_expire / A_bump and A_touch as the policy asks *)
    cbn [step]. destruct (get c now k s) as [s' r] eqn:E. cbn [fst].
    unfold get in E. rewrite Ha in E.
    destruct (lookup k (st_store s)) as [e|] eqn:El.
    + pose proof (lookup_mem_true _ _ _ El) as Hmem.
      destruct (expired c now e) eqn:Ee.
      * exists [(now, A_expire k)]. injection E as Es Er. subst s'.
        split; [repeat constructor|].
        cbn [arun]. unfold astep; cbv zeta. rewrite El, Ee.
        cbn [st_store st_queue]. split; reflexivity.
      * exists ((if counts_hits (pol c) then [(now, A_bump k)] else []) ++
                (if tracks_recency (pol c) then [(now, A_touch k)] else [])).
        injection E as Es Er. subst s'.
        destruct (counts_hits (pol c)); destruct (tracks_recency (pol c)); cbn [app arun].
        -- split; [repeat constructor|].
           unfold astep; cbv zeta. cbn [st_store st_queue st_hits st_misses].
           rewrite mem_supdate, Hmem. cbn [st_store st_queue]. split; reflexivity.
        -- split; [repeat constructor|].
           unfold astep; cbv zeta. cbn [st_store st_queue]. split; reflexivity.
        -- split; [repeat constructor|].
           unfold astep; cbv zeta. rewrite Hmem. cbn [st_store st_queue]. split; reflexivity.
        -- split; [constructor|]. cbn [st_store st_queue]. split; reflexivity.
    + exists []. injection E as Es Er. subst s'.
      split; [constructor|]. cbn [arun st_store st_queue]. split; reflexivity.
  - exists [(now, A_insert false k v sz ch)]. split; [repeat constructor|].
    cbn [arun step fst]. split; reflexivity.
  - exists [(now, A_insert true k v sz ch)]. split; [repeat constructor|].
    cbn [arun step fst]. split; reflexivity.
  - exists []. split; [constructor|]. cbn [arun step fst]. split; reflexivity.
  - exists [(now, A_clear)]. split; [repeat constructor|].
    cbn [arun step fst]. split; reflexivity.
  - exists [(now, A_inval ks)]. split; [repeat constructor|].
    cbn [arun]. rewrite (astep_inval_step c now s ks ch HS). split; reflexivity.
Qed.

Print Assumptions astep_InvA.
Print Assumptions arun_InvA.
Print Assumptions arun_values.
Print Assumptions astep_InvM.
Print Assumptions arun_InvM.
Print Assumptions seq_async_step_is_arun.
