From CL Require Import AsyncCall.
Open Scope N_scope.

(* an uninterrupted call is exactly lookup followed by store at the same instant *)
Theorem call_is_lookup_then_finish :
  forall w now s i,
    call w now s i =
    match call_lookup w now s i with
    | (s1, Some out, _) => (s1, out)
    | (s1, None, a) => call_finish w now s1 i a
    end.
Proof.
  intros w now s i. unfold call, call_lookup, call_finish.
  destruct (get (w_cfg w) now (ci_key i) s) as [s1 r].
  destruct r as [v|]; [|reflexivity].
  destruct (w_inval_on w); [destruct (ci_inv i)|]; reflexivity.
Qed.

(* a call dropped while suspended has changed the cache exactly as its lookup did *)
Theorem dropped_call_is_lookup_only :
  forall w now s i s1 a,
    call_lookup w now s i = (s1, None, a) -> s1 = fst (get (w_cfg w) now (ci_key i) s).
Proof.
  intros w now s i s1 a H. unfold call_lookup in H.
  destruct (get (w_cfg w) now (ci_key i) s) as [s0 r]. cbn [fst].
  destruct r as [v|].
  - destruct (w_inval_on w); [destruct (ci_inv i)|]; inversion H; reflexivity.
  - inversion H; reflexivity.
Qed.

(* resuming later stores the result exactly as an uninterrupted call would in that later state:
   the store phase does not depend on anything the lookup phase computed except the log *)
Theorem resumed_call_stores_normally :
  forall w now' s' i a a',
    fst (call_finish w now' s' i a) = fst (call_finish w now' s' i a') /\
    co_ret (snd (call_finish w now' s' i a)) = ci_body i /\
    co_exec (snd (call_finish w now' s' i a)) = true.
Proof. intros. unfold call_finish. cbn. repeat split. Qed.

(* the store phase of a call whose body produced nothing storable leaves no entry behind *)
Theorem finish_without_store_changes_nothing :
  forall w now s i a, store_decision w i = false -> fst (call_finish w now s i a) = s.
Proof. intros w now s i a H. unfold call_finish. rewrite H. reflexivity. Qed.
