(* PfC01.v — C01: a lookup that returns a value returns the value of the latest store
   of that key, and every stored value is the latest stored one. *)
From CL Require Export PfInvG.
From Coq Require Import Lia.
Open Scope N_scope.

Arguments N.add : simpl never.
Arguments N.sub : simpl never.
Arguments N.mul : simpl never.
Arguments N.div : simpl never.
Arguments N.eqb : simpl never.
Arguments N.ltb : simpl never.
Arguments N.leb : simpl never.
Arguments N.pow : simpl never.

Lemma In_lookup : forall k e m, NoDup (keys m) -> In (k, e) m -> lookup k m = Some e.
Proof.
  intros k e m. induction m as [|[k' e'] m IH]; intros Hnd Hin; [destruct Hin|].
  cbn [keys map fst] in Hnd. fold (keys m) in Hnd.
  inversion Hnd as [|x l Hx Hnd']; subst. cbn [lookup].
  destruct Hin as [Hin|Hin].
  - inversion Hin; subst. rewrite N.eqb_refl. reflexivity.
  - destruct (N.eqb_spec k k') as [E|E].
    + subst k'. exfalso. apply Hx. unfold keys. apply (in_map fst m (k, e)). exact Hin.
    + apply IH; assumption.
Qed.

(* every stored value is the ghost's value *)
Lemma InvG_values : forall c idx s g,
    NoDup (keys (st_store s)) -> InvG c idx s g ->
    forallb (fun p => match glookup (fst p) g with
                      | Some i => N.eqb (e_val (snd p)) (g_val i)
                      | None => false end) (st_store s) = true.
Proof.
  intros c idx s g Hnd HG. apply forallb_forall. intros [k e] Hin. cbn [fst snd].
  destruct (HG k e (In_lookup k e _ Hnd Hin)) as (i & Hi & Hv & _).
  rewrite Hi. apply N.eqb_eq. exact Hv.
Qed.

(* a successful lookup returns the value of a stored entry *)
Lemma get_Some : forall c now k s v,
    snd (get c now k s) = Some v ->
    exists e, lookup k (st_store s) = Some e /\ expired c now e = false /\ v = e_val e.
Proof.
  intros c now k s v H.
  destruct (get_cases c now k s)
    as [(Hl & Hg)|[(e & Hl & Hex & Hg)|(e & Hl & Hex & Hout & _)]].
  - rewrite Hg in H. discriminate.
  - rewrite Hg in H. discriminate.
  - rewrite Hout in H. inversion H. exists e. repeat split; assumption.
Qed.

Lemma c01_one : forall c now s o ch g idx,
    wf_cfg c = true -> InvA c s -> InvG c idx s g ->
    c01_step c g idx (mkObs s now o (snd (step c now s o ch)) (fst (step c now s o ch))) = true.
Proof.
  intros c now s o ch g idx Hwf HA HG. unfold c01_step.
  apply andb_true_iff. split.
  - cbn [ob_op ob_out]. destruct o as [k|k v sz|k v sz|k| |ks]; try reflexivity.
    cbn [step]. destruct (get c now k s) as [s' r] eqn:E. cbn [snd].
    destruct r as [v|]; [|reflexivity].
    destruct (get_Some c now k s v) as (e & Hl & _ & Hv); [rewrite E; reflexivity|].
    destruct (HG k e Hl) as (i & Hi & Hval & _). rewrite Hi. apply N.eqb_eq. congruence.
  - cbn [ob_post].
    apply (InvG_values c (idx + 1)).
    + apply (InvA_Struct c _ (invA_step c now s o ch Hwf HA)).
    + apply invG_step; assumption.
Qed.

Theorem c01_holds : forall c h,
    wf_cfg c = true -> check_trace c01_step c (trace c 0 init h) = true.
Proof.
  intros c h Hwf.
  apply (lift c c01_step (fun idx s g => InvA c s /\ InvG c idx s g));
    [|split; [apply invA_init|apply invG_init]].
  intros now idx s g o ch [HA HG]. cbv zeta. split.
  - apply c01_one; assumption.
  - split; [apply invA_step; assumption|apply invG_step; assumption].
Qed.

Print Assumptions c01_holds.
