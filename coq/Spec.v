(* Spec.v — the properties C01, C04–C08, C13, C15 as decidable predicates over a
   trace of observations (state before, virtual time, operation, output, state after).
   They consult only (a) the observable snapshots and (b) a ghost record per key that
   is recomputed from the history of operations and outputs alone — never from the
   engine's own queue or counters.  The same functions are (1) proved true of every
   trace of the model (Proofs*.v, Props/*.v) and (2) extracted and evaluated on the
   traces recorded from the Rust implementation.  No proofs in this file. *)
From CL Require Export SeqModel.
Open Scope N_scope.

(* ---------- ghost bookkeeping, from the history only ---------- *)
Record ginfo := mkG {
  g_val    : N;    (* value of the latest store of the key *)
  g_born   : N;    (* virtual time of the latest store *)
  g_stored : N;    (* index of the latest store *)
  g_used   : N;    (* index of the latest store or successful lookup *)
  g_hits   : N     (* successful lookups since the latest store *)
}.
Definition ghost := list (key * ginfo).

Fixpoint glookup (k : key) (g : ghost) : option ginfo :=
  match g with
  | [] => None
  | (k', i) :: g' => if N.eqb k k' then Some i else glookup k g'
  end.

Fixpoint gremove (k : key) (g : ghost) : ghost :=
  match g with
  | [] => []
  | (k', i) :: g' => if N.eqb k k' then gremove k g' else (k', i) :: gremove k g'
  end.

Definition gset (k : key) (i : ginfo) (g : ghost) : ghost := (k, i) :: gremove k g.

(* [idx] = 1-based index of the observation *)
Definition ghost_step (c : cfg) (g : ghost) (idx : N) (o : obs) : ghost :=
  match ob_op o with
  | Ins k v _ | InsMem k v _ => gset k (mkG v (birth c (ob_now o)) idx idx 0) g
  | Get k =>
      match ob_out o, glookup k g with
      | OVal (Some _), Some i => gset k (mkG (g_val i) (g_born i) (g_stored i) idx (g_hits i + 1)) g
      | _, _ => g
      end
  | _ => g
  end.

(* ---------- small list library ---------- *)
Fixpoint inb (k : key) (l : list key) : bool :=
  match l with [] => false | x :: l' => if N.eqb k x then true else inb k l' end.

Definition diff (a b : list key) : list key := filter (fun k => negb (inb k b)) a.
Definition subset (a b : list key) : bool := forallb (fun k => inb k b) a.
Definition same_set (a b : list key) : bool := subset a b && subset b a.

Fixpoint nodupb (l : list key) : bool :=
  match l with [] => true | x :: l' => negb (inb x l') && nodupb l' end.

Definition entry_eqb (a b : entry) : bool :=
  N.eqb (e_val a) (e_val b) && N.eqb (e_size a) (e_size b) &&
  N.eqb (e_born a) (e_born b) && N.eqb (e_freq a) (e_freq b).

Definition opt_entry_eqb (a b : option entry) : bool :=
  match a, b with
  | Some x, Some y => entry_eqb x y
  | None, None => true
  | _, _ => false
  end.

Fixpoint list_eqb (a b : list key) : bool :=
  match a, b with
  | [], [] => true
  | x :: a', y :: b' => N.eqb x y && list_eqb a' b'
  | _, _ => false
  end.

Definition skeys (s : state) : list key := keys (st_store s).
Definition slen (s : state) : N := N.of_nat (length (st_store s)).

Definition store_key (o : op) : option key :=
  match o with Ins k _ _ | InsMem k _ _ => Some k | _ => None end.

(* keys that were stored before the operation, or are the key being stored, and are
   not stored afterwards *)
Definition removed (o : obs) : list key :=
  let pre := skeys (ob_pre o) in
  let cand := match store_key (ob_op o) with
              | Some k => if inb k pre then pre else k :: pre
              | None => pre end in
  diff cand (skeys (ob_post o)).

(* removed keys other than the key being stored *)
Definition removed_others (o : obs) : list key :=
  match store_key (ob_op o) with
  | Some k => filter (fun x => negb (N.eqb x k)) (removed o)
  | None => removed o
  end.

Definition has_limit (c : cfg) : bool := is_some (limit c).
Definition has_mem (c : cfg) : bool := is_some (maxmem c).

(* is memory pressure in play for this operation? *)
Definition mem_op (c : cfg) (o : op) : bool :=
  match o with InsMem _ _ _ => has_mem c | _ => false end.

(* =====================  C01  ===================== *)
(* a lookup that returns a value returns the value of the latest store of that key;
   and every stored value is the latest stored one *)
Definition c01_step (c : cfg) (g : ghost) (idx : N) (o : obs) : bool :=
  let g' := ghost_step c g idx o in
  (match ob_op o, ob_out o with
   | Get k, OVal (Some v) =>
       match glookup k g with Some i => N.eqb v (g_val i) | None => false end
   | _, _ => true
   end)
  && forallb (fun p => match glookup (fst p) g' with
                       | Some i => N.eqb (e_val (snd p)) (g_val i)
                       | None => false end) (st_store (ob_post o)).

(* =====================  C04  ===================== *)
Definition c04_step (c : cfg) (g : ghost) (idx : N) (o : obs) : bool :=
  match limit c with
  | None => true
  | Some L =>
      (slen (ob_post o) <=? L)
      && (match ob_op o with
          | Ins k _ _ | InsMem k _ _ =>
              if mem_op c (ob_op o) then true   (* memory pressure: C05 speaks *)
              else
                let overflow := negb (inb k (skeys (ob_pre o))) && (L <=? slen (ob_pre o)) in
                if overflow then Nat.eqb (length (removed o)) 1
                else Nat.eqb (length (removed o)) 0
          | _ => true
          end)
  end.

(* =====================  C05  ===================== *)
Definition size_of_key (m : store) (k : key) : N :=
  match lookup k m with Some e => e_size e | None => 0 end.

Definition max_size (m : store) (ks : list key) : N :=
  fold_right (fun k acc => N.max (size_of_key m k) acc) 0 ks.

Definition c05_step (c : cfg) (g : ghost) (idx : N) (o : obs) : bool :=
  match maxmem c, ob_op o with
  | Some M, InsMem k v sz =>
      let pre := ob_pre o in
      let post := ob_post o in
      (total_size (st_store post) <=? M)
      && (if M <? sz
          then (* oversize: not cached, displaces nothing else *)
            negb (inb k (skeys post))
            && same_set (skeys post) (filter (fun x => negb (N.eqb x k)) (skeys pre))
          else
            let rem := removed o in
            let sizeof := fun x => if N.eqb x k then sz else size_of_key (st_store pre) x in
            let maxrem := fold_right (fun x acc => N.max (sizeof x) acc) 0 rem in
            let tot_before := total_size (sremove k (st_store pre)) + sz in
            let limit_overflow :=
              match limit c with
              | Some L => negb (inb k (skeys pre)) && (L <=? slen pre)
              | None => false end in
            if tot_before <=? M
            then (* it already fits: nothing is evicted for memory *)
              Nat.leb (length rem) (if limit_overflow then 1 else 0)
            else (* evicted only until it fits: with the largest victim still in, it did not *)
              match rem with
              | [] => true
              | _ => (M <? total_size (st_store post) + maxrem)
                     || (match limit c with Some L => L <=? slen post | None => false end)
              end)
  | _, _ => true
  end.

(* =====================  C06  ===================== *)
Definition gexpired (c : cfg) (now : N) (i : ginfo) : bool :=
  match ttl c with
  | None => false
  | Some T =>
      T <=? (if is_async c then now / 1000 - g_born i / 1000 else (now - g_born i) / 1000)
  end.

Definition c06_step (c : cfg) (g : ghost) (idx : N) (o : obs) : bool :=
  match ob_op o with
  | Get k =>
      if inb k (skeys (ob_pre o)) then
        match glookup k g with
        | None => false
        | Some i =>
            if gexpired c (ob_now o) i
            then (match ob_out o with OVal None => true | _ => false end)
                 && negb (inb k (skeys (ob_post o)))
                 && negb (inb k (st_queue (ob_post o)))
                 && N.eqb (st_misses (ob_post o)) (st_misses (ob_pre o) + 1)
                 && N.eqb (st_hits (ob_post o)) (st_hits (ob_pre o))
            else (match ob_out o with OVal (Some v) => N.eqb v (g_val i) | _ => false end)
                 && inb k (skeys (ob_post o))
        end
      else match ob_out o with OVal None => true | _ => false end
  | _ => true
  end.

(* =====================  C07  ===================== *)
Definition gstamp (used : bool) (g : ghost) (k : key) : N :=
  match glookup k g with
  | Some i => if used then g_used i else g_stored i
  | None => 0
  end.

(* every evicted key is older (by the policy's stamp) than every surviving key
   other than the one being stored *)
Definition older_than_survivors (used : bool) (g : ghost) (o : obs) : bool :=
  let surv := match store_key (ob_op o) with
              | Some k => filter (fun x => negb (N.eqb x k)) (skeys (ob_post o))
              | None => skeys (ob_post o) end in
  forallb (fun r => forallb (fun s => gstamp used g r <? gstamp used g s) surv)
          (removed_others o).

Definition c07_step (c : cfg) (g : ghost) (idx : N) (o : obs) : bool :=
  match store_key (ob_op o) with
  | None => true
  | Some k =>
      match pol c with
      | FIFO => older_than_survivors false g o
      | LRU => older_than_survivors true g o
      | _ => true
      end
      (* the key being stored leaves the cache again only when it alone is too large *)
      && (match pol c with
          | FIFO | LRU =>
              if inb k (removed o)
              then match ob_op o, maxmem c with
                   | InsMem _ _ sz, Some M => M <? sz
                   | _, _ => false end
              else true
          | _ => true end)
  end.

(* =====================  C08  ===================== *)
Definition ghits (g : ghost) (k : key) : N :=
  match glookup k g with Some i => g_hits i | None => 0 end.

(* recency rank (1 = least recently used) of k among cands, by the ghost's g_used *)
Definition rank (g : ghost) (cands : list key) (k : key) : N :=
  1 + N.of_nat (length (filter (fun x => gstamp true g x <? gstamp true g k) cands)).

Definition g_af_num (c : cfg) (now : N) (g : ghost) (k : key) : N :=
  match ttl c, glookup k g with
  | Some T, Some i =>
      if is_async c
      then T - N.min (now / 1000 - g_born i / 1000) T
      else 1000 * T - N.min (now - g_born i) (1000 * T)
  | _, _ => 1
  end.

(* documented score, made integral: hits^n * (rank * remaining)^d for weight n/d *)
Definition doc_score (c : cfg) (now : N) (g : ghost) (cands : list key) (k : key) : N :=
  let h := ghits g k in
  match pol c with
  | LFU => h
  | ARC => h * rank g cands k
  | TLRU =>
      let ra := rank g cands k * g_af_num c now g k in
      match fw c with
      | Some (n, d) => N.pow h (Npos n) * N.pow ra (Npos d)
      | None => h * ra
      end
  | _ => 0
  end.

Definition is_minimiser (c : cfg) (now : N) (g : ghost) (cands : list key) (k : key) : bool :=
  forallb (fun x => doc_score c now g cands k <=? doc_score c now g cands x) cands.

(* the removed keys can be put in an order in which each one, when its turn comes,
   minimises the score among the keys still competing (ties broken arbitrarily) *)
Fixpoint evict_order_ok (c : cfg) (now : N) (g : ghost) (cands order : list key) : bool :=
  match order with
  | [] => true
  | r :: rest =>
      inb r cands && is_minimiser c now g cands r
      && evict_order_ok c now g (filter (fun x => negb (N.eqb x r)) cands) rest
  end.

Fixpoint insert_all (x : key) (l : list key) : list (list key) :=
  match l with
  | [] => [[x]]
  | y :: l' => (x :: l) :: map (cons y) (insert_all x l')
  end.

Fixpoint perms (l : list key) : list (list key) :=
  match l with
  | [] => [[]]
  | x :: l' => flat_map (insert_all x) (perms l')
  end.

Definition evict_seq (c : cfg) (now : N) (g : ghost) (cands rem : list key) : bool :=
  existsb (evict_order_ok c now g cands) (perms rem).

Definition c08_step (c : cfg) (g : ghost) (idx : N) (o : obs) : bool :=
  match store_key (ob_op o), counts_hits (pol c) with
  | Some k, true =>
      let g' := ghost_step c g idx o in      (* the newcomer has 0 hits and is the most recent *)
      let pre := skeys (ob_pre o) in
      let oversize := match ob_op o, maxmem c with
                      | InsMem _ _ sz, Some M => M <? sz | _, _ => false end in
      if oversize then true
      else
        let cands :=
          if is_async c then filter (fun x => negb (N.eqb x k)) pre
          else if inb k pre then pre else k :: pre in
        let rem := if is_async c then removed_others o else removed o in
        evict_seq c (ob_now o) g' cands rem
  | _, _ => true
  end.

(* =====================  C13  ===================== *)
Definition c13_step (c : cfg) (g : ghost) (idx : N) (o : obs) : bool :=
  match ob_op o with
  | InvalWith ks =>
      let pre := ob_pre o in
      let post := ob_post o in
      same_set (skeys post) (diff (skeys pre) ks)
      && forallb (fun k => opt_entry_eqb (lookup k (st_store post)) (lookup k (st_store pre)))
                 (skeys post)
      && list_eqb (st_queue post) (filter (fun k => negb (inb k ks)) (st_queue pre))
      && N.eqb (st_hits post) (st_hits pre) && N.eqb (st_misses post) (st_misses pre)
  | _ => true
  end.

(* =====================  C15  ===================== *)
Definition c15_step (c : cfg) (g : ghost) (idx : N) (o : obs) : bool :=
  let pre := ob_pre o in
  let post := ob_post o in
  match ob_op o, ob_out o with
  | Get _, OVal (Some _) =>
      N.eqb (st_hits post) (st_hits pre + 1) && N.eqb (st_misses post) (st_misses pre)
  | Get _, OVal None =>
      N.eqb (st_hits post) (st_hits pre) && N.eqb (st_misses post) (st_misses pre + 1)
  | Get _, OUnit => false
  | _, _ => N.eqb (st_hits post) (st_hits pre) && N.eqb (st_misses post) (st_misses pre)
  end.

(* ---------- structural well-formedness of a snapshot ---------- *)
Definition wf_state (s : state) : bool :=
  nodupb (st_queue s) && nodupb (skeys s) && same_set (st_queue s) (skeys s).

(* ---------- lifting a step predicate to a trace ---------- *)
Definition step_pred := cfg -> ghost -> N -> obs -> bool.

Fixpoint check_from (P : step_pred) (c : cfg) (g : ghost) (idx : N) (tr : list obs) : bool :=
  match tr with
  | [] => true
  | o :: tr' => P c g idx o && check_from P c (ghost_step c g idx o) (idx + 1) tr'
  end.

Definition check_trace (P : step_pred) (c : cfg) (tr : list obs) : bool :=
  check_from P c [] 1 tr.

(* index (1-based) of the first failing observation, 0 if none *)
Fixpoint first_fail (P : step_pred) (c : cfg) (g : ghost) (idx : N) (tr : list obs) : N :=
  match tr with
  | [] => 0
  | o :: tr' => if P c g idx o then first_fail P c (ghost_step c g idx o) (idx + 1) tr' else idx
  end.

(* configurations the properties speak about *)
Definition wf_cfg (c : cfg) : bool :=
  (match limit c with Some L => 1 <=? L | None => true end)
  && (match ttl c with Some T => 1 <=? T | None => true end).
