(* PfInvO.v — the order invariant InvO: the queue is strictly increasing in the policy's
   ghost stamp (last use for LRU/ARC/TLRU, last store for FIFO/LFU/Random).
   Exports the ghost-lookup lemmas and the [increasing] toolkit for PfC07 / PfC08. *)
From CL Require Export PfInvA PfInvG.
From Coq Require Import Lia.
Open Scope N_scope.

Arguments N.add : simpl never.
Arguments N.sub : simpl never.
Arguments N.mul : simpl never.
Arguments N.div : simpl never.
Arguments N.eqb : simpl never.
Arguments N.ltb : simpl never.
Arguments N.leb : simpl never.
Arguments N.pow : simpl never.
Arguments N.min : simpl never.

(* ------------------------------------------------------------------ *)
(** * ghost lookup *)

Lemma glookup_gremove_eq : forall k g, glookup k (gremove k g) = None.
Proof.
  intros k g. induction g as [|[k' i] g IH]; cbn [gremove glookup]; [reflexivity|].
  destruct (N.eqb k k') eqn:E; [exact IH|]. cbn [glookup]. rewrite E. exact IH.
Qed.

Lemma glookup_gremove_neq : forall x k g, x <> k -> glookup x (gremove k g) = glookup x g.
Proof.
  intros x k g Hne. induction g as [|[k' i] g IH]; cbn [gremove glookup]; [reflexivity|].
  destruct (N.eqb_spec k k') as [E|E].
  - subst k'. destruct (N.eqb_spec x k) as [E'|E']; [contradiction|exact IH].
  - cbn [glookup]. rewrite IH. reflexivity.
Qed.

Lemma glookup_gset_eq : forall k i g, glookup k (gset k i g) = Some i.
Proof. intros. unfold gset. cbn [glookup]. rewrite N.eqb_refl. reflexivity. Qed.

Lemma glookup_gset_neq : forall x k i g, x <> k -> glookup x (gset k i g) = glookup x g.
Proof.
  intros x k i g Hne. unfold gset. cbn [glookup].
  destruct (N.eqb_spec x k) as [E|E]; [contradiction|]. apply glookup_gremove_neq. exact Hne.
Qed.

Lemma gstamp_gset_eq : forall u k i g,
    gstamp u (gset k i g) k = if u then g_used i else g_stored i.
Proof. intros. unfold gstamp. rewrite glookup_gset_eq. reflexivity. Qed.

Lemma gstamp_gset_neq : forall u x k i g, x <> k -> gstamp u (gset k i g) x = gstamp u g x.
Proof. intros. unfold gstamp. rewrite glookup_gset_neq by assumption. reflexivity. Qed.

(* the ghost after a store *)
Lemma ghost_step_store : forall c g idx s now o r s' k,
    store_key o = Some k ->
    exists v, ghost_step c g idx (mkObs s now o r s') = gset k (mkG v (birth c now) idx idx 0) g.
Proof.
  intros c g idx s now o r s' k H.
  destruct o as [k0|k0 v sz|k0 v sz|k0| |ks]; cbn [store_key] in H; try discriminate H;
    inversion H; subst k0; exists v; reflexivity.
Qed.

(* ------------------------------------------------------------------ *)
(** * increasing *)

Lemma increasing_ext : forall (f f' : key -> N) q,
    (forall x, In x q -> f x = f' x) -> increasing f q -> increasing f' q.
Proof.
  intros f f' q. induction q as [|a q IH]; intros He H; cbn [increasing] in *; [exact I|].
  destruct H as [Ha Hq]. split.
  - intros k' Hk'. rewrite <- (He a (or_introl eq_refl)), <- (He k' (or_intror Hk')).
    apply Ha. exact Hk'.
  - apply IH; [|exact Hq]. intros x Hx. apply He. right. exact Hx.
Qed.

Lemma increasing_filter : forall (f : key -> N) (p : key -> bool) q,
    increasing f q -> increasing f (filter p q).
Proof.
  intros f p q. induction q as [|a q IH]; intro H; cbn [filter]; [exact I|].
  cbn [increasing] in H. destruct H as [Ha Hq].
  destruct (p a); [|apply IH; exact Hq]. cbn [increasing]. split; [|apply IH; exact Hq].
  intros k' Hk'. apply filter_In in Hk'. apply Ha. apply Hk'.
Qed.

Lemma increasing_remove_all : forall (f : key -> N) k q,
    increasing f q -> increasing f (remove_all k q).
Proof. intros f k q H. rewrite remove_all_filter. apply increasing_filter. exact H. Qed.

Lemma increasing_push_back : forall (f : key -> N) k q,
    increasing f q -> (forall x, In x q -> f x < f k) -> increasing f (push_back k q).
Proof.
  intros f k q. unfold push_back. induction q as [|a q IH]; intros H Hlt; cbn [app increasing].
  - split; [intros k' []|exact I].
  - cbn [increasing] in H. destruct H as [Ha Hq]. split.
    + intros k' Hk'. apply in_app_iff in Hk'. destruct Hk' as [Hk'|[Hk'|[]]].
      * apply Ha. exact Hk'.
      * subst k'. apply Hlt. left. reflexivity.
    + apply IH; [exact Hq|]. intros x Hx. apply Hlt. right. exact Hx.
Qed.

Lemma increasing_app_lt : forall (f : key -> N) a b r s,
    increasing f (a ++ b) -> In r a -> In s b -> f r < f s.
Proof.
  intros f a b r s. induction a as [|x a IH]; intros H Hr Hs; [destruct Hr|].
  cbn [app increasing] in H. destruct H as [Hx Hq]. destruct Hr as [Hr|Hr].
  - subst x. apply Hx. apply in_app_iff. right. exact Hs.
  - apply IH; assumption.
Qed.

Lemma increasing_app_r : forall (f : key -> N) a b, increasing f (a ++ b) -> increasing f b.
Proof.
  intros f a b. induction a as [|x a IH]; intro H; [exact H|].
  cbn [app increasing] in H. apply IH. apply H.
Qed.

(* changing the ghost of a key that is not in the queue *)
Lemma increasing_gset_notin : forall u g k i q,
    ~ In k q -> increasing (gstamp u g) q -> increasing (gstamp u (gset k i g)) q.
Proof.
  intros u g k i q Hk H. apply (increasing_ext (gstamp u g)); [|exact H].
  intros x Hx. symmetry. apply gstamp_gset_neq. intro E. subst x. contradiction.
Qed.

(* the operated key goes to the back with a fresh, largest stamp *)
Lemma increasing_requeue : forall u g k i q idx,
    increasing (gstamp u g) q ->
    (forall x, In x q -> gstamp u g x < idx) ->
    (if u then g_used i else g_stored i) = idx ->
    increasing (gstamp u (gset k i g)) (push_back k (remove_all k q)).
Proof.
  intros u g k i q idx H Hlt Hi. apply increasing_push_back.
  - apply increasing_gset_notin; [rewrite In_remove_all; tauto|].
    apply increasing_remove_all. exact H.
  - intros x Hx. apply In_remove_all in Hx. destruct Hx as [Hx Hne].
    rewrite gstamp_gset_neq by exact Hne. rewrite gstamp_gset_eq, Hi. apply Hlt. exact Hx.
Qed.

(* every queue key carries a stamp below the index of the next observation *)
Lemma stamp_lt_idx : forall c idx s g u x,
    InvA c s -> InvG c idx s g -> In x (st_queue s) -> gstamp u g x < idx.
Proof.
  intros c idx s g u x HA HG Hx.
  destruct HA as (_ & _ & Hiff & _). apply Hiff in Hx.
  destruct (In_keys_lookup _ _ Hx) as [e He].
  destruct (HG x e He) as (i & Hi & _ & _ & _ & Hs & Hu & _).
  unfold gstamp. rewrite Hi. destruct u; assumption.
Qed.

(* ------------------------------------------------------------------ *)
(** * InvO: initial state and preservation *)

Lemma invO_init : forall c, InvO c init [].
Proof. intro c. exact I. Qed.

Lemma invO_store : forall c now idx s g (wm : bool) k v sz ch,
    InvA c s -> InvG c idx s g -> InvO c s g ->
    InvO c (insert c now wm k v sz s ch) (gset k (mkG v (birth c now) idx idx 0) g).
Proof.
  intros c now idx s g wm k v sz ch HA HG HO.
  pose proof (InvA_Struct c s HA) as HS.
  set (u := tracks_recency (pol c)). set (i := mkG v (birth c now) idx idx 0).
  assert (Hreq : increasing (gstamp u (gset k i g)) (push_back k (remove_all k (st_queue s)))).
  { apply (increasing_requeue u g k i (st_queue s) idx).
    - exact HO.
    - intros x Hx. apply (stamp_lt_idx c idx s g u x HA HG Hx).
    - destruct u; reflexivity. }
  unfold InvO. fold u. rewrite insert_eq. cbn [st_queue].
  destruct (is_async c).
  - destruct (insert_async c now wm k v sz (st_store s) (st_queue s) ch) as [m' q'] eqn:E.
    cbn [snd].
    destruct (insert_async_Shrunk _ _ _ _ _ _ _ _ _ _ _ HS E) as [(Hm & Hq)|(m3 & q3 & Hsh & Hm & Hq)].
    + subst q'. apply increasing_gset_notin; [rewrite In_remove_all; tauto|].
      apply increasing_remove_all. exact HO.
    + subst q'. rewrite (Shrunk_queue _ _ _ _ Hsh).
      assert (Hk : ~ In k (keys m3)) by apply (Shrunk_fresh _ _ _ _ _ Hsh).
      replace (push_back k (filter (fun x => inb x (keys m3)) (remove_all k (st_queue s))))
        with (filter (fun x => inb x (keys m3) || N.eqb x k) (push_back k (remove_all k (st_queue s)))).
      * apply increasing_filter. exact Hreq.
      * rewrite filter_push_back. rewrite N.eqb_refl, orb_true_r. unfold push_back. f_equal.
        apply filter_ext_in. intros x Hx. apply In_remove_all in Hx.
        destruct (N.eqb_spec x k) as [Ex|Ex]; [tauto|]. apply orb_false_r.
  - destruct (insert_sync c now wm k v sz (st_store s) (st_queue s) ch) as [m' q'] eqn:E.
    cbn [snd].
    rewrite (Shrunk_queue _ _ _ _ (insert_sync_Shrunk _ _ _ _ _ _ _ _ _ _ _ HS E)).
    apply increasing_filter.
    rewrite remove_first_remove_all by apply HS. exact Hreq.
Qed.

Lemma invO_step : forall c now idx s g o ch,
    wf_cfg c = true -> InvA c s -> InvG c idx s g -> InvO c s g ->
    InvO c (fst (step c now s o ch))
         (ghost_step c g idx (mkObs s now o (snd (step c now s o ch)) (fst (step c now s o ch)))).
Proof.
  intros c now idx s g o ch Hwf HA HG HO.
  pose proof (InvA_Struct c s HA) as HS.
  destruct o as [k|k v sz|k v sz|k| |ks]; cbn [step].
  - (* Get *)
    destruct (get c now k s) as [s' r] eqn:E. cbn [fst snd].
    unfold ghost_step. cbn [ob_op ob_out]. unfold get in E.
    destruct (lookup k (st_store s)) as [e|] eqn:El.
    + assert (Hkq : In k (st_queue s)) by (apply HS; apply (lookup_Some_In k _ e); exact El).
      destruct (expired c now e).
      * inversion E; subst s' r. unfold InvO. cbn [st_queue].
        replace (if is_async c then remove_all k (st_queue s) else remove_first k (st_queue s))
          with (remove_all k (st_queue s))
          by (destruct (is_async c); [reflexivity|symmetry; apply remove_first_remove_all; apply HS]).
        apply increasing_remove_all. exact HO.
      * inversion E; subst s' r. clear E.
        destruct (HG k e El) as (i & Hi & _). rewrite Hi.
        unfold InvO. cbn [st_queue].
        destruct (tracks_recency (pol c)) eqn:Et.
        -- replace (if is_async c then push_back k (remove_all k (st_queue s)) else move_to_end k (st_queue s))
             with (push_back k (remove_all k (st_queue s))).
           ++ apply (increasing_requeue true g k _ (st_queue s) idx).
              ** unfold InvO in HO. rewrite Et in HO. exact HO.
              ** intros x Hx. apply (stamp_lt_idx c idx s g true x HA HG Hx).
              ** reflexivity.
           ++ destruct (is_async c); [reflexivity|].
              rewrite move_to_end_in by exact Hkq.
              rewrite remove_first_remove_all by apply HS. reflexivity.
        -- unfold InvO in HO. rewrite Et in HO.
           apply (increasing_ext (gstamp false g)); [|exact HO].
           intros x _. destruct (N.eq_dec x k) as [Ex|Ex].
           ++ subst x. rewrite gstamp_gset_eq. unfold gstamp. rewrite Hi. reflexivity.
           ++ rewrite gstamp_gset_neq by exact Ex. reflexivity.
    + inversion E; subst s' r. exact HO.
  - cbn [fst snd]. apply invO_store; assumption.
  - cbn [fst snd]. apply invO_store; assumption.
  - cbn [fst snd]. exact HO.
  - cbn [fst snd]. exact I.
  - destruct (inval_keys ks (st_store s) (st_queue s)) as [m' q'] eqn:E.
    cbn [fst snd]. unfold ghost_step. cbn [ob_op]. unfold InvO. cbn [st_queue].
    destruct (inval_keys_spec ks _ _ _ _ HS E) as (_ & _ & Hq). rewrite Hq.
    apply increasing_filter. exact HO.
Qed.

Print Assumptions invO_init.
Print Assumptions invO_step.
