(* PfSurvive.v — the entry that is being stored survives its own store: under FIFO / LRU the
   evictions pop the front of the queue and the new key is at the back; the async engine evicts
   before it inserts.  Wrapper level: an accepted result that fits is in the cache when the call
   returns, and the next call with the same key at the same time is served from it. *)
From CL Require Import Lemmas PfInvA PfC05 PfC07 PfWrapper.
From Coq Require Import Lia.
Open Scope N_scope.

Arguments N.add : simpl never.
Arguments N.sub : simpl never.
Arguments N.mul : simpl never.
Arguments N.div : simpl never.
Arguments N.eqb : simpl never.
Arguments N.ltb : simpl never.
Arguments N.leb : simpl never.
Arguments N.even : simpl never.
Arguments N.pow : simpl never.
Arguments N.min : simpl never.

(* the policy cannot pick the entry that is being stored: FIFO/LRU evict from the front of the queue
   and the new key is at the back; the async engine evicts BEFORE it inserts *)
Definition newest_safe (c : cfg) : bool :=
  is_async c || match pol c with FIFO | LRU => true | _ => false end.

(* the value is not refused as oversize *)
Definition fits (c : cfg) (wm : bool) (sz : N) : bool :=
  match (if wm then maxmem c else None) with Some M => negb (M <? sz) | None => true end.

(* ------------------------------------------------------------------ *)
(** * helpers *)

Lemma fits_oversize : forall c wm sz, fits c wm sz = true -> oversize c wm sz = false.
Proof.
  intros c wm sz H. unfold fits in H. unfold oversize.
  destruct (if wm then maxmem c else None) as [M|]; [|reflexivity].
  apply negb_true_iff. exact H.
Qed.

Lemma fits_false : forall c sz,
    fits c true sz = false -> exists M, maxmem c = Some M /\ (M <? sz) = true.
Proof.
  intros c sz H. unfold fits in H. destruct (maxmem c) as [M|]; [|discriminate H].
  exists M. split; [reflexivity|]. apply negb_false_iff. exact H.
Qed.

Lemma newest_safe_sync : forall c,
    newest_safe c = true -> is_async c = false -> qpol c.
Proof.
  intros c H Ha. unfold newest_safe in H. rewrite Ha in H. cbn [orb] in H. unfold qpol.
  destruct (pol c); first [left; reflexivity|right; reflexivity|discriminate H].
Qed.

(* sync FIFO / LRU: the key is still a key of the store, and what is stored under a surviving key
   of a store is what the upsert put there *)
Lemma insert_sync_newest : forall c now wm k v sz m q ch m' q',
    qpol c -> is_async c = false -> wf_cfg c = true -> Struct m q -> fits c wm sz = true ->
    insert_sync c now wm k v sz m q ch = (m', q') ->
    lookup k m' = Some (new_entry c now v sz).
Proof.
  intros c now wm k v sz m q ch m' q' Hp Ha Hwf HS Hfit H.
  destruct (insert_sync_fifo _ _ _ _ _ _ _ _ _ _ _ Hp Ha Hwf HS H) as [_ Hin].
  specialize (Hin (fits_oversize _ _ _ Hfit)).
  pose proof (insert_sync_Shrunk _ _ _ _ _ _ _ _ _ _ _ HS H) as Hsh.
  rewrite (Shrunk_lookup _ _ _ _ k Hsh Hin). apply lookup_upsert_eq.
Qed.

(* async: the new entry is written after every eviction *)
Lemma insert_async_newest : forall c now wm k v sz m q ch m' q',
    fits c wm sz = true ->
    insert_async c now wm k v sz m q ch = (m', q') ->
    lookup k m' = Some (new_entry c now v sz).
Proof.
  intros c now wm k v sz m q ch m' q' Hfit H. unfold fits in Hfit.
  destruct (insert_async_cases _ _ _ _ _ _ _ _ _ _ _ H)
    as [(M & HM & Hov & _)|[(M & m2 & q2 & ch2 & m3 & q3 & ch3 & _ & _ & _ & _ & Hm & _)
                           |(_ & m3 & q3 & ch3 & _ & Hm & _)]].
  - rewrite HM, Hov in Hfit. discriminate Hfit.
  - subst m'. apply lookup_upsert_eq.
  - subst m'. apply lookup_upsert_eq.
Qed.

(* an executed call: the state is the post-store state of the lookup state *)
Lemma call_exec_state : forall w now s i,
    co_exec (snd (call w now s i)) = true ->
    fst (call w now s i) = post_store w now i (fst (get (w_cfg w) now (ci_key i) s)).
Proof.
  intros w now s i. rewrite call_eq. cbv zeta.
  destruct (snd (get (w_cfg w) now (ci_key i) s)) as [v|]; [|reflexivity].
  destruct (w_inval_on w); [destruct (ci_inv i)|]; cbn [fst snd co_exec]; intro H;
    first [reflexivity|discriminate H].
Qed.

(* an entry born now is not expired now *)
Lemma born_now_fresh : forall c now v sz,
    wf_cfg c = true -> expired c now (mkE v sz (birth c now) 0) = false.
Proof.
  intros c now v sz Hwf. unfold expired. destruct (ttl c) as [T|] eqn:ET; [|reflexivity].
  assert (H1 : 1 <= T).
  { unfold wf_cfg in Hwf. rewrite ET in Hwf. apply andb_true_iff in Hwf.
    apply N.leb_le. apply Hwf. }
  assert (H0 : age_s c now (mkE v sz (birth c now) 0) = 0).
  { unfold age_s, birth. cbn [e_born]. destruct (is_async c).
    - rewrite N.div_mul by discriminate. apply N.sub_diag.
    - rewrite N.sub_diag. reflexivity. }
  rewrite H0. apply N.leb_gt. lia.
Qed.

(* ------------------------------------------------------------------ *)
(** * the pinned theorems *)

Theorem insert_newest_survives :
  forall c now wm k v sz s ch,
    wf_cfg c = true -> InvA c s -> newest_safe c = true -> fits c wm sz = true ->
    lookup k (st_store (insert c now wm k v sz s ch)) = Some (mkE v sz (birth c now) 0).
Proof.
  intros c now wm k v sz s ch Hwf HA Hsafe Hfit.
  pose proof (InvA_Struct c s HA) as HS.
  rewrite insert_eq. cbn [st_store]. fold (new_entry c now v sz).
  destruct (is_async c) eqn:Ha.
  - destruct (insert_async c now wm k v sz (st_store s) (st_queue s) ch) as [m' q'] eqn:E.
    cbn [fst]. apply (insert_async_newest _ _ _ _ _ _ _ _ _ _ _ Hfit E).
  - destruct (insert_sync c now wm k v sz (st_store s) (st_queue s) ch) as [m' q'] eqn:E.
    cbn [fst].
    apply (insert_sync_newest _ _ _ _ _ _ _ _ _ _ _ (newest_safe_sync c Hsafe Ha) Ha Hwf HS Hfit E).
Qed.

(* the converse for a value that is refused: it is not stored, whatever the policy *)
Theorem insert_oversize_not_stored :
  forall c now k v sz s ch,
    InvA c s -> fits c true sz = false ->
    lookup k (st_store (insert c now true k v sz s ch)) = None.
Proof.
  intros c now k v sz s ch HA Hfit.
  destruct (fits_false c sz Hfit) as (M & HM & Hov).
  rewrite insert_eq. cbn [st_store].
  destruct (is_async c).
  - unfold insert_async. rewrite HM, Hov. cbn [fst]. apply lookup_sremove_eq.
  - unfold insert_sync. rewrite HM, Hov. cbn [fst]. apply lookup_sremove_eq.
Qed.

(* wrapper level (M2): a result that the store decision accepts and that fits IS in the cache when
   the call returns — with any entry limit, ttl and memory limit — under the policies above *)
Theorem call_stores_when_settled :
  forall w now s i,
    wf_cfg (w_cfg w) = true -> InvA (w_cfg w) s ->
    newest_safe (w_cfg w) = true -> fits (w_cfg w) (w_mem w) (ci_size i) = true ->
    co_exec (snd (call w now s i)) = true -> store_decision w i = true ->
    lookup (ci_key i) (st_store (fst (call w now s i))) =
      Some (mkE (enc (ci_body i)) (ci_size i) (birth (w_cfg w) now) 0).
Proof.
  intros w now s i Hwf HA Hsafe Hfit Hex Hsd.
  rewrite (call_exec_state w now s i Hex). unfold post_store. rewrite Hsd.
  apply insert_newest_survives; [exact Hwf|apply get_InvA; exact HA|exact Hsafe|exact Hfit].
Qed.

(* and a result that the decision rejects leaves the cache exactly as the lookup left it *)
Theorem call_rejected_leaves_lookup_state :
  forall w now s i,
    co_exec (snd (call w now s i)) = true -> store_decision w i = false ->
    fst (call w now s i) = fst (get (w_cfg w) now (ci_key i) s).
Proof.
  intros w now s i Hex Hsd.
  rewrite (call_exec_state w now s i Hex). unfold post_store. rewrite Hsd. reflexivity.
Qed.

(* the next call with the same key is then served (no ttl expiry in between: same [now]; the check accepts) *)
Theorem call_then_served :
  forall w now s i j,
    wf_cfg (w_cfg w) = true -> InvA (w_cfg w) s ->
    newest_safe (w_cfg w) = true -> fits (w_cfg w) (w_mem w) (ci_size i) = true ->
    co_exec (snd (call w now s i)) = true -> store_decision w i = true ->
    ci_key j = ci_key i -> (w_inval_on w = true -> ci_inv j = false) ->
    co_exec (snd (call w now (fst (call w now s i)) j)) = false /\
    co_ret (snd (call w now (fst (call w now s i)) j)) = dec (enc (ci_body i)).
Proof.
  intros w now s i j Hwf HA Hsafe Hfit Hex Hsd Hk Hinv.
  pose proof (call_stores_when_settled w now s i Hwf HA Hsafe Hfit Hex Hsd) as Hl.
  pose proof (born_now_fresh (w_cfg w) now (enc (ci_body i)) (ci_size i) Hwf) as Hfresh.
  pose proof (get_hit (w_cfg w) now (ci_key i) (fst (call w now s i)) _ Hl Hfresh) as Hg.
  cbn [e_val] in Hg.
  rewrite (call_eq w now (fst (call w now s i)) j). cbv zeta. rewrite Hk, Hg.
  destruct (w_inval_on w) eqn:EI.
  - rewrite (Hinv eq_refl). cbn [snd co_exec co_ret]. split; reflexivity.
  - cbn [snd co_exec co_ret]. split; reflexivity.
Qed.

Print Assumptions insert_newest_survives.
Print Assumptions insert_oversize_not_stored.
Print Assumptions call_stores_when_settled.
Print Assumptions call_rejected_leaves_lookup_state.
Print Assumptions call_then_served.
