(* Lemmas.v — reusable facts about the association-list store, the queue primitives
   and the small boolean list library of Spec.v.  Stdlib only. *)
From CL Require Export Inv.
From Coq Require Import Lia.
Open Scope N_scope.

Arguments N.add : simpl never.
Arguments N.sub : simpl never.
Arguments N.mul : simpl never.
Arguments N.div : simpl never.
Arguments N.eqb : simpl never.
Arguments N.ltb : simpl never.
Arguments N.leb : simpl never.
Arguments N.pow : simpl never.

(* ------------------------------------------------------------------ *)
(** * Boolean list library of Spec.v: reflection *)

Lemma inb_In : forall k l, inb k l = true <-> In k l.
Proof.
  intros k l. induction l as [|x l IH]; cbn [inb In].
  - split; [discriminate|tauto].
  - destruct (N.eqb_spec k x) as [E|E].
    + subst. tauto.
    + rewrite IH. split; [tauto|]. intros [H|H]; [congruence|exact H].
Qed.

Lemma inb_false : forall k l, inb k l = false <-> ~ In k l.
Proof.
  intros k l. rewrite <- inb_In. destruct (inb k l); split; congruence.
Qed.

Lemma inb_spec : forall k l, reflect (In k l) (inb k l).
Proof. intros k l. apply iff_reflect. symmetry. apply inb_In. Qed.

Lemma qmem_inb : forall k q, qmem k q = inb k q.
Proof. intros k q. induction q as [|x q IH]; cbn [qmem inb]; [reflexivity|]. rewrite IH. reflexivity. Qed.

Lemma qmem_In : forall k q, qmem k q = true <-> In k q.
Proof. intros. rewrite qmem_inb. apply inb_In. Qed.

Lemma qmem_false : forall k q, qmem k q = false <-> ~ In k q.
Proof. intros. rewrite qmem_inb. apply inb_false. Qed.

Lemma inb_ext : forall a b, (forall k, In k a <-> In k b) -> forall k, inb k a = inb k b.
Proof.
  intros a b H k. destruct (inb k b) eqn:E.
  - apply inb_In. apply H. apply inb_In. exact E.
  - apply inb_false. intro Hin. apply inb_false in E. apply E. apply H. exact Hin.
Qed.

Lemma nodupb_NoDup : forall l, nodupb l = true <-> NoDup l.
Proof.
  induction l as [|x l IH]; cbn [nodupb].
  - split; [constructor|reflexivity].
  - rewrite andb_true_iff, negb_true_iff, inb_false, IH. split.
    + intros [H1 H2]. constructor; assumption.
    + intro H. inversion H; subst. split; assumption.
Qed.

Lemma subset_incl : forall a b, subset a b = true <-> (forall k, In k a -> In k b).
Proof.
  intros a b. unfold subset. rewrite forallb_forall. split.
  - intros H k Hk. apply inb_In. apply H. exact Hk.
  - intros H k Hk. apply inb_In. apply H. exact Hk.
Qed.

Lemma same_set_iff : forall a b, same_set a b = true <-> (forall k, In k a <-> In k b).
Proof.
  intros a b. unfold same_set. rewrite andb_true_iff, !subset_incl. split.
  - intros [H1 H2] k. split; [apply H1|apply H2].
  - intro H. split; intros k Hk; apply H; exact Hk.
Qed.

Lemma diff_In : forall k a b, In k (diff a b) <-> In k a /\ ~ In k b.
Proof.
  intros k a b. unfold diff. rewrite filter_In, negb_true_iff, inb_false. tauto.
Qed.

Lemma diff_ext : forall a b b', (forall k, In k b <-> In k b') -> diff a b = diff a b'.
Proof.
  intros a b b' H. unfold diff. apply filter_ext. intro k.
  rewrite (inb_ext b b' H). reflexivity.
Qed.

Lemma diff_nil_incl : forall a b, (forall k, In k a -> In k b) -> diff a b = [].
Proof.
  intros a b H. destruct (diff a b) as [|x l] eqn:E; [reflexivity|].
  assert (Hx : In x (diff a b)) by (rewrite E; left; reflexivity).
  apply diff_In in Hx. destruct Hx as [Ha Hb]. exfalso. apply Hb. apply H. exact Ha.
Qed.

Lemma list_eqb_eq : forall a b, list_eqb a b = true <-> a = b.
Proof.
  induction a as [|x a IH]; intros [|y b]; cbn [list_eqb]; try (split; [discriminate|discriminate]).
  - split; reflexivity.
  - rewrite andb_true_iff, IH, N.eqb_eq. split.
    + intros [H1 H2]. subst. reflexivity.
    + intro H. inversion H. split; reflexivity.
Qed.

Lemma list_eqb_refl : forall a, list_eqb a a = true.
Proof. intro a. apply list_eqb_eq. reflexivity. Qed.

Lemma entry_eqb_refl : forall e, entry_eqb e e = true.
Proof. intro e. unfold entry_eqb. rewrite !N.eqb_refl. reflexivity. Qed.

Lemma entry_eqb_eq : forall a b, entry_eqb a b = true <-> a = b.
Proof.
  intros [a1 a2 a3 a4] [b1 b2 b3 b4]. unfold entry_eqb. cbn [e_val e_size e_born e_freq].
  rewrite !andb_true_iff, !N.eqb_eq. split.
  - intros [[[H1 H2] H3] H4]. subst. reflexivity.
  - intro H. inversion H. tauto.
Qed.

Lemma opt_entry_eqb_refl : forall o, opt_entry_eqb o o = true.
Proof. intros [e|]; cbn [opt_entry_eqb]; [apply entry_eqb_refl|reflexivity]. Qed.

Lemma opt_entry_eqb_eq : forall a b, opt_entry_eqb a b = true <-> a = b.
Proof.
  intros [a|] [b|]; cbn [opt_entry_eqb]; try (split; discriminate).
  - rewrite entry_eqb_eq. split; [intros; subst; reflexivity|intro H; inversion H; reflexivity].
  - split; reflexivity.
Qed.

(* ------------------------------------------------------------------ *)
(** * Generic list facts *)

Lemma filter_nil_forall : forall (A : Type) (f : A -> bool) l,
    (forall x, In x l -> f x = false) -> filter f l = [].
Proof.
  intros A f l. induction l as [|x l IH]; intro H; cbn [filter]; [reflexivity|].
  rewrite (H x (or_introl eq_refl)). apply IH. intros y Hy. apply H. right. exact Hy.
Qed.

Lemma filter_all_forall : forall (A : Type) (f : A -> bool) l,
    (forall x, In x l -> f x = true) -> filter f l = l.
Proof.
  intros A f l. induction l as [|x l IH]; intro H; cbn [filter]; [reflexivity|].
  rewrite (H x (or_introl eq_refl)). f_equal. apply IH. intros y Hy. apply H. right. exact Hy.
Qed.

(* a filter that keeps exactly one element of a duplicate-free list *)
Lemma filter_singleton : forall (f : key -> bool) l v,
    NoDup l -> In v l -> (forall x, In x l -> (f x = true <-> x = v)) -> filter f l = [v].
Proof.
  intros f l v. induction l as [|y l IH]; intros Hnd Hin Hf; [destruct Hin|].
  inversion Hnd as [|y' l' Hny Hnd']; subst. cbn [filter].
  destruct (N.eq_dec y v) as [E|E].
  - subst y. assert (Hv : f v = true) by (apply Hf; [left; reflexivity|reflexivity]).
    rewrite Hv. f_equal. apply filter_nil_forall. intros x Hx.
    destruct (f x) eqn:Efx; [|reflexivity].
    exfalso. apply Hf in Efx; [|right; exact Hx]. subst x. apply Hny. exact Hx.
  - assert (Hy : f y = false).
    { destruct (f y) eqn:Efy; [|reflexivity]. exfalso. apply E. apply Hf; [left; reflexivity|exact Efy]. }
    rewrite Hy. apply IH.
    + exact Hnd'.
    + destruct Hin as [H|H]; [congruence|exact H].
    + intros x Hx. apply Hf. right. exact Hx.
Qed.

Lemma filter_filter : forall (A : Type) (f g : A -> bool) l,
    filter f (filter g l) = filter (fun x => g x && f x) l.
Proof.
  intros A f g l. induction l as [|x l IH]; cbn [filter]; [reflexivity|].
  destruct (g x); cbn [filter andb]; rewrite IH; reflexivity.
Qed.

Lemma NoDup_filter : forall (A : Type) (f : A -> bool) l, NoDup l -> NoDup (filter f l).
Proof.
  intros A f l H. induction H as [|x l Hx Hnd IH]; cbn [filter]; [constructor|].
  destruct (f x); [|exact IH]. constructor; [|exact IH].
  intro Hin. apply filter_In in Hin. apply Hx. apply Hin.
Qed.

Lemma NoDup_same_length : forall (a b : list key),
    NoDup a -> NoDup b -> (forall k, In k a <-> In k b) -> length a = length b.
Proof.
  intros a b Ha Hb H.
  assert (H1 : (length a <= length b)%nat).
  { apply NoDup_incl_length; [exact Ha|]. intros k Hk. apply H. exact Hk. }
  assert (H2 : (length b <= length a)%nat).
  { apply NoDup_incl_length; [exact Hb|]. intros k Hk. apply H. exact Hk. }
  lia.
Qed.

(* ------------------------------------------------------------------ *)
(** * remove_all / remove_first *)

Lemma remove_all_filter : forall k q, remove_all k q = filter (fun x => negb (N.eqb x k)) q.
Proof.
  intros k q. induction q as [|x q IH]; cbn [remove_all filter]; [reflexivity|].
  rewrite (N.eqb_sym x k). destruct (N.eqb k x); cbn [negb]; rewrite IH; reflexivity.
Qed.

Lemma In_remove_all : forall x k q, In x (remove_all k q) <-> In x q /\ x <> k.
Proof.
  intros x k q. rewrite remove_all_filter, filter_In, negb_true_iff, N.eqb_neq. tauto.
Qed.

Lemma remove_all_notin : forall k q, ~ In k q -> remove_all k q = q.
Proof.
  intros k q H. rewrite remove_all_filter. apply filter_all_forall.
  intros x Hx. apply negb_true_iff, N.eqb_neq. intro E. subst. contradiction.
Qed.

Lemma NoDup_remove_all : forall k q, NoDup q -> NoDup (remove_all k q).
Proof. intros k q H. rewrite remove_all_filter. apply NoDup_filter. exact H. Qed.

Lemma length_remove_all_le : forall k q, (length (remove_all k q) <= length q)%nat.
Proof.
  intros k q. induction q as [|x q IH]; cbn [remove_all length]; [lia|].
  destruct (N.eqb k x); cbn [length]; lia.
Qed.

Lemma remove_first_notin : forall k q, ~ In k q -> remove_first k q = q.
Proof.
  intros k q. induction q as [|x q IH]; intro H; cbn [remove_first]; [reflexivity|].
  destruct (N.eqb_spec k x) as [E|E].
  - exfalso. apply H. left. symmetry. exact E.
  - f_equal. apply IH. intro Hin. apply H. right. exact Hin.
Qed.

Lemma remove_first_remove_all : forall k q, NoDup q -> remove_first k q = remove_all k q.
Proof.
  intros k q H. induction H as [|x q Hx Hnd IH]; cbn [remove_first remove_all]; [reflexivity|].
  destruct (N.eqb_spec k x) as [E|E].
  - subst x. symmetry. apply remove_all_notin. exact Hx.
  - f_equal. exact IH.
Qed.

Lemma In_remove_first_incl : forall x k q, In x (remove_first k q) -> In x q.
Proof.
  intros x k q. induction q as [|y q IH]; cbn [remove_first]; [tauto|].
  destruct (N.eqb k y); cbn [In]; tauto.
Qed.

Lemma In_remove_first_neq : forall x k q, x <> k -> (In x (remove_first k q) <-> In x q).
Proof.
  intros x k q Hne. induction q as [|y q IH]; cbn [remove_first]; [tauto|].
  destruct (N.eqb_spec k y) as [E|E]; cbn [In].
  - subst y. split; [tauto|]. intros [H|H]; [congruence|exact H].
  - rewrite IH. tauto.
Qed.

Lemma In_remove_first : forall x k q, NoDup q -> (In x (remove_first k q) <-> In x q /\ x <> k).
Proof. intros x k q H. rewrite remove_first_remove_all by exact H. apply In_remove_all. Qed.

Lemma NoDup_remove_first : forall k q, NoDup q -> NoDup (remove_first k q).
Proof. intros k q H. rewrite remove_first_remove_all by exact H. apply NoDup_remove_all. exact H. Qed.

Lemma length_remove_first_in : forall k q, In k q -> S (length (remove_first k q)) = length q.
Proof.
  intros k q. induction q as [|x q IH]; intro H; [destruct H|]. cbn [remove_first].
  destruct (N.eqb_spec k x) as [E|E]; cbn [length]; [reflexivity|].
  f_equal. apply IH. destruct H as [H|H]; [congruence|exact H].
Qed.

Lemma length_remove_first_le : forall k q, (length (remove_first k q) <= length q)%nat.
Proof.
  intros k q. induction q as [|x q IH]; cbn [remove_first length]; [lia|].
  destruct (N.eqb k x); cbn [length]; lia.
Qed.

Lemma length_remove_all_in : forall k q, NoDup q -> In k q -> S (length (remove_all k q)) = length q.
Proof.
  intros k q Hnd H. rewrite <- remove_first_remove_all by exact Hnd.
  apply length_remove_first_in. exact H.
Qed.

Lemma remove_first_app_last : forall k q, ~ In k q -> remove_first k (q ++ [k]) = q.
Proof.
  intros k q. induction q as [|x q IH]; intro H; cbn [app remove_first].
  - rewrite N.eqb_refl. reflexivity.
  - destruct (N.eqb_spec k x) as [E|E].
    + exfalso. apply H. left. symmetry. exact E.
    + f_equal. apply IH. intro Hin. apply H. right. exact Hin.
Qed.

Lemma filter_remove_all : forall (f : key -> bool) k q,
    filter f (remove_all k q) = filter (fun x => negb (N.eqb x k) && f x) q.
Proof. intros f k q. rewrite remove_all_filter. apply filter_filter. Qed.

Lemma remove_all_comm : forall a b q, remove_all a (remove_all b q) = remove_all b (remove_all a q).
Proof.
  intros a b q. rewrite !remove_all_filter, !filter_filter. apply filter_ext.
  intro x. apply andb_comm.
Qed.

(* ------------------------------------------------------------------ *)
(** * push_back / pop_back / move_to_end *)

Lemma In_push_back : forall x k q, In x (push_back k q) <-> In x q \/ x = k.
Proof.
  intros x k q. unfold push_back. rewrite in_app_iff. cbn [In]. split.
  - intros [H|[H|[]]]; [left; exact H|right; symmetry; exact H].
  - intros [H|H]; [left; exact H|right; left; symmetry; exact H].
Qed.

Lemma NoDup_push_back : forall k q, NoDup q -> ~ In k q -> NoDup (push_back k q).
Proof.
  intros k q Hnd Hk. unfold push_back. induction Hnd as [|x q Hx Hnd IH]; cbn [app].
  - constructor; [intros []|constructor].
  - constructor.
    + rewrite in_app_iff. cbn [In]. intros [H|[H|[]]]; [apply Hx; exact H|].
      apply Hk. left. symmetry. exact H.
    + apply IH. intro H. apply Hk. right. exact H.
Qed.

Lemma length_push_back : forall k q, length (push_back k q) = S (length q).
Proof. intros k q. unfold push_back. rewrite app_length. cbn [length]. lia. Qed.

Lemma push_back_not_nil : forall k q, push_back k q <> [].
Proof. intros k q. unfold push_back. destruct q; discriminate. Qed.

Lemma pop_back_push_back : forall k q, pop_back (push_back k q) = q.
Proof. intros k q. unfold pop_back, push_back. apply removelast_last. Qed.

Lemma remove_first_push_back : forall k q, ~ In k q -> remove_first k (push_back k q) = q.
Proof. intros k q H. unfold push_back. apply remove_first_app_last. exact H. Qed.

Lemma filter_push_back : forall (f : key -> bool) k q,
    filter f (push_back k q) = filter f q ++ (if f k then [k] else []).
Proof. intros f k q. unfold push_back. rewrite filter_app. reflexivity. Qed.

Lemma move_to_end_in : forall k q, In k q -> move_to_end k q = push_back k (remove_first k q).
Proof. intros k q H. unfold move_to_end. apply qmem_In in H. rewrite H. reflexivity. Qed.

Lemma move_to_end_notin : forall k q, ~ In k q -> move_to_end k q = q.
Proof. intros k q H. unfold move_to_end. apply qmem_false in H. rewrite H. reflexivity. Qed.

Lemma In_move_to_end : forall x k q, In x (move_to_end k q) <-> In x q.
Proof.
  intros x k q. unfold move_to_end. destruct (qmem k q) eqn:E; [|tauto].
  apply qmem_In in E. rewrite In_push_back.
  destruct (N.eq_dec x k) as [Ex|Ex].
  - subst x. tauto.
  - rewrite In_remove_first_neq by exact Ex. tauto.
Qed.

Lemma NoDup_move_to_end : forall k q, NoDup q -> NoDup (move_to_end k q).
Proof.
  intros k q H. unfold move_to_end. destruct (qmem k q); [|exact H].
  apply NoDup_push_back.
  - apply NoDup_remove_first. exact H.
  - rewrite In_remove_first by exact H. tauto.
Qed.

(* ------------------------------------------------------------------ *)
(** * nth_key / remove_nth / index_of *)

Lemma nth_key_In : forall i q v, nth_key i q = Some v -> In v q.
Proof.
  intros i q. revert i. induction q as [|x q IH]; intros i v H; [destruct i; discriminate|].
  destruct i as [|i]; cbn [nth_key] in H.
  - inversion H. left. reflexivity.
  - right. apply (IH i). exact H.
Qed.

Lemma nth_key_lt : forall i q, (i < length q)%nat -> exists v, nth_key i q = Some v.
Proof.
  intros i q. revert i. induction q as [|x q IH]; intros i H; cbn [length] in H; [lia|].
  destruct i as [|i]; cbn [nth_key].
  - exists x. reflexivity.
  - apply IH. lia.
Qed.

Lemma nth_key_Some_lt : forall i q v, nth_key i q = Some v -> (i < length q)%nat.
Proof.
  intros i q. revert i. induction q as [|x q IH]; intros i v H; [destruct i; discriminate|].
  destruct i as [|i]; cbn [nth_key length] in *; [lia|].
  apply IH in H. lia.
Qed.

Lemma index_of_nth_key : forall k q i, index_of k q = Some i -> nth_key i q = Some k.
Proof.
  intros k q. induction q as [|x q IH]; intros i H; cbn [index_of] in H; [discriminate|].
  destruct (N.eqb_spec k x) as [E|E].
  - inversion H. subst. reflexivity.
  - destruct (index_of k q) as [j|] eqn:Ej; [|discriminate].
    inversion H. subst. cbn [nth_key]. apply IH. reflexivity.
Qed.

Lemma index_of_Some_In : forall k q i, index_of k q = Some i -> In k q.
Proof. intros k q i H. apply (nth_key_In i). apply index_of_nth_key. exact H. Qed.

Lemma index_of_None : forall k q, index_of k q = None <-> ~ In k q.
Proof.
  intros k q. induction q as [|x q IH]; cbn [index_of In]; [tauto|].
  destruct (N.eqb_spec k x) as [E|E].
  - split; [discriminate|]. intro H. exfalso. apply H. left. symmetry. exact E.
  - destruct (index_of k q) as [j|].
    + split; [discriminate|]. intro H. exfalso. destruct IH as [_ IH2].
      assert (Hc : Some j = None) by (apply IH2; intro Hin; apply H; right; exact Hin).
      discriminate Hc.
    + split; [|reflexivity]. intros _ [H|H]; [congruence|]. destruct IH as [IH1 _].
      apply IH1; [reflexivity|exact H].
Qed.

Lemma remove_nth_remove_first : forall i q v,
    NoDup q -> nth_key i q = Some v -> remove_nth i q = remove_first v q.
Proof.
  intros i q. revert i. induction q as [|x q IH]; intros i v Hnd H; [destruct i; discriminate|].
  inversion Hnd as [|x' q' Hx Hnd']; subst.
  destruct i as [|i]; cbn [nth_key remove_nth remove_first] in *.
  - inversion H. subst. rewrite N.eqb_refl. reflexivity.
  - destruct (N.eqb_spec v x) as [E|E].
    + subst v. exfalso. apply Hx. apply (nth_key_In i). exact H.
    + f_equal. apply IH; assumption.
Qed.

(* ------------------------------------------------------------------ *)
(** * The association-list store *)

Lemma keys_length : forall m, length (keys m) = length m.
Proof. intro m. unfold keys. apply map_length. Qed.

Lemma lookup_None : forall k m, lookup k m = None <-> ~ In k (keys m).
Proof.
  intros k m. induction m as [|[k' e] m IH]; cbn [lookup keys map fst In]; [tauto|].
  fold (keys m). destruct (N.eqb_spec k k') as [E|E].
  - split; [discriminate|]. intro H. exfalso. apply H. left. symmetry. exact E.
  - rewrite IH. split.
    + intros H [H'|H']; [congruence|contradiction].
    + intros H H'. apply H. right. exact H'.
Qed.

Lemma lookup_Some_In : forall k m e, lookup k m = Some e -> In k (keys m).
Proof.
  intros k m e H. destruct (in_dec N.eq_dec k (keys m)) as [Hin|Hin]; [exact Hin|].
  apply lookup_None in Hin. congruence.
Qed.

Lemma In_keys_lookup : forall k m, In k (keys m) -> exists e, lookup k m = Some e.
Proof.
  intros k m H. destruct (lookup k m) as [e|] eqn:E; [exists e; reflexivity|].
  apply lookup_None in E. contradiction.
Qed.

Lemma mem_In : forall k m, mem k m = true <-> In k (keys m).
Proof.
  intros k m. unfold mem. destruct (lookup k m) as [e|] eqn:E.
  - split; [|reflexivity]. intros _. apply (lookup_Some_In k m e). exact E.
  - split; [discriminate|]. intro H. apply lookup_None in E. contradiction.
Qed.

Lemma mem_false : forall k m, mem k m = false <-> ~ In k (keys m).
Proof. intros k m. rewrite <- mem_In. destruct (mem k m); split; congruence. Qed.

Lemma mem_inb : forall k m, mem k m = inb k (keys m).
Proof.
  intros k m. destruct (inb k (keys m)) eqn:E.
  - apply mem_In. apply inb_In. exact E.
  - apply mem_false. apply inb_false. exact E.
Qed.

Lemma keys_sremove : forall k m, keys (sremove k m) = remove_all k (keys m).
Proof.
  intros k m. induction m as [|[k' e] m IH]; cbn [sremove keys map fst remove_all]; [reflexivity|].
  fold (keys m). destruct (N.eqb k k'); cbn [keys map fst]; fold (keys (sremove k m)); rewrite IH; reflexivity.
Qed.

Lemma In_keys_sremove : forall x k m, In x (keys (sremove k m)) <-> In x (keys m) /\ x <> k.
Proof. intros. rewrite keys_sremove. apply In_remove_all. Qed.

Lemma NoDup_keys_sremove : forall k m, NoDup (keys m) -> NoDup (keys (sremove k m)).
Proof. intros k m H. rewrite keys_sremove. apply NoDup_remove_all. exact H. Qed.

Lemma sremove_notin : forall k m, ~ In k (keys m) -> sremove k m = m.
Proof.
  intros k m. induction m as [|[k' e] m IH]; intro H; cbn [sremove]; [reflexivity|].
  cbn [keys map fst In] in H. fold (keys m) in H.
  destruct (N.eqb_spec k k') as [E|E].
  - exfalso. apply H. left. symmetry. exact E.
  - f_equal. apply IH. intro Hin. apply H. right. exact Hin.
Qed.

Lemma sremove_idem : forall k m, sremove k (sremove k m) = sremove k m.
Proof. intros k m. apply sremove_notin. rewrite In_keys_sremove. tauto. Qed.

Lemma sremove_comm : forall a b m, sremove a (sremove b m) = sremove b (sremove a m).
Proof.
  intros a b m. induction m as [|[k' e] m IH]; cbn [sremove]; [reflexivity|].
  destruct (N.eqb a k') eqn:Ea; destruct (N.eqb b k') eqn:Eb; cbn [sremove];
    rewrite ?Ea, ?Eb; rewrite IH; reflexivity.
Qed.

Lemma lookup_sremove_eq : forall k m, lookup k (sremove k m) = None.
Proof. intros k m. apply lookup_None. rewrite In_keys_sremove. tauto. Qed.

Lemma lookup_sremove_neq : forall x k m, x <> k -> lookup x (sremove k m) = lookup x m.
Proof.
  intros x k m Hne. induction m as [|[k' e] m IH]; cbn [sremove lookup]; [reflexivity|].
  destruct (N.eqb_spec k k') as [E|E].
  - subst k'. destruct (N.eqb_spec x k) as [E'|E']; [contradiction|exact IH].
  - cbn [lookup]. rewrite IH. reflexivity.
Qed.

Lemma lookup_sremove_In : forall x k m,
    In x (keys (sremove k m)) -> lookup x (sremove k m) = lookup x m.
Proof. intros x k m H. apply In_keys_sremove in H. apply lookup_sremove_neq. apply H. Qed.

Lemma length_sremove_le : forall k m, (length (sremove k m) <= length m)%nat.
Proof.
  intros k m. rewrite <- !keys_length, keys_sremove. apply length_remove_all_le.
Qed.

Lemma length_sremove_in : forall k m,
    NoDup (keys m) -> In k (keys m) -> S (length (sremove k m)) = length m.
Proof.
  intros k m Hnd Hin. rewrite <- !keys_length, keys_sremove.
  apply length_remove_all_in; assumption.
Qed.

Lemma keys_upsert : forall k e m, keys (upsert k e m) = k :: remove_all k (keys m).
Proof. intros k e m. unfold upsert. cbn [keys map fst]. fold (keys (sremove k m)). rewrite keys_sremove. reflexivity. Qed.

Lemma In_keys_upsert : forall x k e m, In x (keys (upsert k e m)) <-> x = k \/ In x (keys m).
Proof.
  intros x k e m. rewrite keys_upsert. cbn [In]. rewrite In_remove_all.
  destruct (N.eq_dec x k) as [E|E]; [subst; tauto|]. split.
  - intros [H|[H _]]; [left; symmetry; exact H|right; exact H].
  - intros [H|H]; [contradiction|right; split; assumption].
Qed.

Lemma NoDup_keys_upsert : forall k e m, NoDup (keys m) -> NoDup (keys (upsert k e m)).
Proof.
  intros k e m H. rewrite keys_upsert. constructor.
  - rewrite In_remove_all. tauto.
  - apply NoDup_remove_all. exact H.
Qed.

Lemma lookup_upsert_eq : forall k e m, lookup k (upsert k e m) = Some e.
Proof. intros. unfold upsert. cbn [lookup]. rewrite N.eqb_refl. reflexivity. Qed.

Lemma lookup_upsert_neq : forall x k e m, x <> k -> lookup x (upsert k e m) = lookup x m.
Proof.
  intros x k e m H. unfold upsert. cbn [lookup].
  destruct (N.eqb_spec x k) as [E|E]; [contradiction|]. apply lookup_sremove_neq. exact H.
Qed.

Lemma length_upsert_in : forall k e m,
    NoDup (keys m) -> In k (keys m) -> length (upsert k e m) = length m.
Proof.
  intros k e m Hnd Hin. unfold upsert. cbn [length]. apply length_sremove_in; assumption.
Qed.

Lemma length_upsert_notin : forall k e m, ~ In k (keys m) -> length (upsert k e m) = S (length m).
Proof. intros k e m H. unfold upsert. cbn [length]. rewrite sremove_notin by exact H. reflexivity. Qed.

Lemma length_upsert_le : forall k e m, (length (upsert k e m) <= S (length m))%nat.
Proof. intros k e m. unfold upsert. cbn [length]. pose proof (length_sremove_le k m). lia. Qed.

Lemma sremove_upsert : forall k e m, sremove k (upsert k e m) = sremove k m.
Proof. intros k e m. unfold upsert. cbn [sremove]. rewrite N.eqb_refl. apply sremove_idem. Qed.

Lemma keys_supdate : forall k f m, keys (supdate k f m) = keys m.
Proof.
  intros k f m. induction m as [|[k' e] m IH]; cbn [supdate]; [reflexivity|].
  destruct (N.eqb k k'); cbn [keys map fst]; [reflexivity|].
  fold (keys (supdate k f m)). fold (keys m). rewrite IH. reflexivity.
Qed.

Lemma length_supdate : forall k f m, length (supdate k f m) = length m.
Proof. intros k f m. rewrite <- !keys_length, keys_supdate. reflexivity. Qed.

Lemma lookup_supdate_eq : forall k f m,
    lookup k (supdate k f m) = option_map f (lookup k m).
Proof.
  intros k f m. induction m as [|[k' e] m IH]; cbn [supdate lookup]; [reflexivity|].
  destruct (N.eqb k k') eqn:E; cbn [lookup]; rewrite E; [reflexivity|exact IH].
Qed.

Lemma lookup_supdate_neq : forall x k f m, x <> k -> lookup x (supdate k f m) = lookup x m.
Proof.
  intros x k f m Hne. induction m as [|[k' e] m IH]; cbn [supdate lookup]; [reflexivity|].
  destruct (N.eqb_spec k k') as [E|E]; cbn [lookup].
  - subst k'. destruct (N.eqb_spec x k) as [E'|E']; [contradiction|reflexivity].
  - rewrite IH. reflexivity.
Qed.

Lemma total_size_sremove_le : forall k m, total_size (sremove k m) <= total_size m.
Proof.
  intros k m. induction m as [|[k' e] m IH]; cbn [sremove total_size fold_right snd]; [lia|].
  fold (total_size m). destruct (N.eqb k k'); cbn [total_size fold_right snd];
    fold (total_size (sremove k m)); lia.
Qed.

Lemma keys_nil : forall m, keys m = [] -> m = [].
Proof. intros [|p m] H; [reflexivity|discriminate]. Qed.
