(* Inv.v — invariants of the sequential model (definitions only; proofs in Pf*.v). *)
From CL Require Export Spec.
Open Scope N_scope.

(* structure: queue and store hold the same keys, once each; the entry limit holds *)
Definition InvA (c : cfg) (s : state) : Prop :=
  NoDup (st_queue s) /\
  NoDup (keys (st_store s)) /\
  (forall k, In k (st_queue s) <-> In k (keys (st_store s))) /\
  (forall L, limit c = Some L -> 1 <= L -> N.of_nat (length (st_store s)) <= L).

(* what the engine stores agrees with the ghost record recomputed from the history *)
Definition InvG (c : cfg) (idx : N) (s : state) (g : ghost) : Prop :=
  forall k e, lookup k (st_store s) = Some e ->
    exists i, glookup k g = Some i /\
      e_val e = g_val i /\
      e_born e = g_born i /\
      e_freq e = (if counts_hits (pol c) then g_hits i else 0) /\
      g_stored i < idx /\ g_used i < idx /\ g_stored i <= g_used i.

(* the queue is ordered by the policy's stamp: last use for LRU/ARC/TLRU, last store otherwise *)
Fixpoint increasing (f : key -> N) (q : list key) : Prop :=
  match q with
  | [] => True
  | k :: q' => (forall k', In k' q' -> f k < f k') /\ increasing f q'
  end.

Definition InvO (c : cfg) (s : state) (g : ghost) : Prop :=
  increasing (gstamp (tracks_recency (pol c)) g) (st_queue s).

Definition Inv (c : cfg) (idx : N) (s : state) (g : ghost) : Prop :=
  InvA c s /\ InvG c idx s g /\ InvO c s g.
