(* PfFresh.v — the sharing clause of C14 under concurrency, for a cache WITH a lifetime:
   "a value stored by one thread is served to the others until it expires, is evicted or is
   invalidated".  In the concurrent model of the async engine (AsyncConc; after the repair D9 the
   sync engine's expiry purge has the same shape: the entry is looked at again under the write
   lock) the only actions a LOOKUP by any thread performs are a hit-counter bump, a recency
   update and the purge of an entry it saw expired.  None of them removes or changes the value,
   size or birth time of an entry that is not expired at the time the action runs — in
   particular a purge that was decided on an OLD entry and runs after another thread has
   refreshed the key leaves the refreshed entry alone (the defect D9 and the seeded changes
   C14-H / C18-G were exactly an unconditional purge). *)
From CL Require Import AsyncConc Lemmas PfAsyncConc.
From Coq Require Import Lia.
Open Scope N_scope.

Definition lookup_act (a : aact) : bool :=
  match a with A_bump _ | A_touch _ | A_expire _ => true | _ => false end.

Definition same_entry (e e' : entry) : Prop :=
  e_val e' = e_val e /\ e_size e' = e_size e /\ e_born e' = e_born e.

Lemma same_entry_refl : forall e, same_entry e e.
Proof. intro e. repeat split. Qed.

Lemma same_entry_trans : forall e1 e2 e3, same_entry e1 e2 -> same_entry e2 e3 -> same_entry e1 e3.
Proof.
  intros e1 e2 e3 [A1 [A2 A3]] [B1 [B2 B3]]. repeat split; congruence.
Qed.

Lemma expired_same_entry : forall c now e e', same_entry e e' -> expired c now e' = expired c now e.
Proof.
  intros c now e e' [_ [_ Hb]]. unfold expired, age_s. rewrite Hb. reflexivity.
Qed.

Theorem fresh_entry_survives_lookup_action : forall c now s a k e,
    lookup_act a = true ->
    lookup k (st_store s) = Some e -> expired c now e = false ->
    exists e', lookup k (st_store (astep c now s a)) = Some e' /\ same_entry e e'.
Proof.
  intros c now s a k e Ha Hk Hfresh.
  destruct a as [wm k0 v sz ch | k0 | k0 | k0 | | ks]; cbn [lookup_act] in Ha; try discriminate;
    cbn [astep].
  - (* bump *)
    cbn [st_store]. destruct (N.eq_dec k k0) as [E|E].
    + subst k0. rewrite lookup_supdate_eq, Hk. cbn [option_map].
      exists (bump e). split; [reflexivity|]. unfold same_entry, bump. cbn. repeat split.
    + rewrite lookup_supdate_neq by exact E. exists e. split; [exact Hk|apply same_entry_refl].
  - (* touch *)
    destruct (mem k0 (st_store s)); cbn [st_store]; exists e; (split; [exact Hk|apply same_entry_refl]).
  - (* purge *)
    destruct (N.eq_dec k k0) as [E|E].
    + subst k0. rewrite Hk, Hfresh. exists e. split; [exact Hk|apply same_entry_refl].
    + destruct (lookup k0 (st_store s)) as [e0|]; [|exists e; split; [exact Hk|apply same_entry_refl]].
      destruct (expired c now e0); cbn [st_store].
      * rewrite lookup_sremove_neq by exact E. exists e. split; [exact Hk|apply same_entry_refl].
      * exists e. split; [exact Hk|apply same_entry_refl].
Qed.

(* any number of lookups by any threads, each running at a time at which the entry is not expired *)
Fixpoint all_lookups_fresh (c : cfg) (e : entry) (l : list (N * aact)) : Prop :=
  match l with
  | [] => True
  | (now, a) :: l' => lookup_act a = true /\ expired c now e = false /\ all_lookups_fresh c e l'
  end.

Lemma all_lookups_fresh_same : forall c e e' l,
    same_entry e e' -> all_lookups_fresh c e l -> all_lookups_fresh c e' l.
Proof.
  intros c e e' l Hs. induction l as [|[now a] l IH]; cbn [all_lookups_fresh]; [tauto|].
  intros [Ha [Hf Hl]]. split; [exact Ha|]. split; [|apply IH; exact Hl].
  rewrite (expired_same_entry c now e e' Hs). exact Hf.
Qed.

Theorem fresh_entry_served_across_lookups : forall c l s k e,
    lookup k (st_store s) = Some e -> all_lookups_fresh c e l ->
    exists e', lookup k (st_store (arun c s l)) = Some e' /\ same_entry e e'.
Proof.
  intros c l. induction l as [|[now a] l IH]; intros s k e Hk Hall; cbn [arun].
  - exists e. split; [exact Hk|apply same_entry_refl].
  - cbn [all_lookups_fresh] in Hall. destruct Hall as [Ha [Hf Hl]].
    destruct (fresh_entry_survives_lookup_action c now s a k e Ha Hk Hf) as [e1 [Hk1 Hs1]].
    destruct (IH (astep c now s a) k e1 Hk1 (all_lookups_fresh_same c e e1 l Hs1 Hl)) as [e2 [Hk2 Hs2]].
    exists e2. split; [exact Hk2|]. eapply same_entry_trans; eassumption.
Qed.

(* the purge alone, at full strength: it removes nothing but an entry that IS expired when it runs *)
Theorem purge_removes_only_expired : forall c now s k0 k e,
    lookup k (st_store s) = Some e ->
    lookup k (st_store (astep c now s (A_expire k0))) = None ->
    k = k0 /\ expired c now e = true.
Proof.
  intros c now s k0 k e Hk Hnone. destruct (expired c now e) eqn:Hf.
  - split; [|reflexivity]. destruct (N.eq_dec k k0) as [E|E]; [exact E|]. exfalso.
    cbn [astep] in Hnone. destruct (lookup k0 (st_store s)) as [e0|]; [|congruence].
    destruct (expired c now e0); cbn [st_store] in Hnone; [|congruence].
    rewrite lookup_sremove_neq in Hnone by exact E. congruence.
  - exfalso. destruct (fresh_entry_survives_lookup_action c now s (A_expire k0) k e eq_refl Hk Hf)
      as [e' [Hk' _]]. congruence.
Qed.

Example fresh_premises_hold :
  let c := mkCfg Async FIFO (Some 3) (Some 5) None None in
  let s := astep c 1000 init (A_insert false 7 70 8 []) in
  exists e, lookup 7 (st_store s) = Some e /\
            all_lookups_fresh c e [(2000, A_expire 7); (3000, A_bump 7); (4000, A_touch 7)].
Proof. vm_compute. eexists. split; [reflexivity|]. repeat split. Qed.

Print Assumptions fresh_entry_survives_lookup_action.
Print Assumptions fresh_entry_served_across_lookups.
Print Assumptions purge_removes_only_expired.

(* ------------------------------------------------------------------ *)
(** * A hit is a use (the LRU clause of C07 under concurrency)

   The recency update of a hit, whenever it runs relative to the other threads' critical sections,
   moves the key to the back of the queue and leaves the relative order of all other keys alone;
   so the key that was looked up is not the front (the next FIFO/LRU victim) as long as any other
   key is queued.  (The seeded change C07-G made this update best-effort: skipped when another
   thread held the queue lock.) *)

Theorem touch_moves_to_back : forall c now s k,
    mem k (st_store s) = true ->
    st_queue (astep c now s (A_touch k)) = push_back k (remove_all k (st_queue s)).
Proof. intros c now s k Hm. cbn [astep]. rewrite Hm. reflexivity. Qed.

Lemma remove_all_app : forall k l1 l2, remove_all k (l1 ++ l2) = remove_all k l1 ++ remove_all k l2.
Proof. intros k l1 l2. rewrite !remove_all_filter. apply filter_app. Qed.

Lemma remove_all_idem : forall k l, remove_all k (remove_all k l) = remove_all k l.
Proof. intros k l. apply remove_all_notin. rewrite In_remove_all. tauto. Qed.

Theorem touch_keeps_the_order_of_the_others : forall c now s k,
    remove_all k (st_queue (astep c now s (A_touch k))) = remove_all k (st_queue s).
Proof.
  intros c now s k. cbn [astep]. destruct (mem k (st_store s)); [|reflexivity].
  cbn [st_queue]. unfold push_back. rewrite remove_all_app, remove_all_idem.
  cbn [remove_all]. rewrite N.eqb_refl. apply app_nil_r.
Qed.

Theorem touched_key_is_not_the_next_victim : forall c now s k k',
    mem k (st_store s) = true -> In k' (st_queue s) -> k' <> k ->
    hd_error (st_queue (astep c now s (A_touch k))) <> Some k.
Proof.
  intros c now s k k' Hm Hin Hne. rewrite touch_moves_to_back by exact Hm. unfold push_back.
  assert (Hin' : In k' (remove_all k (st_queue s))) by (apply In_remove_all; tauto).
  destruct (remove_all k (st_queue s)) as [|h t] eqn:E; [destruct Hin'|].
  cbn [app hd_error]. intro H. injection H as H. subst h.
  assert (Hk : In k (remove_all k (st_queue s))) by (rewrite E; left; reflexivity).
  apply In_remove_all in Hk. tauto.
Qed.

Print Assumptions touch_keeps_the_order_of_the_others.
Print Assumptions touched_key_is_not_the_next_victim.
