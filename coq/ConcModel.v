(* ConcModel.v — M8: one sync global cache (GlobalCache + the macro's callbacks) under
   concurrency, at the granularity of its critical sections, abstracted to what the
   structural properties need: the set of stored keys (with the value stored for each),
   the order queue, and the threads that are between the two critical sections of a store.

   Critical sections as delimited by the locks in the source (after the repairs D5/D6):
     store, section 1 (map.write alone):       map.insert(k, v)
     store, section 2 (order.lock held, nested map.write):
                                               queue: delete k's position, push k to the back;
                                               [memory loop: zero or more evictions;]
                                               if queue.len() > limit: one eviction
     lookup of an expired entry (order.lock + map.write): remove k from both
     hit under LRU/ARC/TLRU (order.lock):      move k to the back if it is in the queue
     clear callback / GlobalCache::clear (order.lock + map.write): empty both
     conditional invalidation (order.lock + map.write): remove the matching stored keys from both
   Hit counters and birth times are not structural and are left out.
   The async cache performs every structural update inside one order.lock section, so its
   concurrent behaviour is the sequential model's (SeqModel) — see DESIGN.md.
   No proofs in this file. *)
From CL Require Export Base.
Open Scope N_scope.

Inductive pclass := PFifo | PScored | PRand.   (* FIFO/LRU ; LFU/ARC/TLRU ; Random *)

Definition class_of (p : policy) : pclass :=
  match p with FIFO | LRU => PFifo | LFU | ARC | TLRU => PScored | Random => PRand end.

Definition vstore := list (key * N).            (* stored keys with their values *)

Record cstate := mkC {
  c_store   : vstore;
  c_queue   : list key;
  c_pending : list (nat * key)                  (* (thread, key): section 1 done, section 2 not yet *)
}.

Definition cinit : cstate := mkC [] [] [].

Fixpoint vlookup (k : key) (m : vstore) : option N :=
  match m with [] => None | (k', v) :: m' => if N.eqb k k' then Some v else vlookup k m' end.
Fixpoint vremove (k : key) (m : vstore) : vstore :=
  match m with [] => [] | (k', v) :: m' => if N.eqb k k' then vremove k m' else (k', v) :: vremove k m' end.
Definition vset (k : key) (v : N) (m : vstore) : vstore := (k, v) :: vremove k m.
Definition vkeys (m : vstore) : list key := map fst m.
Definition vmem (k : key) (m : vstore) : bool := match vlookup k m with Some _ => true | None => false end.

Fixpoint pop_until (m : vstore) (q : list key) : vstore * list key :=
  match q with
  | [] => (m, [])
  | k :: q' => if vmem k m then (vremove k m, q') else pop_until m q'
  end.

(* one eviction, as a relation: the victim is whatever the policy (and the random
   generator) picks; only what the class guarantees is recorded *)
Inductive evict (pc : pclass) : vstore -> list key -> vstore -> list key -> Prop :=
| ev_fifo : forall m q m' q', pc = PFifo -> pop_until m q = (m', q') -> evict pc m q m' q'
| ev_scored : forall m q v, pc = PScored -> In v q -> vmem v m = true ->
    evict pc m q (vremove v m) (remove_first v q)
| ev_scored_none : forall m q, pc = PScored -> (forall v, In v q -> vmem v m = false) ->
    evict pc m q m q
| ev_rand : forall m q i v, pc = PRand -> nth_key i q = Some v ->
    evict pc m q (vremove v m) (remove_nth i q)
| ev_rand_empty : forall m, pc = PRand -> evict pc m [] m [].

(* zero or more evictions (the memory loop) *)
Inductive evicts (pc : pclass) : vstore -> list key -> vstore -> list key -> Prop :=
| evs_nil : forall m q, evicts pc m q m q
| evs_cons : forall m q m1 q1 m2 q2, evict pc m q m1 q1 -> evicts pc m1 q1 m2 q2 -> evicts pc m q m2 q2.

Definition over (limit : option N) (q : list key) : bool :=
  match limit with Some L => L <? N.of_nat (length q) | None => false end.

Fixpoint remove_pending (t : nat) (k : key) (p : list (nat * key)) : list (nat * key) :=
  match p with
  | [] => []
  | (t', k') :: p' => if Nat.eqb t t' && N.eqb k k' then p' else (t', k') :: remove_pending t k p'
  end.

Fixpoint vremove_all (ks : list key) (m : vstore) : vstore :=
  match ks with [] => m | k :: ks' => vremove_all ks' (vremove k m) end.
Fixpoint qremove_all_first (ks : list key) (q : list key) : list key :=
  match ks with [] => q | k :: ks' => qremove_all_first ks' (remove_first k q) end.

(* [f] is the cached function: every store of key k stores f k *)
Inductive cstep (limit : option N) (pc : pclass) (f : key -> N) : cstate -> cstate -> Prop :=
| C_store1 : forall s t k,
    (forall k', ~ In (t, k') (c_pending s)) ->
    cstep limit pc f s (mkC (vset k (f k) (c_store s)) (c_queue s) ((t, k) :: c_pending s))
| C_store2 : forall s t k m1 q1 m2 q2,
    In (t, k) (c_pending s) ->
    evicts pc (c_store s) (push_back k (remove_first k (c_queue s))) m1 q1 ->
    (if over limit q1 then evict pc m1 q1 m2 q2 else (m2 = m1 /\ q2 = q1)) ->
    cstep limit pc f s (mkC m2 q2 (remove_pending t k (c_pending s)))
| C_oversize : forall s t k,      (* insert_with_memory of a value that alone exceeds max_memory *)
    In (t, k) (c_pending s) ->
    cstep limit pc f s (mkC (vremove k (c_store s)) (pop_back (push_back k (remove_first k (c_queue s))))
                            (remove_pending t k (c_pending s)))
| C_expire : forall s k,
    cstep limit pc f s (mkC (vremove k (c_store s)) (remove_first k (c_queue s)) (c_pending s))
| C_touch : forall s k,
    cstep limit pc f s (mkC (c_store s) (move_to_end k (c_queue s)) (c_pending s))
| C_clear : forall s,
    cstep limit pc f s (mkC [] [] (c_pending s))
| C_inval : forall s ks,
    (forall k, In k ks -> vmem k (c_store s) = true) -> NoDup ks ->
    cstep limit pc f s (mkC (vremove_all ks (c_store s)) (qremove_all_first ks (c_queue s)) (c_pending s)).

Inductive creach (limit : option N) (pc : pclass) (f : key -> N) : cstate -> Prop :=
| cr_init : creach limit pc f cinit
| cr_step : forall s s', creach limit pc f s -> cstep limit pc f s s' -> creach limit pc f s'.

Definition quiescent (s : cstate) : Prop := c_pending s = [].
