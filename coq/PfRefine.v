(* PfRefine.v — the abstract concurrent model (ConcModel.v) is faithful to the sequential
   model (SeqModel.v) of the SYNC engines (Global, ThreadLocal):

   * seq_step_is_conc_path      every step of the sequential sync model is a single-threaded
                                PATH of the abstract transition system: its critical sections
                                executed back to back by one thread (thread 0), with no store
                                pending before or after.
   * seq_run_is_conc_reachable  hence the abstraction of every state the sequential model
                                reaches from [init] is reachable (and quiescent) in ConcModel.

   The abstraction [abs] forgets what ConcModel leaves out: sizes, birth times, hit counters
   and the hit/miss statistics.

   How the operations map:
     Get k       absent: no step; expired: C_expire k; hit: C_touch k for LRU/ARC/TLRU, no
                 step otherwise (the hit counter is erased by [abs]).
     Ins/InsMem  C_store1 0 k, then C_oversize 0 k (value larger than max_memory) or
                 C_store2 0 k whose [evicts] are the evictions of the memory loop and whose
                 optional [evict] is the entry-limit eviction.
     InsErr      no step.        Clear   C_clear.
     InvalWith   ONE C_inval step with the list [inval_list ks m] of the keys actually removed.
   Stdlib only, no axioms. *)
From CL Require Import Lemmas PfInvA ConcModel PfConc.
From Coq Require Import Lia.
Open Scope N_scope.

Arguments N.eqb : simpl never.
Arguments N.ltb : simpl never.
Arguments N.leb : simpl never.
Arguments N.add : simpl never.

(* ------------------------------------------------------------------ *)
(** * Definitions (pinned) *)

Definition abs (s : state) : cstate :=
  mkC (map (fun p => (fst p, e_val (snd p))) (st_store s)) (st_queue s) [].

Inductive csteps (limit : option N) (pc : pclass) (f : key -> N) : cstate -> cstate -> Prop :=
| cs_refl : forall s, csteps limit pc f s s
| cs_step : forall s1 s2 s3, cstep limit pc f s1 s2 -> csteps limit pc f s2 s3 -> csteps limit pc f s1 s3.

(* the operation stores the function's value *)
Definition stores_f (f : key -> N) (o : op) : Prop :=
  match o with Ins k v _ | InsMem k v _ => v = f k | _ => True end.

(* ------------------------------------------------------------------ *)
(** * The abstraction of the store *)

Definition absm (m : store) : vstore := map (fun p => (fst p, e_val (snd p))) m.

Lemma abs_eq : forall s, abs s = mkC (absm (st_store s)) (st_queue s) [].
Proof. reflexivity. Qed.

Lemma abs_mk : forall m q h mi, abs (mkSt m q h mi) = mkC (absm m) q [].
Proof. reflexivity. Qed.

Lemma abs_init : abs init = cinit.
Proof. reflexivity. Qed.

Lemma abs_quiescent : forall s, quiescent (abs s).
Proof. intro s. reflexivity. Qed.

Lemma absm_cons : forall k e m, absm ((k, e) :: m) = (k, e_val e) :: absm m.
Proof. reflexivity. Qed.

Lemma vkeys_absm : forall m, vkeys (absm m) = keys m.
Proof.
  intro m. induction m as [|[k e] m IH]; [reflexivity|].
  rewrite absm_cons. cbn [vkeys keys map fst]. fold (vkeys (absm m)). fold (keys m).
  rewrite IH. reflexivity.
Qed.

Lemma vlookup_absm : forall k m, vlookup k (absm m) = option_map e_val (lookup k m).
Proof.
  intros k m. induction m as [|[k' e] m IH]; [reflexivity|].
  rewrite absm_cons. cbn [vlookup lookup]. destruct (N.eqb k k'); [reflexivity|exact IH].
Qed.

Lemma vmem_absm : forall k m, vmem k (absm m) = mem k m.
Proof.
  intros k m. unfold vmem, mem. rewrite vlookup_absm.
  destruct (lookup k m); reflexivity.
Qed.

Lemma absm_sremove : forall k m, absm (sremove k m) = vremove k (absm m).
Proof.
  intros k m. induction m as [|[k' e] m IH]; [reflexivity|].
  rewrite absm_cons. cbn [sremove vremove].
  destruct (N.eqb k k'); [exact IH|]. rewrite absm_cons, IH. reflexivity.
Qed.

Lemma absm_upsert : forall k e m, absm (upsert k e m) = vset k (e_val e) (absm m).
Proof. intros k e m. unfold upsert, vset. rewrite absm_cons, absm_sremove. reflexivity. Qed.

(* a hit changes only the hit counter, which the abstraction erases *)
Lemma absm_supdate_bump : forall k m, absm (supdate k bump m) = absm m.
Proof.
  intros k m. induction m as [|[k' e] m IH]; [reflexivity|].
  cbn [supdate]. destruct (N.eqb k k'); rewrite !absm_cons; [reflexivity|].
  rewrite IH. reflexivity.
Qed.

(* ------------------------------------------------------------------ *)
(** * Paths *)

Lemma csteps_one : forall limit pc f s s', cstep limit pc f s s' -> csteps limit pc f s s'.
Proof. intros limit pc f s s' H. apply (cs_step _ _ _ s s' s'); [exact H|apply cs_refl]. Qed.

Lemma csteps_trans : forall limit pc f s1 s2 s3,
    csteps limit pc f s1 s2 -> csteps limit pc f s2 s3 -> csteps limit pc f s1 s3.
Proof.
  intros limit pc f s1 s2 s3 H. induction H as [s|a b c0 Hab Hbc IH]; intro H2; [exact H2|].
  apply (cs_step _ _ _ a b s3); [exact Hab|apply IH; exact H2].
Qed.

Lemma csteps_to : forall limit pc f s s1 s2, csteps limit pc f s s1 -> s1 = s2 -> csteps limit pc f s s2.
Proof. intros limit pc f s s1 s2 H E. subst. exact H. Qed.

Lemma creach_csteps : forall limit pc f s s',
    creach limit pc f s -> csteps limit pc f s s' -> creach limit pc f s'.
Proof.
  intros limit pc f s s' Hr H. induction H as [s|a b c0 Hab Hbc IH]; [exact Hr|].
  apply IH. apply (cr_step _ _ _ a b); assumption.
Qed.

Lemma remove_pending_single : forall t k, remove_pending t k [(t, k)] = [].
Proof. intros t k. cbn [remove_pending]. rewrite Nat.eqb_refl, N.eqb_refl. reflexivity. Qed.

(* the two sections of a store executed back to back by thread 0 *)
Lemma store2_path : forall limit pc f mv q k m1 q1 m2 q2,
    evicts pc (vset k (f k) mv) (push_back k (remove_first k q)) m1 q1 ->
    (if over limit q1 then evict pc m1 q1 m2 q2 else (m2 = m1 /\ q2 = q1)) ->
    csteps limit pc f (mkC mv q []) (mkC m2 q2 []).
Proof.
  intros limit pc f mv q k m1 q1 m2 q2 He Ho.
  apply (cs_step _ _ _ _ (mkC (vset k (f k) mv) q [(0%nat, k)])).
  - apply (C_store1 limit pc f (mkC mv q []) 0%nat k). intros k' [].
  - apply csteps_one.
    apply (cstep_to _ _ _ _ _ _
             (C_store2 limit pc f (mkC (vset k (f k) mv) q [(0%nat, k)]) 0%nat k m1 q1 m2 q2
                       (or_introl eq_refl) He Ho)).
    cbn [c_pending]. rewrite remove_pending_single. reflexivity.
Qed.

Lemma oversize_path : forall limit pc f mv q k,
    csteps limit pc f (mkC mv q [])
           (mkC (vremove k (vset k (f k) mv)) (pop_back (push_back k (remove_first k q))) []).
Proof.
  intros limit pc f mv q k.
  apply (cs_step _ _ _ _ (mkC (vset k (f k) mv) q [(0%nat, k)])).
  - apply (C_store1 limit pc f (mkC mv q []) 0%nat k). intros k' [].
  - apply csteps_one.
    apply (cstep_to _ _ _ _ _ _
             (C_oversize limit pc f (mkC (vset k (f k) mv) q [(0%nat, k)]) 0%nat k (or_introl eq_refl))).
    cbn [c_store c_queue c_pending]. rewrite remove_pending_single. reflexivity.
Qed.

(* ------------------------------------------------------------------ *)
(** * Evictions *)

Lemma pop_until_absm : forall m q m' q' b,
    pop_until_stored m q = (m', q', b) -> pop_until (absm m) q = (absm m', q').
Proof.
  intros m q. induction q as [|a q IH]; intros m' q' b H;
    cbn [pop_until_stored] in H; cbn [pop_until].
  - inversion H; subst. reflexivity.
  - rewrite vmem_absm. destruct (mem a m).
    + inversion H; subst. rewrite absm_sremove. reflexivity.
    + apply (IH _ _ _ H).
Qed.

(* every outcome of the sequential evict_one (sync engines, consistent store and queue) is
   an eviction of the abstract model; a failed one (empty queue) included *)
Lemma evict_one_evict : forall c now u m q ch m' q' ev ch',
    is_async c = false -> Struct m q ->
    evict_one c now u m q ch = (m', q', ev, ch') ->
    evict (class_of (pol c)) (absm m) q (absm m') q'.
Proof.
  intros c now u m q ch m' q' ev ch' Ha HS H.
  pose proof HS as (Hnd & Hndm & Hiff).
  destruct ev.
  - unfold evict_one in H. rewrite Ha in H.
    assert (Hpop :
      (let '(m0, q0, ev0) := if u then pop_one_unchecked m q else pop_until_stored m q in
       (m0, q0, ev0, ch)) = (m', q', true, ch') -> evict PFifo (absm m) q (absm m') q').
    { intro Hs.
      destruct (if u then pop_one_unchecked m q else pop_until_stored m q) as [[m0 q0] ev0] eqn:Ep.
      inversion Hs; subst. apply ev_fifo; [reflexivity|].
      apply (pop_until_absm _ _ _ _ true).
      destruct u; [|exact Ep]. rewrite pop_until_stored_head; [exact Ep|].
      intros x Hx. apply Hiff. exact Hx. }
    assert (Hscore :
      (let '(ov, ch0) := find_victim_ch c now m q ch in
       match ov with
       | Some v => (sremove v m, remove_first v q, true, ch0)
       | None => (m, q, false, ch0)
       end) = (m', q', true, ch') -> evict PScored (absm m) q (absm m') q').
    { intro Hs. destruct (find_victim_ch c now m q ch) as [[v|] ch0] eqn:Ev; [|discriminate Hs].
      inversion Hs; subst. apply find_victim_ch_In in Ev. destruct Ev as [Hvq Hvm].
      rewrite absm_sremove. apply ev_scored; [reflexivity|exact Hvq|].
      rewrite vmem_absm. apply mem_In. exact Hvm. }
    destruct (pol c); cbn [class_of];
      try (apply Hpop; exact H); try (apply Hscore; exact H).
    (* Random *)
    destruct q as [|a q0]; [discriminate H|].
    destruct (random_pos ch (a :: q0)) as [i ch0] eqn:Er.
    destruct (nth_key i (a :: q0)) as [v|] eqn:En; [|discriminate H].
    inversion H; subst. rewrite absm_sremove.
    apply (ev_rand _ _ _ i v); [reflexivity|exact En].
  - destruct (evict_one_false _ _ _ _ _ _ _ _ _ Hnd Hiff H) as (Hq & Hm & Hq'). subst.
    destruct (class_of (pol c)).
    + apply ev_fifo; reflexivity.
    + apply ev_scored_none; [reflexivity|intros v []].
    + apply ev_rand_empty. reflexivity.
Qed.

(* the memory loop is a sequence of evictions; it ends when the store fits or the queue is empty *)
Lemma mem_loop_evicts : forall fuel c now u extra M m q ch m' q' ch',
    is_async c = false -> Struct m q ->
    mem_loop fuel c now u extra M m q ch = (m', q', ch') ->
    evicts (class_of (pol c)) (absm m) q (absm m') q'.
Proof.
  induction fuel as [|fuel IH]; intros c now u extra M m q ch m' q' ch' Ha HS H; cbn [mem_loop] in H.
  - inversion H; subst. apply evs_nil.
  - destruct (total_size m + extra <=? M).
    + inversion H; subst. apply evs_nil.
    + destruct (evict_one c now u m q ch) as [[[m1 q1] ev] ch1] eqn:E.
      pose proof HS as (Hnd & _ & Hiff).
      destruct ev.
      * destruct (evict_one_true _ _ _ _ _ _ _ _ _ Hnd Hiff E) as (v & Hv & Hm & Hq).
        apply (evs_cons _ _ _ (absm m1) q1).
        -- apply (evict_one_evict _ _ _ _ _ _ _ _ _ _ Ha HS E).
        -- apply (IH c now u extra M m1 q1 ch1 m' q' ch' Ha); [|exact H].
           subst m1 q1. apply Struct_remove_first. exact HS.
      * destruct (evict_one_false _ _ _ _ _ _ _ _ _ Hnd Hiff E) as (Hq & Hm & Hq1).
        inversion H; subst. apply evs_nil.
Qed.

Lemma over_sync : forall c L m q, is_async c = false -> over_limit c L m q = over (Some L) q.
Proof. intros c L m q Ha. unfold over_limit, over. rewrite Ha. reflexivity. Qed.

(* the entry-limit step is exactly the last clause of C_store2 *)
Lemma entry_limit_conc : forall c now m q ch m' q' ch',
    is_async c = false -> Struct m q ->
    entry_limit c now m q ch = (m', q', ch') ->
    if over (limit c) q then evict (class_of (pol c)) (absm m) q (absm m') q'
    else (absm m' = absm m /\ q' = q).
Proof.
  intros c now m q ch m' q' ch' Ha HS H. unfold entry_limit in H.
  destruct (limit c) as [L|].
  - rewrite (over_sync c L m q Ha) in H. destruct (over (Some L) q).
    + destruct (evict_one c now false m q ch) as [[[m1 q1] ev] ch1] eqn:E.
      inversion H; subst. apply (evict_one_evict _ _ _ _ _ _ _ _ _ _ Ha HS E).
    + inversion H; subst. split; reflexivity.
  - cbn [over]. inversion H; subst. split; reflexivity.
Qed.

(* ------------------------------------------------------------------ *)
(** * One lemma per operation *)

Lemma insert_sync_path : forall c now wm k v sz m q ch m' q' f,
    is_async c = false -> Struct m q -> v = f k ->
    insert_sync c now wm k v sz m q ch = (m', q') ->
    csteps (limit c) (class_of (pol c)) f (mkC (absm m) q []) (mkC (absm m') q' []).
Proof.
  intros c now wm k v sz m q ch m' q' f Ha HS Hv H.
  pose proof (Struct_upsert_push k (new_entry c now v sz) m q HS) as HS1.
  assert (Em1 : absm (upsert k (new_entry c now v sz) m) = vset k (f k) (absm m)).
  { rewrite absm_upsert. unfold new_entry. cbn [e_val]. rewrite Hv. reflexivity. }
  destruct (insert_sync_cases _ _ _ _ _ _ _ _ _ _ _ H)
    as [(M & _ & _ & Hm & Hq)|[(M & m2 & q2 & ch2 & ch3 & _ & _ & Hml & Hel)|(_ & ch3 & Hel)]].
  - subst m' q'. rewrite absm_sremove, Em1. apply oversize_path.
  - pose proof (mem_loop_Shrunk _ _ _ _ _ _ _ _ _ _ _ _ HS1 Hml) as Hsh.
    pose proof (mem_loop_evicts _ _ _ _ _ _ _ _ _ _ _ _ Ha HS1 Hml) as Hev. rewrite Em1 in Hev.
    pose proof (entry_limit_conc _ _ _ _ _ _ _ _ Ha (Shrunk_Struct _ _ _ _ Hsh) Hel) as Hlim.
    apply (store2_path _ _ _ _ _ k (absm m2) q2 (absm m') q' Hev Hlim).
  - pose proof (entry_limit_conc _ _ _ _ _ _ _ _ Ha HS1 Hel) as Hlim. rewrite Em1 in Hlim.
    apply (store2_path _ _ _ _ _ k _ _ (absm m') q' (evs_nil _ _ _) Hlim).
Qed.

Lemma insert_path : forall c now wm k v sz s ch f,
    is_async c = false -> Struct (st_store s) (st_queue s) -> v = f k ->
    csteps (limit c) (class_of (pol c)) f (abs s) (abs (insert c now wm k v sz s ch)).
Proof.
  intros c now wm k v sz s ch f Ha HS Hv. rewrite insert_eq, Ha.
  destruct (insert_sync c now wm k v sz (st_store s) (st_queue s) ch) as [m' q'] eqn:E.
  cbn [fst snd]. rewrite abs_mk, abs_eq.
  apply (insert_sync_path _ _ _ _ _ _ _ _ _ _ _ f Ha HS Hv E).
Qed.

Lemma get_path : forall c now k s f,
    is_async c = false ->
    csteps (limit c) (class_of (pol c)) f (abs s) (abs (fst (get c now k s))).
Proof.
  intros c now k s f Ha. unfold get. rewrite Ha.
  destruct (lookup k (st_store s)) as [e|]; cbn [fst].
  - destruct (expired c now e); cbn [fst]; rewrite abs_mk, abs_eq.
    + apply csteps_one.
      apply (cstep_to _ _ _ _ _ _ (C_expire _ _ _ (mkC (absm (st_store s)) (st_queue s) []) k)).
      cbn [c_store c_queue c_pending]. rewrite absm_sremove. reflexivity.
    + assert (Em : absm (if counts_hits (pol c) then supdate k bump (st_store s) else st_store s)
                   = absm (st_store s)).
      { destruct (counts_hits (pol c)); [apply absm_supdate_bump|reflexivity]. }
      rewrite Em. destruct (tracks_recency (pol c)).
      * apply csteps_one.
        apply (C_touch _ _ _ (mkC (absm (st_store s)) (st_queue s) []) k).
      * apply cs_refl.
  - rewrite abs_mk, abs_eq. apply cs_refl.
Qed.

(* conditional invalidation: the keys that are actually removed, in order *)
Fixpoint inval_list (ks : list key) (m : store) : list key :=
  match ks with
  | [] => []
  | k :: ks' => if mem k m then k :: inval_list ks' (sremove k m) else inval_list ks' m
  end.

Lemma inval_list_In : forall ks m x, In x (inval_list ks m) -> In x (keys m).
Proof.
  induction ks as [|k ks IH]; intros m x H; cbn [inval_list] in H; [destruct H|].
  destruct (mem k m) eqn:Ek.
  - destruct H as [H|H].
    + subst x. apply mem_In. exact Ek.
    + apply IH in H. apply In_keys_sremove in H. apply H.
  - apply (IH _ _ H).
Qed.

Lemma inval_list_NoDup : forall ks m, NoDup (inval_list ks m).
Proof.
  induction ks as [|k ks IH]; intro m; cbn [inval_list]; [constructor|].
  destruct (mem k m); [|apply IH]. constructor; [|apply IH].
  intro H. apply inval_list_In in H. apply In_keys_sremove in H. destruct H as [_ H]. apply H. reflexivity.
Qed.

Lemma inval_keys_abs : forall ks m q m' q',
    inval_keys ks m q = (m', q') ->
    absm m' = vremove_all (inval_list ks m) (absm m) /\ q' = qremove_all_first (inval_list ks m) q.
Proof.
  induction ks as [|k ks IH]; intros m q m' q' H; cbn [inval_keys] in H; cbn [inval_list].
  - inversion H; subst. split; reflexivity.
  - destruct (mem k m).
    + cbn [vremove_all qremove_all_first]. rewrite <- absm_sremove. apply (IH _ _ _ _ H).
    + apply (IH _ _ _ _ H).
Qed.

Lemma inval_path : forall limit pc f ks m q m' q',
    inval_keys ks m q = (m', q') ->
    csteps limit pc f (mkC (absm m) q []) (mkC (absm m') q' []).
Proof.
  intros limit pc f ks m q m' q' H.
  destruct (inval_keys_abs _ _ _ _ _ H) as [Em Eq]. rewrite Em, Eq.
  apply csteps_one.
  apply (C_inval limit pc f (mkC (absm m) q []) (inval_list ks m)).
  - intros k Hk. cbn [c_store]. rewrite vmem_absm. apply mem_In. apply (inval_list_In ks). exact Hk.
  - apply inval_list_NoDup.
Qed.

(* ------------------------------------------------------------------ *)
(** * The theorems *)

Theorem seq_step_is_conc_path :
  forall c now s o ch f,
    is_async c = false -> wf_cfg c = true -> InvA c s -> stores_f f o ->
    csteps (limit c) (class_of (pol c)) f (abs s) (abs (fst (step c now s o ch))).
Proof.
  intros c now s o ch f Ha Hwf HI Hf.
  pose proof (InvA_Struct c s HI) as HS.
  destruct o as [k|k v sz|k v sz|k| |ks]; cbn [step stores_f] in *.
  - destruct (get c now k s) as [s' r] eqn:E. cbn [fst].
    replace s' with (fst (get c now k s)) by (rewrite E; reflexivity).
    apply get_path. exact Ha.
  - cbn [fst]. apply insert_path; assumption.
  - cbn [fst]. apply insert_path; assumption.
  - cbn [fst]. apply cs_refl.
  - cbn [fst]. rewrite abs_mk, abs_eq. apply csteps_one.
    apply (C_clear _ _ _ (mkC (absm (st_store s)) (st_queue s) [])).
  - destruct (inval_keys ks (st_store s) (st_queue s)) as [m' q'] eqn:E.
    cbn [fst]. rewrite abs_mk, abs_eq. apply (inval_path _ _ _ ks _ _ _ _ E).
Qed.

Lemma seq_run_from : forall c h f now s,
    is_async c = false -> wf_cfg c = true ->
    Forall (fun e => stores_f f (ev_op e)) h ->
    InvA c s -> creach (limit c) (class_of (pol c)) f (abs s) ->
    InvA c (fst (run c now s h)) /\
    creach (limit c) (class_of (pol c)) f (abs (fst (run c now s h))).
Proof.
  intros c h f. induction h as [|e h IH]; intros now s Ha Hwf Hall HI Hr; cbn [run].
  - cbn [fst]. split; assumption.
  - inversion Hall as [|e' h' He Hh]; subst.
    apply IH; try assumption.
    + apply invA_step; assumption.
    + apply (creach_csteps _ _ _ (abs s)); [exact Hr|].
      apply seq_step_is_conc_path; assumption.
Qed.

Theorem seq_run_is_conc_reachable :
  forall c h f,
    is_async c = false -> wf_cfg c = true ->
    Forall (fun e => stores_f f (ev_op e)) h ->
    creach (limit c) (class_of (pol c)) f (abs (fst (run c 0 init h))) /\ quiescent (abs (fst (run c 0 init h))).
Proof.
  intros c h f Ha Hwf Hall. split; [|apply abs_quiescent].
  apply (seq_run_from c h f 0 init Ha Hwf Hall (invA_init c)).
  rewrite abs_init. apply cr_init.
Qed.

Print Assumptions seq_step_is_conc_path.
Print Assumptions seq_run_is_conc_reachable.
