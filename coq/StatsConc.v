(* StatsConc.v — the statistics counters under concurrency (C15, second half).
   A CacheStats value is a set of atomic counters; the representation may be one pair of
   counters or several stripes (one pair per stripe, a thread increments the stripe it was
   assigned, a reader sums the stripes).  Every lookup performs exactly ONE atomic increment:
   a hit if it found an unexpired entry, a miss otherwise.  Atomic increments by any number of
   threads are a sequence of increments in some order; whatever the order and whatever stripe
   each one lands on, the sums read afterwards are exactly the numbers of hit and miss lookups. *)
From Coq Require Import List Arith NArith Lia.
Import ListNotations.
Open Scope N_scope.

Record stripe := mkS { s_hits : N; s_misses : N }.
Definition counters := list stripe.

(* one atomic increment: (stripe index, hit?) — an index beyond the array lands on the last
   stripe it wraps to: [i mod length] as the code does *)
Definition incr_stripe (hit : bool) (s : stripe) : stripe :=
  if hit then mkS (s_hits s + 1) (s_misses s) else mkS (s_hits s) (s_misses s + 1).

Fixpoint incr_at (i : nat) (hit : bool) (c : counters) : counters :=
  match c, i with
  | [], _ => []
  | s :: c', O => incr_stripe hit s :: c'
  | s :: c', S i' => s :: incr_at i' hit c'
  end.

Definition record (c : counters) (op : nat * bool) : counters :=
  incr_at (Nat.modulo (fst op) (length c)) (snd op) c.

Definition hits (c : counters) : N := fold_right (fun s acc => s_hits s + acc) 0 c.
Definition misses (c : counters) : N := fold_right (fun s acc => s_misses s + acc) 0 c.

Definition fresh (n : nat) : counters := repeat (mkS 0 0) n.

Definition count_hits (ops : list (nat * bool)) : N :=
  N.of_nat (length (filter (fun op => snd op) ops)).
Definition count_misses (ops : list (nat * bool)) : N :=
  N.of_nat (length (filter (fun op => negb (snd op)) ops)).

Lemma incr_at_length : forall i hit c, length (incr_at i hit c) = length c.
Proof.
  intros i hit c. revert i. induction c as [|s c IH]; intros [|i]; cbn [incr_at length]; auto.
Qed.

Lemma incr_at_hits : forall i hit c, (i < length c)%nat ->
  hits (incr_at i hit c) = hits c + (if hit then 1 else 0) /\
  misses (incr_at i hit c) = misses c + (if hit then 0 else 1).
Proof.
  intros i hit c. revert i. induction c as [|s c IH]; intros i Hi; cbn [length] in Hi; [lia|].
  destruct i as [|i]; cbn [incr_at hits misses fold_right].
  - unfold incr_stripe. destruct hit; cbn [s_hits s_misses]; split; lia.
  - assert (Hi' : (i < length c)%nat) by lia.
    destruct (IH i Hi') as [H1 H2]. fold (hits (incr_at i hit c)). fold (misses (incr_at i hit c)).
    fold (hits c). fold (misses c). rewrite H1, H2. destruct hit; split; lia.
Qed.

Lemma record_spec : forall c op, (0 < length c)%nat ->
  length (record c op) = length c /\
  hits (record c op) = hits c + (if snd op then 1 else 0) /\
  misses (record c op) = misses c + (if snd op then 0 else 1).
Proof.
  intros c op Hc. unfold record. split; [apply incr_at_length|].
  apply incr_at_hits. apply Nat.mod_upper_bound. lia.
Qed.

Theorem counters_exact : forall ops c, (0 < length c)%nat ->
  hits (fold_left record ops c) = hits c + count_hits ops /\
  misses (fold_left record ops c) = misses c + count_misses ops.
Proof.
  induction ops as [|op ops IH]; intros c Hc; cbn [fold_left].
  - unfold count_hits, count_misses. cbn. split; lia.
  - destruct (record_spec c op Hc) as [Hl [Hh Hm]].
    assert (Hc' : (0 < length (record c op))%nat) by lia.
    destruct (IH (record c op) Hc') as [H1 H2]. rewrite H1, H2, Hh, Hm.
    unfold count_hits, count_misses. cbn [filter]. destruct op as [i b]. cbn [snd].
    destruct b; cbn [negb length]; split; lia.
Qed.

(* hits + misses = lookups, hits = lookups that found an unexpired entry, from fresh counters,
   for any number of stripes >= 1 and any interleaving / stripe assignment *)
Theorem stats_exact_under_concurrency : forall n ops, (0 < n)%nat ->
  hits (fold_left record ops (fresh n)) = count_hits ops /\
  misses (fold_left record ops (fresh n)) = count_misses ops /\
  hits (fold_left record ops (fresh n)) + misses (fold_left record ops (fresh n)) = N.of_nat (length ops).
Proof.
  intros n ops Hn.
  assert (Hl : (0 < length (fresh n))%nat) by (unfold fresh; rewrite repeat_length; exact Hn).
  destruct (counters_exact ops (fresh n) Hl) as [H1 H2].
  assert (H0 : hits (fresh n) = 0 /\ misses (fresh n) = 0).
  { unfold fresh. clear. induction n as [|n IH]; cbn; [split; reflexivity|].
    destruct IH as [A B]. unfold hits, misses in *. cbn. rewrite A, B. split; reflexivity. }
  destruct H0 as [A B]. rewrite H1, H2, A, B. repeat split; try lia.
  unfold count_hits, count_misses. clear.
  induction ops as [|[i b] ops IH]; cbn [filter length snd]; [reflexivity|].
  destruct b; cbn [negb length]; lia.
Qed.

Print Assumptions stats_exact_under_concurrency.
