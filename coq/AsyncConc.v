(* AsyncConc.v — M9: AsyncGlobalCache under concurrency.

   The async engine performs every STRUCTURAL update inside one critical section of the
   order-queue mutex; the only update outside it is the hit counter, incremented under the
   DashMap entry guard.  Its concurrent executions are therefore the interleavings of the
   atomic actions below, issued by any number of tasks in any order — each action reads the
   state that the previous one left, whoever ran it.  The state is the sequential model's
   (SeqModel.state: store with value/size/birth/hits, order queue).

     A_insert   insert / insert_with_memory: the whole store (drop the existing entry,
                memory loop, entry-limit eviction, insert, push) — order.lock held throughout
     A_bump     hit under LFU/ARC/TLRU: counter + 1 while the entry guard is held
                (get_mut); nothing if the key is gone
     A_touch    hit under LRU/ARC/TLRU: lock the queue, re-check contains_key, move to the back
     A_expire   lookup of an expired entry: lock the queue, remove_if the entry is (still)
                expired, and only then drop the key from the queue
     A_clear    clear callback: lock the queue, clear the map, clear the queue
     A_inval    conditional invalidation, second phase: lock the queue, for each key collected
                earlier (lock-free, so possibly stale): remove it from the map and delete its
                first queue position
   Statistics are atomic counters and do not interact with the structure; they are left
   unchanged here.   No proofs in this file. *)
From CL Require Export Base SeqModel.
Open Scope N_scope.

Inductive aact :=
| A_insert (withmem : bool) (k : key) (v sz : N) (ch : list key)
| A_bump (k : key)
| A_touch (k : key)
| A_expire (k : key)
| A_clear
| A_inval (ks : list key).

Fixpoint ainval_keys (ks : list key) (m : store) (q : list key) : store * list key :=
  match ks with
  | [] => (m, q)
  | k :: ks' => ainval_keys ks' (sremove k m) (remove_first k q)
  end.

Definition astep (c : cfg) (now : N) (s : state) (a : aact) : state :=
  let m := st_store s in
  let q := st_queue s in
  match a with
  | A_insert wm k v sz ch => insert c now wm k v sz s ch
  | A_bump k => mkSt (supdate k bump m) q (st_hits s) (st_misses s)
  | A_touch k =>
      if mem k m then mkSt m (push_back k (remove_all k q)) (st_hits s) (st_misses s) else s
  | A_expire k =>
      match lookup k m with
      | Some e => if expired c now e
                  then mkSt (sremove k m) (remove_all k q) (st_hits s) (st_misses s) else s
      | None => s
      end
  | A_clear => mkSt [] [] (st_hits s) (st_misses s)
  | A_inval ks => let '(m', q') := ainval_keys ks m q in mkSt m' q' (st_hits s) (st_misses s)
  end.

(* an execution: timed actions in the order in which their critical sections ran *)
Fixpoint arun (c : cfg) (s : state) (l : list (N * aact)) : state :=
  match l with
  | [] => s
  | (now, a) :: l' => arun c (astep c now s a) l'
  end.

(* every store stores the cached function's value / goes through insert_with_memory *)
Definition astores_f (f : key -> N) (a : aact) : Prop :=
  match a with A_insert _ k v _ _ => v = f k | _ => True end.
Definition amem_only (a : aact) : Prop :=
  match a with A_insert wm _ _ _ _ => wm = true | _ => True end.
